"""C06 - splits, admixture, pulses, removal and reordering of populations in phi
(spec/PhiOps.tla, spec/PhiOpsMC.tla, spec/Trace_PhiOps.tla).

The driver enumerates the constructors and the 2 + 3 + 4 + 5 pulse functions of
dadi.PhiManip by name, reads from each signature which arguments are
proportions and which population is the destination, calls them on seeded
random densities / grids / proportion vectors and records exact inputs and the
raw returned array (or the exception class).  TLC judges every record."""
import inspect, itertools, random, re
from fractions import Fraction
import numpy as np
from . import common
from .common import rat, rats

PROP = 'C06'
PER_AXIS = '[per-axis grids]'


# ---------------------------------------------------------------- encoding
def enc_phi(a):
    a = np.asarray(a, dtype=float)
    return {'sh': [int(x) for x in a.shape], 'd': rats(a.ravel())}


def dec_phi(e):
    return np.array([float(Fraction(x)) for x in e['d']], dtype=float).reshape(tuple(e['sh']))


def dec_grid(g):
    return np.array([float(Fraction(x)) for x in g], dtype=float)


def dec_grids(gs):
    """Decode per-axis grids; identical grids share one array object (the way dadi models call these functions)."""
    seen = {}
    out = []
    for g in gs:
        k = tuple(g)
        if k not in seen:
            seen[k] = dec_grid(g)
        out.append(seen[k])
    return out


def fn_name(site):
    return site.split('[')[0].split('.', 1)[1]


def lay_phi(a, layout):
    """The same logical array in another memory layout (the recorded input is the logical array)."""
    if layout == 'F':
        return np.asfortranarray(a)
    if layout == 'sliced':            # every second element of a larger array along every axis
        big = np.full([2 * n for n in a.shape], 7.25)
        sl = tuple(slice(None, None, 2) for _ in a.shape)
        big[sl] = a
        return big[sl]
    return a


def lay_grid(g, layout):
    if layout in ('F', 'sliced'):     # a strided view
        big = np.full(2 * len(g), 0.5)
        big[::2] = g
        return big[::2]
    return g


def conv_fs(inp):
    """(proportion arguments, the caller's proportions vector or None).  Argument types: Python floats (default),
    Python ints, numpy scalars, or - 'arr0' / 'arr0int' - zero-dimensional float / integer ndarrays that are views
    of ONE proportions vector owned by the caller (an in-place operation on an argument would rewrite that vector)."""
    fs = [float(Fraction(f)) for f in inp['fs']]
    t = inp.get('ftype')
    if t in ('int', 'arr0int'):
        assert all(f == int(f) for f in fs)
    if t == 'int':
        return [int(f) for f in fs], None
    if t == 'np':
        return [np.float64(f) for f in fs], None
    if t in ('arr0', 'arr0int'):
        vec = np.array(fs, dtype=float) if t == 'arr0' else np.array([int(f) for f in fs], dtype=np.int64)
        return [vec[k:k + 1].reshape(()) for k in range(len(fs))], vec
    return fs, None


def conv_seq(q, t):
    """A list of population numbers in the container type named by t (default: list)."""
    if t == 'tuple':
        return tuple(q)
    if t == 'array':
        return np.array(q)
    if t in ('int64', 'int32', 'intp', 'uint8'):
        return np.array(q, dtype=t)
    return list(q)


def conv_int(a, t):
    """A population number as Python int (default), numpy integer scalar or zero-dimensional integer ndarray."""
    return np.int64(a) if t == 'np' else np.array(a, dtype=np.int64) if t == 'arr0' else a


def typed_phi(inp):
    """The recorded density (exact values) as an array of the element type in.ptype (default float64) and memory layout
    in.layout.  The conversion must be exact: the record states the values the function receives."""
    a = dec_phi(inp['phi'])
    t = inp.get('ptype')
    if t:
        b = a.astype(t)
        if not np.array_equal(b.astype(np.longdouble), a.astype(np.longdouble)):
            raise common.MachineryError('density values are not representable as %s' % t)
        a = b
    return lay_phi(a, inp.get('layout'))


def typed_grid(g, inp):
    if inp.get('gtype') == 'int':     # the two-point grid [0, 1] as an integer ndarray
        assert all(x == int(x) for x in g)
        return g.astype(np.int64)
    return g


def snapshot(watched):
    """Bit-exact encoding of argument objects: container kind, element type, shape and every element as a string
    (floats in C99 hexadecimal notation, which also tells -0.0 from 0.0).  Always the same record structure, so that
    two snapshots can be compared for equality by TLC whatever happened to the objects."""
    def item(v):
        if isinstance(v, (bool, np.bool_)):
            return str(bool(v))
        if isinstance(v, (int, np.integer)):
            return str(int(v))
        if isinstance(v, (float, np.floating)):
            return float(v).hex()
        return repr(v)
    out = []
    for name, o in watched:
        if isinstance(o, np.ndarray):
            out.append({'name': name, 'kind': 'ndarray', 'dtype': str(o.dtype), 'sh': [int(n) for n in o.shape],
                        'v': [item(x) for x in o.ravel().tolist()]})
        elif isinstance(o, (list, tuple)):
            out.append({'name': name, 'kind': type(o).__name__, 'dtype': ','.join(sorted(set(type(x).__name__ for x in o))),
                        'sh': [len(o)], 'v': [item(x) for x in o]})
        else:
            out.append({'name': name, 'kind': 'scalar', 'dtype': type(o).__name__, 'sh': [], 'v': [item(o)]})
    return out


def build_call(op, site, inp):
    """(function, positional arguments, keyword arguments, watched (name, object) pairs, index of a phi argument that
    the function is DOCUMENTED to alter in place or None) for the call described by the record's 'in' part."""
    from dadi import PhiManip, Numerics
    name = fn_name(site)
    layout = inp.get('layout')
    kw = {'deme_ids': list(inp['deme_ids'])} if 'deme_ids' in inp else {}
    phi = typed_phi(inp)
    inplace = None
    if op in ('split1d', 'split'):
        g = lay_grid(typed_grid(dec_grid(inp['g']), inp), layout)
        fn = PhiManip.phi_1D_to_2D if op == 'split1d' else getattr(PhiManip, name)
        args, watched = [g, phi], [('xx', g), ('phi', phi)]
    elif op in ('admix_new', 'pulse'):
        gs = [lay_grid(typed_grid(g, inp), layout) for g in dec_grids(inp['gs'] + ([inp['gnew']] if op == 'admix_new' else []))]
        fs, vec = conv_fs(inp)
        fn = getattr(PhiManip, name)
        args = [phi] + fs + gs
        watched = ([('proportions', vec)] if vec is not None else [('f[%d]' % (k + 1), f) for k, f in enumerate(fs)]) \
            + [('grid[%d]' % (k + 1), g) for k, g in enumerate(gs)]
        if op == 'pulse' and 'in place' in (fn.__doc__ or ''):
            inplace = 0           # "Alters phi in place and returns the new version": phi is not watched
        else:
            watched = [('phi', phi)] + watched
    elif op == 'remove':
        g = lay_grid(dec_grid(inp['g']), layout)
        if site.startswith('Numerics.'):
            call = inp.get('call')
            fn = Numerics.trapz
            if call == 'neg_axis':
                args, kw = [phi, g], {'axis': inp['a'] - 1 - phi.ndim}
            elif call == 'default_axis':
                assert inp['a'] == phi.ndim
                args = [phi, g]
            elif call == 'dx':
                args, kw = [phi], {'dx': np.diff(g), 'axis': inp['a'] - 1}
            else:
                args, kw = [phi, g], {'axis': inp['a'] - 1}
            watched = [('yy', phi), ('xx', g)] + [(k, v) for k, v in kw.items() if k == 'dx']
        else:
            a = conv_int(inp['a'], inp.get('atype'))
            fn, args, watched = PhiManip.remove_pop, [phi, g, a], [('phi', phi), ('xx', g), ('popnum', a)]
    elif op == 'filter':
        g = lay_grid(dec_grid(inp['g']), layout)
        keep = conv_seq(inp['keep'], inp.get('seqtype'))
        fn, args, watched = PhiManip.filter_pops, [phi, g, keep], [('phi', phi), ('xx', g), ('tokeep', keep)]
    elif op == 'reorder':
        perm = conv_seq(inp['perm'], inp.get('seqtype'))
        fn, args, watched = PhiManip.reorder_pops, [phi, perm], [('phi', phi), ('neworder', perm)]
    else:
        raise common.MachineryError('unknown op %r' % op)
    return fn, args, kw, watched, inplace


def execute(op, site, inp):
    """Call the real dadi function named by `site` on the decoded inputs; return the 'out' part of a record.

    in.nth = k (default 1): the function is called k times in a row with the SAME argument objects (a phi that the
    function is documented to alter in place is handed over as a fresh copy of the recorded density every time);
    the record carries the result of the k-th call.  in.watch: the record also carries bit-exact encodings of the
    argument objects as the caller wrote them and as they are after the k-th call."""
    nth = inp.get('nth', 1)
    try:
        fn, args, kw, watched, inplace = build_call(op, site, inp)
        before = snapshot(watched) if inp.get('watch') else None
    except common.MachineryError:
        raise
    except Exception as e:          # recorded; the specification decides whether raising was right
        return {'raised': type(e).__name__}
    out = None
    for k in range(nth):
        if k and inplace is not None:
            args[inplace] = typed_phi(inp)
        try:
            out = {'phi': enc_phi(fn(*args, **kw))}
        except common.MachineryError:
            raise
        except Exception as e:      # recorded; the specification decides whether raising was right
            out = {'raised': type(e).__name__}
    if before is not None:
        out['args'] = {'before': before, 'after': snapshot(watched)}
    return out


# ---------------------------------------------------------------- the functions under test
def discover():
    """(constructors, pulses): pulses = list of dicts name, P, dest, src (population numbers, in argument order)."""
    from dadi import PhiManip
    pulses = []
    seen = set()
    for name in sorted(dir(PhiManip)):
        m = re.match(r'phi_(\d)D_admix_', name)
        fn = getattr(PhiManip, name)
        if not m or not callable(fn) or id(fn) in seen:
            continue
        seen.add(id(fn))
        P = int(m.group(1))
        dest = int(re.search(r'into_(\d)$', name).group(1))
        params = list(inspect.signature(fn).parameters)
        assert params[0] == 'phi', (name, params)
        fpar = [p for p in params[1:] if re.fullmatch(r'f\d*', p)]
        gpar = [p for p in params[1:] if p not in fpar]
        if len(gpar) != P or len(fpar) != P - 1:
            raise common.MachineryError('unexpected signature %s%s' % (name, params))
        if fpar == ['f']:
            src = [int(re.search(r'admix_(\d)_into', name).group(1))]
        else:
            src = [int(p[1:]) for p in fpar]
        if sorted(src + [dest]) != list(range(1, P + 1)):
            raise common.MachineryError('cannot map proportions of %s%s' % (name, params))
        pulses.append({'name': name, 'P': P, 'dest': dest, 'src': src})
    per_dim = {P: sum(1 for p in pulses if p['P'] == P) for P in (2, 3, 4, 5)}
    if per_dim != {2: 2, 3: 3, 4: 4, 5: 5}:
        raise common.MachineryError('expected 2+3+4+5 pulse functions in dadi.PhiManip, found %s' % per_dim)
    ctors = [('phi_2D_to_3D_admix', 2), ('phi_3D_to_4D', 3), ('phi_4D_to_5D', 4)]
    for name, P in ctors:
        params = list(inspect.signature(getattr(PhiManip, name)).parameters)
        fpar = [p for p in params[1:] if re.fullmatch(r'f\d*', p)]
        if params[0] != 'phi' or fpar != ['f%d' % k for k in range(1, P)]:
            raise common.MachineryError('unexpected signature %s%s' % (name, params))
    return ctors, pulses


# ---------------------------------------------------------------- generators
def make_grid(rng, n, kind):
    from dadi import Numerics
    if kind == 'uniform':
        g = np.linspace(0, 1, n)
    elif kind == 'default':
        g = Numerics.default_grid(n)
    elif kind == 'dyadic':            # multiples of 1/16 (1/128 for long grids): mixtures with dyadic proportions land exactly on grid points
        den = 16 if n <= 12 else 128
        inner = sorted(rng.sample(range(1, den), n - 2))
        g = np.array([0.0] + [k / float(den) for k in inner] + [1.0])
    else:                             # random monotone, spacings >= min(0.02, 1/(2(n-1)))
        gap = min(0.02, 0.5 / (n - 1))
        w = [rng.random() + 1e-3 for _ in range(n - 1)]
        t = sum(w)
        d = [gap + (1.0 - gap * (n - 1)) * x / t for x in w]
        g = np.concatenate([[0.0], np.cumsum(d)])
        g[-1] = 1.0
        assert np.diff(g).min() > 0.9 * gap
    return np.asarray(g, dtype=float)


GRID_KINDS = ['uniform', 'default', 'random', 'dyadic']


def make_phi(rng, shape):
    size = int(np.prod(shape))
    mode = rng.random()
    if mode < 0.12:                   # a single occupied point
        a = np.zeros(size)
        a[rng.randrange(size)] = rng.uniform(0.5, 20.0)
    else:
        scale = 10 ** rng.uniform(-2, 3)
        a = np.array([0.0 if rng.random() < 0.1 else rng.uniform(0.05, 1.0) * scale for _ in range(size)])
    return a.reshape(shape)


FACES = {2: [(0.9, 0.1), (0.7, 0.3), (0.6, 0.4), (0.25, 0.75), (0.55, 0.45)],
         3: [(0.7, 0.2, 0.1), (0.5, 0.3, 0.2), (0.6, 0.3, 0.1), (0.1, 0.1, 0.8), (0.45, 0.1, 0.45)],
         4: [(0.2, 0.4, 0.3, 0.1), (0.4, 0.3, 0.2, 0.1), (0.05, 0.55, 0.3, 0.1), (0.25, 0.25, 0.25, 0.25), (0.7, 0.1, 0.1, 0.1)]}


def make_props(rng, m, kind):
    """m proportions of the given class (floats)."""
    if kind == 'zero':
        return [0.0] * m
    if kind == 'vertex':
        f = [0.0] * m
        f[rng.randrange(m)] = 1.0
        return f
    if kind == 'face':                # decimals summing to one: the boundary of the simplex as a user types it
        if m == 1:
            return [rng.choice([0.9, 0.1, 0.7, 0.3])]
        k = rng.randint(2, m)
        vals = list(rng.choice(FACES[k])) + [0.0] * (m - k)
        if rng.random() < 0.6:
            rng.shuffle(vals)
        return vals
    if kind == 'subface':             # some proportions zero, the others small decimals (sum < 1)
        vals = [round(rng.choice([0.1, 0.2, 0.45, 0.05, 0.3]) * (2.0 / m if m > 2 else 1.0), 3) for _ in range(m)]
        if m > 1:
            vals[rng.randrange(m)] = 0.0
        return vals
    if kind == 'aligned':             # dyadic: together with dyadic / uniform grids mixtures hit grid points exactly
        while True:
            vals = [rng.choice([0.0, 0.25, 0.5, 0.125, 0.75]) for _ in range(m)]
            if sum(vals) <= 1.0 and any(vals):
                return vals
    if kind == 'roundoff':            # decimals in the simplex, one entry zero, whose complement arithmetic is inexact
        if m >= 3:
            for _ in range(20000):
                vals = [round(rng.uniform(0.0, 1.6 / m), 2) for _ in range(m)]
                vals[rng.randrange(m)] = 0.0
                if sum(Fraction(v) for v in vals) <= 1 and _stresses_complement(vals):
                    return vals
        return make_props(rng, m, 'subface')
    if kind == 'interior':
        w = [rng.gammavariate(1.0, 1.0) for _ in range(m + 1)]
        t = sum(w)
        return [x / t for x in w[:m]]
    if kind == 'above':               # every proportion is a sensible number by itself, together they exceed 1
        while True:
            vals = [rng.uniform(0.3, 1.0) for _ in range(m)] if m > 1 else [rng.uniform(1.05, 1.6)]
            if 1.05 < sum(vals) < 2.5:
                return vals
    if kind == 'barely_above':
        vals = make_props(rng, m, 'interior')
        s = sum(vals)
        vals = [v / s for v in vals]
        vals[rng.randrange(m)] += 1e-6
        return vals
    raise ValueError(kind)


def _stresses_complement(vals):
    """True if 1 - sum(vals) (evaluated left to right in floating point), added back to the entries
    with one zero entry left out, exceeds 1 for some position of the complement: the round-off
    stress case "values > 1 by round-off" of the property, chosen without reference to dadi."""
    c = 1.0
    for v in vals:
        c -= v
    for drop in range(len(vals)):
        if vals[drop] != 0.0:
            continue
        rest = [v for j, v in enumerate(vals) if j != drop]
        for pos in range(len(rest) + 1):
            t = 0.0
            for v in rest[:pos] + [c] + rest[pos:]:
                t += v
            if t > 1.0:
                return True
    return False


VALID_KINDS = ['zero', 'vertex', 'face', 'subface', 'aligned', 'interior', 'roundoff', 'face', 'aligned']
SIZES_QUICK = {1: (5, 20), 2: (7, 10), 3: (4, 6), 4: (3, 4), 5: (3, 3)}
SIZES_THOROUGH = {1: (5, 40), 2: (7, 16), 3: (5, 8), 4: (4, 6), 5: (3, 4)}
SIZES = dict(SIZES_QUICK)


def grids_for(rng, P, mode, extra=0, kind=None):
    """P (+extra) per-axis grids.  mode 'same': one grid for all axes (the way dadi uses these
    functions); 'same_length': different grids of equal length; 'mixed': different lengths."""
    lo, hi = SIZES[min(P + extra, 5)]
    kind = kind or rng.choice(GRID_KINDS)
    if mode == 'same':
        g = make_grid(rng, rng.randint(lo, hi), kind)
        return [g] * (P + extra)
    if mode == 'same_length':
        n = rng.randint(lo, hi)
        return [make_grid(rng, n, rng.choice(GRID_KINDS)) for _ in range(P + extra)]
    return [make_grid(rng, rng.randint(max(3, lo - 1), hi), rng.choice(GRID_KINDS)) for _ in range(P + extra)]


def records(ctx):
    import dadi  # noqa: F401  (the overlay of /repo's working tree is first on sys.path)
    rng = random.Random(ctx.seed + 6)
    SIZES.update(SIZES_QUICK if ctx.quick else SIZES_THOROUGH)
    ctors, pulses = discover()
    recs = []
    nid = itertools.count()

    def add(op, site, inp):
        inp = {k: v for k, v in inp.items() if v is not None}      # JSON null is not a TLA+ value
        recs.append({'id': '%s-%d' % (op, next(nid)), 'op': op, 'site': site, 'in': inp, 'out': execute(op, site, inp)})
    rep = 1 if ctx.quick else 4
    kind_no = itertools.count()

    def next_kind():                  # every function sees all four grid families
        return GRID_KINDS[next(kind_no) % len(GRID_KINDS)]

    def prop_cases(m, mode):
        if mode == 'same' and ctx.quick:     # one sampled case per class (0, 1 and single sources are in the fixed set)
            kinds = ['face', 'aligned', 'interior', 'subface'] + (['roundoff', 'roundoff'] if m >= 3 else ['interior']) + ['above', 'barely_above']
        elif mode == 'same':
            kinds = list(VALID_KINDS) * rep + (['roundoff'] * rep if m >= 3 else []) + ['above', 'barely_above'] * (1 if ctx.quick else 2)
        elif ctx.quick:
            kinds = ['interior', rng.choice(['face', 'aligned'])]
        else:
            kinds = ['interior', 'face', 'aligned'] * 2
        return kinds
    fixed_records(add, random.Random(ctx.seed + 606), ctors, pulses, ctx.quick)
    long_axis_records(add, random.Random(ctx.seed + 1006), ctors, pulses, ctx.quick)
    reuse_records(add, random.Random(ctx.seed + 1606), ctors, pulses, ctx.quick)
    dtype_records(add, random.Random(ctx.seed + 1706), ctors, ctx.quick)
    # ---- pulses
    for pf in pulses:
        P = pf['P']
        for mode in ('same', 'same_length', 'mixed'):
            for kind in prop_cases(P - 1, mode):
                gk = ('dyadic', 'uniform')[next(kind_no) % 2] if kind == 'aligned' else next_kind()
                gs = grids_for(rng, P, mode, kind=gk)
                if ctx.quick and P == 5 and mode == 'same' and kind == 'interior':
                    gs = [make_grid(rng, 4, gk)] * P          # 5-D on a 4-point grid
                phi = make_phi(rng, [len(g) for g in gs])
                fs = make_props(rng, P - 1, kind)
                site = 'PhiManip.' + pf['name'] + ('' if mode == 'same' else PER_AXIS)
                add('pulse', site, {'phi': enc_phi(phi), 'gs': [rats(g) for g in gs], 'dest': pf['dest'], 'src': pf['src'],
                                    'fs': rats(fs), 'kind': kind, 'grids': mode})
    # ---- new population by admixture
    for name, P in ctors:
        for mode in ('same', 'same_length', 'mixed'):
            for kind in prop_cases(P - 1, mode):
                gk = ('dyadic', 'uniform')[next(kind_no) % 2] if kind == 'aligned' else next_kind()
                gs = grids_for(rng, P, mode, extra=1, kind=gk)
                phi = make_phi(rng, [len(g) for g in gs[:P]])
                fs = make_props(rng, P - 1, kind)
                site = 'PhiManip.' + name + ('' if mode == 'same' else PER_AXIS)
                add('admix_new', site, {'phi': enc_phi(phi), 'gs': [rats(g) for g in gs[:P]], 'gnew': rats(gs[P]),
                                        'fs': rats(fs), 'kind': kind, 'grids': mode})
    # ---- splits
    for _ in range(6 * rep):
        g = make_grid(rng, rng.randint(3, 20), next_kind())
        add('split1d', 'PhiManip.phi_1D_to_2D', {'phi': enc_phi(make_phi(rng, [len(g)])), 'g': rats(g)})
    for k in (1, 2):
        for _ in range(5 * rep):
            g = make_grid(rng, rng.randint(4, 8), next_kind())
            add('split', 'PhiManip.phi_2D_to_3D_split_%d' % k, {'phi': enc_phi(make_phi(rng, [len(g)] * 2)), 'g': rats(g), 'k': k})
    # ---- remove / filter / reorder / trapz: the removed axes share one grid, the kept ones need not
    for _ in range(12 * rep):
        P = rng.choice([1, 2, 2, 3, 3, 4, 5])
        lo, hi = SIZES[P]
        n = rng.randint(lo, hi)
        g = make_grid(rng, n, rng.choice(GRID_KINDS))
        a = rng.randint(1, P)
        sh = [rng.randint(max(2, lo - 2), hi) for _ in range(P)]
        sh[a - 1] = n
        phi = make_phi(rng, sh)
        add('remove', 'PhiManip.remove_pop', {'phi': enc_phi(phi), 'g': rats(g), 'a': a})
        add('remove', 'Numerics.trapz', {'phi': enc_phi(phi), 'g': rats(g), 'a': a})
        if P >= 2:
            nk = rng.randint(1, P)
            keep = sorted(rng.sample(range(1, P + 1), nk))
            sh2 = [sh[j] if (j + 1) in keep else n for j in range(P)]
            add('filter', 'PhiManip.filter_pops', {'phi': enc_phi(make_phi(rng, sh2)), 'g': rats(g), 'keep': keep})
            perm = list(range(1, P + 1))
            rng.shuffle(perm)
            add('reorder', 'PhiManip.reorder_pops', {'phi': enc_phi(phi), 'perm': perm})
    return balance(recs, PARALLEL)


def fixed_records(add, rng, ctors, pulses, quick):
    """The boundary values and named options of the property's domain, drawn deterministically in
    both tiers (small arrays; only the density values depend on the seed)."""
    def grid(n, k):
        return make_grid(rng, n, GRID_KINDS[k % len(GRID_KINDS)])

    def pulse(pf, fs, kind, n=None, gs=None, phi=None, **extra):
        P = pf['P']
        n = n or ((3 if P >= 3 else 4) if quick else (4 if P >= 4 else 6))
        gs = gs or [grid(n, pf['dest'] + P)] * P
        phi = make_phi(rng, [len(g) for g in gs]) if phi is None else phi
        inp = {'phi': enc_phi(phi), 'gs': [rats(g) for g in gs], 'dest': pf['dest'], 'src': pf['src'], 'fs': rats(fs),
               'kind': kind, 'grids': 'same'}
        inp.update(extra)
        add('pulse', 'PhiManip.' + pf['name'], inp)

    def admix(name, P, fs, kind, n=None, gs=None, phi=None, **extra):
        n = n or ((3 if P >= 3 else 4) if quick else (4 if P >= 4 else 6))
        gs = gs or [grid(n, P)] * (P + 1)
        phi = make_phi(rng, [len(g) for g in gs[:P]]) if phi is None else phi
        inp = {'phi': enc_phi(phi), 'gs': [rats(g) for g in gs[:P]], 'gnew': rats(gs[P]), 'fs': rats(fs), 'kind': kind, 'grids': 'same'}
        inp.update(extra)
        add('admix_new', 'PhiManip.' + name, inp)

    def unit(m, k, v=1.0):
        f = [0.0] * m
        f[k] = v
        return f
    fns = [('pulse', pf, pf['P'] - 1) for pf in pulses] + [('admix', c, c[1] - 1) for c in ctors]

    def call(kind_, obj, fs, kind, **kwargs):
        if kind_ == 'pulse':
            pulse(obj, fs, kind, **kwargs)
        else:
            admix(obj[0], obj[1], fs, kind, **kwargs)
    for kind_, obj, m in fns:
        for k in range(m):
            # proportion 1 from every single source (as a float, and as the Python int 1) ...
            call(kind_, obj, unit(m, k), 'vertex_%d' % k, ftype='int' if k % 2 else None)
            # ... one source alone at an interior value (pins the argument -> source mapping) ...
            call(kind_, obj, unit(m, k, 0.375), 'single_%d' % k, ftype='np' if k % 2 else None)
            # ... and one source alone above 1
            call(kind_, obj, unit(m, k, 1.25), 'above_%d' % k, n=2)
        # proportion 0 as Python ints
        call(kind_, obj, [0.0] * m, 'zero_int', ftype='int')
        # the boundary as a user types it: (0.9, 0.1) in the first two (or only) arguments
        call(kind_, obj, ([0.9, 0.1] + [0.0] * m)[:m] if m >= 2 else [0.9], 'face_0.9_0.1')
        # smallest grids: two and three points
        P = obj['P'] if kind_ == 'pulse' else obj[1]
        for n in (2, 3):
            fs = make_props(rng, m, 'interior')
            g = np.array([0.0, 1.0]) if n == 2 else grid(3, P + m)
            call(kind_, obj, fs, 'grid_%d_points' % n, gs=[g] * (P + (kind_ == 'admix')))
        # memory layouts of the array arguments
        for layout in ('F', 'sliced'):
            call(kind_, obj, make_props(rng, m, 'interior'), 'layout_' + layout, layout=layout)
        # empty and corner-only densities
        n = 3
        sh = [n] * P
        call(kind_, obj, make_props(rng, m, 'interior'), 'zero_density', n=n, phi=np.zeros(sh))
        for corner in (0, -1):
            a = np.zeros(sh)
            a.flat[corner] = 2.5
            call(kind_, obj, make_props(rng, m, 'interior'), 'corner_density_%d' % corner, n=n, phi=a)
    for name, P in ctors:                 # the deme_ids keyword does not change the density
        admix(name, P, make_props(rng, P - 1, 'interior'), 'deme_ids', deme_ids=['d%d' % j for j in range(1, P + 2)])
    # ---- splits: smallest grids, layouts, keyword, empty / end-point-only densities
    for n in (2, 3, 4):
        g = np.array([0.0, 1.0]) if n == 2 else grid(n, n)
        add('split1d', 'PhiManip.phi_1D_to_2D', {'phi': enc_phi(make_phi(rng, [n])), 'g': rats(g)})
        for k in (1, 2):
            add('split', 'PhiManip.phi_2D_to_3D_split_%d' % k, {'phi': enc_phi(make_phi(rng, [n, n])), 'g': rats(g), 'k': k})
    g = grid(6, 1)
    ends = np.zeros(6)
    ends[0], ends[-1] = 3.0, 4.0
    for phi1 in (np.zeros(6), ends):
        add('split1d', 'PhiManip.phi_1D_to_2D', {'phi': enc_phi(phi1), 'g': rats(g)})
    for layout in ('F', 'sliced'):
        add('split1d', 'PhiManip.phi_1D_to_2D', {'phi': enc_phi(make_phi(rng, [6])), 'g': rats(g), 'layout': layout})
        for k in (1, 2):
            add('split', 'PhiManip.phi_2D_to_3D_split_%d' % k, {'phi': enc_phi(make_phi(rng, [6, 6])), 'g': rats(g), 'k': k, 'layout': layout})
    add('split1d', 'PhiManip.phi_1D_to_2D', {'phi': enc_phi(make_phi(rng, [6])), 'g': rats(g), 'deme_ids': ['a', 'b']})
    for k in (1, 2):
        add('split', 'PhiManip.phi_2D_to_3D_split_%d' % k, {'phi': enc_phi(make_phi(rng, [6, 6])), 'g': rats(g), 'k': k, 'deme_ids': ['a', 'b', 'c']})
    # ---- remove_pop / trapz: every axis of every dimension count, unequal axis lengths
    for P in range(1, 6):
        for a in range(1, P + 1):
            sh = [2 + ((j + a) % 3) for j in range(P)]
            n = 2 + (a + P) % 4
            sh[a - 1] = n
            g = np.array([0.0, 1.0]) if n == 2 else grid(n, a + P)
            phi = make_phi(rng, sh)
            add('remove', 'PhiManip.remove_pop', {'phi': enc_phi(phi), 'g': rats(g), 'a': a})
            add('remove', 'Numerics.trapz', {'phi': enc_phi(phi), 'g': rats(g), 'a': a, 'call': ('neg_axis', 'dx', None)[(a + P) % 3]})
        add('remove', 'Numerics.trapz', {'phi': enc_phi(phi), 'g': rats(g), 'a': P, 'call': 'default_axis'})
        add('remove', 'PhiManip.remove_pop', {'phi': enc_phi(phi), 'g': rats(g), 'a': P, 'layout': 'F' if P % 2 else 'sliced'})
        add('remove', 'Numerics.trapz', {'phi': enc_phi(phi), 'g': rats(g), 'a': P, 'layout': 'sliced' if P % 2 else 'F'})
    # ---- filter_pops: keep one / all but one / all / an unsorted list; list, tuple, array
    for P in range(2, 6):
        n = 3 + P % 2
        g = grid(n, P)
        cases = [([1], None), ([P], 'tuple'), (list(range(1, P)), 'array'), (list(range(1, P + 1)), None), ([P, 1], 'tuple')]
        if P >= 3:
            cases.append(([2, P][::-1], None))
        for keep, st in cases:
            sh = [(2 + j % 3) if (j + 1) in keep else n for j in range(P)]
            inp = {'phi': enc_phi(make_phi(rng, sh)), 'g': rats(g), 'keep': keep}
            if st:
                inp['seqtype'] = st
            add('filter', 'PhiManip.filter_pops', inp)
        add('filter', 'PhiManip.filter_pops', {'phi': enc_phi(make_phi(rng, [n] * P)), 'g': rats(g), 'keep': [1], 'layout': 'F'})
    # ---- reorder_pops: identity, reversal, both cyclic shifts (not their own inverse), unequal axis lengths
    for P in range(2, 6):
        sh = [2 + j for j in range(P)]
        ident = list(range(1, P + 1))
        perms = [(ident, None), (ident[::-1], 'tuple'), (ident[1:] + ident[:1], 'array'), (ident[-1:] + ident[:-1], None)]
        for perm, st in perms:
            inp = {'phi': enc_phi(make_phi(rng, sh)), 'perm': perm}
            if st:
                inp['seqtype'] = st
            add('reorder', 'PhiManip.reorder_pops', inp)
        add('reorder', 'PhiManip.reorder_pops', {'phi': enc_phi(make_phi(rng, sh)), 'perm': ident[1:] + ident[:1], 'layout': 'sliced'})


DTYPED = '[density dtype]'
#: element types of the density argument that clean dadi handles like float64 when the values are exactly representable
PTYPES = ('float32', 'int64', 'int32', 'longdouble')


def dtype_records(add, rng, ctors, quick):
    """Element type of the density (deterministic, both tiers): every split / constructor function receives a density
    stored as float32, int64 / int32 (integer values) and longdouble whose values are exactly representable; the result
    is judged by the ordinary clauses at the ordinary tolerance against those values (the new array is a float64 array
    computed from them, not an array of the input's element type)."""
    def values(shape, t):
        size = int(np.prod(shape))
        if t.startswith('int'):
            a = np.array([float(rng.choice([0, rng.randint(1, 60)])) for _ in range(size)])
        else:             # float32 values with full 24-bit mantissas (exactly representable in every wider type)
            a = np.array([rng.uniform(0.05, 1.0) * 10 ** rng.uniform(-2, 3) for _ in range(size)]).astype(np.float32).astype(float)
        return a.reshape(shape)

    def grid(n, k):
        return make_grid(rng, n, GRID_KINDS[k % len(GRID_KINDS)])
    for j, t in enumerate(PTYPES):
        g = grid(5, j)
        add('split1d', 'PhiManip.phi_1D_to_2D' + DTYPED, {'phi': enc_phi(values([5], t)), 'g': rats(g), 'ptype': t})
        g = grid(4, j + 1)
        for k in (1, 2):
            add('split', 'PhiManip.phi_2D_to_3D_split_%d' % k + DTYPED, {'phi': enc_phi(values([4, 4], t)), 'g': rats(g), 'k': k, 'ptype': t})
        for name, P in ctors:
            m = P - 1
            n = 3 if P >= 3 else 4
            vertex = [0.0] * m
            vertex[(j + P) % m] = 1.0
            for kind, fs, mode in (('interior', make_props(rng, m, 'interior'), 'same'), ('vertex', vertex, 'same_length'),
                                   ('zero', [0.0] * m, 'same'), ('aligned', make_props(rng, m, 'aligned'), 'same')):
                if mode == 'same':
                    gs = [grid(n, 3 if kind == 'aligned' else j + P)] * (P + 1)
                else:
                    gs = [grid(n, j + P + a) for a in range(P + 1)]
                add('admix_new', 'PhiManip.' + name + DTYPED,
                    {'phi': enc_phi(values([len(x) for x in gs[:P]], t)), 'gs': [rats(x) for x in gs[:P]], 'gnew': rats(gs[P]), 'fs': rats(fs),
                     'kind': 'dtype:' + kind, 'grids': mode, 'ptype': t})


REUSED = '[arguments reused]'


def reuse_records(add, rng, ctors, pulses, quick):
    """State / aliasing (deterministic, both tiers): the functions are functions of the VALUES of their arguments.
    Every function that takes a list-like argument (order, population numbers, proportions, grids, the density) is
    called twice in a row with the SAME argument objects - lists, tuples, integer / float ndarrays, zero-dimensional
    ndarrays viewing one proportions vector.  Both calls are judged by the ordinary clauses against the values the
    caller wrote, and the argument objects are encoded bit for bit before the first and after each call (clause
    ArgumentsUnchanged[<argument>]; the phi of the phi_*D_admix_* pulse functions is documented as altered in place:
    it is not watched and every call gets a fresh copy)."""
    def twice(op, site, inp):
        for nth in (1, 2):
            add(op, site + REUSED, dict(inp, nth=nth, watch=True))

    def grid(n, k):
        return make_grid(rng, n, GRID_KINDS[k % len(GRID_KINDS)])
    # ---- reorder_pops: the order as list, tuple, integer ndarrays of several widths
    for P in range(2, 6):
        sh = [2 + (j % 3) for j in range(P)]
        ident = list(range(1, P + 1))
        for k, st in enumerate((None, 'tuple', 'int64', 'int32', 'intp', 'uint8')):
            if k % 2:
                perm = ident[1:] + ident[:1]                    # a cycle (not its own inverse for P > 2)
            else:
                perm = list(ident)
                while perm == ident:
                    rng.shuffle(perm)
            twice('reorder', 'PhiManip.reorder_pops', {'phi': enc_phi(make_phi(rng, sh)), 'perm': perm, 'seqtype': st})
    # ---- filter_pops: the kept population numbers
    for P in range(2, 6):
        n = 3
        g = grid(n, P)
        for k, st in enumerate((None, 'tuple', 'int64', 'int32')):
            nk = 1 + (k + P) % (P - 1) if P > 2 else 1
            keep = sorted(rng.sample(range(1, P + 1), nk))
            if k == 1 and nk > 1:
                keep = keep[::-1]
            sh = [(2 + j % 3) if (j + 1) in keep else n for j in range(P)]
            twice('filter', 'PhiManip.filter_pops', {'phi': enc_phi(make_phi(rng, sh)), 'g': rats(g), 'keep': keep, 'seqtype': st})
    # ---- remove_pop / trapz: the population number as int, numpy integer, zero-dimensional integer ndarray
    for P in range(1, 6):
        for k, at in enumerate((None, 'np', 'arr0')):
            a = (P + k) % P + 1
            sh = [2 + ((j + a) % 3) for j in range(P)]
            g = grid(sh[a - 1], a + P) if sh[a - 1] > 2 else np.array([0.0, 1.0])
            phi = make_phi(rng, sh)
            twice('remove', 'PhiManip.remove_pop', {'phi': enc_phi(phi), 'g': rats(g), 'a': a, 'atype': at})
        twice('remove', 'Numerics.trapz', {'phi': enc_phi(phi), 'g': rats(g), 'a': a, 'call': ('neg_axis', 'dx', None)[P % 3]})
    # ---- splits: float grids, and the two-point grid [0, 1] as an integer ndarray
    for n, gt in ((4, None), (2, 'int')):
        g = np.array([0.0, 1.0]) if n == 2 else grid(n, n)
        twice('split1d', 'PhiManip.phi_1D_to_2D', {'phi': enc_phi(make_phi(rng, [n])), 'g': rats(g), 'gtype': gt})
        for k in (1, 2):
            twice('split', 'PhiManip.phi_2D_to_3D_split_%d' % k, {'phi': enc_phi(make_phi(rng, [n, n])), 'g': rats(g), 'k': k, 'gtype': gt})
    # ---- new population by admixture, and pulses: proportions as zero-dimensional views of the caller's vector
    # (floats at an interior point; integers at a vertex), numpy scalars, Python floats; one grid object for all axes
    # and one object per axis
    def unit(m, k):
        f = [0.0] * m
        f[k] = 1.0
        return f
    for idx, (kind_, obj) in enumerate([('pulse', pf) for pf in pulses] + [('admix_new', c) for c in ctors]):
        P = obj['P'] if kind_ == 'pulse' else obj[1]
        m = P - 1
        n = 3 if P >= 3 else 4
        name = obj['name'] if kind_ == 'pulse' else obj[0]
        cases = [('interior', make_props(rng, m, 'interior'), 'arr0', None, 'same'),
                 ('vertex_%d' % (idx % m), unit(m, idx % m), 'arr0int', None, 'same_length'),
                 ('subface', make_props(rng, m, 'subface'), (None, 'np')[idx % 2], 'int' if idx % 3 == 0 else None, 'same')]
        for kind, fs, ft, gt, mode in cases:
            if gt == 'int':
                gs = [np.array([0.0, 1.0])] * (P + (kind_ == 'admix_new'))
            elif mode == 'same':
                gs = [grid(n, idx + P)] * (P + (kind_ == 'admix_new'))
            else:
                gs = [grid(n, idx + P + j) for j in range(P + (kind_ == 'admix_new'))]
            phi = make_phi(rng, [len(g) for g in gs[:P]])
            inp = {'phi': enc_phi(phi), 'gs': [rats(g) for g in gs[:P]], 'fs': rats(fs), 'kind': 'reuse:' + kind, 'grids': mode,
                   'ftype': ft, 'gtype': gt}
            if kind_ == 'pulse':
                inp.update({'dest': obj['dest'], 'src': obj['src']})
            else:
                inp['gnew'] = rats(gs[P])
            twice(kind_, 'PhiManip.' + name, inp)


#: axis lengths above the block sizes an implementation may work in (32, 64): 33 .. 70
LONG = (33, 70, 40, 65, 34, 48, 67, 36, 57, 35)
#: the same for the destination axis of a pulse in 4-D / 5-D (the judge's work grows with its square)
LONG_DEST = (33, 35, 34, 36)
PARALLEL = 12


def long_axis_records(add, rng, ctors, pulses, quick):
    """Grids LONGER than typical internal block sizes (both tiers).  A 4-D / 5-D array on such a grid is only
    affordable with unequal axis lengths: one axis has 33 .. 70 points, the others 3 (or 4); every axis of every
    constructor (the new axis included), pulse, split, removal, filter and reordering function takes the long turn."""
    count = itertools.count()

    def make_phi(rng, shape):            # every entry occupied: every row of every block carries density
        scale = 10 ** rng.uniform(-2, 3)
        return np.array([rng.uniform(0.05, 1.0) * scale for _ in range(int(np.prod(shape)))]).reshape(shape)

    def shape(P, a, n):
        sh = [(3 if P >= 4 or (j + a) % 2 else 4) for j in range(P)]
        sh[a] = n
        return sh

    def grids(sh, a, short=False):
        c = next(count)
        return [make_grid(rng, n, 'dyadic' if short else GRID_KINDS[(c + j) % len(GRID_KINDS)]) for j, n in enumerate(sh)]

    def props(m, short=False):
        if short:         # multiples of 1/64 inside the simplex
            cut = sorted(rng.sample(range(1, 64), m))
            return 'interior_dyadic', [(b - a_) / 64.0 for a_, b in zip([0] + cut[:-1], cut)]
        kind = ('interior', 'face', 'subface', 'interior', 'aligned')[next(count) % 5]
        return kind, make_props(rng, m, kind)
    # ---- new population by admixture: every existing axis and the new axis
    for name, P in ctors:
        for a in range(P + 1):
            sh = shape(P + 1, a, LONG[(a + P) % len(LONG)] if a else (70, 65, 33)[P - 2])
            gs = grids(sh, a)
            kind, fs = props(P - 1)
            add('admix_new', 'PhiManip.' + name + PER_AXIS,
                {'phi': enc_phi(make_phi(rng, sh[:P])), 'gs': [rats(g) for g in gs[:P]], 'gnew': rats(gs[P]), 'fs': rats(fs),
                 'kind': 'long_axis_%d:%s' % (a + 1, kind), 'grids': 'mixed'})
    # ---- pulses: every axis of every function
    for pf in pulses:
        P = pf['P']
        for a in range(P):
            if a + 1 == pf['dest'] and P >= 4:
                n = LONG_DEST[(a + P) % len(LONG_DEST)]
            elif a + 1 == pf['dest'] and P == 3:
                n = LONG[(a + pf['dest']) % len(LONG)] % 16 + 33        # 33 .. 48
            else:
                n = LONG[(a + pf['dest'] + P) % len(LONG)]
            sh = shape(P, a, n)
            # long destination axis: the judge sums n exact terms per entry, which is affordable (3-D and up) only
            # if grids and proportions are short binary fractions; the float code path is the same
            short = a + 1 == pf['dest'] and P >= 3
            gs = grids(sh, a, short)
            kind, fs = props(P - 1, short)
            add('pulse', 'PhiManip.' + pf['name'] + PER_AXIS,
                {'phi': enc_phi(make_phi(rng, sh)), 'gs': [rats(g) for g in gs], 'dest': pf['dest'], 'src': pf['src'], 'fs': rats(fs),
                 'kind': 'long_axis_%d:%s' % (a + 1, kind), 'grids': 'mixed'})
    # ---- splits (one grid for all axes)
    for n in (33, 70):
        g = make_grid(rng, n, GRID_KINDS[n % 4])
        add('split1d', 'PhiManip.phi_1D_to_2D', {'phi': enc_phi(make_phi(rng, [n])), 'g': rats(g)})
    for k in (1, 2):
        g = make_grid(rng, 33, ('dyadic', 'uniform')[k - 1])
        add('split', 'PhiManip.phi_2D_to_3D_split_%d' % k, {'phi': enc_phi(make_phi(rng, [33, 33])), 'g': rats(g), 'k': k})
    # ---- remove_pop / trapz / filter_pops / reorder_pops: the long axis removed, and kept
    for P in range(1, 6):
        for a in sorted({0, P - 1}):
            n = LONG[(a + 2 * P) % len(LONG)]
            sh = shape(P, a, n)
            g = make_grid(rng, n, GRID_KINDS[(a + P) % 4])
            phi = make_phi(rng, sh)
            add('remove', 'PhiManip.remove_pop', {'phi': enc_phi(phi), 'g': rats(g), 'a': a + 1})
            add('remove', 'Numerics.trapz', {'phi': enc_phi(phi), 'g': rats(g), 'a': a + 1})
            if P >= 2:
                b = (a + 1) % P                                         # a short axis is removed, the long one stays
                gb = make_grid(rng, sh[b], GRID_KINDS[(b + P) % 4])
                add('remove', 'PhiManip.remove_pop', {'phi': enc_phi(phi), 'g': rats(gb), 'a': b + 1})
                add('remove', 'Numerics.trapz', {'phi': enc_phi(phi), 'g': rats(gb), 'a': b + 1})
                add('filter', 'PhiManip.filter_pops', {'phi': enc_phi(phi), 'g': rats(g), 'keep': [j + 1 for j in range(P) if j != a]})
                sh2 = [3] * P
                sh2[a] = n
                add('filter', 'PhiManip.filter_pops', {'phi': enc_phi(make_phi(rng, sh2)), 'g': rats(make_grid(rng, 3, 'random')), 'keep': [a + 1]})
                ident = list(range(1, P + 1))
                add('reorder', 'PhiManip.reorder_pops', {'phi': enc_phi(phi), 'perm': ident[1:] + ident[:1]})


def cost_of(rec):
    """A rough count of the work the judge spends on a record (only used to share the records evenly between
    the parallel judges; the verdict of a record does not depend on its neighbours): rational operations, five-fold
    if the grids are full 53-bit fractions rather than short binary ones."""
    i = rec['in']
    size = len(i['phi']['d'])
    gs = list(i.get('gs', [])) + [i[k] for k in ('g', 'gnew') if k in i]
    digits = [len(x) for g in gs for x in g]
    f = 5 if digits and sum(digits) > 12 * len(digits) else 1
    if rec['op'] == 'pulse':
        return 200 + f * 3 * size * i['phi']['sh'][i['dest'] - 1]
    if rec['op'] == 'admix_new':
        return 200 + f * 4 * size * len(i['gnew'])
    if rec['op'] == 'split':
        return 200 + f * 5 * size * len(i['g'])
    return 200 + f * size


def balance(recs, parallel):
    """Reorder the records so that the `parallel` contiguous batches the pipeline hands to the judges carry
    about the same work: largest first into the lightest batch that has room; original order within a batch."""
    n = len(recs)
    batch = max(1, (n + parallel - 1) // parallel)
    caps = [min(batch, max(0, n - k * batch)) for k in range(parallel)]
    bins = [[] for _ in range(parallel)]
    load = [0] * parallel
    for idx in sorted(range(n), key=lambda j: -cost_of(recs[j])):
        k = min((k for k in range(parallel) if len(bins[k]) < caps[k]), key=lambda k: load[k])
        bins[k].append(idx)
        load[k] += cost_of(recs[idx])
    return [recs[j] for b in bins for j in sorted(b)]


# ---------------------------------------------------------------- evidence helpers
def nontrivial(r):
    i = r['in']
    if r['op'] in ('pulse', 'admix_new'):
        if i['kind'] == 'zero' and r['op'] == 'admix_new':
            return (r['site'], 'zero')
        return (r['site'], i['kind'], tuple(i['phi']['sh']), i['grids'], i.get('layout'), i.get('ftype'), i.get('gtype'), i.get('nth'), i.get('ptype'))
    return (r['site'], tuple(i['phi']['sh']), i.get('a'), tuple(i.get('keep', ())), tuple(i.get('perm', ())),
            i.get('layout'), i.get('call'), i.get('seqtype'), i.get('atype'), i.get('gtype'), i.get('nth'), i.get('ptype'))


_mut_turn = itertools.count()


def mutate_args(rec):
    """One element of one watched argument differs after the call by one unit in the last place (floats) / by 1 (integers)."""
    import math
    after = rec['out']['args']['after']
    t = next(_mut_turn)
    cand = [e for e in after if e['v']]
    if not cand:
        return None
    e = cand[(t // 2) % len(cand)]
    j = (t // 2) % len(e['v'])
    try:
        e['v'][j] = str(int(e['v'][j]) - 1)
    except ValueError:
        e['v'][j] = math.nextafter(float.fromhex(e['v'][j]), math.inf).hex()
    return rec


def mutate(rec):
    """Corrupt the observation so that a sound trace spec must reject the record."""
    out = rec['out']
    if 'args' in out and next(_mut_turn) % 2 == 0:      # every other record with watched arguments: the state clause
        return mutate_args(rec)
    if 'raised' in out:
        if rec['op'] in ('pulse', 'admix_new') and sum(Fraction(f) for f in rec['in']['fs']) > 1 + Fraction(1, 10 ** 6) / 2:
            # a refusal that the property demands: pretend the call was accepted
            if rec['op'] == 'pulse':
                rec['out'] = {'phi': rec['in']['phi']}
            else:
                n = len(rec['in']['gnew'])
                rec['out'] = {'phi': {'sh': rec['in']['phi']['sh'] + [n], 'd': ['0'] * (len(rec['in']['phi']['d']) * n)}}
            return rec
        return None
    d = out['phi']['d']
    if len(d) > 3000:
        return None         # cost: the demonstration uses the records with small arrays (every site has them)
    cand = [k for k in range(len(d)) if d[k] not in ('nan', 'inf', '-inf') and Fraction(d[k]) != 0]
    if not cand:
        return None
    k = max(cand, key=lambda j: abs(Fraction(d[j])))
    d[k] = rat(Fraction(d[k]) * Fraction(1000001, 1000000))
    return rec


def _num(v):
    return repr(float.fromhex(v)) if 'x' in v else v


def _changed(rec):
    """Description only (the verdict is TLC's): the first differing element of each changed argument."""
    a = rec['out'].get('args', {})
    out = []
    for b, c in zip(a.get('before', []), a.get('after', [])):
        if b != c:
            d = [k for k in range(min(len(b['v']), len(c['v']))) if b['v'][k] != c['v'][k]]
            out.append('%s %s(%s): %s' % (b['name'], b['kind'], b['dtype'], 'element %d was %s, is %s' % (d[0], _num(b['v'][d[0]]), _num(c['v'][d[0]])) if d
                                          else 'type / shape %s %s %s -> %s %s %s' % (b['kind'], b['dtype'], b['sh'], c['kind'], c['dtype'], c['sh'])))
    return '; '.join(out)


def what_of(rec, clause):
    i = rec['in']
    fs = [float(Fraction(f)) for f in i.get('fs', [])]
    desc = {'RejectAboveOne': 'accepted proportions %s summing to %.12g (> 1): the property demands a refusal' % (fs, sum(fs)),
            'RefusedInSimplex': 'refused (%s) proportions %s, sum %.17g, a point of the simplex' % (rec['out'].get('raised'), fs, sum(fs))}
    if clause.startswith('ArgumentsUnchanged'):
        desc[clause] = 'changed an argument object of its caller: clause %s violated (%s)' % (clause, _changed(rec))
    nth = ' (call no. %d with the same argument objects%s)' % (i['nth'], ', '.join(
        [''] + ['%s as %s' % (k, i[k]) for k in ('seqtype', 'atype', 'ftype', 'gtype') if k in i])) if 'nth' in i else ''
    if 'ptype' in i:
        nth += ' (density passed as %s ndarray)' % i['ptype']
    return 'record %s: %s%s %s [shape %s%s]' % (
        rec['id'], rec.get('site'), nth, desc.get(clause, 'clause %s violated%s' % (clause, (' for proportions %s' % fs) if fs else '')),
        i['phi']['sh'], (', grids ' + i['grids']) if 'grids' in i else '')


def run(ctx):
    if ctx.replay:
        old = ctx.replay_payload['payload']['record']
        import dadi  # noqa: F401
        # re-execute the recorded call on the current tree and judge the fresh observation
        recs = [{'id': old['id'], 'op': old['op'], 'site': old['site'], 'in': old['in'],
                 'out': execute(old['op'], old['site'], old['in'])}]
        ctx.no_mc = True
    else:
        recs = records(ctx)
    return common.pipeline(
        ctx, [('PhiOpsMC', 'PhiOpsMC_%s.cfg' % ctx.tier)], 'Trace_PhiOps', recs,
        nontrivial_of=nontrivial, mutator=mutate, what_of=what_of, parallel=PARALLEL,
        rule='pulse / admix_new records: distinct (function, proportion class [zero, vertex, face, subface, grid-aligned, interior, '
             'round-off stress, above 1; fixed set: 1 / 0.375 / 1.25 from each single source, ints, (0.9, 0.1), 2- and 3-point grids, '
             'Fortran / strided layouts, empty and corner-only densities; long_axis_k: axis k has 33 .. 70 points (above block sizes 32 and 64), the other axes '
             '3 or 4, every entry of the density occupied - every axis of every constructor (new axis included) and pulse function, both tiers], array shape, '
             'grid mode [one grid for all axes | per-axis grids of equal | different lengths]); '
             'other records: distinct (function, shape, axis / kept set / permutation), incl. 33- and 70-point 1-D -> 2-D splits, 33-point 2-D -> 3-D splits and '
             'removal / filtering / reordering with the long axis removed and kept; reuse block (sites "...[arguments reused]"): every function called '
             'twice in a row with the SAME argument objects - order / population numbers as list, tuple, int64 / int32 / intp / uint8 ndarray, numpy integer, '
             '0-d integer ndarray; proportions as 0-d float / integer ndarrays viewing one vector of the caller, numpy scalars, floats; grids incl. the integer '
             'ndarray [0, 1] - both calls judged against the values as written, plus bit-exact before / after encodings of the argument objects '
             '(clause ArgumentsUnchanged[argument]; the phi of the phi_*D_admix_* pulse functions, documented as altered in place, excepted)',
        assumptions=['BigInteger rational arithmetic of the Rat override (self-tested against the TLA+ definitions)',
                     'tau_lin = 1e-10 relative to the largest exact value on the same fibre (new / destination axis); per-entry relative 1e-10 '
                     'for trapezoid sums of non-negative data; reorder_pops compared exactly',
                     'a proportion vector must be accepted iff all entries >= 0 and its exact sum <= 1 + 2^-52 (doubles nearest to a point of the '
                     'simplex, <= 4 components), must be refused iff its sum > 1 + 1e-9; in between either outcome is allowed',
                     'trapezoid integrals define "marginal density"; the 1-D -> 2-D split drops the two end points of the grid by design',
                     'grids are strictly increasing from 0 to 1 with spacing >= min(0.02, 1/(2(n-1))) (or dadi\'s default_grid, or multiples of 1/16 | 1/128)',
                     'pulses in 3-5 dimensions whose DESTINATION axis is the long one use grids on multiples of 1/128 (1/16) and proportions on multiples of 1/64 '
                     '(exact judging of a sum of 33+ terms per entry is otherwise too slow); records are reordered so that the parallel judges share the work'])
