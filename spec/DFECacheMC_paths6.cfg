CONSTANTS
  MaxW = 3
  MaxJ = 4
  MaxSplit = 3
  MaxPieces = 1
  AllowDie = FALSE
  PathSet = 6
SPECIFICATION SpecPaths
CHECK_DEADLOCK FALSE
INVARIANT EmitPath
INVARIANT PathsEnd
