"""C19 - uncertainty machinery (spec/Godambe.tla): finite-difference stencils, closed-form
information for linear Poisson models, bootstrap order, chi-square mixture, the shared spectrum cache.

The driver only generates inputs, calls the real dadi.Godambe functions and records
what came back; every verdict is TLC's (spec/Trace_Godambe.tla)."""
import random, itertools, math, io, contextlib, logging, gc
from fractions import Fraction
import numpy as np
from . import common
from .common import rat, rats

PROP = 'C19'
TAU_FD = 1e-13


# ------------------------------------------------------------------ 1. stencils
def rand_param(rng, eps):
    kind = rng.choice(['ord', 'ord', 'ord', 'zero', 'tiny', 'small', 'neg', 'big'])
    while True:
        if kind == 'zero':
            return 0.0
        if kind == 'tiny':
            p = 10 ** rng.uniform(-12, -8)
        elif kind == 'small':          # around the documented threshold p*eps = 1e-6
            p = rng.choice([0.2, 0.5, 3.0, 20.0]) * 1e-6 / eps
        elif kind == 'neg':
            p = -10 ** rng.uniform(-3, 1)
        elif kind == 'big':
            p = 10 ** rng.uniform(1, 3)
        else:
            p = 10 ** rng.uniform(-2, 1)
        if not (0.9e-6 < p * eps < 1.1e-6):      # keep away from the float/exact tie of the threshold
            return p


def rand_quadratic(rng, n, linear=False):
    Q = np.zeros((n, n))
    if not linear:
        for i in range(n):
            for j in range(i, n):
                Q[i, j] = Q[j, i] = rng.choice([0.0, rng.uniform(-5, 5), rng.uniform(-1, 1), float(rng.randint(-3, 3))])
    b = np.array([rng.choice([0.0, rng.uniform(-5, 5), float(rng.randint(-3, 3))]) for _ in range(n)])
    c = rng.choice([0.0, rng.uniform(-10, 10)])
    return Q, b, c


KINDS = ['zero', 'tiny', 'small', 'neg', 'ord', 'big']


def param_of(rng, eps, kind):
    """a parameter value of the given class (see rand_param)"""
    while True:
        if kind == 'zero':
            return 0.0
        p = {'tiny': lambda: 10 ** rng.uniform(-12, -8),
             'small': lambda: rng.choice([0.2, 0.5, 3.0, 20.0]) * 1e-6 / eps,          # both sides of the 1e-6/eps threshold
             'neg': lambda: -10 ** rng.uniform(-3, 1),
             'big': lambda: 10 ** rng.uniform(1, 3),
             'ord': lambda: 10 ** rng.uniform(-2, 1)}[kind]()
        if not (0.9e-6 < p * eps < 1.1e-6):
            return p


def stencil_pair(nid, Q, b, c, p, eps, pform='list', extra=None):
    """get_hess and get_grad on f(x) = x'Qx/2 + b'x + c at p; pform: how the parameter vector is passed;
    extra: a constant passed through args=(extra,) and added by f (so the recorded constant is c + extra)."""
    from dadi import Godambe
    Q, b = np.asarray(Q, dtype=float), np.asarray(b, dtype=float)

    def f(x, *args):
        x = np.asarray(x, dtype=float)
        return 0.5 * float(x @ Q @ x) + float(b @ x) + c + (args[0] if args else 0.0)
    arg = {'list': lambda: [float(v) for v in p], 'tuple': lambda: tuple(float(v) for v in p), 'array': lambda: np.array(p, dtype=float),
           'intlist': lambda: [int(v) for v in p], 'intarray': lambda: np.array([int(v) for v in p])}[pform]
    args = () if extra is None else (extra,)
    inp = {'Q': rats(Q), 'b': rats(b), 'c': rat(Fraction(c) + Fraction(extra or 0.0)), 'p': rats([float(v) for v in p]), 'eps': rat(eps),
           'pform': pform, 'args': extra is not None}
    recs = []
    try:
        out = {'H': rats(np.asarray(Godambe.get_hess(f, arg(), eps, args=args), dtype=float))}
    except Exception as e:
        out = {'raised': type(e).__name__}
    recs.append({'id': 'hess-%d' % next(nid), 'op': 'hess', 'site': 'Godambe.get_hess', 'in': inp, 'out': out})
    try:
        out = {'g': rats(np.asarray(Godambe.get_grad(f, arg(), eps, args=args), dtype=float).ravel())}
    except Exception as e:
        out = {'raised': type(e).__name__}
    recs.append({'id': 'grad-%d' % next(nid), 'op': 'grad', 'site': 'Godambe.get_grad', 'in': inp, 'out': out})
    return recs


def stencil_records(ctx, rng, nid):
    recs = []
    # ---- deterministic part (every tier): each element of the stated domain is drawn on purpose
    ends = [1e-4, 1e-1]                                  # both end points of the eps range
    j = 0
    for kind in KINDS:                                   # one parameter: every class x quadratic/linear x both eps end points
        for linear in (False, True):
            eps = ends[j % 2]
            j += 1
            Q, b, c = rand_quadratic(rng, 1, linear)
            if not linear and Q[0, 0] == 0:
                Q[0, 0] = 2.5
            recs += stencil_pair(nid, Q, b, c, [param_of(rng, eps, kind)], eps)
    for n in (2, 3, 4, 5):                               # 2-5 parameters, classes mixed within the vector, quadratic and linear
        for linear in (False, True):
            eps = [1e-4, 1e-1, 1e-2, 1e-3][(n + linear) % 4]
            Q, b, c = rand_quadratic(rng, n, linear)
            p = [param_of(rng, eps, KINDS[(n + i + 3 * linear) % 6]) for i in range(n)]
            recs += stencil_pair(nid, Q, b, c, p, eps)
    for p, eps in (([0.0, 0.0, 0.0], 1e-2), ([1e-9, 3e-10], 1e-1), ([-1.5, -0.25], 1e-4)):      # all zero / all tiny / all negative
        Q, b, c = rand_quadratic(rng, len(p), False)
        recs += stencil_pair(nid, Q, b, c, p, eps)
    Q, b, c = rand_quadratic(rng, 3, False)              # the ways a caller passes the parameter vector, and args=
    for pform in ('list', 'tuple', 'array', 'intlist', 'intarray'):
        recs += stencil_pair(nid, Q, b, c, [2, 1, 3], 1e-2, pform=pform)
    recs += stencil_pair(nid, Q, b, 0.0, [0.5, 0.0, 2.0], 1e-2, extra=1.75)
    # ---- random part
    for k in range(45 if ctx.quick else 600):
        n = rng.choice([1, 2, 2, 3, 3, 4, 5])
        eps = 10 ** rng.uniform(-4, -1)
        Q, b, c = rand_quadratic(rng, n, rng.random() < 0.3)
        p = [rand_param(rng, eps) for _ in range(n)]
        recs += stencil_pair(nid, Q, b, c, p, eps, pform=rng.choice(['list', 'list', 'array', 'tuple']))
        if k % 8 == 0:
            recs += stencil_pair(nid, Q, b, c, [rng.randint(1, 4) for _ in range(n)], eps, pform=rng.choice(['intlist', 'intarray']))
    return recs


# ------------------------------------------------------------------ 2. linear Poisson models
# Inputs of the closed-form records are floats with few significant bits (multiples of 1/8, 1/16, ...): the exact
# rational arithmetic of the specification divides by the model means, and short inputs keep its numbers short.
def short(rng, lo, hi, den):
    return rng.randint(int(math.ceil(lo * den)), int(hi * den)) / float(den)


def short_eps(rng, lo=-4.0, hi=-1.0):
    """a step size m * 2^-e (m odd <= 7) log-uniform in [1e-4, 1e-1]"""
    while True:
        x = 10 ** rng.uniform(lo, hi)
        e = int(math.floor(-math.log2(x))) + 2
        m = int(round(x * 2 ** e))
        v = m / float(2 ** e)
        if 1e-4 <= v <= 1e-1:
            return v


class LinModel:
    """mean = B0 + sum_a p[a] * B[a]; a real dadi model function (params, ns, pts) -> Spectrum."""

    def __init__(self, rng, n, k, fixed=False, scale=1):
        import dadi
        self.n, self.k = n, k

        def basis():
            return dadi.Spectrum(np.array([0.0] + [scale * rng.choice([short(rng, 0.25, 3, 4), short(rng, 0.125, 1, 8), float(rng.randint(1, 4))])
                                                    for _ in range(n - 1)] + [0.0]))
        self.B = [basis() for _ in range(k)]
        self.B0 = 4 * basis() if fixed else dadi.Spectrum(np.zeros(n + 1))

    def __call__(self, params, ns, pts):
        out = self.B0 + params[0] * self.B[0]
        for a in range(1, self.k):
            out = out + params[a] * self.B[a]
        return out

    def enc(self, p, multinom, live):
        return {'B0': rats(np.asarray(self.B0.data)), 'B': [rats(np.asarray(b.data)) for b in self.B], 'p': rats(p),
                'multinom': bool(multinom), 'live': [bool(x) for x in live]}


def poisson_like(rng, mean):
    """integer-valued data scattered around the mean (any non-negative data are legitimate inputs)"""
    import dadi
    vals = [0.0]
    for m in mean[1:-1]:
        vals.append(float(max(0, round(m * math.exp(rng.gauss(0, 0.35)) + rng.gauss(0, math.sqrt(max(m, 0.1)))))))
    vals.append(0.0)
    return dadi.Spectrum(np.array(vals))


def gen_stats_case(rng, eps=None):
    n = rng.randint(5, 10)
    multinom = rng.random() < 0.4
    k = rng.choice([1, 2, 2]) if multinom else rng.choice([1, 2, 2, 3])
    scale = rng.choice([4, 16, 64])
    # with the theta augmentation the model needs a parameter-free component, otherwise (p, theta) is not identifiable
    model = LinModel(rng, n, k, fixed=multinom or rng.random() < 0.3, scale=1 if multinom else scale)
    p0 = [short(rng, 0.5, 3.0, 8) for _ in range(k)]
    mean = np.asarray(model(p0, [n], [10]).data) * (scale if multinom else 1)
    data = poisson_like(rng, mean)
    nb = k + (1 if multinom else 0) + rng.randint(2, 5)      # J (mean of nb rank-one matrices) needs more bootstraps than parameters
    boots = [poisson_like(rng, mean) for _ in range(nb)]
    eps = eps or rng.choice([short_eps(rng, -3, -1.5), short_eps(rng, -3, -1.5), short_eps(rng, -4, -3), short_eps(rng, -1.5, -1)])
    adj = None
    if not multinom and rng.random() < 0.3:
        adj = [short(rng, 0.8, 1.25, 16) for _ in range(nb)]
    nested = sorted(rng.sample(range(k), rng.randint(1, k)))
    full = [p0[a] + rng.choice([-1, 1]) * short(rng, 0.125, 0.5, 8) for a in nested]
    return {'model': model, 'p0': p0, 'multinom': multinom, 'data': data, 'boots': boots, 'eps': eps, 'adj': adj,
            'nested': nested, 'full': full, 'pts': [10]}


def stats_in(case, op, boots=None, adj=None):
    model, data = case['model'], case['data']
    boots = case['boots'] if boots is None else boots
    adj = case['adj'] if adj is None else adj
    m0 = model(case['p0'], data.sample_sizes, case['pts'])
    live = ~(np.ma.getmaskarray(m0) | np.ma.getmaskarray(data))
    use_boots = op != 'fim'
    use_adj = op in ('gim', 'lrt', 'screen') and adj is not None
    inp = {'md': model.enc(case['p0'], case['multinom'], live), 'd': rats(np.asarray(data.data)), 'eps': rat(case['eps']),
           'boots': [rats(np.asarray(b.data)) for b in boots] if use_boots else [],
           'adj': [rat(a) for a in adj] if use_adj else (['1'] * len(boots) if use_boots else []),
           'nested': [a + 1 for a in case['nested']], 'full': rats(case['full'])}
    return inp


def call_stat(case, op, func=None, boots=None, adj=None):
    """One real call, on a fresh cache unless the caller manages the cache (func given)."""
    from dadi import Godambe
    model = func if func is not None else case['model']
    if func is None:
        Godambe.cache.clear()
    boots = case['boots'] if boots is None else boots
    adj = case['adj'] if adj is None else adj
    p0, data, pts, eps, mn = list(case['p0']), case['data'], case['pts'], case['eps'], case['multinom']
    try:
        if op == 'fim':
            u, H = Godambe.FIM_uncert(model, pts, p0, data, log=False, multinom=mn, eps=eps, return_FIM=True)
            return {'u': rats(np.asarray(u, dtype=float)), 'H': rats(np.asarray(H, dtype=float))}
        if op == 'gim':
            u, G, H = Godambe.GIM_uncert(model, pts, boots, p0, data, log=False, multinom=mn, eps=eps, return_GIM=True,
                                         boot_theta_adjusts=list(adj) if adj is not None else None)
            return {'u': rats(np.asarray(u, dtype=float)), 'G': rats(np.asarray(G, dtype=float)), 'H': rats(np.asarray(H, dtype=float))}
        if op == 'lrt':
            v = Godambe.LRT_adjust(model, pts, boots, p0, data, list(case['nested']), multinom=mn, eps=eps,
                                   boot_theta_adjusts=list(adj) if adj is not None else None)
            return {'v': rat(float(v))}
        if op == 'wald':
            a, o = Godambe.Wald_stat(model, pts, boots, p0, data, list(case['nested']), list(case['full']), multinom=mn, eps=eps,
                                     adj_and_org=True)
            return {'adj': rat(float(a)), 'org': rat(float(o))}
        if op == 'score':
            a, o = Godambe.score_stat(model, pts, boots, p0, data, list(case['nested']), multinom=mn, eps=eps, adj_and_org=True)
            return {'adj': rat(float(a)), 'org': rat(float(o))}
    except Exception as e:
        return {'raised': type(e).__name__}
    raise KeyError(op)


def flatten(out):
    res = []

    def walk(v):
        if isinstance(v, (list, tuple)):
            for x in v:
                walk(x)
        elif isinstance(v, dict):
            for key in sorted(v):
                walk(v[key])
        else:
            res.append(v)
    walk(out)
    return res


SITE = {'fim': 'Godambe.FIM_uncert', 'gim': 'Godambe.GIM_uncert', 'lrt': 'Godambe.LRT_adjust', 'wald': 'Godambe.Wald_stat',
        'score': 'Godambe.score_stat'}
STAT_OPS = ('fim', 'gim', 'lrt', 'wald', 'score')


def screen(cases, ops=STAT_OPS):
    """Ask TLC (Trace_Godambe!FScreen) for which statistics the closed-form comparison can decide each case.
    Returns a list of sets of decidable ops."""
    if not cases:
        return []
    recs = []
    for ci, case in enumerate(cases):
        inp = stats_in(case, 'screen')
        inp['ops'] = list(ops)
        recs.append({'id': 'screen-%d' % ci, 'op': 'screen', 'in': inp, 'out': {}})
    verdicts, _ = common.validate_trace('Trace_Godambe', recs, parallel=8)
    out = []
    for ci in range(len(cases)):
        bad = {c.split('_', 1)[1] for c in verdicts.get('screen-%d' % ci, [])}
        out.append(set(ops) - bad)
    return out


def stats_records(ctx, rng, nid):
    recs = []
    ncase = 20 if ctx.quick else 240
    cases = [gen_stats_case(rng) for _ in range(ncase)]
    ok = screen(cases)
    undecidable = sum(len(STAT_OPS) - len(o) for o in ok)
    for ci, case in enumerate(cases):
        for op in STAT_OPS:
            if op not in ok[ci]:
                continue
            if op in ('wald', 'score') and case['adj'] is not None:
                continue          # Wald_stat / score_stat take no theta adjustments
            out = call_stat(case, op)
            recs.append({'id': '%s-%d' % (op, next(nid)), 'op': op, 'site': SITE[op], 'in': stats_in(case, op), 'out': out})
            if op != 'fim' and 'raised' not in out and (ci % 2 == 0 or not ctx.quick):
                # the same call with the bootstrap list (and its theta adjustments) in another order
                perm = list(range(len(case['boots'])))
                while perm == sorted(perm):
                    rng.shuffle(perm)
                b2 = [case['boots'][j] for j in perm]
                a2 = [case['adj'][j] for j in perm] if case['adj'] is not None else None
                out2 = call_stat(case, op, boots=b2, adj=a2)
                recs.append({'id': '%s-%d' % (op, next(nid)), 'op': op, 'site': SITE[op], 'in': stats_in(case, op, boots=b2, adj=a2), 'out': out2})
                if 'raised' in out2:
                    po = {'raised': out2['raised']}
                else:
                    po = {'a': flatten(out), 'b': flatten(out2)}
                recs.append({'id': 'perm-%d' % next(nid), 'op': 'perm', 'site': SITE[op], 'in': {'fn': op, 'perm': [j + 1 for j in perm]}, 'out': po})
    return recs, {'stats_cases_generated': len(cases) * len(STAT_OPS), 'stats_cases_undecidable_dropped': undecidable}


# ------------------------------------------------------------------ 3. chi-square mixture
def chi2_cdf(x, dof):
    """Regularised lower incomplete gamma P(dof/2, x/2) by its power series (stdlib only)."""
    if x <= 0:
        return 0.0
    a, z = dof / 2.0, x / 2.0
    term = 1.0 / a
    s = term
    nn = 0
    while abs(term) > 1e-18 * abs(s) and nn < 5000:
        nn += 1
        term *= z / (a + nn)
        s += term
    return min(1.0, s * math.exp(-z + a * math.log(z) - math.lgamma(a)))


def chi2_observe(x, w):
    from dadi import Godambe
    try:
        res = Godambe.sum_chi2_ppf(x, weights=w)
        if np.isscalar(res) or getattr(res, 'ndim', 1) == 0:
            return {'kind': 'scalar', 'v': [rat(float(res))]}
        return {'kind': 'array', 'v': rats(np.asarray(res, dtype=float).ravel())}
    except Exception as e:
        return {'raised': type(e).__name__}


def chi2_records(ctx, rng, nid):
    from dadi import Godambe
    recs = []
    weights = [(0, 1), (0.5, 0.5), (0.25, 0.5, 0.25), (0, 0, 1), (0.1, 0.2, 0.3, 0.4), (1.0, 0.0)]
    inputs = []
    for w in weights:
        inputs.append((w, 'pyfloat', rng.choice([0.5, 2.71, 3.84, 10.0])))
        inputs.append((w, 'npfloat', np.float64(rng.uniform(0.01, 12))))
        inputs.append((w, 'pyint', 0))
        inputs.append((w, 'list', [2.0, 3.0, 4.0]))
        inputs.append((w, 'ndarray', np.array([rng.uniform(0, 15) for _ in range(rng.randint(1, 6))])))
        inputs.append((w, 'ndarray0', np.array([0.0, 0.0, rng.uniform(0, 5)])))
    if not ctx.quick:
        for _ in range(200):
            w = rng.choice(weights)
            if rng.random() < 0.5:
                inputs.append((w, 'pyfloat', rng.uniform(0, 30)))
            else:
                inputs.append((w, 'ndarray', np.array([rng.uniform(0, 30) for _ in range(rng.randint(1, 8))])))
    for w, kind, x in inputs:
        scalar = kind in ('pyfloat', 'npfloat', 'pyint')
        xs = [float(x)] if scalar else [float(v) for v in x]
        tab = {'cdf': [[rat(chi2_cdf(v, d)) for d in range(1, len(w))] for v in xs]}
        out = chi2_observe(x, w)
        recs.append({'id': 'chi2-%d' % next(nid), 'op': 'chi2', 'site': 'Godambe.sum_chi2_ppf',
                     'in': {'x': rats(xs), 'scalar': scalar, 'w': rats(list(w)), 'input': kind}, 'tab': tab, 'out': out})
    return recs


# ------------------------------------------------------------------ 4. histories over the shared cache
def history_records(ctx, rng, nid):
    """Behaviour replay: every word over the call alphabet {A,B} x {fim,lrt} x {named, transient} up to a length bound
    (all actions of the cache machine of spec/GodambeMC.tla are always enabled, so these are its behaviours), plus
    longer random words; driven on the real module-level cache, which is cleared only at the start of a history."""
    from dadi import Godambe
    recs = []
    nsetup = 1 if ctx.quick else 6
    alphabet = [(who, fn, tr) for who in 'AB' for fn in ('fim', 'lrt') for tr in (False, True)]
    for s in range(nsetup):
        # two two-parameter models of different curvature, same parameters / sample sizes / grid
        while True:
            n = rng.randint(6, 9)
            A, Bm = LinModel(rng, n, 2, scale=16), LinModel(rng, n, 2, scale=16)
            p0 = [short(rng, 0.75, 2.5, 8), short(rng, 0.75, 2.5, 8)]
            mean = 0.5 * (np.asarray(A(p0, [n], [10]).data) + np.asarray(Bm(p0, [n], [10]).data))
            data = poisson_like(rng, mean)
            boots = [poisson_like(rng, mean) for _ in range(4)]
            eps = rng.choice([2.0 ** -7, 2.0 ** -6, 3 * 2.0 ** -8])
            nested = [rng.randrange(2)]
            base = {'p0': p0, 'multinom': False, 'data': data, 'boots': boots, 'eps': eps, 'adj': None, 'nested': nested,
                    'full': [p0[nested[0]]], 'pts': [10]}
            cA, cB = dict(base, model=A), dict(base, model=Bm)
            if all(o == {'fim', 'lrt'} for o in screen([cA, cB], ops=('fim', 'lrt'))):
                break
        hist = History(cA, cB)
        words = [w for L in (1, 2) for w in itertools.product(alphabet, repeat=L)]
        if not ctx.quick:
            words += list(itertools.product(alphabet, repeat=3))
        for _ in range(12 if ctx.quick else 60):
            words.append(tuple(rng.choice(alphabet) for _ in range(rng.randint(3, 6))))
        for word in words:
            recs.append(hist.record('history-%d' % next(nid), word))
        Godambe.cache.clear()
    return recs


class History:
    """Two models with equal (params, ns, pts); replays call words on the real module-level cache."""

    def __init__(self, cA, cB):
        from dadi import Godambe
        self.case = {'A': cA, 'B': cB}
        A, Bm = cA['model'], cB['model']
        self.A, self.Bm = A, Bm

        def modelA(params, ns, pts):
            return A(params, ns, pts)

        def modelB(params, ns, pts):
            return Bm(params, ns, pts)
        self.named = {'A': modelA, 'B': modelB}
        self.fresh = {}
        for who in 'AB':
            for fn in ('fim', 'lrt'):
                Godambe.cache.clear()
                self.fresh[(who, fn)] = call_stat(self.case[who], fn, func=self.named[who])

    def record(self, rid, word):
        from dadi import Godambe
        A, Bm, case = self.A, self.Bm, self.case
        Godambe.cache.clear()
        gc.collect()
        res = []
        for who, fn, tr in word:
            if tr:
                # a short-lived function object: it dies when the call returns
                if who == 'A':
                    res.append(call_stat(case[who], fn, func=lambda params, ns, pts: A(params, ns, pts)))
                else:
                    res.append(call_stat(case[who], fn, func=lambda params, ns, pts: Bm(params, ns, pts)))
            else:
                res.append(call_stat(case[who], fn, func=self.named[who]))
        fr = [self.fresh[(who, fn)] for who, fn, tr in word]
        inA = stats_in(case['A'], 'lrt')
        inp = {'models': {'A': inA['md'], 'B': stats_in(case['B'], 'lrt')['md']}, 'd': inA['d'], 'eps': inA['eps'], 'boots': inA['boots'],
               'adj': inA['adj'], 'nested': inA['nested'],
               'steps': [{'who': who, 'fn': fn, 'transient': tr} for who, fn, tr in word]}
        if any('raised' in r for r in res + fr):
            out = {'raised': [r.get('raised', '') for r in res + fr]}
        else:
            out = {'res': res, 'fresh': fr, 'flat': [flatten(r) for r in res], 'freshflat': [flatten(r) for r in fr]}
        return {'id': rid, 'op': 'history', 'site': 'Godambe.cache', 'in': inp, 'out': out}


# ------------------------------------------------------------------ replay: re-execute a recorded case on the current tree
def _f(x):
    return float(Fraction(x))


def case_from(inp, md=None):
    import dadi
    md = md or inp['md']
    mdl = LinModel.__new__(LinModel)
    mdl.k = len(md['B'])
    mdl.n = len(md['B0']) - 1
    mdl.B = [dadi.Spectrum(np.array([_f(x) for x in row])) for row in md['B']]
    mdl.B0 = dadi.Spectrum(np.array([_f(x) for x in md['B0']]))
    adj = [_f(a) for a in inp.get('adj', [])]
    return {'model': mdl, 'p0': [_f(x) for x in md['p']], 'multinom': md['multinom'], 'data': dadi.Spectrum(np.array([_f(x) for x in inp['d']])),
            'boots': [dadi.Spectrum(np.array([_f(x) for x in b])) for b in inp.get('boots', [])], 'eps': _f(inp['eps']),
            'adj': adj if any(a != 1.0 for a in adj) else None, 'nested': [a - 1 for a in inp['nested']],
            'full': [_f(x) for x in inp.get('full', [])], 'pts': [10]}


def reexecute(rec):
    from dadi import Godambe
    op, inp = rec['op'], rec['in']
    new = dict(rec)
    if op in ('hess', 'grad'):
        Q = np.array([[_f(v) for v in row] for row in inp['Q']])
        b = np.array([_f(v) for v in inp['b']])
        c = _f(inp['c'])
        p = [_f(v) for v in inp['p']]

        def f(x, *args):
            x = np.asarray(x, dtype=float)
            return 0.5 * float(x @ Q @ x) + float(b @ x) + c
        try:
            if op == 'hess':
                new['out'] = {'H': rats(np.asarray(Godambe.get_hess(f, list(p), _f(inp['eps'])), dtype=float))}
            else:
                new['out'] = {'g': rats(np.asarray(Godambe.get_grad(f, list(p), _f(inp['eps'])), dtype=float).ravel())}
        except Exception as e:
            new['out'] = {'raised': type(e).__name__}
        return new
    if op in SITE:
        new['out'] = call_stat(case_from(inp), op)
        return new
    if op == 'chi2':
        xs = [_f(v) for v in inp['x']]
        kind = inp['input']
        x = {'pyfloat': lambda: float(xs[0]), 'npfloat': lambda: np.float64(xs[0]), 'pyint': lambda: int(xs[0]),
             'list': lambda: list(xs), 'ndarray': lambda: np.array(xs), 'ndarray0': lambda: np.array(xs)}[kind]()
        new['out'] = chi2_observe(x, tuple(_f(w) for w in inp['w']))
        return new
    if op == 'history':
        base = dict(inp, full=[])
        cA, cB = case_from(base, inp['models']['A']), case_from(base, inp['models']['B'])
        word = [(s['who'], s['fn'], s['transient']) for s in inp['steps']]
        return History(cA, cB).record(rec['id'], word)
    return rec          # relational records (perm) are re-validated as recorded


# ------------------------------------------------------------------ binding demonstration
def mutate(rec):
    op, out = rec['op'], rec['out']
    if 'raised' in out:
        return None
    if op in ('hess', 'grad'):
        i = rec['in']
        p = [float(Fraction(x)) for x in i['p']]
        eps = float(Fraction(i['eps']))
        h = [eps if (x * eps < 1e-6 or x == 0) else eps * x for x in p]
        z = np.array([abs(x) + 2 * hh for x, hh in zip(p, h)])
        Q = np.array([[abs(float(Fraction(v))) for v in row] for row in i['Q']])
        b = np.array([abs(float(Fraction(v))) for v in i['b']])
        mag = 0.5 * z @ Q @ z + b @ z + abs(float(Fraction(i['c'])))
        if op == 'hess':
            H = out['H']
            tol = TAU_FD * mag / (h[0] * h[0])
            H[0][0] = rat(Fraction(H[0][0]) + Fraction(10 * tol + 1e-3 * (1 + abs(float(Fraction(H[0][0]))))))
        else:
            g = out['g']
            tol = TAU_FD * mag / h[0]
            g[0] = rat(Fraction(g[0]) + Fraction(10 * tol + 1e-3 * (1 + abs(float(Fraction(g[0]))))))
        return rec
    if op in ('fim', 'gim'):
        out['u'][0] = rat(Fraction(out['u'][0]) * 3)
        return rec
    if op == 'lrt':
        out['v'] = rat(Fraction(out['v']) * 3)
        return rec
    if op in ('wald', 'score'):
        out['adj'] = rat(Fraction(out['adj']) * 10 + 1)
        return rec
    if op == 'perm':
        k = max(range(len(out['a'])), key=lambda j: abs(Fraction(out['a'][j])))
        out['b'][k] = rat(Fraction(out['b'][k]) * Fraction(1001, 1000))
        return rec
    if op == 'chi2':
        out['v'][0] = rat(Fraction(out['v'][0]) + Fraction(1, 100))
        return rec
    if op == 'history':
        r0 = out['res'][0]
        if 'H' in r0:
            r0['H'][0][0] = rat(Fraction(r0['H'][0][0]) * 3)
        else:
            r0['v'] = rat(Fraction(r0['v']) * 3)
        out['flat'][0] = flatten(r0)
        return rec
    return None


def nontrivial(r):
    i, op = r['in'], r['op']
    if op in ('hess', 'grad'):
        p = [Fraction(x) for x in i['p']]
        eps = Fraction(i['eps'])
        kinds = tuple(sorted({'zero' if x == 0 else 'neg' if x < 0 else 'onesided' if x * eps < Fraction(1, 10 ** 6) else 'central' for x in p}))
        lin = all(Fraction(v) == 0 for row in i['Q'] for v in row)
        return (op, len(p), kinds, lin, int(math.floor(math.log10(float(eps)))))
    if op in SITE:
        md = i['md']
        return (op, len(md['p']), md['multinom'], len(i['boots']), tuple(i['nested']) if op in ('lrt', 'wald', 'score') else (),
                any(a != '1' for a in i['adj']), int(math.floor(math.log10(float(Fraction(i['eps']))))))
    if op == 'perm':
        return (op, i['fn'], tuple(i['perm']))
    if op == 'chi2':
        return (op, i['input'], tuple(i['w']), len(i['x']))
    if op == 'history':
        return (op, tuple((s['who'], s['fn'], s['transient']) for s in i['steps']))
    return None


def key_of(rec, clause):
    return '%s/%s' % (rec.get('site', rec['op']), clause)


def what_of(rec, clause):
    if rec['op'] == 'history':
        steps = ' '.join('%s:%s%s' % (s['who'], s['fn'], '~' if s['transient'] else '') for s in rec['in']['steps'])
        return 'call history [%s] on the shared Godambe.cache (~ = transient lambda): clause %s violated (record %s)' % (steps, clause, rec['id'])
    if rec['op'] == 'chi2':
        return 'sum_chi2_ppf(%s input, weights %s): clause %s violated, observed %s (record %s)' % (
            rec['in']['input'], [float(Fraction(w)) for w in rec['in']['w']], clause, rec['out'].get('raised', rec['out'].get('kind')), rec['id'])
    return 'record %s (%s): clause %s violated' % (rec['id'], rec.get('site', rec['op']), clause)


def records(ctx):
    logging.getLogger('Inference').setLevel(logging.CRITICAL)
    nid = itertools.count()
    recs = stencil_records(ctx, random.Random(ctx.seed + 191), nid)
    st, extra = stats_records(ctx, random.Random(ctx.seed + 192), nid)
    recs += st
    recs += chi2_records(ctx, random.Random(ctx.seed + 193), nid)
    recs += history_records(ctx, random.Random(ctx.seed + 194), nid)
    return recs, extra


def run(ctx):
    extra = {}
    extra_viol = []
    if ctx.replay:
        logging.getLogger('Inference').setLevel(logging.CRITICAL)
        recs = [reexecute(ctx.replay_payload['payload']['record'])]
        ctx.no_mc = True
    else:
        recs, extra = records(ctx)
        if not getattr(ctx, 'no_mc', False):
            # the cache machine with a key that does not keep the function object alive must be rejected by TLC
            # (demonstrates that the coherence law of the specification is not vacuous)
            r = common.tlc('GodambeMC', 'GodambeMC_cache_hashkey.cfg', workers=2)
            if r.ok or 'L_CacheCoherent' not in (r.violation or ''):
                raise common.MachineryError('GodambeMC_cache_hashkey.cfg: the hash-keyed cache model was not rejected (%s)' % r.violation)
            extra['negative_model'] = 'GodambeMC_cache_hashkey.cfg (key = number derived from the address): TLC finds the incoherent history in %d states' % r.states
    mcs = [('GodambeMC', 'GodambeMC_%s_%s.cfg' % (m, ctx.tier)) for m in ('stencil', 'stats', 'cache')]
    return common.pipeline(
        ctx, mcs, 'Trace_Godambe', recs, key_of=key_of, what_of=what_of, nontrivial_of=nontrivial, mutator=mutate, extra_cov=extra,
        rule='get_hess/get_grad on random quadratic / linear functions in 1-5 parameters (coordinates zero, tiny, near the 1e-6/eps '
             'threshold, negative, ordinary; eps log-uniform in [1e-4,1e-1]); FIM/GIM/LRT/Wald/score on random linear Poisson models '
             '(1-3 parameters, with and without theta augmentation, 3-6 bootstraps, optional theta adjustments), each also with a permuted '
             'bootstrap list; sum_chi2_ppf for scalar and array inputs and 6 weight vectors; every call word of length <= 2 (3 thorough) '
             'over {A,B}x{FIM,LRT}x{named,transient} plus random longer words on the shared cache; distinct by the tuples of nontrivial()',
        assumptions=['stencil records: |observed - stencil(exact f)| <= 1e-13 * |f|_terms / (h_i h_j)  (float evaluation of f at the stencil points)',
                     'closed-form records: parameters positive and central differences (p*eps >= 1e-6); truncation bound '
                     '2 eps^2/(1-eps)^4 * (positive part of the information), eps^2/(3(1-eps)^3) * (positive part of the score), plus '
                     'round-off 1e-13 * sum|ll terms| / (h_a h_b), propagated to first order (factor 2) through products and inverses; '
                     'cases whose perturbation is too large for the first-order bounds (rho > 1/4) are screened out by TLC before the run',
                     'log=True (derivatives in log parameters) is not exercised',
                     'chi-square cdf table from a stdlib power series of the incomplete gamma function, tolerance 1e-10',
                     'bootstrap order: outputs of the two orders agree to 1e-8 of the largest output (summation round-off only)'])
