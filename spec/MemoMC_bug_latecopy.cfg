\* DEFECTIVE design (must be refuted): the integrators copy their density only after the zero-duration early return
CONSTANTS
  MaxDepth = 1
  BaseSel = "all"
  LaySel = "C"
  ProjKeyMode = "full"
  DbetaKeyMode = "full"
  PartKeyMode = "full"
  EntryMode = "late_copy"
  XXMode = "contig"
  GodMode = "object"
  DemesMode = "pure"
  PerturbMode = "pure"
  HashMode = "ordered"
  SFSMode = "copies"
  VectorMode = "copies"
  MaskMode = "setter"
  KernelMode = "stateless"
  MaxTable = 60
SPECIFICATION Spec
CHECK_DEADLOCK FALSE
CONSTRAINT TableBound
VIEW MCView
INVARIANT TypeOK
INVARIANT AlphabetOK
INVARIANT TablesSound
INVARIANT ResultIndependentOfHistory
INVARIANT ResultIndependentOfHashSeed
INVARIANT LayoutIndependent
INVARIANT ArgumentsUnchanged
INVARIANT ResultIsFresh
