--------------------------- MODULE SpectrumOpsMC ---------------------------
(***************************************************************************)
(* Exhaustive exploration of the Spectrum state machine: the state is one  *)
(* spectrum, each public operation is an action, the laws of C08/C09/C10   *)
(* are invariants evaluated in every reachable state.  Data vectors are    *)
(* unit vectors and one generic (prime) vector: all laws are (bi)linear in *)
(* the data, so these decide them for every data vector of the shape.      *)
(***************************************************************************)
EXTENDS SpectrumOps, TLC
CONSTANTS MaxDepth, Shapes, FullMaskSize

ShapesQuick == {<<3>>, <<4>>, <<5>>, <<2,3>>, <<3,3>>, <<2,4>>, <<2,2,3>>}
ShapesThorough == ShapesQuick \cup {<<6>>, <<3,4>>, <<2,3,3>>, <<2,2,2,2>>}
ShapesThoroughBook == ShapesQuick \cup {<<3,4>>, <<2,3,3>>}       \* for the (costlier) bookkeeping laws
VARIABLES s, depth
vars == <<s, depth>>

Primes == <<"2", "3", "5", "7", "11", "13", "17", "19", "23", "29", "31", "37", "41", "43", "47", "53", "59", "61", "67", "71",
            "73", "79", "83", "89", "97", "101", "103", "107", "109", "113", "127", "131", "137", "139", "149", "151">>
DataChoices(sh) == {[k \in 1..Size(sh) |-> IF k = u THEN "1" ELSE "0"] : u \in 1..Size(sh)}
                   \cup {[k \in 1..Size(sh) |-> Primes[k]]}
CornerMask(sh) == [k \in 1..Size(sh) |-> k = 1 \/ k = Size(sh)]
MaskChoices(sh) ==
    IF Size(sh) <= FullMaskSize THEN [1..Size(sh) -> BOOLEAN]
    ELSE {[k \in 1..Size(sh) |-> FALSE], CornerMask(sh)}
         \cup {[k \in 1..Size(sh) |-> k = u] : u \in 1..Size(sh)}
         \cup {[k \in 1..Size(sh) |-> k = u \/ k = 1 \/ k = Size(sh)] : u \in 2..(Size(sh) - 1)}
Names == <<<<"A">>, <<"B">>, <<"C">>, <<"D">>, <<"E">>, <<"F">>>>
IdChoices(sh) == {<<>>, SubSeq(Names, 1, Len(sh))}

\* Initial states fix shape and data; the first step chooses mask and labels (so
\* that TLC's workers evaluate the laws on the chosen spectra in parallel).
Init == /\ depth = -1
        /\ \E sh \in Shapes : \E d \in DataChoices(sh) :
              s = [sh |-> sh, d |-> d, m |-> [k \in 1..Size(sh) |-> FALSE], f |-> FALSE, ids |-> <<>>]
Choose == /\ depth = -1 /\ depth' = 0
          /\ \E m \in MaskChoices(s.sh) : \E ids \in IdChoices(s.sh) : s' = [s EXCEPT !.m = m, !.ids = ids]

Targets(t) == {ns \in [1..Len(t.sh) -> 0..4] : CanProject(t, ns) /\ \A a \in 1..Len(ns) : ns[a] >= 1}
Perms(n) == {p \in [1..n -> 1..n] : \A i, j \in 1..n : i # j => p[i] # p[j]}

DoFold     == ~s.f /\ s' = Fold(s)
DoUnfold   == s.f /\ s' = Unfold(s)
DoMirror   == ~s.f /\ s' = Mirror(s)
DoProject  == \E ns \in Targets(s) : ns # NS(s.sh) /\ s' = Project(s, ns)
DoMarg     == Len(s.sh) >= 2 /\ \E a \in 1..Len(s.sh) : s' = Marginalize(s, {a})
DoReorder  == Len(s.sh) >= 2 /\ \E p \in Perms(Len(s.sh)) : s' = Reorder(s, p)
DoCombine  == ~s.f /\ Len(s.sh) >= 2 /\ \E a, b \in 1..Len(s.sh) : a < b /\ s' = CombineTwo(s, a, b)
DoMisid    == ~s.f /\ s' = Misid(s, "1/3")
DoScramble == ~s.f /\ NoMask(s) /\ s' = ScrambleU(s)

Next == Choose \/
        /\ depth >= 0 /\ depth < MaxDepth /\ depth' = depth + 1
        /\ (DoFold \/ DoUnfold \/ DoMirror \/ DoProject \/ DoMarg \/ DoReorder \/ DoCombine \/ DoMisid \/ DoScramble)
Spec == Init /\ [][Next]_vars

TypeOK == WellFormed(s)

\* ---------------- C08 ----------------
L_ProjTotal == (~s.f /\ NoMask(s)) => \A ns \in Targets(s) : Total(Project(s, ns)) = Total(s)
L_ProjFoldedTotal == (s.f /\ \A k \in 1..Size(s.sh) : s.m[k] = FoldedOut(s.sh, Unflat(s.sh, k)))
                        => \A ns \in Targets(s) : Total(Project(s, ns)) = Total(s)
L_ProjTwoStage == ~s.f => \A n1 \in Targets(s) : \A n2 \in Targets(Project(s, n1)) :
                     LET a == Project(Project(s, n1), n2) b == Project(s, n2) IN a.d = b.d /\ a.m = b.m
L_ProjAxisOrder == (~s.f /\ Len(s.sh) = 2) => \A ns \in Targets(s) :
                     LET a == ProjectAxis(ProjectAxis(s, 1, ns[1]), 2, ns[2])
                         b == ProjectAxis(ProjectAxis(s, 2, ns[2]), 1, ns[1]) IN a.d = b.d /\ a.m = b.m
\* a masked source entry masks exactly the target entries it has non-zero weight into
L_MaskSupport == (~s.f /\ Len(s.sh) = 1) => \A ns \in Targets(s) :
                     LET t == Project(s, ns) n == s.sh[1] - 1 IN
                     \A k \in 0..ns[1] : t.m[k + 1] = (\E h \in 0..n : s.m[h + 1] /\ RPos(Hyp(n, ns[1], h, k)) /\ HypSupport(n, ns[1], h, k))
L_ProjKeepsIds == \A ns \in Targets(s) : Project(s, ns).ids = s.ids /\ Project(s, ns).f = s.f
\* ---------------- C09 ----------------
L_FoldTotal     == ~s.f => Total(Fold(s)) = Total(s)
L_FoldMirror    == ~s.f => LET a == Fold(Mirror(s)) b == Fold(s) IN a.d = b.d /\ a.m = b.m
L_FoldUnfoldFold == ~s.f => Same(Fold(Unfold(Fold(s))), Fold(s))
L_UnfoldTotal   == s.f => Total(Unfold(s)) = Total(s)
L_MirrorInvol   == ~s.f => Same(Mirror(Mirror(s)), s)
L_Misid         == ~s.f => /\ Total(Misid(s, "1/3")) = Total(s)
                            /\ Misid(s, "0").d = s.d /\ Misid(s, "1").d = Mirror(s).d
                            /\ Fold(Misid(s, "1/3")).d = Fold(s).d
L_FoldMaskUnion == ~s.f => \A k \in 1..Size(s.sh) : LET ix == Unflat(s.sh, k) IN
                      ~FoldedOut(s.sh, ix) => (Fold(s).m[k] = (s.m[k] \/ MaskAt(s, MirrorIx(s.sh, ix))))
\* ---------------- C10 ----------------
L_MargTotal     == (~s.f /\ Len(s.sh) >= 2) => \A a \in 1..Len(s.sh) : Total(Marginalize(s, {a})) = Total(s)
L_ReorderTotal  == Len(s.sh) >= 2 => \A p \in Perms(Len(s.sh)) : Total(Reorder(s, p)) = Total(s)
L_CombineTotal  == (~s.f /\ Len(s.sh) >= 2) => \A a, b \in 1..Len(s.sh) : a < b => Total(CombineTwo(s, a, b)) = Total(s)
L_ScrambleTotal == ~s.f => Total(ScrambleU(s)) = Total(s)
L_MargProject   == (~s.f /\ Len(s.sh) >= 2) => \A a \in 1..Len(s.sh) : \A ns \in Targets(s) :
                      Marginalize(Project(s, ns), {a}).d = Project(Marginalize(s, {a}), RemoveAt(ns, a)).d
L_ReorderProject == Len(s.sh) >= 2 => \A p \in Perms(Len(s.sh)) : \A ns \in Targets(s) :
                      Same(Reorder(Project(s, ns), p), Project(Reorder(s, p), [j \in 1..Len(p) |-> ns[p[j]]]))
L_ReorderFold   == (~s.f /\ Len(s.sh) >= 2) => \A p \in Perms(Len(s.sh)) : Same(Reorder(Fold(s), p), Fold(Reorder(s, p)))
L_MargFold      == (~s.f /\ Len(s.sh) >= 2) => \A a \in 1..Len(s.sh) : Marginalize(Fold(s), {a}).d = Fold(Marginalize(s, {a})).d
L_CombineFold   == (~s.f /\ Len(s.sh) >= 2) => \A a, b \in 1..Len(s.sh) : a < b =>
                      CombineTwo(Fold(s), a, b).d = Fold(CombineTwo(s, a, b)).d
L_ReorderCompose == Len(s.sh) = 3 => \A p, q \in Perms(3) :
                      Same(Reorder(Reorder(s, p), q), Reorder(s, [j \in 1..3 |-> p[q[j]]]))
L_ScrambleFixed == (~s.f /\ NoMask(s)) => ScrambleU(ScrambleU(s)).d = ScrambleU(s).d
L_IdsFollow     == (Len(s.sh) >= 2 /\ s.ids # <<>>) =>
                      /\ \A a \in 1..Len(s.sh) : Marginalize(s, {a}).ids = RemoveAt(s.ids, a)
                      /\ \A p \in Perms(Len(s.sh)) : \A j \in 1..Len(s.sh) : Reorder(s, p).ids[j] = s.ids[p[j]]

\* the neutral spectrum 1/i projects to itself (interior entries), n <= 14
NeutralSpec(n) == [sh |-> <<n + 1>>, d |-> [k \in 1..(n + 1) |-> IF k = 1 \/ k = n + 1 THEN "0" ELSE RDiv("1", RInt(k - 1))],
                   m |-> [k \in 1..(n + 1) |-> FALSE], f |-> FALSE, ids |-> <<>>]
ASSUME \A n \in 2..14 : \A mm \in 2..n : \A k \in 2..mm : Project(NeutralSpec(n), <<mm>>).d[k] = RDiv("1", RInt(k - 1))
\* hypergeometric weights are a probability distribution with the stated support
ASSUME \A n \in 1..14 : \A mm \in 1..n : \A h \in 0..n :
          /\ RSum([k \in 0..mm |-> IF HypSupport(n, mm, h, k) THEN Hyp(n, mm, h, k) ELSE "0"]) = "1"
          /\ \A k \in 0..mm : HypSupport(n, mm, h, k) <=> RPos(Hyp(n, mm, h, k))
=============================================================================
