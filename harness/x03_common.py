"""Recorders for the X-chromosome one-population machinery (extension module X03, spec/SchemeX.tla,
spec/Trace_SchemeX.tla): parameter generators, the independent Chang-Cooper table with the X variance and
drift, and driver-level event traces of Integration.one_pop_X through proxies around
_inject_mutations_1D_X and the tridiagonal solver (same technique as integrator_common.run_case)."""
import copy, itertools, math, random
from fractions import Fraction
import numpy as np
from . import common
from .common import rat, rats
from .scheme_common import rand_grid, rand_density, loguni

PNAMES = ('nu', 'gamma', 'h', 'beta', 'alpha')
SITE = 'Integration.one_pop_X'


def rand_par_x(rng):
    return {'nu': loguni(rng, 1e-2, 1e2), 'gamma': rng.choice([0.0, rng.uniform(-40, 40), rng.uniform(-2, 2)]),
            'h': rng.choice([0.5, 0.0, 1.0, rng.random()]), 'beta': rng.choice([1.0, loguni(rng, 0.2, 5), loguni(rng, 0.2, 5)]),
            'alpha': rng.choice([1.0, 0.0, loguni(rng, 0.2, 5), loguni(rng, 0.2, 5)])}


def enc_par_x(p):
    return {k: rat(p[k]) for k in PNAMES}


def delj_table_x(g, par):
    """Chang-Cooper weights of the intervals of grid g for the X variance and drift, computed independently of the
    code under test with a numerically stable formula: delj = 1 - 1/z + 1/(e^z - 1), z = 2 M dx / V at the midpoint."""
    g = [Fraction(x) for x in g]
    nu, gam, h, beta = (Fraction(par[x]) for x in ('nu', 'gamma', 'h', 'beta'))
    kv = (2 * beta + 4) * (beta + 1) / (9 * beta)
    row = []
    for i in range(len(g) - 1):
        x = (g[i] + g[i + 1]) / 2
        M = gam * Fraction(4, 3) * (Fraction(1, 2) + h + x * (1 - 2 * h)) * x * (1 - x)
        V = x * (1 - x) / nu * kv
        z = float(2 * M * (g[i + 1] - g[i]) / V)
        if z == 0:
            d = 0.5
        elif abs(z) < 1e-2:
            d = 0.5 + z / 12 - z ** 3 / 720 + z ** 5 / 30240
        elif z > 700:
            d = 1 - 1 / z
        elif z < 0:
            d = -1 / z + (math.exp(z) / math.expm1(z) if z > -700 else 0.0)
        else:
            d = 1 - 1 / z + 1 / math.expm1(z)
        row.append(rat(d))
    return row


# ----------------------------------------------------------------------------------------------- driver traces
def gen_case_x(rng, mode=None, kind=None, n=None):
    """A JSON-able description of one call of one_pop_X.  Parameters are c0 + c1*t; the names in 'asfunc' are
    passed as functions of time, the others as numbers."""
    mode = mode or rng.choice(['const', 'const', 'const', 'const', 'funcconst', 'linear'])
    kind = kind or rng.choice(['normal'] * 8 + ['zero', 'backwards', 'frozen', 'badvalue'])
    n = n or rng.choice([7, 12, 20])
    names = list(PNAMES) + ['theta0']
    asfunc = [] if mode == 'const' else sorted(rng.sample(names, rng.randint(1, len(names))))

    def par(name, lo, hi, zero_ok=False, logu=False):
        c0 = 0.0 if (zero_ok and rng.random() < 0.3) else (loguni(rng, lo, hi) if logu else rng.uniform(lo, hi))
        c1 = 0.0
        if mode == 'linear' and name in asfunc and rng.random() < 0.8 and c0 != 0.0:
            c1 = c0 * rng.uniform(-0.3, 0.3)
        return {'c0': c0, 'c1': c1}
    p = {'nu': par('nu', 1e-2, 1e2, logu=True), 'gamma': par('gamma', -40, 40, zero_ok=True),
         'h': {'c0': rng.choice([0.5, 0.0, 1.0, rng.random()]), 'c1': 0.0},
         'beta': ({'c0': 1.0, 'c1': 0.0} if rng.random() < 0.3 else par('beta', 0.2, 5, logu=True)),
         'alpha': ({'c0': rng.choice([1.0, 0.0]), 'c1': 0.0} if rng.random() < 0.3 else par('alpha', 0.2, 5, logu=True))}
    case = {'n': n, 'grid_kind': rng.choice(['exponential', 'uniform', 'random']), 'grid_seed': rng.randrange(10 ** 6),
            'phi_seed': rng.randrange(10 ** 6), 'mode': mode, 'kind': kind, 'par': p, 'theta0': par('theta0', 0.1, 5),
            'asfunc': asfunc, 'frozen': kind == 'frozen', 't0': rng.choice([0.0, 0.0, 0.3]), 'steps': rng.uniform(0.3, 4.5),
            'delj': rng.random() < 0.3}
    if kind == 'badvalue':
        which, val = rng.choice([('nu', -1.0), ('nu', 0.0), ('beta', 0.0), ('beta', -0.5), ('alpha', -0.5), ('theta0', -1.0)])
        tgt = case['theta0'] if which == 'theta0' else p[which]
        tgt['c0'], tgt['c1'] = val, 0.0
        case['bad'] = which
    return case


def _encf(f):
    return {'c0': rat(f['c0']), 'c1': rat(f['c1'])}


class _Log:
    def __init__(self, tid):
        self.ev = []
        self.tid = tid
        self.n = itertools.count()

    def add(self, op, **kw):
        d = {'id': 'x%d-%d' % (self.tid, next(self.n)), 'tid': 'x%d' % self.tid, 'op': op}
        d.update(kw)
        self.ev.append(d)


def run_case_x(case, tid):
    """Run the real one_pop_X under proxies; return the event list (one trace)."""
    from dadi import Integration
    xx = rand_grid(random.Random(case['grid_seed']), case['n'], case['grid_kind'])
    phi0 = rand_density(random.Random(case['phi_seed']), [case['n']])
    log = _Log(tid)
    allp = dict(case['par'])
    allp['theta0'] = case['theta0']
    kwargs = {}
    for name, f in allp.items():
        if name in case['asfunc']:
            kwargs[name] = (lambda t, c0=f['c0'], c1=f['c1']: c0 + c1 * t)
        else:
            kwargs[name] = f['c0']
    if case['frozen']:
        kwargs['frozen'] = True
    t0 = case['t0']
    if case['kind'] == 'zero':
        T = t0
    elif case['kind'] == 'backwards':
        T = t0 - 0.1
    elif case['kind'] == 'badvalue':
        T = t0 + 0.01
    else:
        p = case['par']
        dt0 = Integration._compute_dt(np.diff(xx), p['nu']['c0'], [0], p['gamma']['c0'], p['h']['c0'])
        T = t0 + case['steps'] * dt0
    delj_on = bool(case.get('delj'))
    log.add('call', **{'in': {'g': rats(xx), 'phi': rats(phi0), 'T': rat(T), 't0': rat(t0),
                              'par': {k: _encf(case['par'][k]) for k in PNAMES}, 'theta0': _encf(case['theta0']),
                              'frozen': bool(case['frozen']), 'asfunc': list(case['asfunc']), 'mode': case['mode'], 'kind': case['kind'],
                              'delj': delj_on, 'func': 'one_pop_X'}})
    clock = {'t': t0}

    def par_now():
        return {k: case['par'][k]['c0'] + case['par'][k]['c1'] * clock['t'] for k in PNAMES}
    real_tri, real_inj, real_delj = Integration.tridiag, Integration._inject_mutations_1D_X, Integration.use_delj_trick

    class Tri:
        def __getattr__(self, name):
            f = getattr(real_tri, name)
            if name != 'tridiag':
                return f

            def wrapped(a, b, c, r):
                u = f(a, b, c, r)
                extra = {'deljtab': delj_table_x(xx, par_now())} if delj_on else {}
                log.add('sweep', a=rats(a), b=rats(b), c=rats(c), r=rats(r), after=rats(u), **extra)
                return u
            return wrapped

    def inj(phi, dt, *a):
        before = rats(np.asarray(phi))
        out = real_inj(phi, dt, *a)
        clock['t'] += float(dt)
        log.add('inject', dt=rat(dt), before=before, after=rats(np.asarray(out)))
        return out
    Integration.tridiag, Integration._inject_mutations_1D_X = Tri(), inj
    Integration.use_delj_trick = delj_on
    arg = phi0.copy()
    try:
        try:
            out = Integration.one_pop_X(arg, xx, T, initial_t=t0, **kwargs)
            log.add('return', out=rats(np.asarray(out)), input=rats(arg))
        except Exception as ex:
            log.add('raise', exc=type(ex).__name__, input=rats(arg))
    finally:
        Integration.tridiag, Integration._inject_mutations_1D_X = real_tri, real_inj
        Integration.use_delj_trick = real_delj
    return log.ev


def validate(traces, parallel=4):
    allrecs = [e for tr in traces for e in tr]
    return common.validate_trace('Trace_SchemeX', allrecs, parallel=parallel, groups=traces)


def mutate_trace(tr, how):
    """Corrupt a trace (binding demonstration): drop one sweep, or turn an exception into a return of the input."""
    tr = copy.deepcopy(tr)
    idx = [i for i, e in enumerate(tr) if e['op'] == 'sweep']
    if how == 'skip' and idx:
        del tr[idx[len(idx) // 2]]
    elif how == 'swallow' and tr[-1]['op'] == 'raise' and tr[-1]['exc'] == 'ValueError':
        tr[-1] = {'id': tr[-1]['id'], 'tid': tr[-1]['tid'], 'op': 'return', 'out': tr[0]['in']['phi'], 'input': tr[0]['in']['phi']}
    else:
        return None
    for e in tr:
        e['tid'] = 'MUT-' + e['tid']
        e['id'] = 'MUT-' + e['id']
    return tr


def driver_cases(ctx, rng):
    cases = []
    n_rand = 16 if ctx.quick else 120
    for _ in range(n_rand):
        cases.append(gen_case_x(rng))
    # deterministic coverage: every kind x (constant | function) and every refused value
    for kind in ('normal', 'zero', 'backwards', 'frozen'):
        for mode in ('const', 'funcconst', 'linear'):
            cases.append(gen_case_x(rng, mode=mode, kind=kind, n=7))
    for which, val in [('nu', -1.0), ('nu', 0.0), ('beta', 0.0), ('beta', -0.5), ('alpha', -0.5), ('theta0', -1.0)]:
        c = gen_case_x(rng, mode='const', kind='normal', n=7)
        c['kind'] = 'badvalue'
        tgt = c['theta0'] if which == 'theta0' else c['par'][which]
        tgt['c0'], tgt['c1'] = val, 0.0
        c['bad'] = which
        cases.append(c)
    # alpha = 0 and theta0 = 0 are legal
    c = gen_case_x(rng, mode='const', kind='normal', n=7)
    c['par']['alpha'] = {'c0': 0.0, 'c1': 0.0}
    c['theta0'] = {'c0': 0.0, 'c1': 0.0}
    cases.append(c)
    # the Chang-Cooper switch with and without selection
    for g0 in (0.0, -25.0, 30.0):
        c = gen_case_x(rng, mode='const', kind='normal', n=12)
        c['par']['gamma'] = {'c0': g0, 'c1': 0.0}
        c['delj'] = True
        cases.append(c)
    return cases


def add_driver_traces_x(ctx, res, rng):
    """Generate driver traces of one_pop_X, validate them with Trace_SchemeX and merge into the pipeline result."""
    cases = driver_cases(ctx, rng)
    traces = [run_case_x(case, tid) for tid, case in enumerate(cases)]
    verdicts, st = validate(traces)
    muts = [m for m in (mutate_trace(tr, 'skip') for tr in traces[:40]) if m][:10]
    muts += [m for m in (mutate_trace(tr, 'swallow') for tr in traces) if m][:4]
    mv, _ = validate(muts, parallel=4)
    missed = [m[0]['tid'] for m in muts if m[0]['tid'] not in mv]
    if missed or not muts:
        raise common.MachineryError('binding demonstration failed: corrupted driver traces accepted: %s' % missed[:4])
    for tid, clauses in verdicts.items():
        case = cases[int(tid[1:])]
        for c in clauses:
            res['violations'].append({'key': '%s/%s' % (SITE, c),
                                      'what': 'driver trace %s (one_pop_X, %s parameters, kind=%s): clause %s violated' % (tid, case['mode'], case['kind'], c),
                                      'payload': {'case': case, 'clause': c, 'trace_spec': 'Trace_SchemeX', 'driver': True}})
    cov = res['coverage']
    outcome = {}
    for tr, case in zip(traces, cases):
        k = '%s/%s%s -> %s' % (case['mode'], case['kind'], '/delj' if case.get('delj') else '',
                               tr[-1]['op'] + (':' + tr[-1]['exc'] if tr[-1]['op'] == 'raise' else ''))
        outcome[k] = outcome.get(k, 0) + 1
    cov['traces_validated_against_impl'] += len(traces)
    cov['states'] += st['states']
    cov['transitions'] += st['transitions']
    cov['driver_traces'] = {'traces': len(traces), 'events': sum(len(t) for t in traces), 'sweeps': sum(1 for t in traces for e in t if e['op'] == 'sweep'),
                            'rejected': len(verdicts), 'by_mode_kind_outcome': outcome,
                            'binding_demo': {'mutated_traces': len(muts), 'rejected': len(muts) - len(missed)}, 'wall_s': round(st['wall'], 1)}
    cov['evaluations'] += len(traces)
    cov['distinct_nontrivial'] += len({(c['mode'], c['kind'], tuple(c['asfunc']), bool(c.get('delj')), c.get('bad')) for c in cases})
    cov['samples'].append({'driver_case': cases[0], 'events': [e['op'] for e in traces[0]]})
    return res


def replay_driver(ctx, pay):
    case = pay['case']
    tr = run_case_x(case, 0)
    verdicts, st = validate([tr], parallel=1)
    viol = []
    for tid, clauses in verdicts.items():
        for c in clauses:
            viol.append({'key': '%s/%s' % (SITE, c), 'what': 'replayed driver trace: clause %s violated' % c, 'payload': pay})
    return {'coverage': {'states': st['states'], 'transitions': st['transitions'], 'traces_validated_against_impl': 1, 'samples': [case]},
            'assumptions': [], 'violations': viol}
