CONSTANTS
  Tau = "1/1000000000000"
  TauS = "1/10000000000"
SPECIFICATION Spec
CHECK_DEADLOCK FALSE
INVARIANT Done
POSTCONDITION AllConsumed
