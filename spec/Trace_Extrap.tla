---------------------------- MODULE Trace_Extrap ----------------------------
(***************************************************************************)
(* Trace validation for module Extrap (C07).  One record = one call of a   *)
(* function produced by the real Numerics.make_extrap_func /               *)
(* make_extrap_log_func around a model whose dependence on the grid        *)
(* spacing x is a known polynomial:                                        *)
(*   in : the dispatch flags (log, kw, scalar, noex, xsrc, fm), pts, the x *)
(*        of every grid (xs), what the model returned for every grid (ys,  *)
(*        exact values of the floats), its mask / labels, the polynomial's *)
(*        coefficients per entry (coef), a permutation (perm) under which  *)
(*        the call was repeated; for real dadi models (phi_1D sampled by   *)
(*        Spectrum.from_phi) xs is the extrap_x found on the results and   *)
(*        grid1 the first interior point of the grid used;                 *)
(*   out: the raw result (v, m, ids), the result of the permuted call      *)
(*        (alt), the argument tuples the model was called with (calls); or *)
(*        raised / list (no_extrap);                                       *)
(*   tab: natural logarithms computed by the recorder with math.log at the *)
(*        observed floats (positional, each entry <<argument, value>>);    *)
(*        TLC never evaluates a logarithm or an exponential.               *)
(* A float evaluation of sum_j w_j y_j is accepted within Tau * sum_j      *)
(* |w_j||y_j| (backward-error scale); in log mode the comparison is made   *)
(* between logarithms, within Tau * (1 + sum_j |w_j||ln y_j|).             *)
(***************************************************************************)
EXTENDS Extrap, TLC, Json, IOUtils
CONSTANTS Tau

Trace == JsonDeserialize(IOEnv.TRACE_FILE)
VARIABLE i
F(name, ok) == IF ok THEN {} ELSE {name}
Raised(r) == "raised" \in DOMAIN r.out
Has(rec, fld) == fld \in DOMAIN rec
PolyDeg(c) == LET nz == {n \in 1..Len(c) : c[n] # "0"} IN IF nz = {} THEN 0 ELSE (CHOOSE n \in nz : \A m \in nz : m <= n) - 1
Within(a, b, t) == IsNum(a) /\ RLeq(RAbs(RSub(a, b)), t)
ToSet(q) == {q[j] : j \in 1..Len(q)}

\* ---------------- linear mode, one unmasked entry ----------------
LinEntry(r, w, e) ==
    LET k    == Len(r.in.xs)
        ys   == [j \in 1..k |-> r.in.ys[j][e]]
        E    == RDot(w, ys)
        t    == RMul(Tau, RSum([j \in 1..k |-> RMul(RAbs(w[j]), RAbs(ys[j]))]))
        got  == r.out.v[e]
        best == ys[ArgMin(r.in.xs)]
        lo   == RSub(E, t)
        hi   == RAdd(E, t)
        determined == RSign(best) # 0 /\ RSign(lo) = RSign(best) /\ RSign(hi) = RSign(best)
        rlo  == RDiv(RMin(RAbs(lo), RAbs(hi)), RAbs(best))
        rhi  == RDiv(RMax(RAbs(lo), RAbs(hi)), RAbs(best))
        up   == Pow10(r.in.fm)
        dn   == RDiv("1", up)
        mustFail == determined /\ (RLt(rhi, dn) \/ RGt(rlo, up))
        mustNot  == k = 1 \/ (determined /\ RGeq(rlo, dn) /\ RLeq(rhi, up))
        c    == IF r.in.coef = <<>> THEN <<>> ELSE r.in.coef[e]
    IN  IF mustNot THEN F("Formula", Within(got, E, t)) \cup
                        (IF c # <<>> /\ PolyDeg(c) < k THEN F("PolyExact", Within(got, c[1], t)) ELSE {}) \cup
                        (IF Has(r.out, "alt") THEN F("OrderIndependent", Within(r.out.alt[e], got, RMul("2", t))) ELSE {})
        ELSE IF mustFail THEN F("Fallback", got = best) \cup
                        (IF Has(r.out, "alt") THEN F("OrderIndependent", r.out.alt[e] = got) ELSE {})
        ELSE F("Formula", Within(got, E, t) \/ got = best)

\* ---------------- log mode, one unmasked entry ----------------
LogEntry(r, w, e) ==
    LET k    == Len(r.in.xs)
        ys   == [j \in 1..k |-> r.in.ys[j][e]]
        tabOK == /\ \A j \in 1..k : r.tab.lny[j][e][1] = ys[j] /\ IsNum(r.tab.lny[j][e][2])
                 /\ r.tab.lnv[e][1] = r.out.v[e]
                 /\ (Has(r.out, "alt") => r.tab.lnalt[e][1] = r.out.alt[e])
        L    == [j \in 1..k |-> r.tab.lny[j][e][2]]
        Z    == RDot(w, L)
        t    == RMul(Tau, RAdd("1", RSum([j \in 1..k |-> RMul(RAbs(w[j]), RAbs(L[j]))])))
        got  == r.out.v[e]
        G    == r.tab.lnv[e][2]            \* ln(got), "nan" if got is not a positive number
        jb   == ArgMin(r.in.xs)
        dist == RAbs(RSub(Z, L[jb]))
        thr  == RMul(RInt(r.in.fm), r.tab.ln10)
        mustFail == k > 1 /\ RGt(RSub(dist, t), thr)
        mustNot  == k = 1 \/ RLt(RAdd(dist, t), thr)
        c    == IF r.in.coef = <<>> THEN <<>> ELSE r.in.coef[e]
        altOK == Has(r.out, "alt") => (IsNum(r.tab.lnalt[e][2]) /\ Within(r.tab.lnalt[e][2], G, RMul("2", t)))
    IN  IF ~tabOK THEN {"TableMissing"}
        ELSE IF ~IsNum(G) THEN {"Formula"}
        ELSE IF mustNot THEN F("Formula", Within(G, Z, t)) \cup
                        (IF c # <<>> /\ PolyDeg(c) < k THEN F("PolyExact", Within(G, c[1], t)) ELSE {}) \cup
                        F("OrderIndependent", altOK)
        ELSE IF mustFail THEN F("Fallback", RCloseRel(got, ys[jb], Tau, "0")) \cup F("OrderIndependent", altOK)
        ELSE F("Formula", Within(G, Z, t) \/ RCloseRel(got, ys[jb], Tau, "0"))

ValueClauses(r) ==
    LET k == Len(r.in.xs)
        n == Len(r.in.ys[1])
        w == Weights(r.in.xs)
        expectedCalls == {[pts |-> r.in.pts[j], params |-> r.in.params, ns |-> r.in.ns, extra |-> r.in.extra] : j \in 1..k}
    IN  IF Len(r.out.v) # n \/ Len(r.out.m) # n THEN {"Shape"}
        ELSE F("Labels", r.out.ids = r.in.ids) \cup
             F("Unmasked", \A e \in 1..n : ~r.in.mask[e] => ~r.out.m[e]) \cup
             F("ArgsPassed", Len(r.out.calls) = k /\ ToSet(r.out.calls) = expectedCalls) \cup
             \* real models: the x used is the extrap_x Spectrum.from_phi recorded = first interior grid point
             (IF Has(r.in, "grid1") THEN F("ExtrapXFromGrid", r.in.xs = r.in.grid1) ELSE {}) \cup
             UNION {IF r.in.mask[e] \/ r.out.m[e] THEN {} ELSE IF r.in.log THEN LogEntry(r, w, e) ELSE LinEntry(r, w, e) : e \in 1..n}

FExtrap(r) ==
    LET k == Len(r.in.xs) IN
    IF r.in.noex THEN F("NoExtrapList", Has(r.out, "list") /\ r.out.list = r.in.ys)
    ELSE IF k \notin 1..6 THEN F("OutOfRangeRefused", Raised(r))
    ELSE IF r.in.xsrc = "none" /\ k >= 2 THEN F("MissingXRefused", Raised(r))
    ELSE IF Raised(r) THEN (IF r.in.xsrc = "none" THEN {} ELSE {"UnexpectedRaise"})
    ELSE IF ~Has(r.out, "v") THEN {"NoValue"}
    ELSE IF ~Distinct(r.in.xs) THEN {"BadRecordXsNotDistinct"}
    ELSE ValueClauses(r)

Failed(r) == CASE r.op \in {"extrap_lin", "extrap_log", "no_extrap"} -> FExtrap(r) [] OTHER -> {"UnknownOp"}

\* the variables of the dispatch machine of module Extrap are not used here (records are judged
\* with the module's operators); they are frozen
Init == i = 0 /\ pc = "trace" /\ call = <<>> /\ ptsl = <<>> /\ res = <<>> /\ xl = <<>> /\ val = <<>> /\ ret = NoRet
Next == /\ i < Len(Trace)
        /\ i' = i + 1
        /\ UNCHANGED evars
        /\ LET r == Trace[i + 1] f == Failed(r) IN IF f = {} THEN TRUE ELSE PrintT(<<"BAD", r.id, f>>)
Spec == Init /\ [][Next]_<<i, evars>>
Done == (i = Len(Trace)) => PrintT(<<"DONE", i>>)
AllConsumed == TLCGet("stats").diameter - 1 = Len(Trace)
=============================================================================
