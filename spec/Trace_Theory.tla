---------------------------- MODULE Trace_Theory ----------------------------
(***************************************************************************)
(* Trace validation for C01: spectra computed by the real one-population   *)
(* machinery (equilibrium density, integrator, sampling, extrapolation) at *)
(* several time-step settings are judged against independent theory:       *)
(* module Coalescent (neutral piecewise-constant histories) and module     *)
(* Equilibrium (drift-selection equilibrium).                              *)
(***************************************************************************)
EXTENDS Coalescent, Equilibrium, TLC, Json, IOUtils
CONSTANTS Bound,       \* "3/200": every polymorphic entry within 1.5 % at a tenth of the default step
          Slack,       \* "3/20": allowance on the proportionality ratio
          Floor,       \* error floor left by the finite grid (calibrated, DESIGN C01)
          TauCont,     \* continuity tolerance across regime switches
          GridRatio    \* required shrink factor of a grid error per grid doubling

Trace == JsonDeserialize(IOEnv.TRACE_FILE)
VARIABLE i
F(name, ok) == IF ok THEN {} ELSE {name}
AllNum(q) == \A j \in 1..Len(q) : IsNum(q[j])
RMaxSeq(q) == LET RECURSIVE go(_, _)
                  go(j, m) == IF j > Len(q) THEN m ELSE go(j + 1, RMax(m, q[j]))
              IN go(1, "0")
\* largest relative error of the polymorphic entries 1..n-1 (sfs is the full data vector, index b+1)
RelErr(sfs, exact, n) == RMaxSeq([b \in 1..(n - 1) |-> RDiv(RAbs(RSub(sfs[b + 1], exact[b])), RAbs(exact[b]))])

\* TLC evaluates LET definitions and operator arguments lazily and, inside an action, re-evaluates them at every reference.
\* A variable bound by a set constructor is bound to an evaluated value: UNION {G(x) : x \in {e}} evaluates e once.
\* The expensive tables (exact spectrum, error per run) are bound that way.
FCoalJudge(runs, errs) ==
        F("WithinOnePointFivePercentAtTenthOfDefaultStep",
             \A q \in 1..Len(runs) : RLeq(runs[q].tf, "1/10000") => RLeq(errs[q], Bound)) \cup
        \* the error shrinks in proportion to the time step: err(tf2) <= (tf2/tf1 + slack) * err(tf1) + floor
        F("ErrorProportionalToTimeStep",
             \A q \in 1..(Len(runs) - 1) :
                 RLeq(errs[q + 1], RAdd(RMul(RAdd(RDiv(runs[q + 1].tf, runs[q].tf), Slack), errs[q]), Floor)))
FCoal(r) ==
    LET n == r.in.n
        runs == r.out.runs
        allok == \A q \in 1..Len(runs) : Len(runs[q].sfs) = n + 1 /\ AllNum(runs[q].sfs)
    IN  F("TableSane", TableOK(n, r.in.hist, r.in.E)) \cup
        F("SpectrumWellFormed", allok) \cup
        (IF allok
         THEN UNION { UNION { FCoalJudge(runs, errs) : errs \in {RForce([q \in 1..Len(runs) |-> RelErr(runs[q].sfs, exact, n)])} }
                      : exact \in {ExpectedSFS(n, r.in.hist, r.in.nuanc, r.in.E, r.in.theta)} }
         ELSE {})

Failed(r) ==
    CASE r.op = "coal"        -> FCoal(r)
      [] r.op = "equil_sfs"   -> FEquilSFS(r, Bound, Floor, GridRatio)
      [] r.op = "phi_regime"  -> FPhiRegime(r, TauCont)
      [] r.op = "stationary"  -> FStationary(r, GridRatio, Floor)
      [] OTHER                -> {"UnknownOp"}

Init == i = 0
Next == /\ i < Len(Trace)
        /\ i' = i + 1
        /\ LET r == Trace[i + 1] f == Failed(r) IN IF f = {} THEN TRUE ELSE PrintT(<<"BAD", r.id, f>>)
Spec == Init /\ [][Next]_i
Done == (i = Len(Trace)) => PrintT(<<"DONE", i>>)
AllConsumed == TLCGet("stats").diameter - 1 = Len(Trace)
=============================================================================
