--------------------------- MODULE Trace_Sampling ---------------------------
(***************************************************************************)
(* Trace validation for module Sampling (property C05).  Each record is    *)
(* one call of the real dadi (Spectrum.from_phi, from_phi_inbreeding,      *)
(* Numerics.BetaBinomConvolution, or a short composition with project /    *)
(* marginalize) with its exact inputs and the raw observed result.  The    *)
(* verdict for a record is the set of violated clauses.  Records that      *)
(* carry encodings of the argument objects before / after the call are     *)
(* also judged for leaving the caller's objects unchanged (FArgs).         *)
(***************************************************************************)
EXTENDS Sampling, TLC, Json, IOUtils
CONSTANTS Tau,       \* fibre-relative tolerance of the float-evaluated linear maps
          TauInb     \* same for the inbreeding path (evaluated through lgamma / exp)

Trace == JsonDeserialize(IOEnv.TRACE_FILE)
VARIABLE i
F(name, ok) == IF ok THEN {} ELSE {name}
Raised(r) == "raised" \in DOMAIN r.out

AllNum(q) == \A k \in 1..Len(q) : IsNum(q[k])
\* |got - exact| <= tau * max|exact| + floor at every entry (fibre = the whole output)
CloseSeq(got, exact, tau, floor) ==
    LET bound == RAdd(RMul(tau, RSeqMaxAbs(exact)), floor) IN
    /\ Len(got) = Len(exact)
    /\ \A k \in 1..Len(exact) : RLeq(RAbs(RSub(got[k], exact[k])), bound)
\* absolute floor for outputs that are (nearly) zero in the specification although phi is not, e.g. a density
\* that vanishes wherever the ascertainment weight does not: tau/1000 of the density's trapezoid mass
Floor(phi, grids, tau) == RMul(RDiv(tau, "1000"), TrapzAll(phi, grids))
\* dadi masks the two corner entries iff mask_corners; nothing else
MaskOK(s, mc) == \A k \in 1..Size(s.sh) : s.m[k] = (mc /\ IsCornerIx(s.sh, Unflat(s.sh, k)))

ClampAll(grids) == [a \in 1..Len(grids) |-> GClamp(grids[a])]
GridsOK(phi, grids) == /\ \A a \in 1..Len(grids) : IsGrid(grids[a])
                       /\ IsTensorOn(phi, grids)
\* rows of non-negative proportions summing to 1 (floats: to within rounding, as the implementation requires)
RowsSumToOne(A) == \A d \in 1..Len(A) : /\ RLeq(RAbs(RSub(RSum(A[d]), "1")), "1/1000000000000000")
                                          /\ \A k \in 1..Len(A[d]) : RNonNeg(A[d][k])
AllEqual(grids) == \A a \in 1..Len(grids) : grids[a] = grids[1]

\* compare an observed spectrum with the specification's
Cmp(r, exp, tag, tau, mc, floor) ==
    LET s == r.out.s IN
    F(tag \o "Shape", s.sh = exp.sh) \cup
    (IF s.sh # exp.sh THEN {}
     ELSE IF ~AllNum(s.d) THEN {tag \o "NonFinite"}
     ELSE F(tag \o "Data", CloseSeq(s.d, exp.d, tau, floor)) \cup F(tag \o "Mask", MaskOK(s, mc))) \cup
    F(tag \o "Unfolded", ~s.f)

PathSpec(path, phi, ns, grids, admix, het) ==
    CASE path = "analytic" -> Analytic(phi, ns, grids)
      [] path = "direct"   -> Direct(phi, ns, grids, [admix |-> <<>>, het |-> het])
      [] path = "admix"    -> Direct(phi, ns, grids, [admix |-> admix, het |-> 0])
PathTag(path) == CASE path = "analytic" -> "Analytic" [] path = "direct" -> "Direct" [] path = "admix" -> "Admix" [] OTHER -> "Path"
\* total over all entries = trapezoid mass of phi (binomial / admixed probabilities sum to 1 at every point)
MassOK(s, phi, grids, tau) == AllNum(s.d) => RLeq(RAbs(RSub(RSum(s.d), TrapzAll(phi, grids))), RMul(tau, TrapzAll(phi, grids)))

FFromPhi(r) ==
    LET phi == r.in.phi
        P == Len(r.in.ns)
        grids == ClampAll(r.in.grids)
        hasAdmix == r.in.admix # <<>>
        path == Dispatch(P, hasAdmix, r.in.het, r.in.force)
    IN  IF ~GridsOK(phi, grids) THEN {"BadRecord"}
        ELSE IF hasAdmix /\ ~RowsSumToOne(r.in.admix) THEN {"BadRecord"}
        ELSE IF path = "refuse" THEN F("UnsupportedRefused", Raised(r))
        \* no direct rule is provided for five populations: a refusal is accepted
        ELSE IF P = 5 /\ path # "analytic" /\ Raised(r) THEN {}
        \* the analytic path is documented to need equal grids for the first two populations
        ELSE IF path = "analytic" /\ P >= 2 /\ r.in.grids[1] # r.in.grids[2] /\ Raised(r) THEN {}
        ELSE IF Raised(r) THEN {PathTag(path) \o "Raised"}
        ELSE LET exp == PathSpec(path, phi, r.in.ns, grids, r.in.admix, r.in.het) IN
             Cmp(r, exp, PathTag(path), Tau, r.in.mc, Floor(phi, grids, Tau)) \cup
             (IF r.in.het = 0 /\ r.out.s.sh = exp.sh THEN F(PathTag(path) \o "Mass", MassOK(r.out.s, phi, grids, Tau)) ELSE {})

AllZero(Fs) == \A a \in 1..Len(Fs) : RIsZero(Fs[a])
FInbreeding(r) ==
    LET phi == r.in.phi
        P == Len(r.in.ns)
        grids == ClampAll(r.in.grids)
    IN  IF ~GridsOK(phi, grids) THEN {"BadRecord"}
        ELSE IF AllZero(r.in.Fs)      \* no inbreeding at all: the direct rule
        THEN (IF Raised(r) THEN {"InbZeroRaised"}
              ELSE Cmp(r, Direct(phi, r.in.ns, grids, [admix |-> <<>>, het |-> r.in.het]), "InbZero", Tau, r.in.mc, Floor(phi, grids, Tau)))
        ELSE IF ~CanInbreed(r.in.ns, r.in.Fs, r.in.ploidys) THEN F("IndivisibleRefused", Raised(r))
        ELSE IF P > 3 /\ Raised(r) THEN {}
        ELSE IF Raised(r) THEN {"InbRaised"}
        ELSE LET exp == Inbreeding(phi, r.in.ns, grids, r.in.Fs, r.in.ploidys, r.in.het) IN
             Cmp(r, exp, "Inb", TauInb, r.in.mc, Floor(phi, grids, TauInb)) \cup
             (IF r.in.het = 0 /\ r.out.s.sh = exp.sh THEN F("InbMass", MassOK(r.out.s, phi, grids, TauInb)) ELSE {})

\* Numerics.BetaBinomConvolution(i, m, alpha, beta, ploidy) for i = 0..m*ploidy
FBetaBinom(r) ==
    LET m == r.in.m p == r.in.ploidy row == r.out.row
        q == ConvPow(Strict([k \in 1..(p + 1) |-> BetaBinom(p, k - 1, r.in.alpha, r.in.beta)]), m)
    IN  IF Raised(r) THEN {"BetaBinomRaised"}
        ELSE IF Len(row) # m * p + 1 THEN {"BetaBinomLen"}
        ELSE IF ~AllNum(row) THEN {"BetaBinomNonFinite"}
        ELSE F("BetaBinomRow", CloseSeq(row, q, TauInb, "0")) \cup
             F("BetaBinomSumsToOne", RLeq(RAbs(RSub(RSum(row), "1")), TauInb))

TauOf(r) == IF r.in.kind = "inbreeding" THEN TauInb ELSE Tau
\* observed from_phi(a phi1 + b phi2), from_phi(phi1), from_phi(phi2) (same options)
FLinear(r) ==
    IF Raised(r) THEN {"LinearRaised"}
    ELSE LET s12 == r.out.s12 s1 == r.out.s1 s2 == r.out.s2
             comb == [k \in 1..Len(s1.d) |-> RAdd(RMul(r.in.a, s1.d[k]), RMul(r.in.b, s2.d[k]))]
         IN  IF ~(AllNum(s12.d) /\ AllNum(s1.d) /\ AllNum(s2.d)) THEN {"LinearNonFinite"}
             ELSE F("Linear", s12.sh = s1.sh /\ s1.sh = s2.sh /\ CloseSeq(s12.d, comb, TauOf(r), "0"))

SpecOf(r, phi, ns, grids, Fs, ploidys) ==
    IF r.in.kind = "inbreeding" THEN Inbreeding(phi, ns, grids, Fs, ploidys, 0)
    ELSE PathSpec(r.in.kind, phi, ns, grids, r.in.admix, 0)
\* observed from_phi(..., ns).project(ms): must be the sample of size ms
FSampleProject(r) ==
    LET grids == ClampAll(r.in.grids) IN
    IF ~GridsOK(r.in.phi, grids) THEN {"BadRecord"}
    ELSE IF Raised(r) THEN {"SampleProjectRaised"}
    ELSE LET exp == SpecOf(r, r.in.phi, r.in.ms, grids, r.in.Fs, r.in.ploidys) s == r.out.s IN
         F("SampleProjectShape", s.sh = exp.sh) \cup
         (IF s.sh # exp.sh THEN {} ELSE IF ~AllNum(s.d) THEN {"SampleProjectNonFinite"}
          ELSE F("SampleProject", CloseSeq(s.d, exp.d, TauOf(r), Floor(r.in.phi, grids, TauOf(r)))))
\* observed from_phi(...).marginalize(axes): must be the sample from phi with those populations integrated out (trapezoid
\* rule).  in.over = one population, or in.overs = several populations IN THE ORDER THE CALLER LISTED THEM: the populations
\* form a set, the order of the list means nothing (the largest is integrated out first, so the smaller numbers stay valid)
OverSet(r) == IF "overs" \in DOMAIN r.in THEN {r.in.overs[k] : k \in 1..Len(r.in.overs)} ELSE {r.in.over}
SetMax(S) == CHOOSE x \in S : \A y \in S : y <= x
RECURSIVE MargSpec(_, _, _, _, _, _, _)
MargSpec(r, phi, ns, grids, Fs, ploidys, S) ==
    IF S = {} THEN SpecOf(r, phi, ns, grids, Fs, ploidys)
    ELSE LET a == SetMax(S) IN
         MargSpec(r, TrapzAxis(phi, a, grids[a]), GRemoveAt(ns, a), GRemoveAt(grids, a), GRemoveAt(Fs, a), GRemoveAt(ploidys, a), S \ {a})
FSampleMarg(r) ==
    LET grids == ClampAll(r.in.grids) S == OverSet(r) IN
    IF ~GridsOK(r.in.phi, grids) THEN {"BadRecord"}
    ELSE IF ~(S \subseteq 1..Len(r.in.ns)) \/ Cardinality(S) >= Len(r.in.ns) THEN {"BadRecord"}
    ELSE IF Raised(r) THEN {"SampleMargRaised"}
    ELSE LET exp == MargSpec(r, r.in.phi, r.in.ns, grids, r.in.Fs, r.in.ploidys, S)
             s == r.out.s IN
         F("SampleMargShape", s.sh = exp.sh) \cup
         (IF s.sh # exp.sh THEN {} ELSE IF ~AllNum(s.d) THEN {"SampleMargNonFinite"}
          ELSE F("SampleMarg", CloseSeq(s.d, exp.d, TauOf(r), Floor(r.in.phi, grids, TauOf(r)))))
\* analytic and direct path on a grid and on the grid with every interval halved, smooth density:
\* both converge to the same limit, the gap shrinks at least 3x (second order: 4x)
FRefine(r) ==
    LET gap(a, d) == RSeqMaxAbs([k \in 1..Len(a) |-> RSub(a[k], d[k])]) IN
    IF Raised(r) THEN {"RefineRaised"}
    ELSE IF ~(AllNum(r.out.a1) /\ AllNum(r.out.d1) /\ AllNum(r.out.a2) /\ AllNum(r.out.d2)) THEN {"RefineNonFinite"}
    ELSE F("PathsConverge", RLeq(RMul("3", gap(r.out.a2, r.out.d2)), gap(r.out.a1, r.out.d1)))

\* observed from_phi_inbreeding at F1 > F2 (the same F in every population) and from_phi(force_direct):
\* the inbred spectrum approaches the direct one as F -> 0, within the coupling bound
\* sum_a n_a (ploidy_a - 1) F / (1 - F) times the mass, and the gap shrinks with F
FInbLimit(r) ==
    LET grids == ClampAll(r.in.grids)
        mass == TrapzAll(r.in.phi, grids)
        c == RInt(ISum([a \in 1..Len(r.in.ns) |-> r.in.ns[a] * (r.in.ploidys[a] - 1)]))
        bound(Fv) == RAdd(RMul(RMul(c, RDiv(Fv, RSub("1", Fv))), mass), RMul(TauInb, mass))
        gap(s, t) == RSeqMaxAbs([k \in 1..Len(t.d) |-> RSub(s.d[k], t.d[k])])
    IN  IF ~GridsOK(r.in.phi, grids) THEN {"BadRecord"}
        ELSE IF Raised(r) THEN {"InbLimitRaised"}
        ELSE IF ~(AllNum(r.out.s1.d) /\ AllNum(r.out.s2.d) /\ AllNum(r.out.t.d)) THEN {"InbLimitNonFinite"}
        ELSE F("InbreedingLimit", /\ r.out.s1.sh = r.out.t.sh /\ r.out.s2.sh = r.out.t.sh
                                  /\ RLeq(gap(r.out.s1, r.out.t), bound(r.in.F1))
                                  /\ RLeq(gap(r.out.s2, r.out.t), bound(r.in.F2))) \cup
             F("InbreedingLimitShrinks", RLt(r.in.F2, r.in.F1) /\ RLeq(gap(r.out.s2, r.out.t), RAdd(gap(r.out.s1, r.out.t), RMul(TauInb, mass))))

\* ---- state / aliasing: sampling is a function of the VALUES of its arguments ----
\* r.out.args.before / .after: bit-exact encodings <<[name, kind, dtype, sh, v]>> of the argument objects (density, grid
\* container and grids, sample sizes, admix_props / Fs / ploidys containers) as the caller wrote them and as they are
\* after the call.  Records with in.nth = 2, 3 carry the second / third of consecutive calls on the same density object
\* (same / different sample sizes); the clauses above judge them against r.in.phi, the density as the caller wrote it.
FArgs(r) ==
    IF "args" \notin DOMAIN r.out THEN {}
    ELSE LET b == r.out.args.before
             a == r.out.args.after
         IN  IF Len(a) # Len(b) THEN {"ArgumentsUnchangedBySampling"}
             ELSE {"ArgumentsUnchangedBySampling[" \o b[k].name \o "]" : k \in {j \in 1..Len(b) : a[j] # b[j]}}

FOp(r) ==
    CASE r.op = "from_phi"            -> FFromPhi(r)
      [] r.op = "from_phi_inbreeding" -> FInbreeding(r)
      [] r.op = "betabinom"           -> FBetaBinom(r)
      [] r.op = "linear"              -> FLinear(r)
      [] r.op = "sample_project"      -> FSampleProject(r)
      [] r.op = "sample_marginalize"  -> FSampleMarg(r)
      [] r.op = "refine"              -> FRefine(r)
      [] r.op = "inb_limit"           -> FInbLimit(r)
      [] OTHER                        -> {"UnknownOp"}
Failed(r) == FOp(r) \cup FArgs(r)

Init == i = 0
Next == /\ i < Len(Trace)
        /\ i' = i + 1
        /\ LET r == Trace[i + 1] f == Failed(r) IN IF f = {} THEN TRUE ELSE PrintT(<<"BAD", r.id, f>>)
Spec == Init /\ [][Next]_i
Done == (i = Len(Trace)) => PrintT(<<"DONE", i>>)
AllConsumed == TLCGet("stats").diameter - 1 = Len(Trace)
=============================================================================
