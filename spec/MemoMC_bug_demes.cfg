\* DEFECTIVE design (must be refuted): Demes.output stores mapped names into the event log
CONSTANTS
  MaxDepth = 2
  BaseSel = "memo"
  LaySel = "C"
  ProjKeyMode = "full"
  DbetaKeyMode = "full"
  PartKeyMode = "full"
  EntryMode = "copy_all"
  XXMode = "contig"
  GodMode = "object"
  DemesMode = "storeback"
  PerturbMode = "pure"
  HashMode = "ordered"
  SFSMode = "copies"
  VectorMode = "copies"
  MaskMode = "setter"
  KernelMode = "stateless"
  MaxTable = 60
SPECIFICATION Spec
CHECK_DEADLOCK FALSE
CONSTRAINT TableBound
VIEW MCView
INVARIANT TypeOK
INVARIANT AlphabetOK
INVARIANT TablesSound
INVARIANT ResultIndependentOfHistory
INVARIANT ResultIndependentOfHashSeed
INVARIANT LayoutIndependent
INVARIANT ArgumentsUnchanged
INVARIANT ResultIsFresh
