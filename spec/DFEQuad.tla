------------------------------- MODULE DFEQuad -------------------------------
(***************************************************************************)
(* C17, part B.  Integration of cached spectra over a distribution of      *)
(* fitness effects, as documented in dadi.DFE.Cache1D.integrate /          *)
(* integrate_point_pos, Cache2D.integrate / integrate_point_pos /          *)
(* integrate_symmetric_point_pos, DFE.mixture*, Vourlaki_mixture.          *)
(* All numbers are exact rationals (module Rat).                           *)
(*                                                                         *)
(* Conventions.  xs[1..n] is the cached grid of NEGATIVE gammas in         *)
(* increasing order: xs[1] is the most deleterious ("lethal") end, xs[n]   *)
(* the nearly neutral end.  A pdf is a density in |gamma|; g(i) = -xs[i].  *)
(* A spectrum is a flat sequence of m numbers.  S[i] (1-D) and S[i][j]     *)
(* (2-D; first index = gamma in population 1) are the cached spectra.      *)
(***************************************************************************)
EXTENDS Rat, Naturals, Sequences

SumTo(n, f(_)) == LET RECURSIVE go(_)
                      go(k) == IF k = 0 THEN "0" ELSE RAdd(go(k - 1), f(k))
                  IN  go(n)
Vec(m, f(_))   == [k \in 1..m |-> f(k)]
VAdd(a, b)     == [k \in DOMAIN a |-> RAdd(a[k], b[k])]
VScale(c, a)   == [k \in DOMAIN a |-> RMul(c, a[k])]
VZero(m)       == [k \in 1..m |-> "0"]

\* trapezoid rule on a (non-uniform) grid as node weights; a single node has weight 0
TrapW(xs) == LET n == Len(xs) IN
             [i \in 1..n |-> IF n = 1 THEN "0"
                             ELSE IF i = 1 THEN RHalf(RSub(xs[2], xs[1]))
                             ELSE IF i = n THEN RHalf(RSub(xs[n], xs[n - 1]))
                             ELSE RHalf(RSub(xs[i + 1], xs[i - 1]))]

(***************************************************************************)
(* 1-D.  w[i] = pdf(g(i)); tneu = mass of (0, g(n)) ("effectively          *)
(* neutral"), tdel = mass of (g(1), infinity) ("effectively lethal").      *)
(* integrate = theta * ( trapezoid of w*S  +  tneu * neutral spectrum      *)
(*                                          +  tdel * S[1] )               *)
(* and only the trapezoid when exterior_int is False.                      *)
(***************************************************************************)
Interior1D(xs, w, S, m) == LET tw == TrapW(xs) IN
                           Vec(m, LAMBDA k : SumTo(Len(xs), LAMBDA i : RMul(RMul(tw[i], w[i]), S[i][k])))
Tails1D(S, neu, tneu, tdel, m) == Vec(m, LAMBDA k : RAdd(RMul(tneu, neu[k]), RMul(tdel, S[1][k])))
Integrate1D(theta, xs, w, S, neu, tneu, tdel, ext, m) ==
    VScale(theta, IF ext THEN VAdd(Interior1D(xs, w, S, m), Tails1D(S, neu, tneu, tdel, m)) ELSE Interior1D(xs, w, S, m))
TrapMass(xs, w) == LET tw == TrapW(xs) IN SumTo(Len(xs), LAMBDA i : RMul(tw[i], w[i]))
TotalWeight1D(xs, w, tneu, tdel, ext) == IF ext THEN RAdd(TrapMass(xs, w), RAdd(tneu, tdel)) ELSE TrapMass(xs, w)

\* point masses of positive selection: pp is a sequence of [p |-> proportion, S |-> cached spectrum];
\* the continuous part keeps the remaining proportion; everything scales with theta
SumP(pp) == SumTo(Len(pp), LAMBDA a : pp[a].p)
PointPos1D(theta, cont1, pp, m) ==   \* cont1 = Integrate1D with theta = 1
    VScale(theta, Vec(m, LAMBDA k : RAdd(RMul(RSub("1", SumP(pp)), cont1[k]),
                                         SumTo(Len(pp), LAMBDA a : RMul(pp[a].p, pp[a].S[k])))))

(***************************************************************************)
(* 2-D.  W[i][j] = pdf(g(i), g(j)).  Edge masses (one gamma outside the    *)
(* cached range, the other on the grid):                                   *)
(*   e.l1[j] = mass{g1 > g(1)} at g2 = g(j)   (pop 1 lethal)   -> S[1][j]  *)
(*   e.h1[j] = mass{g1 < g(n)} at g2 = g(j)   (pop 1 neutral)  -> S[n][j]  *)
(*   e.l2[i], e.h2[i] likewise for population 2           -> S[i][1], S[i][n] *)
(* Corner masses (both outside): cn.NN -> S[n][n], cn.LN (pop 1 lethal,    *)
(* pop 2 neutral) -> S[1][n], cn.NL -> S[n][1], cn.LL -> S[1][1].          *)
(***************************************************************************)
Interior2D(xs, W, S, m) == LET tw == TrapW(xs) n == Len(xs) IN
    Vec(m, LAMBDA k : SumTo(n, LAMBDA i : SumTo(n, LAMBDA j : RMul(RMul(RMul(tw[i], tw[j]), W[i][j]), S[i][j][k]))))
Edges2D(xs, S, e, m) == LET tw == TrapW(xs) n == Len(xs) IN
    Vec(m, LAMBDA k : SumTo(n, LAMBDA i :
              RMul(tw[i], RAdd(RAdd(RMul(e.l2[i], S[i][1][k]), RMul(e.h2[i], S[i][n][k])),
                               RAdd(RMul(e.l1[i], S[1][i][k]), RMul(e.h1[i], S[n][i][k]))))))
Corners2D(n, S, cn, m) ==
    Vec(m, LAMBDA k : RAdd(RAdd(RMul(cn.NN, S[n][n][k]), RMul(cn.LL, S[1][1][k])),
                           RAdd(RMul(cn.LN, S[1][n][k]), RMul(cn.NL, S[n][1][k]))))
Exterior2D(xs, S, e, cn, m) == VAdd(Edges2D(xs, S, e, m), Corners2D(Len(xs), S, cn, m))
Integrate2D(theta, xs, W, S, e, cn, ext, m) ==
    VScale(theta, IF ext THEN VAdd(Interior2D(xs, W, S, m), Exterior2D(xs, S, e, cn, m)) ELSE Interior2D(xs, W, S, m))
TrapMass2D(xs, W) == LET tw == TrapW(xs) n == Len(xs) IN
    SumTo(n, LAMBDA i : SumTo(n, LAMBDA j : RMul(RMul(tw[i], tw[j]), W[i][j])))
EdgeMass2D(xs, e) == LET tw == TrapW(xs) IN
    SumTo(Len(xs), LAMBDA i : RMul(tw[i], RAdd(RAdd(e.l1[i], e.h1[i]), RAdd(e.l2[i], e.h2[i]))))
CornerMass2D(cn) == RAdd(RAdd(cn.NN, cn.LL), RAdd(cn.LN, cn.NL))
TotalWeight2D(xs, W, e, cn, ext) ==
    IF ext THEN RAdd(TrapMass2D(xs, W), RAdd(EdgeMass2D(xs, e), CornerMass2D(cn))) ELSE TrapMass2D(xs, W)

\* one population under positive selection (a single cached gamma), the other integrated over the marginal
\* density obtained by the trapezoid rule along the positive population's axis; no exterior terms
Marg1(xs, W, j) == LET tw == TrapW(xs) IN SumTo(Len(xs), LAMBDA i : RMul(tw[i], W[i][j]))   \* over pop 1 -> density of g2
Marg2(xs, W, i) == LET tw == TrapW(xs) IN SumTo(Len(xs), LAMBDA j : RMul(tw[j], W[i][j]))   \* over pop 2 -> density of g1
PosNeg(xs, W, Spn, m) == LET tw == TrapW(xs) IN   \* Spn[j] = spectrum at (gammapos1, xs[j])
    Vec(m, LAMBDA k : SumTo(Len(xs), LAMBDA j : RMul(RMul(tw[j], Marg1(xs, W, j)), Spn[j][k])))
NegPos(xs, W, Snp, m) == LET tw == TrapW(xs) IN   \* Snp[i] = spectrum at (xs[i], gammapos2)
    Vec(m, LAMBDA k : SumTo(Len(xs), LAMBDA i : RMul(RMul(tw[i], Marg2(xs, W, i)), Snp[i][k])))
MargMass(xs, W) == TrapMass2D(xs, W)

\* quadrant weights of the documented model; sq is the square root of p1*p2
Quadrants(rho, p1, p2, sq) ==
    LET p12 == RMul(p1, p2)
        q1 == RSub("1", p1) q2 == RSub("1", p2) IN
    [pp |-> RAdd(p12, RMul(rho, RSub(sq, p12))),
     pn |-> RMul(RSub("1", rho), RMul(p1, q2)),
     np |-> RMul(RSub("1", rho), RMul(q1, p2)),
     nn |-> RAdd(RMul(q1, q2), RMul(rho, RSub(RSub("1", sq), RMul(q1, q2))))]
QuadrantSum(q) == RAdd(RAdd(q.pp, q.pn), RAdd(q.np, q.nn))
PointPos2D(theta, q, pospos, posneg, negpos, negneg1, m) ==   \* negneg1 = Integrate2D with theta = 1, exterior on
    VScale(theta, Vec(m, LAMBDA k : RAdd(RAdd(RMul(q.pp, pospos[k]), RMul(q.pn, posneg[k])),
                                         RAdd(RMul(q.np, negpos[k]), RMul(q.nn, negneg1[k])))))

\* mixture of a perfectly correlated (1-D) and a 2-D component
Mixture(p2d, f1, f2) == VAdd(VScale(RSub("1", p2d), f1), VScale(p2d, f2))

\* Vourlaki et al.: weights of the six parts (pw = ppos_wild, pc = pchange, pcp = pchange_pos)
VourlakiW(pw, pc, pcp) ==
    LET qw == RSub("1", pw) qc == RSub("1", pc) qp == RSub("1", pcp) IN
    [m5 |-> RMul(qw, qc), m6 |-> RMul(RMul(qw, pc), qp), m7 |-> RMul(RMul(qw, pc), pcp),
     m2 |-> RMul(pw, qc), m3 |-> RMul(RMul(pw, pc), pcp), m4 |-> RMul(RMul(pw, pc), qp)]
VourlakiWSum(v) == RAdd(RAdd(RAdd(v.m5, v.m6), RAdd(v.m7, v.m2)), RAdd(v.m3, v.m4))
\* a marginal integral with its two tails: row[j] = spectrum at (positive gamma, xs[j]) (or transposed)
MargTails(xs, w, row, tneu, tdel, m) == LET tw == TrapW(xs) n == Len(xs) IN
    Vec(m, LAMBDA k : RAdd(SumTo(n, LAMBDA j : RMul(RMul(tw[j], w[j]), row[j][k])),
                           RAdd(RMul(tdel, row[1][k]), RMul(tneu, row[n][k]))))
Vourlaki(theta, v, m5, m6, m7, m2, m4) ==
    VScale(theta, VAdd(VAdd(VAdd(VScale(v.m5, m5), VScale(v.m6, m6)), VAdd(VScale(v.m7, m7), VScale(v.m2, m2))),
                       VAdd(VScale(v.m3, m2), VScale(v.m4, m4))))

(***************************************************************************)
(* Densities with exactly known node values and tail masses (so that       *)
(* conformance can be decided exactly).  A component is <<kind, par>>:     *)
(*  "pl":    piecewise linear through the node values par[i] at g(i),      *)
(*           constant par[n] on (0, g(n)), par[1]*g(1)^2/x^2 beyond g(1)   *)
(*           (neutral mass par[n]*g(n), lethal mass par[1]*g(1)); the      *)
(*           trapezoid rule is exact for it                                *)
(*  "invsq": a/(1+a x)^2 with a = par[1]  (neutral mass a g/(1+a g),       *)
(*           lethal mass 1/(1+a G))                                        *)
(* A 1-D pdf is a sequence of <<q, kind, par>> (weights q), a 2-D pdf a    *)
(* sequence of products <<q, kindx, parx, kindy, pary>>.                   *)
(***************************************************************************)
G(xs, i) == RNeg(xs[i])
CompVals(kind, par, xs) ==
    [i \in 1..Len(xs) |-> IF kind = "pl" THEN par[i]
                          ELSE LET d == RAdd("1", RMul(par[1], G(xs, i))) IN RDiv(par[1], RMul(d, d))]
CompNeu(kind, par, xs) == LET n == Len(xs) IN
    IF kind = "pl" THEN RMul(par[n], G(xs, n))
    ELSE RDiv(RMul(par[1], G(xs, n)), RAdd("1", RMul(par[1], G(xs, n))))
CompDel(kind, par, xs) ==
    IF kind = "pl" THEN RMul(par[1], G(xs, 1))
    ELSE RDiv("1", RAdd("1", RMul(par[1], G(xs, 1))))
Pdf1(comps, xs) ==
    [w    |-> [i \in 1..Len(xs) |-> SumTo(Len(comps), LAMBDA c : RMul(comps[c][1], CompVals(comps[c][2], comps[c][3], xs)[i]))],
     tneu |-> SumTo(Len(comps), LAMBDA c : RMul(comps[c][1], CompNeu(comps[c][2], comps[c][3], xs))),
     tdel |-> SumTo(Len(comps), LAMBDA c : RMul(comps[c][1], CompDel(comps[c][2], comps[c][3], xs)))]
Pdf2(comps, xs) ==
    LET n == Len(xs) nc == Len(comps)
        q(c)  == comps[c][1]
        ux(c) == CompVals(comps[c][2], comps[c][3], xs)
        vy(c) == CompVals(comps[c][4], comps[c][5], xs)
        nx(c) == CompNeu(comps[c][2], comps[c][3], xs)
        ny(c) == CompNeu(comps[c][4], comps[c][5], xs)
        dx(c) == CompDel(comps[c][2], comps[c][3], xs)
        dy(c) == CompDel(comps[c][4], comps[c][5], xs)
    IN [W |-> [i \in 1..n |-> [j \in 1..n |-> SumTo(nc, LAMBDA c : RMul(q(c), RMul(ux(c)[i], vy(c)[j])))]],
        e |-> [l1 |-> [j \in 1..n |-> SumTo(nc, LAMBDA c : RMul(q(c), RMul(dx(c), vy(c)[j])))],
               h1 |-> [j \in 1..n |-> SumTo(nc, LAMBDA c : RMul(q(c), RMul(nx(c), vy(c)[j])))],
               l2 |-> [i \in 1..n |-> SumTo(nc, LAMBDA c : RMul(q(c), RMul(ux(c)[i], dy(c))))],
               h2 |-> [i \in 1..n |-> SumTo(nc, LAMBDA c : RMul(q(c), RMul(ux(c)[i], ny(c))))]],
        cn |-> [NN |-> SumTo(nc, LAMBDA c : RMul(q(c), RMul(nx(c), ny(c)))),
                LN |-> SumTo(nc, LAMBDA c : RMul(q(c), RMul(dx(c), ny(c)))),
                NL |-> SumTo(nc, LAMBDA c : RMul(q(c), RMul(nx(c), dy(c)))),
                LL |-> SumTo(nc, LAMBDA c : RMul(q(c), RMul(dx(c), dy(c))))]]

(***************************************************************************)
(* History independence.  A cache object is a VALUE: integrate*, the       *)
(* point-mass variants (for cached positive gammas) and the mixture        *)
(* helpers read it and leave it as it was, and every operator above is a   *)
(* function of (cached spectra, grid, density, parameters, theta) only.     *)
(* A session on one object is therefore a sequence of calls whose k-th     *)
(* result is the result of that call on a freshly built object, whatever   *)
(* was called before, in whatever order, and however often:                *)
(*   Session(obj, calls)[k] = Eval(obj, calls[k])     and   obj' = obj.    *)
(* Eval(_,_) is any of the operators of this module applied to the call's  *)
(* arguments.  The two clauses judged on recorded sessions:                *)
(***************************************************************************)
Session(obj, calls, Eval(_, _)) == [k \in DOMAIN calls |-> Eval(obj, calls[k])]
\* the result observed at some position of a session on a shared object equals the one observed on a fresh object
\* (same data, same mask, bit for bit: the code is deterministic)
HistoryIndependent(shared, fresh) == shared.d = fresh.d /\ shared.m = fresh.m
\* the object after the session is the object before it (digest of gammas, negative grid and every cached spectrum)
ObjectUnchanged(before, after) == before = after
=============================================================================
