CONSTANTS
  MaxDepth = 1
  Shapes <- ShapesThorough
  FullMaskSize = 4
SPECIFICATION Spec
CHECK_DEADLOCK FALSE
INVARIANT TypeOK
INVARIANT L_Joint
INVARIANT L_Additive
INVARIANT L_FOC
INVARIANT L_Totals
INVARIANT L_ScaleInv
INVARIANT L_ScaleInvLL
INVARIANT L_Star
INVARIANT L_DataMaximises
INVARIANT L_AutoFold
INVARIANT L_Resid
