CONSTANT TauParse = "1/4000000000000000"
SPECIFICATION Spec
CHECK_DEADLOCK FALSE
INVARIANT Done
POSTCONDITION AllConsumed
