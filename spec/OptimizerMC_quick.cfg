CONSTANTS
  Tau = "1/1000000000"
  TauX = "1/1000000000000"
  MaxN = 3
  MaxEvals = 2
  FullBoxN = 2
  Bug = "none"
SPECIFICATION Spec
CHECK_DEADLOCK FALSE
INVARIANT TypeOK
INVARIANT UpDownHere
INVARIANT FirstEvalIsStart
INVARIANT EvalInBounds
INVARIANT FixedKept
INVARIANT ReturnInBounds
INVARIANT ReturnMatchesProbe
INVARIANT NoWorseThanStart
