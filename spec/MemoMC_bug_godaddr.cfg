\* DEFECTIVE design (must be refuted): Godambe.cache keyed on the address of a transient function
CONSTANTS
  MaxDepth = 2
  BaseSel = "memo"
  LaySel = "C"
  ProjKeyMode = "full"
  DbetaKeyMode = "full"
  PartKeyMode = "full"
  EntryMode = "copy_all"
  XXMode = "contig"
  GodMode = "address"
  DemesMode = "pure"
  PerturbMode = "pure"
  HashMode = "ordered"
  SFSMode = "copies"
  VectorMode = "copies"
  MaskMode = "setter"
  KernelMode = "stateless"
  MaxTable = 60
SPECIFICATION Spec
CHECK_DEADLOCK FALSE
CONSTRAINT TableBound
VIEW MCView
INVARIANT TypeOK
INVARIANT AlphabetOK
INVARIANT TablesSound
INVARIANT ResultIndependentOfHistory
INVARIANT ResultIndependentOfHashSeed
INVARIANT LayoutIndependent
INVARIANT ArgumentsUnchanged
INVARIANT ResultIsFresh
