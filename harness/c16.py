"""C16 - demes graphs and native dadi models agree in any units / order (spec/DemesIO.tla).

spec -> code: TLC (-simulate on DemesIOMC) generates dadi programs; each is run natively, exported with
dadi.Demes.output, re-imported with Spectrum.from_demes (also after unit change, rescaling, sample permutation,
with ancient samples); TLC compares the exported graph with Export(program) and decides every spectrum relation.
code -> spec: Spectrum.from_demes runs under proxies around every PhiManip / Integration call; the executed call
sequence is validated against Import(graph) by spec/Trace_DemesIO.tla.
No verdict is computed here."""
import copy, itertools, json, math, random
from fractions import Fraction
import numpy as np
from . import common
from .common import rat, rats

PROP = 'C16'
INF = float('inf')


# --------------------------------------------------------------------------
# programs: positional events (see spec/DemesIO.tla)
# --------------------------------------------------------------------------
def n_pops(prog, upto=None):
    P = 0
    for e in prog[:upto]:
        P = 1 if e['k'] == 'init' else P + 1 if e['k'] == 'split' else P - 1 if e['k'] == 'remove' else P
    return P


def max_pops(prog):
    return max(n_pops(prog, k) for k in range(1, len(prog) + 1))


def size_func(s, T):
    s0, s1, fn = s['s0'], s['s1'], s['fn']
    if fn == 'constant' or s0 == s1:
        return s0
    if fn == 'linear':
        return lambda t, a=s0, b=s1: a + (b - a) * (t / T)
    return lambda t, a=s0, b=s1: a * (b / a) ** (t / T)


def run_native(prog, pts, ns=None):
    """Execute a program with PhiManip / Integration (the hand-written dadi model).  A list of grid sizes means the
    usual extrapolated model function (Numerics.make_extrap_func), as Spectrum.from_demes does for a list."""
    import dadi
    from dadi import PhiManip, Integration, Numerics
    if isinstance(pts, (list, tuple)):
        return Numerics.make_extrap_func(lambda params, n, p: run_native(prog, p, n))(None, ns, list(pts))
    xx = Numerics.default_grid(pts)
    phi = None
    for e in prog:
        k = e['k']
        if k == 'init':
            phi = PhiManip.phi_1D(xx, nu=e['nu'])
        elif k == 'int':
            P, T, kw = phi.ndim, e['T'], {}
            for i, s in enumerate(e['sizes']):
                kw['nu' if P == 1 else 'nu%d' % (i + 1)] = size_func(s, T)
            for i in range(P):
                for j in range(P):
                    if i != j and e['mig'][i][j] != 0:
                        kw['m%d%d' % (i + 1, j + 1)] = e['mig'][i][j]
                if e['frozen'][i]:
                    kw['frozen' if P == 1 else 'frozen%d' % (i + 1)] = True
            phi = getattr(Integration, ('one_pop', 'two_pops', 'three_pops', 'four_pops', 'five_pops')[P - 1])(phi, xx, T, **kw)
        elif k == 'split':
            P, pr = phi.ndim, e['props']
            if P == 1:
                phi = PhiManip.phi_1D_to_2D(xx, phi)
            elif P == 2:
                if e.get('api') == 'split' and pr[0] in (0, 1):
                    phi = (PhiManip.phi_2D_to_3D_split_1 if pr[0] == 1 else PhiManip.phi_2D_to_3D_split_2)(xx, phi)
                elif e.get('api') == 'alias':
                    phi = PhiManip.phi_2D_to_3D(phi, pr[0], xx, xx, xx)
                else:
                    phi = PhiManip.phi_2D_to_3D_admix(phi, pr[0], xx, xx, xx)
            elif P == 3:
                phi = PhiManip.phi_3D_to_4D(phi, pr[0], pr[1], xx, xx, xx, xx)
            else:
                phi = PhiManip.phi_4D_to_5D(phi, pr[0], pr[1], pr[2], xx, xx, xx, xx, xx)
        elif k == 'pulse':
            P, pr, d = phi.ndim, e['props'], e['dest']
            oth = [pr[j] for j in range(P) if j != d - 1]
            if P == 2:
                f = (PhiManip.phi_2D_admix_2_into_1, PhiManip.phi_2D_admix_1_into_2)[d - 1]
            elif P == 3:
                f = (PhiManip.phi_3D_admix_2_and_3_into_1, PhiManip.phi_3D_admix_1_and_3_into_2, PhiManip.phi_3D_admix_1_and_2_into_3)[d - 1]
            else:
                f = getattr(PhiManip, 'phi_%dD_admix_into_%d' % (P, d))
            phi = f(phi, *oth, *([xx] * P))
        elif k == 'remove':
            if e.get('api') == 'filter':
                phi = PhiManip.filter_pops(phi, xx, [j for j in range(1, phi.ndim + 1) if j != e['i']])
            else:
                phi = PhiManip.remove_pop(phi, xx, e['i'])
        elif k == 'reorder':
            phi = PhiManip.reorder_pops(phi, e['perm'])
    if ns is None:
        return phi
    return dadi.Spectrum.from_phi(phi, ns, [xx] * phi.ndim)


def enc_prog(prog):
    out = []
    for e in prog:
        k = e['k']
        if k == 'init':
            out.append({'k': k, 'nu': rat(e['nu'])})
        elif k == 'int':
            out.append({'k': k, 'T': rat(e['T']), 'sizes': [{'s0': rat(s['s0']), 's1': rat(s['s1']), 'fn': s['fn']} for s in e['sizes']],
                        'mig': [[rat(m) for m in row] for row in e['mig']], 'frozen': [bool(f) for f in e['frozen']]})
        elif k == 'split':
            out.append({'k': k, 'props': [rat(p) for p in e['props']]})
        elif k == 'pulse':
            out.append({'k': k, 'dest': e['dest'], 'props': [rat(p) for p in e['props']]})
        elif k == 'remove':
            out.append({'k': k, 'i': e['i']})
        elif k == 'reorder':
            out.append({'k': k, 'perm': list(e['perm'])})
    return out


# --------------------------------------------------------------------------
# graphs
# --------------------------------------------------------------------------
def graph_dict(g):
    """The fields of demes.Graph.asdict() the specification talks about (plain floats)."""
    d = g.asdict()
    return {'time_units': d['time_units'], 'generation_time': float(d['generation_time']) if d.get('generation_time') is not None else 1.0,
            'demes': [{'name': x['name'], 'start_time': float(x['start_time']), 'ancestors': list(x['ancestors']),
                       'proportions': [float(p) for p in x['proportions']],
                       'epochs': [{'end_time': float(e['end_time']), 'start_size': float(e['start_size']), 'end_size': float(e['end_size']),
                                   'size_function': e['size_function']} for e in x['epochs']]} for x in d['demes']],
            'migrations': [{'source': m['source'], 'dest': m['dest'], 'start_time': float(m['start_time']), 'end_time': float(m['end_time']),
                            'rate': float(m['rate'])} for m in d.get('migrations', [])],
            'pulses': [{'sources': list(p['sources']), 'dest': p['dest'], 'time': float(p['time']),
                        'proportions': [float(q) for q in p['proportions']]} for p in d.get('pulses', [])]}


def build_graph(gd):
    import demes
    d = {'time_units': gd['time_units'], 'demes': copy.deepcopy(gd['demes']), 'migrations': copy.deepcopy(gd['migrations']),
         'pulses': copy.deepcopy(gd['pulses'])}
    if gd['time_units'] != 'generations':
        d['generation_time'] = gd['generation_time']
    return demes.Builder.fromdict(d).resolve()


def enc_graph(gd):
    return {'time_units': gd['time_units'], 'generation_time': rat(gd['generation_time']),
            'demes': [{'name': x['name'], 'start_time': rat(x['start_time']), 'ancestors': x['ancestors'], 'proportions': [rat(p) for p in x['proportions']],
                       'epochs': [{'end_time': rat(e['end_time']), 'start_size': rat(e['start_size']), 'end_size': rat(e['end_size']),
                                   'size_function': e['size_function']} for e in x['epochs']]} for x in gd['demes']],
            'migrations': [{'source': m['source'], 'dest': m['dest'], 'start_time': rat(m['start_time']), 'end_time': rat(m['end_time']),
                            'rate': rat(m['rate'])} for m in gd['migrations']],
            'pulses': [{'sources': p['sources'], 'dest': p['dest'], 'time': rat(p['time']), 'proportions': [rat(q) for q in p['proportions']]}
                       for p in gd['pulses']]}


def map_graph(gd, ft, fs, fr, **upd):
    g = copy.deepcopy(gd)
    for d in g['demes']:
        d['start_time'] = ft(d['start_time'])
        for e in d['epochs']:
            e['end_time'], e['start_size'], e['end_size'] = ft(e['end_time']), fs(e['start_size']), fs(e['end_size'])
    for m in g['migrations']:
        m['start_time'], m['end_time'], m['rate'] = ft(m['start_time']), ft(m['end_time']), fr(m['rate'])
    for p in g['pulses']:
        p['time'] = ft(p['time'])
    g.update(upd)
    return g


def scale_graph(gd, c):
    return map_graph(gd, lambda t: t * c, lambda s: s * c, lambda r: r / c)


def to_years(gd, gt, name='years'):
    """A graph in generations re-expressed in another time unit (gt units per generation)."""
    return map_graph(gd, lambda t: t * gt, lambda s: s, lambda r: r, time_units=name, generation_time=gt)


def to_generations(gd):
    gt = gd['generation_time']
    return map_graph(gd, lambda t: t / gt, lambda s: s, lambda r: r, time_units='generations', generation_time=1.0)


def frozen_name(deme, t):
    """dadi's documented label of an ancient sample: "{deme}_sampled_{time}" with the decimal point replaced."""
    return deme + '_sampled_' + '_'.join(str(float(t)).split('.'))


def pow_table(gd, stimes):
    """Powers b^x the specification looks up when it evaluates an exponential epoch inside the epoch: computed
    with math.pow at exact rational arguments (never by the code under test)."""
    F = Fraction
    B = set()
    for d in gd['demes']:
        B.add(d['start_time'])
        B.update(e['end_time'] for e in d['epochs'])
    for m in gd['migrations']:
        B.update((m['start_time'], m['end_time']))
    B.update(p['time'] for p in gd['pulses'])
    if stimes:
        B.update(stimes)
    B = sorted(F(b) for b in B if b != INF)
    tmin = F(min(stimes)) if stimes else F(0)
    tab = {}

    def add(b, x):
        if x in (0, 1) or (b, x) in tab:
            return tab.get((b, x))
        tab[(b, x)] = math.pow(float(b), float(x))
        return tab[(b, x)]
    for d in gd['demes']:
        ts = d['start_time']
        for e in d['epochs']:
            te = e['end_time']
            if e['size_function'] == 'exponential' and e['start_size'] != e['end_size'] and ts != INF:
                s0, s1, a, z = F(e['start_size']), F(e['end_size']), F(ts), F(te)
                for t in B:
                    if z < t < a:
                        add(s1 / s0, (a - t) / (a - z))
                if z < tmin < a:
                    p1 = add(s1 / s0, (a - tmin) / (a - z))
                    for t in B:
                        if tmin < t < a:
                            add(F(p1), (a - t) / (a - tmin))
            ts = te
    return [{'b': rat(b), 'x': rat(x), 'v': rat(v)} for (b, x), v in tab.items()]


# --------------------------------------------------------------------------
# proxies: one logged event per PhiManip / Integration call made by dadi.Demes.SFS
# --------------------------------------------------------------------------
_SPLITS = ('phi_1D_to_2D', 'phi_2D_to_3D_split_1', 'phi_2D_to_3D_split_2', 'phi_2D_to_3D_admix', 'phi_2D_to_3D', 'phi_3D_to_4D', 'phi_4D_to_5D')
_PULSES = {'phi_2D_admix_1_into_2': (2, 2), 'phi_2D_admix_2_into_1': (2, 1), 'phi_3D_admix_1_and_2_into_3': (3, 3),
           'phi_3D_admix_1_and_3_into_2': (3, 2), 'phi_3D_admix_2_and_3_into_1': (3, 1)}
_PULSES.update({'phi_%dD_admix_into_%d' % (P, d): (P, d) for P in (4, 5) for d in range(1, P + 1)})
_INTS = ('one_pop', 'two_pops', 'three_pops', 'four_pops', 'five_pops')


class CallLog:
    """Context manager: replaces the PhiManip / Integration entry points by logging wrappers (outermost call only)."""

    def __init__(self):
        self.events = []
        self.depth = 0
        self.saved = []
        self.split_orders = []

    def _wrap(self, mod, name, describe):
        real = getattr(mod, name)

        def wrapped(*a, **kw):
            top = self.depth == 0
            if top:
                self.events.append(describe(a, kw))
            self.depth += 1
            try:
                return real(*a, **kw)
            finally:
                self.depth -= 1
        self.saved.append((mod, name, real))
        setattr(mod, name, wrapped)

    def __enter__(self):
        import dadi, demes
        PM, IN = dadi.PhiManip, dadi.Integration

        def d_init(a, kw):
            return {'k': 'init', 'nu': rat(kw.get('nu', 1.0)), 'ids': list(kw.get('deme_ids') or [])}

        def d_int(P):
            def f(a, kw):
                T = float(a[2])

                def arg(name, default):
                    return kw.get(name, default)
                sizes = []
                for i in range(P):
                    nm = 'nu' if P == 1 else 'nu%d' % (i + 1)
                    v = a[3] if (P == 1 and len(a) > 3) else arg(nm, 1)
                    if callable(v):
                        sizes.append({'c': False, 'v': [rat(v(0.0)), rat(v(T / 3)), rat(v(T / 2)), rat(v(T))]})
                    else:
                        sizes.append({'c': True, 'v': [rat(v)] * 4})
                mig = [[rat(0 if i == j else arg('m%d%d' % (i + 1, j + 1), 0)) for j in range(P)] for i in range(P)]
                frozen = [bool(arg('frozen' if P == 1 else 'frozen%d' % (i + 1), False)) for i in range(P)]
                return {'k': 'int', 'T': rat(T - float(arg('initial_t', 0))), 'sizes': sizes, 'mig': mig, 'frozen': frozen,
                        'ids': list(arg('deme_ids', None) or [])}
            return f

        def d_split(name):
            def f(a, kw):
                ids = list(kw.get('deme_ids') or (a[-1] if isinstance(a[-1], (list, tuple)) and a[-1] and isinstance(a[-1][0], str) else []))
                if name == 'phi_1D_to_2D':
                    pr = [1]
                elif name == 'phi_2D_to_3D_split_1':
                    pr = [1, 0]
                elif name == 'phi_2D_to_3D_split_2':
                    pr = [0, 1]
                elif name in ('phi_2D_to_3D_admix', 'phi_2D_to_3D'):
                    pr = [a[1], 1 - a[1]]
                elif name == 'phi_3D_to_4D':
                    pr = [a[1], a[2], 1 - a[1] - a[2]]
                else:
                    pr = [a[1], a[2], a[3], 1 - a[1] - a[2] - a[3]]
                return {'k': 'split', 'props': [rat(p) for p in pr], 'ids': ids, 'f': name}
            return f

        def d_pulse(name):
            P, d = _PULSES[name]

            def f(a, kw):
                oth = list(a[1:P])
                pr = oth[:d - 1] + [0] + oth[d - 1:]
                return {'k': 'pulse', 'dest': d, 'props': [rat(p) for p in pr], 'f': name}
            return f
        self._wrap(PM, 'phi_1D', d_init)
        for P, nm in enumerate(_INTS, 1):
            self._wrap(IN, nm, d_int(P))
        for nm in _SPLITS:
            self._wrap(PM, nm, d_split(nm))
        for nm in _PULSES:
            self._wrap(PM, nm, d_pulse(nm))
        self._wrap(PM, 'remove_pop', lambda a, kw: {'k': 'remove', 'i': int(a[2] if len(a) > 2 else kw['popnum'])})
        self._wrap(PM, 'reorder_pops', lambda a, kw: {'k': 'reorder', 'perm': [int(v) for v in (a[1] if len(a) > 1 else kw['neworder'])]})
        # the demes library returns the children of a split in an arbitrary (hash) order: observe the order it returned
        real_dde = demes.Graph.discrete_demographic_events
        log = self

        def dde(g):
            ev = real_dde(g)
            log.split_orders = [{'parent': s.parent, 'children': list(s.children)} for s in ev['splits']]
            return ev
        self.saved.append((demes.Graph, 'discrete_demographic_events', real_dde))
        demes.Graph.discrete_demographic_events = dde
        return self

    def __exit__(self, *exc):
        for mod, name, real in reversed(self.saved):
            setattr(mod, name, real)
        return False


def run_from_demes(gd, sampled, ns, pts, stimes=None, Ne=None, log=True, as_yaml=False):
    """Spectrum.from_demes on the graph dict gd; returns (spectrum or None, events, split orders, exception text).
    as_yaml: hand from_demes the name of a YAML file instead of the Graph object."""
    import dadi
    g = build_graph(gd)
    if as_yaml:
        import demes, tempfile, os
        fd, path = tempfile.mkstemp(suffix='.yaml', dir=common.SCRATCH_ROOT)
        os.close(fd)
        try:
            demes.dump(g, path)
            kw = {}
            if stimes is not None:
                kw['sample_times'] = list(stimes)
            if Ne is not None:
                kw['Ne'] = Ne
            try:
                return dadi.Spectrum.from_demes(path, sampled_demes=list(sampled), sample_sizes=list(ns), pts=pts, **kw), None, None, None
            except Exception as ex:
                return None, None, None, '%s:%s' % (type(ex).__name__, str(ex)[:80])
        finally:
            os.remove(path)
    kw = {}
    if stimes is not None:
        kw['sample_times'] = list(stimes)
    if Ne is not None:
        kw['Ne'] = Ne
    if not log:
        try:
            return dadi.Spectrum.from_demes(g, sampled_demes=list(sampled), sample_sizes=list(ns), pts=pts, **kw), None, None, None
        except Exception as ex:
            return None, None, None, '%s:%s' % (type(ex).__name__, str(ex)[:80])
    with CallLog() as cl:
        try:
            fs, err = dadi.Spectrum.from_demes(g, sampled_demes=list(sampled), sample_sizes=list(ns), pts=pts, **kw), None
        except Exception as ex:
            fs, err = None, '%s:%s' % (type(ex).__name__, str(ex)[:80])
    return fs, cl.events, cl.split_orders, err


def flat(fs):
    """Entries of a Spectrum (masked corner entries as 0): the raw data the relations are decided on."""
    return rats(np.where(np.ma.getmaskarray(fs), 0.0, np.asarray(fs.data)).ravel())


# --------------------------------------------------------------------------
# cases -> records
# --------------------------------------------------------------------------
def _cs(case):
    return case if isinstance(case, str) else json.dumps(case)


def _site(kind, P, extra=''):
    return '%s[%s%s]' % (kind, 'P<=3' if P <= 3 else 'P=%d' % P, extra)


def _same(rid, site, law, x, y, sh, case, pi=None, mul=None, err=None):
    r = {'id': rid, 'op': 'same', 'site': site, 'in': {'law': law, 'sh': [int(s) for s in sh]}, 'case': _cs(case)}
    if pi is not None:
        r['in']['pi'] = list(pi)
    if mul is not None:
        r['in']['mul'] = rat(mul)
    r['out'] = {'raised': err} if (err or x is None or y is None) else {'x': flat(x), 'y': flat(y)}
    if 'raised' in r['out'] and not r['out']['raised']:
        r['out']['raised'] = 'reference spectrum unavailable'
    return r


def _import_record(rid, site, gd, sampled, stimes, Ne, events, orders, err, case):
    if stimes is None:
        # documented default: every deme is sampled at the end of its existence
        ends = {d['name']: d['epochs'][-1]['end_time'] for d in gd['demes']}
        if any(ends.get(x, 0.0) != 0.0 for x in sampled):
            stimes = [ends.get(x, 0.0) for x in sampled]
    r = {'id': rid, 'op': 'import', 'site': site, 'case': _cs(case),
         'in': {'graph': enc_graph(gd), 'sampled': list(sampled), 'stimes': [] if stimes is None else [rat(t) for t in stimes],
                'Ne': 'none' if Ne is None else rat(Ne),
                # dadi labels an ancient sample with the float (t - tmin) + tmin
                'fnames': [] if stimes is None else [frozen_name(d, (t - min(stimes)) + min(stimes)) for d, t in zip(sampled, stimes)],
                'ev': orders or [], 'pow': pow_table(gd, stimes)},
         'out': {'events': [{k: v for k, v in e.items() if k != 'f'} for e in (events or [])]}}
    if err:
        r['out']['raised'] = err
    return r


def with_tsf(f, fn):
    """Evaluate fn() with dadi.Integration.timescale_factor = f."""
    import dadi
    old = dadi.Integration.timescale_factor
    dadi.Integration.timescale_factor = f
    try:
        return fn()
    finally:
        dadi.Integration.timescale_factor = old


# Refinement clauses (two runs of the same model whose time steps differ: a mid-program reorder changes the order of the
# operator-splitting sweeps; the frozen branch of an ancient sample has size 1 in any units and the step depends on it).
# Level 1 = dadi.Integration.timescale_factor (1e-3), level 2 = 1/REFINE_STEP of it.  Demanded by the trace spec:
#     d1 <= REFINE_CAP   and   d2 <= REFINE_RATIO * d1 + REFINE_FLOOR        (d = max|x - y| / max|y|)
# Calibration (2026-10-04, unchanged /repo, 63 distinct refinement cases from the quick tier under VERIF_SEED = default, 1..6
# and the thorough tier under the default seed: 33 RoundTripRefines, 9 AncientEqualsFrozenBranchRefines, 21 ScaleInvarianceRefines):
#   d1 between 1e-7 and 5.0e-4 (two cases at 1e-15, decided by the floor);
#   d2/d1 for a  4x smaller step: median 0.25, max 0.54 (pre-asymptotic splitting error; a demanded 1/2 gave a false alarm);
#   d2/d1 for a 16x smaller step: min 0.045, median 0.063 (= 1/16, first order), max 0.161 (next: 0.140, 0.121, 0.095).
# So with a 16x reduction correct code stays below 0.161 < half of the demanded 2/5, while a discrepancy that does not vanish
# with the step (d2/d1 -> 1) violates the clause as soon as it exceeds ~2/3 of the splitting error d1 (<= 5e-4).
REFINE_STEP = 16
REFINE_RATIO = '2/5'
REFINE_FLOOR = '1/1000000000'
REFINE_CAP = '1/100'


def refine_record(rid, site, law, sh, case, x1, y1, fx, fy):
    """x1, y1: the two spectra at the default time step; fx(), fy() recompute them (called at the finer step)."""
    import dadi
    f1 = dadi.Integration.timescale_factor
    f2 = f1 / REFINE_STEP
    try:
        x2 = with_tsf(f2, fx)
        y2 = with_tsf(f2, fy)
        out = {'x1': flat(x1), 'y1': flat(y1), 'x2': flat(x2), 'y2': flat(y2)}
    except Exception as ex:
        out = {'raised': '%s:%s' % (type(ex).__name__, str(ex)[:80])}
    return {'id': rid, 'op': 'refine', 'site': site, 'case': _cs(case),
            'in': {'law': law, 'sh': sh, 'ratio': REFINE_RATIO, 'floor': REFINE_FLOOR, 'cap': REFINE_CAP, 'f1': rat(f1), 'f2': rat(f2)}, 'out': out}


def needs_refinement(prog):
    """A reorder followed by an integration of >= 2 populations changes the order in which the axes are swept
    (the demes front end integrates in graph order and permutes at the end): same model, different splitting error."""
    for k, e in enumerate(prog):
        if e['k'] == 'reorder' and list(e['perm']) != sorted(e['perm']) and any(x['k'] == 'int' for x in prog[k + 1:]):
            return True
    return False


def final_ids(prog):
    """Names Demes.output gives the populations that exist at the end of the program, in program order (the documented
    rule d<era>_<i>: a split, and an integration directly following another one, start a new era).  Only used to
    choose which demes to sample; a wrong name makes from_demes fail loudly."""
    ids, era = ['d1_1'], 1
    for k in range(1, len(prog)):
        e, pe = prog[k], prog[k - 1]
        if e['k'] == 'split':
            era += 1
            ids = ['d%d_%d' % (era, i + 1) for i in range(len(ids) + 1)]
        elif e['k'] == 'remove':
            ids = ids[:e['i'] - 1] + ids[e['i']:]
        elif e['k'] == 'reorder':
            ids = [ids[j - 1] for j in e['perm']]
        elif e['k'] == 'int' and pe['k'] in ('init', 'int'):
            era += 1
            ids = ['d%d_%d' % (era, i + 1) for i in range(len(ids))]
    return ids


def prog_case_records(case, rng):
    """One native program: run, export, re-import, transform.  Returns the list of records."""
    import dadi
    prog, pts, ns, Nref, gt = case['prog'], case['pts'], case['ns'], case['Nref'], case['gt']
    cid = case['id']
    P = max_pops(prog)
    recs = []
    nu0 = prog[0]['nu']
    # (a) native run and (b) export
    fs_nat = run_native(prog, pts, ns)
    exp_in = {'prog': enc_prog(prog), 'Nref': rat(Nref), 'gt': 'none' if gt is None else rat(gt)}
    try:
        g = dadi.Demes.output(Nref=Nref, generation_time=gt)
        gd = graph_dict(g)
        leaves = final_ids(prog)
        out = {'graph': enc_graph(gd)}
    except Exception as ex:
        gd = None
        out = {'raised': '%s:%s' % (type(ex).__name__, str(ex)[:80])}
    recs.append({'id': cid + '-export', 'op': 'export', 'site': _site('Demes.output', P), 'in': exp_in, 'out': out, 'case': _cs(case)})
    if gd is None or not set(leaves) <= {d['name'] for d in gd['demes']}:
        return recs          # the export record carries the verdict; nothing to sample by the documented names
    # (c) re-import (reference size = Nref, so that theta means the same as in the native program)
    Ne = None if nu0 == 1.0 else Nref
    site = _site('Spectrum.from_demes', P)
    extrap = isinstance(pts, (list, tuple))
    fs_re, events, orders, err = run_from_demes(gd, leaves, ns, pts, Ne=Ne, log=not extrap)
    if not extrap:          # (with a list of grids the calls are made once per grid; the single-grid cases carry the call check)
        recs.append(_import_record(cid + '-import', _site('Demes.SFS', P), gd, leaves, None, Ne, events, orders, err, case))
    sh = [n + 1 for n in ns]
    if needs_refinement(prog) and not err:
        recs.append(refine_record(cid + '-roundtrip', site, 'RoundTripRefines', sh, case, fs_re, fs_nat,
                                  lambda: run_from_demes(gd, leaves, ns, pts, Ne=Ne, log=False)[0], lambda: run_native(prog, pts, ns)))
    else:
        recs.append(_same(cid + '-roundtrip', site, 'RoundTrip', fs_re, fs_nat, sh, case, err=err))
    if nu0 != 1.0:
        fs_d, _, _, e2 = run_from_demes(gd, leaves, ns, pts, log=False)
        recs.append(_same(cid + '-defaultNe', site, 'DefaultNeScalesTheta', fs_d, fs_re, sh, case, mul=nu0, err=e2 or err))
    if err:
        return recs
    # (d) the same graph in other units / relative to another reference size / sampled in another order
    gen = to_generations(gd) if gd['time_units'] != 'generations' else gd
    units = case.get('units') or [[rng.choice([25.0, 29.0, 1.0, 7.5]), 'years']]
    for q, (gt2, name) in enumerate(units):
        # exported in years: back to generations first, then (for further entries) into the other unit
        g_u = gen if (gd['time_units'] != 'generations' and q == 0) else to_years(gen, gt2, name)
        fs_u, _, _, e = run_from_demes(g_u, leaves, ns, pts, Ne=Ne, log=False)
        recs.append(_same(cid + '-units%s' % (q or ''), site, 'UnitsInvariance', fs_u, fs_re, sh, case, err=e))
    for q, c in enumerate(case.get('scales') or [rng.choice([3.0, 0.5, 1 / 3., 7.3, rng.uniform(0.1, 10)])]):
        fs_s, _, _, e = run_from_demes(scale_graph(gd, c), leaves, ns, pts, Ne=None if Ne is None else Ne * c, log=False)
        recs.append(_same(cid + '-scale%s' % (q or ''), site, 'ScaleInvariance', fs_s, fs_re, sh, case, err=e))
    if len(leaves) >= 2:
        pi = list(range(1, len(leaves) + 1))
        while pi == sorted(pi):
            rng.shuffle(pi)
        for q, pi in enumerate(case.get('pis') or [pi]):
            fs_p, _, _, e = run_from_demes(gd, [leaves[j - 1] for j in pi], [ns[j - 1] for j in pi], pts, Ne=Ne, log=False)
            recs.append(_same(cid + '-perm%s' % (q or ''), site, 'SamplePermutation', fs_p, fs_re, sh, case, pi=pi, err=e))
    if case.get('yaml'):
        fs_y, _, _, e = run_from_demes(gd, leaves, ns, pts, Ne=Ne, log=False, as_yaml=True)
        recs.append(_same(cid + '-yaml', site, 'YamlFileEqualsGraphObject', fs_y, fs_re, sh, case, err=e))
    return recs


def cut_size(s, frac):
    """Size descriptor value at fraction frac (0 = start) of an integration."""
    s0, s1, fn = s['s0'], s['s1'], s['fn']
    if fn == 'constant' or s0 == s1:
        return s0
    if fn == 'linear':
        return s0 + frac * (s1 - s0)
    return s0 * (s1 / s0) ** frac


def ancient_records(case, rng):
    """Program whose last event is an integration: population a is sampled a fraction phi of that integration before
    the present.  from_demes(sample_times) is compared with the hand-written model that branches a frozen copy off."""
    import dadi
    prog, pts, ns, Nref, gt = case['prog'], case['pts'], case['ns'], case['Nref'], case['gt']
    cid, a, phi = case['id'], case['anc'], case['phi']
    e = prog[-1]
    P = len(e['sizes'])
    run_native(prog, pts)
    try:
        gd = graph_dict(dadi.Demes.output(Nref=Nref, generation_time=gt))
        leaves = final_ids(prog)
    except Exception:
        return []           # reported by the export record of the plain case
    if not set(leaves) <= {d['name'] for d in gd['demes']}:
        return []
    T = e['T']
    T1, T2 = T * (1 - phi), T * phi
    t = T2 * 2 * Nref * (gt or 1.0)
    stimes = [t if j == a - 1 else 0.0 for j in range(P)]
    mid = [cut_size(s, 1 - phi) for s in e['sizes']]
    e1 = dict(e, T=T1, sizes=[dict(s, s1=m) for s, m in zip(e['sizes'], mid)])
    e2 = {'k': 'int', 'T': T2, 'sizes': [dict(s, s0=m) for s, m in zip(e['sizes'], mid)] + [{'s0': 1.0 / Nref, 's1': 1.0 / Nref, 'fn': 'constant'}],
          'mig': [row + [0.0] for row in e['mig']] + [[0.0] * (P + 1)], 'frozen': [False] * P + [True]}
    want = prog[:-1] + [e1, {'k': 'split', 'props': [1.0 if j == a - 1 else 0.0 for j in range(P)], 'api': 'split'}, e2,
                        {'k': 'remove', 'i': a},
                        {'k': 'reorder', 'perm': [j if j < a else P if j == a else j - 1 for j in range(1, P + 1)]}]
    nu0 = prog[0]['nu']
    Ne = None if nu0 == 1.0 else Nref
    site_i = _site('Demes.SFS', P + 1, ',ancient')
    fs, events, orders, err = run_from_demes(gd, leaves, ns, pts, stimes=stimes, Ne=Ne)
    recs = [_import_record(cid + '-import', site_i, gd, leaves, stimes, Ne, events, orders, err, case)]
    sh = [n + 1 for n in ns]
    site = _site('Spectrum.from_demes', P + 1, ',ancient')
    try:
        fs_want = run_native(want, pts, ns)
    except Exception as ex:
        fs_want, err = None, err or 'native:%s:%s' % (type(ex).__name__, str(ex)[:60])
    if needs_refinement(prog) and not err:
        recs.append(refine_record(cid + '-frozen', site, 'AncientEqualsFrozenBranchRefines', sh, case, fs, fs_want,
                                  lambda: run_from_demes(gd, leaves, ns, pts, stimes=stimes, Ne=Ne, log=False)[0], lambda: run_native(want, pts, ns)))
    else:
        recs.append(_same(cid + '-frozen', site, 'AncientEqualsFrozenBranch', fs, fs_want, sh, case, err=err))
    return recs


# --------------------------------------------------------------------------
# random graphs (features dadi.Demes.output never produces)
# --------------------------------------------------------------------------
def gen_graph(rng, maxd, feats):
    """A random tree / admixture shaped graph in generations, built forwards in time level by level.
    feats: set of features to force ('tri', 'merge', 'admix', 'admix_end', 'branch', 'extinct', 'latepulse', 'pulsesplit').
    Returns (graph dict, leaves alive at 0) or None when the demes library rejects the draw."""
    import demes
    nlev = rng.randint(2, 4)
    bounds = sorted({round(rng.uniform(8, 40), 0) * k for k in range(1, nlev + 1)}, reverse=True)      # level boundaries (generations)
    times = bounds + [0.0]
    N0 = rng.choice([64.0, 100.0, float(round(rng.uniform(50, 200)))])
    cnt = itertools.count(1)
    demes_l = [{'name': 'anc', 'start_time': INF, 'ancestors': [], 'proportions': [], 'epochs': [{'end_time': times[0], 'start_size': N0, 'end_size': N0, 'size_function': 'constant'}]}]
    alive = ['anc']          # demes whose last epoch ends at the current boundary
    byname = {'anc': demes_l[0]}
    pulses, migs = [], []
    todo = set(feats)

    def size():
        return float(round(N0 * rng.choice([0.3, 0.5, 1.0, 2.0, rng.uniform(0.2, 3)])))

    def epochs(t0, t1):
        out = []
        cuts = [t1] if rng.random() < 0.6 else [round((t0 + t1) / 2, 0) if t0 != INF else t1, t1]
        cuts = sorted(set(cuts), reverse=True)
        for c in cuts:
            fn = rng.choice(['constant', 'constant', 'exponential', 'linear'])
            a = size()
            b = a if fn == 'constant' else float(round(a * rng.choice([0.25, 0.5, 2.0, 3.0])))
            out.append({'end_time': c, 'start_size': a, 'end_size': b, 'size_function': fn})
        return out

    def new(name, t0, t1, anc, props):
        d = {'name': name, 'start_time': t0, 'ancestors': list(anc), 'proportions': list(props), 'epochs': epochs(t0, t1)}
        demes_l.append(d)
        byname[name] = d
        return name
    for lv in range(len(times) - 1):
        t0, t1 = times[lv], times[lv + 1]
        nxt = []
        budget = maxd
        pool = list(alive)
        rng.shuffle(pool)
        # choose what happens to each deme ending at t0
        while pool:
            p = pool.pop()
            room = budget - len(nxt) - len(pool)
            opts = ['cont']
            if room >= 2:
                opts += ['split', 'split', 'branch']
            if room >= 3 and 'tri' in todo:
                opts = ['tri']
            if pool and room >= 1:
                opts += ['merge']
                if room >= 2:
                    opts += ['admix_end']
            if len(alive) >= 2 and lv > 0:
                opts += ['extinct'] if 'extinct' in todo else []
            forced = [o for o in opts if o in todo]
            o = rng.choice(forced) if forced else rng.choice(opts)
            todo.discard(o)
            if o == 'cont':
                if rng.random() < 0.5:          # same deme, further epochs
                    byname[p]['epochs'] += epochs(t0, t1)
                    nxt.append(p)
                else:                            # renamed successor
                    nxt.append(new('d%d' % next(cnt), t0, t1, [p], [1.0]))
            elif o in ('split', 'tri'):
                for _ in range(3 if o == 'tri' else 2):
                    nxt.append(new('d%d' % next(cnt), t0, t1, [p], [1.0]))
            elif o == 'branch':                  # p lives on, a child branches off inside the level
                byname[p]['epochs'] += epochs(t0, t1)
                nxt.append(p)
                tb = round(rng.uniform(t1 + 0.2 * (t0 - t1), t1 + 0.8 * (t0 - t1)), 1)
                nxt.append(new('d%d' % next(cnt), tb, t1, [p], [1.0]))
            elif o == 'merge':
                q = pool.pop()
                f = rng.choice([0.25, 0.5, round(rng.uniform(0.1, 0.9), 3)])
                nxt.append(new('d%d' % next(cnt), t0, t1, [p, q], [f, 1 - f]))
            elif o == 'admix_end':               # p ends by contributing to an admixed deme; q lives on
                q = pool.pop()
                byname[q]['epochs'] += epochs(t0, t1)
                nxt.append(q)
                f = rng.choice([0.25, 0.5, round(rng.uniform(0.1, 0.9), 3)])
                nxt.append(new('d%d' % next(cnt), t0, t1, [p, q], [f, 1 - f]))
            elif o == 'extinct':
                pass
        if 'admix' in todo and len(nxt) >= 2 and len(nxt) < maxd:      # both parents live on, child appears inside the level
            p, q = rng.sample([x for x in nxt if byname[x]['start_time'] >= t0], 2) if len([x for x in nxt if byname[x]['start_time'] >= t0]) >= 2 else (None, None)
            if p:
                tb = round(rng.uniform(t1 + 0.2 * (t0 - t1), t1 + 0.8 * (t0 - t1)), 1)
                f = round(rng.uniform(0.1, 0.9), 3)
                nxt.append(new('d%d' % next(cnt), tb, t1, [p, q], [f, 1 - f]))
                todo.discard('admix')
        alive = nxt
        if not alive:
            return None
        # migrations and pulses among demes that cover the whole level
        full = [x for x in alive if byname[x]['start_time'] >= t0]
        if len(full) >= 2:
            for _ in range(rng.choice([0, 1, 1, 2])):
                a, b = rng.sample(full, 2)
                s = rng.choice([t0, round(t0 - 0.3 * (t0 - t1), 0)])
                e = rng.choice([t1, round(t1 + 0.3 * (t0 - t1), 0)])
                r = rng.choice([1e-3, 5e-3, round(rng.uniform(5e-4, 2e-2), 5)])
                migs.append({'source': a, 'dest': b, 'start_time': s, 'end_time': e, 'rate': r})
                if rng.random() < 0.3:
                    migs.append({'source': b, 'dest': a, 'start_time': s, 'end_time': e, 'rate': r})
            for _ in range(rng.choice([0, 0, 1, 2])):
                a, b = rng.sample(full, 2)
                tp = rng.choice([round(rng.uniform(t1 + 0.1 * (t0 - t1), t1 + 0.9 * (t0 - t1)), 1), round((t0 + t1) / 2, 0)])
                src = [a] + ([c for c in full if c not in (a, b)][:1] if rng.random() < 0.3 else [])
                pulses.append({'sources': src, 'dest': b, 'time': tp, 'proportions': [round(rng.uniform(0.05, 0.3), 3) for _ in src]})
            if 'latepulse' in todo:
                born = [x for x in full if byname[x]['start_time'] == t0 and byname[x]['ancestors']]
                # (a source that itself ends at t0 would have to send the pulse between the birth of the destination and its own
                # end; Import does not define an order for that corner, so it is not generated)
                old = [x for x in demes_l if x['start_time'] > t0 and x['epochs'][-1]['end_time'] < t0 and x['name'] not in byname[born[0]]['ancestors']] if born else []
                if born and old:
                    pulses.append({'sources': [old[0]['name']], 'dest': born[0], 'time': t0, 'proportions': [0.2]})
                    todo.discard('latepulse')
    if 'pulsesplit' in todo:
        # a pulse out of a deme at the very time it splits (or is renamed), into a deme that lives through that time:
        # the pulse must be applied before the split
        cand = [(S, D) for S in demes_l for D in demes_l if S is not D and S['epochs'][-1]['end_time'] > 0
                and any(c['start_time'] == S['epochs'][-1]['end_time'] and c['ancestors'] == [S['name']] for c in demes_l)
                and D['start_time'] > S['epochs'][-1]['end_time'] > D['epochs'][-1]['end_time'] and S['start_time'] > S['epochs'][-1]['end_time']]
        if cand:
            S, D = rng.choice(cand)
            pulses.append({'sources': [S['name']], 'dest': D['name'], 'time': S['epochs'][-1]['end_time'], 'proportions': [0.15]})
            todo.discard('pulsesplit')
    gd = {'time_units': 'generations', 'generation_time': 1.0, 'demes': demes_l, 'migrations': migs,
          'pulses': sorted(pulses, key=lambda p: -p['time'])}
    try:
        g = build_graph(gd)
    except Exception:
        return None
    if todo - {'extinct'}:
        return None
    gd = graph_dict(g)
    # no more than maxd demes at any time
    bps = sorted({d['start_time'] for d in gd['demes']} | {e['end_time'] for d in gd['demes'] for e in d['epochs']})
    for lo, hi in zip(bps[:-1], bps[1:]):
        if sum(1 for d in gd['demes'] if d['start_time'] >= hi and d['epochs'][-1]['end_time'] <= lo) > maxd:
            return None
    # dadi creates a merged / admixed deme as a new axis before the parents that end are integrated out: while that
    # happens no more than 5 axes may exist (a documented limit: "Cannot apply admix that creates more than 5 demes")
    for c in gd['demes']:
        if len(c['ancestors']) >= 2:
            t = c['start_time']
            before = sum(1 for d in gd['demes'] if d['start_time'] > t >= d['epochs'][-1]['end_time'])
            born = sum(1 for d in gd['demes'] if d['start_time'] == t and (len(d['ancestors']) >= 2 or
                       (len(d['ancestors']) == 1 and [x for x in gd['demes'] if x['name'] == d['ancestors'][0]][0]['epochs'][-1]['end_time'] != t)))
            if before + born > 5:
                return None
    return gd, [d['name'] for d in gd['demes'] if d['epochs'][-1]['end_time'] == 0]


def max_demes(gd):
    bps = sorted({d['start_time'] for d in gd['demes']} | {e['end_time'] for d in gd['demes'] for e in d['epochs']})
    return max(sum(1 for d in gd['demes'] if d['start_time'] >= hi and d['epochs'][-1]['end_time'] <= lo) for lo, hi in zip(bps[:-1], bps[1:]))


def graph_case_records(case, rng):
    """One graph: from_demes under proxies, then the invariances."""
    gd, sampled, ns, pts, stimes, Ne = case['graph'], case['sampled'], case['ns'], case['pts'], case.get('stimes'), case.get('Ne')
    cid = case['id']
    P = max_demes(gd) + (sum(1 for t in stimes if t > min(stimes)) if stimes else 0)
    tag = ',ancient' if stimes else ''
    site, site_i = _site('Spectrum.from_demes', P, tag), _site('Demes.SFS', P, tag)
    fs, events, orders, err = run_from_demes(gd, sampled, ns, pts, stimes=stimes, Ne=Ne)
    recs = [_import_record(cid + '-import', site_i, gd, sampled, stimes, Ne, events, orders, err, case)]
    if err:
        return recs
    sh = [n + 1 for n in ns]
    # the graph and the sample times in generations (sample times are given in the graph's own units)
    gt0 = gd['generation_time'] if gd['time_units'] != 'generations' else 1.0
    gen = to_generations(gd) if gd['time_units'] != 'generations' else gd
    st_gen = None if stimes is None else [t / gt0 for t in stimes]
    units = case.get('units') or [[rng.choice([25.0, 29.0, 7.5]), 'years']]
    for q, (gt, name) in enumerate(units):
        g_u = gen if (gd['time_units'] != 'generations' and q == 0) else to_years(gen, gt, name)
        st_u = st_gen if g_u is gen else (None if stimes is None else [t * gt for t in st_gen])
        fs_u, _, _, e = run_from_demes(g_u, sampled, ns, pts, stimes=st_u, Ne=Ne, log=False)
        recs.append(_same(cid + '-units%s' % (q or ''), site, 'UnitsInvariance', fs_u, fs, sh, case, err=e))
    c = rng.choice([3.0, 0.5, 1 / 3., 7.3, rng.uniform(0.1, 10)])
    if not stimes or len(set(stimes)) == 1:          # no frozen branch: identical time steps in any reference size
        for q, c in enumerate(case.get('scales') or [c]):
            sargs = dict(stimes=None if stimes is None else [t * c for t in stimes], Ne=None if Ne is None else Ne * c, log=False)
            fs_s, _, _, e = run_from_demes(scale_graph(gd, c), sampled, ns, pts, **sargs)
            recs.append(_same(cid + '-scale%s' % (q or ''), site, 'ScaleInvariance', fs_s, fs, sh, case, err=e))
    elif case.get('scale_refine'):
        # the frozen branch of an ancient sample has size 1 in any units, and the time step depends on it:
        # the step boundaries differ, so the two spectra are compared as a refinement
        c = rng.choice([2.0, 0.5])
        sargs = dict(stimes=[t * c for t in stimes], Ne=None if Ne is None else Ne * c, log=False)
        x1, _, _, e = run_from_demes(scale_graph(gd, c), sampled, ns, pts, **sargs)
        if e:
            recs.append(_same(cid + '-scale', site, 'ScaleInvarianceRefines', None, fs, sh, case, err=e))
        else:
            recs.append(refine_record(cid + '-scale', site, 'ScaleInvarianceRefines', sh, case, x1, fs,
                                      lambda: run_from_demes(scale_graph(gd, c), sampled, ns, pts, **sargs)[0],
                                      lambda: run_from_demes(gd, sampled, ns, pts, stimes=stimes, Ne=Ne, log=False)[0]))
    if len(sampled) >= 2:
        pi = list(range(1, len(sampled) + 1))
        while pi == sorted(pi):
            rng.shuffle(pi)
        for q, pi in enumerate(case.get('pis') or [pi]):
            fs_p, _, _, e = run_from_demes(gd, [sampled[j - 1] for j in pi], [ns[j - 1] for j in pi], pts,
                                           stimes=None if stimes is None else [stimes[j - 1] for j in pi], Ne=Ne, log=False)
            recs.append(_same(cid + '-perm%s' % (q or ''), site, 'SamplePermutation', fs_p, fs, sh, case, pi=pi, err=e))
    if case.get('yaml'):
        fs_y, _, _, e = run_from_demes(gd, sampled, ns, pts, stimes=stimes, Ne=Ne, log=False, as_yaml=True)
        recs.append(_same(cid + '-yaml', site, 'YamlFileEqualsGraphObject', fs_y, fs, sh, case, err=e))
    if Ne is None and not stimes:
        # theta is 4*Ne*mu: expressing the same graph relative to a reference size k times the root size divides the spectrum by k
        k = rng.choice([2.0, 0.5, 3.0])
        root = [d for d in gd['demes'] if not d['ancestors']][0]['epochs'][0]['start_size']
        fs_n, _, _, e = run_from_demes(gd, sampled, ns, pts, Ne=k * root, log=False)
        recs.append(_same(cid + '-Ne', site, 'NeParameterScalesTheta', fs_n, fs, sh, case, mul=k, err=e))
    return recs


# --------------------------------------------------------------------------
# deterministic cases: every element of the property's stated domain that a random draw might miss
# --------------------------------------------------------------------------
def _C(x):
    return {'s0': x, 's1': x, 'fn': 'constant'}


def _L(a, b):
    return {'s0': a, 's1': b, 'fn': 'linear'}


def _E(a, b):
    return {'s0': a, 's1': b, 'fn': 'exponential'}


def _I(T, sizes, mig=None):
    """mig: {(i, j): rate into i from j} (1-based)."""
    P = len(sizes)
    M = [[0.0] * P for _ in range(P)]
    for (i, j), m in (mig or {}).items():
        M[i - 1][j - 1] = m
    return {'k': 'int', 'T': T, 'sizes': list(sizes), 'mig': M, 'frozen': [False] * P}


def _S(props, api='admix'):
    return {'k': 'split', 'props': list(props), 'api': api}


def _U(dest, props):
    return {'k': 'pulse', 'dest': dest, 'props': list(props)}


def fixed_programs():
    """Hand-picked programs: every split function and parent position (1->2, 2->3 through split_1 / split_2 / admix /
    the phi_2D_to_3D alias, 3->4 and 4->5 from every parent and as a full admixture), every pulse function (2-5
    populations, every destination, single and several sources, consecutive pulses), removal of first / middle / last
    population through remove_pop and filter_pops, reordering in the middle and at the end (list and tuple), constant /
    linear / exponential sizes in every integrator, symmetric and asymmetric migration, consecutive integrations,
    Python ints for sizes / rates / Nref / generation_time, root size 1 and != 1."""
    i1 = {'k': 'init', 'nu': 1.0}
    P = {}
    P['f1'] = dict(prog=[i1, _I(0.05, [_C(2)]), _I(0.04, [_L(2.0, 0.7)]), _I(0.06, [_E(0.7, 3.0)])], pts=14, ns=[5], Nref=1000, gt=None)
    P['f1nu'] = dict(prog=[{'k': 'init', 'nu': 3}, _I(0.05, [_E(3.0, 0.5)]), _I(0.04, [_C(0.5)])], pts=14, ns=[4], Nref=7300, gt=25)
    two = [i1, _I(0.05, [_C(1.5)]), _S([1.0]), _I(0.04, [_E(0.5, 2.0), _L(2.0, 1.0)], {(1, 2): 0.7, (2, 1): 0.3})]
    P['f2'] = dict(prog=two + [_U(1, [0, 0.2]), _I(0.03, [_C(2), _C(1)], {(1, 2): 1, (2, 1): 1}), _U(2, [0.15, 0]), _U(1, [0, 0.1]),
                               _I(0.03, [_C(2.0), _L(1.0, 1.5)]), {'k': 'reorder', 'perm': (2, 1)}], pts=12, ns=[3, 4], Nref=1000.0, gt=29.0)
    P['f2r'] = dict(prog=two + [{'k': 'reorder', 'perm': [2, 1]}, _I(0.03, [_C(1.2), _E(2.0, 1.0)], {(2, 1): 0.5}),
                                {'k': 'remove', 'i': 1, 'api': 'filter'}, _I(0.03, [_L(1.0, 2.0)])], pts=12, ns=[4], Nref=500.0, gt=None)
    m3 = {(1, 2): 0.3, (1, 3): 0.6, (2, 1): 0.9, (2, 3): 1.2, (3, 1): 0.2, (3, 2): 0.5}
    s3 = [0.03, [_C(1.0), _L(2.0, 1.0), _E(0.5, 1.5)], m3]
    P['f3'] = dict(prog=two + [_S([1, 0], 'split'), _I(*s3), _U(1, [0, 0.1, 0.2]), _I(0.02, [_C(1.0), _C(2.0), _C(0.5)], {(1, 2): 1.0, (2, 1): 1.0}),
                               _U(2, [0.1, 0, 0.05]), _I(*s3), _U(3, [0.2, 0.1, 0]), _I(0.02, [_C(1.0), _C(2.0), _C(0.5)]),
                               {'k': 'remove', 'i': 2}, _I(0.03, [_C(1.0), _L(0.5, 1.0)], {(2, 1): 0.4}), _S([0, 1], 'split'), _I(*s3),
                               {'k': 'remove', 'i': 1, 'api': 'filter'}, _I(0.03, [_E(1.0, 2.0), _C(0.7)]), _S([0.3, 0.7], 'alias'), _I(*s3),
                               {'k': 'reorder', 'perm': [3, 1, 2]}], pts=10, ns=[2, 3, 4], Nref=1000.0, gt=None)
    s4 = [0.02, [_C(1.0), _E(0.5, 1.5), _C(2), _L(2.0, 1.0)], {(1, 4): 0.5, (2, 1): 1, (4, 3): 0.25, (3, 2): 0.7}]
    c4 = [0.015, [_C(1.0), _C(1.5), _C(2.0), _C(0.6)]]
    three = two + [_S([0, 1], 'split'), _I(*s3)]
    P['f4'] = dict(prog=three + [_S([1, 0, 0]), _I(*s4), _U(1, [0, 0.1, 0.05, 0.1]), _I(*c4), _U(2, [0.1, 0, 0, 0]), _I(*c4),
                                 _U(3, [0.05, 0.1, 0, 0.2]), _I(*c4), _U(4, [0, 0, 0.3, 0]), _I(*s4), {'k': 'remove', 'i': 4}, _I(*s3),
                                 _S([0, 1, 0]), _I(*c4), {'k': 'remove', 'i': 1}, _I(*s3), _S([0, 0, 1]), _I(*s4),
                                 {'k': 'remove', 'i': 2, 'api': 'filter'}, _I(*s3), _S([0.2, 0.3, 0.5]), _I(*s4), {'k': 'reorder', 'perm': (2, 1, 4, 3)}],
                   pts=6, ns=[1, 2, 1, 2], Nref=1000.0, gt=25.0)
    P['f4r'] = dict(prog=three + [_S([0, 0, 1]), _I(*c4), {'k': 'reorder', 'perm': [4, 1, 2, 3]}, _I(*s4)], pts=6, ns=[1, 1, 2, 1], Nref=2000.0, gt=None)
    s5 = [0.015, [_C(1.0), _C(2.0), _L(0.5, 1.0), _C(3), _E(2.0, 1.0)], {(1, 5): 0.5, (5, 1): 0.5, (3, 2): 1, (4, 5): 0.25, (2, 4): 0.3}]
    c5 = [0.01, [_C(1.0), _C(1.5), _C(2.0), _C(0.6), _C(0.8)]]
    four = three + [_S([1, 0, 0]), _I(*s4)]
    P['f5'] = dict(prog=four + [_S([1, 0, 0, 0]), _I(*s5), _U(1, [0, 0.1, 0.05, 0.1, 0.02]), _I(*c5), _U(2, [0.1, 0, 0, 0, 0]), _I(*c5),
                                _U(3, [0, 0.1, 0, 0, 0.1]), _I(*c5), _U(4, [0, 0, 0.2, 0, 0]), _I(*c5), _U(5, [0.05, 0.05, 0.05, 0.05, 0]), _I(*s5),
                                {'k': 'remove', 'i': 5}, _I(*c4), _S([0, 1, 0, 0]), _I(*c5), {'k': 'remove', 'i': 1}, _I(*c4), _S([0, 0, 1, 0]), _I(*c5),
                                {'k': 'remove', 'i': 3, 'api': 'filter'}, _I(*c4), _S([0, 0, 0, 1]), _I(*s5), {'k': 'remove', 'i': 5}, _I(*c4),
                                _S([0.1, 0.2, 0.3, 0.4]), _I(*s5), {'k': 'reorder', 'perm': [5, 4, 3, 2, 1]}], pts=6, ns=[1, 1, 1, 1, 1], Nref=1000, gt=None)
    cases = []
    for name, c in P.items():
        Pm = max_pops(c['prog'])
        case = dict(c, id=name, kind='prog', seed=16, feats=sorted(features(c['prog'])) + ['fixed'],
                    units=[[25, 'years'], [1.0, 'years'], [0.5, 'kiloyears']] if Pm <= 3 else [[29.0, 'years']],
                    scales=[1000.0, 0.0625] if Pm <= 3 else [3.0], yaml=Pm == 2)
        if Pm >= 3:
            n = n_pops(c['prog'])
            case['pis'] = [list(range(2, n + 1)) + [1]] + ([list(range(n, 0, -1))] if Pm == 3 else [])
        cases.append(case)
    # extrapolation over three grids (pts as a list), as from_demes documents
    cases.append(dict(P['f2'], id='f2x', kind='prog', pts=[8, 10, 12], seed=16, feats=['fixed', 'pts-list'], units=[[25.0, 'years']], scales=[3.0]))
    # ancient samples = frozen branches, also as the fifth population, first and last position
    base4 = dict(prog=four, pts=6, ns=[1, 1, 1, 2], Nref=64.0, gt=None, seed=16)
    cases.append(dict(base4, id='fa4', kind='ancient', anc=4, phi=0.5, feats=['fixed', 'ancient-5th-frozen']))
    cases.append(dict(base4, id='fa1', kind='ancient', anc=1, phi=0.25, gt=25.0, feats=['fixed', 'ancient-5th-frozen']))
    cases.append(dict(prog=three, pts=10, ns=[2, 3, 2], Nref=100.0, gt=None, seed=16, id='fa3', kind='ancient', anc=2, phi=0.4, feats=['fixed']))
    cases.append(dict(prog=two, pts=12, ns=[3, 4], Nref=40, gt=29, seed=16, id='fa2', kind='ancient', anc=1, phi=0.5, feats=['fixed']))
    return cases


def fixed_graphs():
    """Hand-written graphs (Python ints throughout, as a YAML file gives them): a single deme whose epochs are cut by
    all-ancient sampling inside a constant / exponential / linear epoch and exactly at an epoch boundary; three demes
    plus a branch with symmetric (both directions) and asymmetric migrations that start and end inside exponential and
    linear epochs, two pulses at the same time, a pulse with two sources, an unsampled deme, every ancient-sample
    pattern; five contemporaneous demes with pulses among exactly four and exactly five demes."""
    import demes
    out = []
    b = demes.Builder(time_units='generations')
    b.add_deme('solo', epochs=[dict(end_time=60, start_size=100), dict(end_time=40, start_size=100, end_size=300),
                               dict(end_time=20, start_size=300, end_size=80, size_function='linear'), dict(end_time=0, start_size=80)])
    g1 = graph_dict(b.resolve())
    base = dict(kind='graph', graph=g1, pts=14, sampled=['solo'], ns=[6], Ne=None, seed=16,
                units=[[25, 'years'], [1, 'years'], [0.5, 'kiloyears']], scales=[1000.0, 0.0625])
    out.append(dict(base, id='G1', stimes=None, feats=['fixed', 'one-deme'], yaml=True))
    for q, t in enumerate([10, 30, 50.0, 20, 40, 59]):      # inside constant / linear / exponential epochs, at two boundaries, near the root epoch
        out.append(dict(base, id='G1a%d' % q, stimes=[t], feats=['fixed', 'one-deme', 'anc-all'], units=[[25, 'years']], scales=[3.0]))
    b = demes.Builder(time_units='generations')
    b.add_deme('anc', epochs=[dict(end_time=30, start_size=100)])
    b.add_deme('A', ancestors=['anc'], epochs=[dict(end_time=15, start_size=150), dict(end_time=0, start_size=150, end_size=400)])
    b.add_deme('B', ancestors=['anc'], epochs=[dict(end_time=0, start_size=60, end_size=200, size_function='linear')])
    b.add_deme('C', ancestors=['B'], start_time=12, epochs=[dict(end_time=0, start_size=50)])
    b.add_migration(demes=['A', 'B'], rate=2e-3, start_time=22, end_time=6)
    b.add_migration(source='A', dest='C', rate=5e-3, start_time=10, end_time=0)
    b.add_migration(source='B', dest='A', rate=1e-3, start_time=6, end_time=2)
    b.add_pulse(sources=['B'], dest='A', proportions=[0.1], time=20)
    b.add_pulse(sources=['A'], dest='B', proportions=[0.2], time=20)
    b.add_pulse(sources=['A', 'C'], dest='B', proportions=[0.1, 0.05], time=9)
    g2 = graph_dict(b.resolve())
    g2y = to_years(g2, 25, 'years')              # the base graph of this family is in years
    y = lambda ts: [t * 25 for t in ts]
    base = dict(kind='graph', graph=g2y, pts=10, Ne=None, seed=16)
    out.append(dict(base, id='G2', sampled=['C', 'A', 'B'], ns=[2, 3, 4], stimes=None, feats=['fixed', 'years'], yaml=True,
                    units=[[25, 'years'], [1, 'years'], [0.5, 'kiloyears']], scales=[1000.0, 0.0625], pis=[[2, 3, 1], [3, 2, 1], [2, 1, 3]]))
    out.append(dict(base, id='G2s', sampled=['B', 'A'], ns=[3, 2], stimes=None, feats=['fixed', 'unsampled-leaf']))
    anc = [('one-exp', ['C', 'A', 'B'], [0, 4, 0], 8), ('one-at-break', ['C', 'A', 'B'], [0, 6, 0], 8), ('one-lin', ['A', 'B'], [0, 3.5], 8),
           ('twice', ['A', 'B', 'A'], [0, 0, 5], 8), ('internal', ['A', 'B', 'C', 'anc'], [0, 0, 0, 30], 6),
           ('all-distinct', ['C', 'A', 'B'], [3, 5, 4], 6), ('all-equal', ['C', 'A', 'B'], [4, 4, 4], 10), ('twice-all', ['A', 'A'], [9, 4], 10)]
    for name, smp, st, pts in anc:
        out.append(dict(base, id='G2a-' + name, sampled=smp, ns=[2, 3, 4, 2][:len(smp)], stimes=y(st), pts=pts, feats=['fixed', 'years', 'anc-' + name],
                        scale_refine=name == 'one-exp'))
    b = demes.Builder(time_units='generations')
    b.add_deme('anc', epochs=[dict(end_time=40, start_size=100)])
    b.add_deme('A', ancestors=['anc'], epochs=[dict(end_time=30, start_size=120)])
    b.add_deme('B', ancestors=['anc'], epochs=[dict(end_time=0, start_size=80, end_size=160, size_function='linear')])
    b.add_deme('A1', ancestors=['A'], epochs=[dict(end_time=0, start_size=60, end_size=150)])
    b.add_deme('A2', ancestors=['A'], epochs=[dict(end_time=0, start_size=90)])
    b.add_deme('C', ancestors=['B'], start_time=20, epochs=[dict(end_time=0, start_size=70)])
    b.add_deme('E', ancestors=['A2'], start_time=10, epochs=[dict(end_time=0, start_size=50, end_size=100)])
    b.add_migration(demes=['A1', 'A2'], rate=4e-3, start_time=25, end_time=0)
    b.add_migration(source='B', dest='E', rate=3e-3, start_time=8, end_time=2)
    b.add_pulse(sources=['A1'], dest='C', proportions=[0.2], time=15)
    b.add_pulse(sources=['A2', 'B'], dest='A1', proportions=[0.1, 0.05], time=14)
    b.add_pulse(sources=['E'], dest='B', proportions=[0.1], time=5)
    b.add_pulse(sources=['A1', 'C'], dest='E', proportions=[0.05, 0.1], time=4)
    g5 = graph_dict(b.resolve())
    base = dict(kind='graph', graph=g5, pts=6, Ne=None, seed=16)
    out.append(dict(base, id='G5', sampled=['E', 'B', 'A1', 'C', 'A2'], ns=[1, 1, 2, 1, 1], stimes=None, feats=['fixed', 'five-demes'],
                    units=[[29, 'years']], scales=[3.0], pis=[[5, 4, 3, 2, 1]]))
    out.append(dict(base, id='G5a', sampled=['E', 'B', 'A1', 'C', 'A2'], ns=[1, 1, 2, 1, 1], stimes=[2, 2, 2, 2, 2], feats=['fixed', 'five-demes', 'anc-all-equal'],
                    units=[[29, 'years']], scales=[3.0]))
    return out


def case_records(case):
    rng = random.Random(case['seed'])
    kind = case['kind']
    if kind == 'prog':
        return prog_case_records(case, rng)
    if kind == 'ancient':
        return ancient_records(case, rng)
    return graph_case_records(case, rng)


# --------------------------------------------------------------------------
# programs from TLC (tlc -simulate on DemesIOMC with the generation configs)
# --------------------------------------------------------------------------
def tlc_programs(ctx):
    pool = []
    info = []

    def sim(cfg, num, seed):
        r = common.tlc('DemesIOMC', cfg, workers=1, simulate='num=%d' % num, extra=['-depth', '8', '-seed', str(seed)], timeout=600)
        ps = [p[1] for p in r.prints if p and p[0] == 'PROG' and isinstance(p[1], list)]
        if not ps:
            raise common.MachineryError('tlc -simulate produced no program with %s\n%s' % (cfg, r.out[-1500:]))
        info.append({'cfg': cfg, 'behaviours': num, 'seed': seed, 'programs_printed': len(ps), 'wall_s': round(r.wall, 1)})
        return ps
    pool += sim('DemesIOMC_gen.cfg', 20 if ctx.quick else 150, ctx.seed)
    pool += sim('DemesIOMC_gen5.cfg', 10 if ctx.quick else 60, ctx.seed)
    for extra in (1, 2, 3):          # every population count 1..5 must be present, whatever the seed
        if all(any(max_pops(p) == P for p in pool) for P in range(1, 6)):
            break
        pool += sim('DemesIOMC_gen5.cfg', 20 * extra, ctx.seed + extra)
    seen, uniq = set(), []
    for p in pool:
        k = json.dumps(p, sort_keys=True)
        if k not in seen:
            seen.add(k)
            uniq.append(p)
    return uniq, info


def features(prog):
    f = {'P%d' % max_pops(prog)}
    for k, e in enumerate(prog):
        P = n_pops(prog, k)
        if e['k'] == 'split' and sum(1 for p in e['props'] if p not in ('0', 0, 0.0)) >= 2:
            f.add('admix%d' % P)
        if e['k'] == 'split':
            f.add('split%d' % P)
        if e['k'] == 'pulse':
            f.add('pulse%dinto%d' % (P, e['dest']))
            if sum(1 for p in e['props'] if p not in ('0', 0, 0.0)) >= 2:
                f.add('multipulse%d' % P)
            if prog[k - 1]['k'] == 'pulse':
                f.add('pulse-pulse')
        if e['k'] == 'remove':
            f.add('remove-tail' if k == len(prog) - 1 else 'remove%d' % P)
        if e['k'] == 'reorder':
            f.add('reorder-tail' if k == len(prog) - 1 else 'reorder%d' % P)
        if e['k'] == 'int':
            if k > 0 and prog[k - 1]['k'] == 'int':
                f.add('int-int')
            for s in e['sizes']:
                if s['fn'] != 'constant':
                    f.add('%s%d' % (s['fn'][:3], P))
            if any(m not in ('0', 0, 0.0) for row in e['mig'] for m in row):
                f.add('mig%d' % P)
        if e['k'] == 'init' and e['nu'] not in ('1', 1, 1.0):
            f.add('nu0')
    return f


def select_programs(pool, quota, rng):
    """Greedy feature cover within per-population-count quotas, then random fill."""
    byP = {}
    for p in pool:
        byP.setdefault(max_pops(p), []).append(p)
    chosen = []
    for P, q in sorted(quota.items()):
        cand = list(byP.get(P, []))
        rng.shuffle(cand)
        cand = [(p, features(p)) for p in cand[:1500]]
        covered = set()
        for _ in range(q):
            if not cand:
                break
            best = max(range(len(cand)), key=lambda i: (len(cand[i][1] - covered), -len(cand[i][0])))
            p, f = cand.pop(best)
            covered |= f
            chosen.append(p)
    return chosen


def concretise(p, rng):
    """TLC's program (rational strings) as floats; most numbers are jittered so that nothing is special."""
    jit = rng.random() < 0.75

    def num(s, lo=0.8, hi=1.25):
        v = float(Fraction(s))
        return v * rng.uniform(lo, hi) if (jit and v != 0) else v
    out = []
    for e in p:
        k = e['k']
        if k == 'init':
            out.append({'k': k, 'nu': 1.0 if (e['nu'] == '1' or rng.random() < 0.6) else num(e['nu'])})
        elif k == 'int':
            sizes = []
            for s in e['sizes']:
                a = num(s['s0'])
                sizes.append({'s0': a, 's1': a if s['fn'] == 'constant' else num(s['s1']), 'fn': s['fn']})
            out.append({'k': k, 'T': num(e['T']), 'sizes': sizes, 'mig': [[num(m) for m in row] for row in e['mig']], 'frozen': list(e['frozen'])})
        elif k == 'split':
            pr = [float(Fraction(x)) for x in e['props']]
            nz = [j for j, x in enumerate(pr) if x]
            if len(nz) >= 2:
                # jitter all but the last non-zero proportion; that one is the complement, computed as dadi derives the
                # implied last proportion (1-f1-f2-...), so that proportions meant to be zero stay exactly zero
                for j in nz[:-1]:
                    pr[j] = pr[j] * (rng.uniform(0.8, 1.2) if jit else 1.0)
                last = 1.0
                for x in pr[:nz[-1]]:
                    last = last - x
                pr[nz[-1]] = last
            out.append({'k': k, 'props': pr, 'api': rng.choice(['split', 'admix'])})
        elif k == 'pulse':
            out.append({'k': k, 'dest': e['dest'], 'props': [num(x) for x in e['props']]})
        else:
            out.append(dict(e))
    return out


def build_cases(ctx, rng):
    pool, gen_info = tlc_programs(ctx)
    quota = {1: 1, 2: 3, 3: 5, 4: 3, 5: 2} if ctx.quick else {1: 4, 2: 18, 3: 30, 4: 14, 5: 8}
    progs = select_programs(pool, quota, rng)
    for P in quota:
        if not any(max_pops(p) == P for p in progs):
            raise common.MachineryError('tlc -simulate produced no program with %d populations' % P)
    # plus tree-shaped programs of 4 and 5 populations relative to the root size (so that one defect does not hide another)
    trees = select_programs([p for p in pool if not any(f.startswith('admix') for f in features(p))],
                            {4: 1, 5: 1} if ctx.quick else {3: 6, 4: 10, 5: 6}, rng)
    # the deterministic part: every named element of the property's domain, whatever the seed
    cases = fixed_programs() + fixed_graphs()
    n = itertools.count()
    for p in progs + trees:
        P = max_pops(p)
        Pf = n_pops(p)
        prog = concretise(p, rng)
        if any(p is t for t in trees):
            prog[0]['nu'] = 1.0
        pts = {1: 14, 2: 12, 3: 10, 4: 6 if ctx.quick else 7, 5: 6}[P]
        ns = [rng.randint(2, 4) for _ in range(Pf)] if P <= 3 else [rng.randint(1, 2) for _ in range(Pf)] if P == 4 else [1] * Pf
        case = {'id': 'p%d' % next(n), 'kind': 'prog', 'prog': prog, 'pts': pts, 'ns': ns, 'Nref': rng.choice([1000.0, 7300.0, float(rng.randint(200, 20000))]),
                'gt': [None, 25.0, None, 29.0][len(cases) % 4], 'seed': rng.randrange(10 ** 9), 'feats': sorted(features(p))}
        cases.append(case)
        if prog[-1]['k'] == 'int' and 2 <= Pf <= 4 and (P >= 4 or rng.random() < 0.6):
            slow = needs_refinement(prog)       # refinement clause: the finer level takes 16 x (Nref / 4) x 1000 steps per unit of frozen time
            cases.append(dict(case, id=case['id'] + 'a', kind='ancient', Nref=40.0 if slow else rng.choice([40.0, 64.0, 100.0]), anc=rng.randint(1, Pf),
                              phi=0.1 if slow else rng.choice([0.5, 0.25, round(rng.uniform(0.1, 0.9), 3)])))
    # graphs
    plans = [set(), {'tri'}, {'merge'}, {'admix'}, {'admix_end'}, {'branch'}, {'extinct'}, {'latepulse'}, {'merge', 'branch'}, {'pulsesplit'}, {'branch', 'pulsesplit'}]
    ngraphs = 11 if ctx.quick else 66
    made = tries = 0
    while made < ngraphs and tries < 40 * ngraphs:
        tries += 1
        feats = plans[made % len(plans)]
        maxd = rng.choice([2, 3, 3, 3, 4, 5] if not ctx.quick else [2, 3, 3, 3, 3, 4])
        res = gen_graph(rng, maxd, feats)
        if res is None:
            continue
        gd, leaves = res
        D = max_demes(gd)
        if D > 5 or not leaves:
            continue
        made += 1
        pts = {1: 14, 2: 12, 3: 10, 4: 6 if ctx.quick else 7, 5: 6}[D]
        smp = list(leaves)
        rng.shuffle(smp)
        if len(smp) > 1 and made % 3 == 0:
            smp = smp[:-1]                      # an unsampled deme alive at the present is integrated out
        nsz = lambda k, D=D: [rng.randint(2, 3) if D <= 3 else 1 for _ in range(k)]
        base = {'kind': 'graph', 'graph': gd, 'pts': pts, 'feats': sorted(feats)}
        gid = 'g%d' % next(n)
        cases.append(dict(base, id=gid, sampled=smp, ns=nsz(len(smp)), stimes=None, Ne=None, seed=rng.randrange(10 ** 9)))
        # ancient samples
        byname = {d['name']: d for d in gd['demes']}
        var = ['one', 'all', 'twice', 'twice-all', 'internal'][made % 5]
        a = rng.choice(smp)
        span = min(byname[a]['start_time'], 10 ** 6)
        # a frozen branch has size 1, so dadi takes ~125 time steps per generation after the ancient sample: keep those short
        cap = 24.0 if D <= 2 else 10.0 if D == 3 else 4.0
        tt = lambda lo=0.1, hi=0.9: float(round(rng.uniform(lo, hi) * min(span, cap), 1))
        if D + 1 > 5 and var != 'all':
            var = 'all'
        if var == 'one':
            st, s2 = [tt() if x == a else 0.0 for x in smp], smp
        elif var == 'all':
            lim = min(byname[x]['start_time'] for x in smp)
            st, s2 = [float(round(rng.uniform(0.1, 0.8) * min(lim, 25.0), 1)) for _ in smp], smp
        elif var == 'twice':
            st, s2 = [0.0] * len(smp) + [tt()], smp + [a]
        elif var == 'twice-all':
            t1 = tt(0.1, 0.4)
            st, s2 = [t1, t1 + tt(0.1, 0.4)], [a, a]
            if rng.random() < 0.5:
                st.reverse()
        else:
            inner = [d for d in gd['demes'] if 0 < d['epochs'][-1]['end_time'] <= cap]
            if inner:
                d = rng.choice(inner)
                st, s2 = [0.0] * len(smp) + [d['epochs'][-1]['end_time']], smp + [d['name']]
            else:
                st, s2 = [tt() if x == a else 0.0 for x in smp], smp
        if len(set(zip(s2, st))) == len(s2) and max(st) > 0 and D + sum(1 for t in st if t > min(st)) <= 5:      # dadi integrates at most 5 populations
            cases.append(dict(base, id=gid + 'a', sampled=s2, ns=nsz(len(s2)), stimes=st, Ne=None, seed=rng.randrange(10 ** 9), feats=sorted(feats | {'anc-' + var}),
                              # (refinement at a 16x finer step: only where the frozen branches live for at most 3 generations)
                              scale_refine=(D <= 3 and 0 < max(st) - min(st) <= 3.0 and
                                            sum(1 for x in cases if x.get('scale_refine')) < (3 if ctx.quick else 14))))
    return cases, gen_info


# --------------------------------------------------------------------------
def mutate(rec):
    """Corrupt one observed field (binding demonstration)."""
    o = rec['out']
    if 'raised' in o:
        return None
    if rec['op'] == 'export':
        d = o['graph']['demes'][-1]['epochs'][-1]
        d['start_size'] = rat(Fraction(d['start_size']) * Fraction(1000001, 1000000))
        return rec
    if rec['op'] == 'import':
        ints = [e for e in o['events'] if e['k'] == 'int']
        if not ints:
            return None
        e = ints[-1]
        if len(e['frozen']) >= 2 and len(ints) % 2:
            e['frozen'][-1] = not e['frozen'][-1]
        else:
            e['T'] = rat(Fraction(e['T']) * Fraction(1000001, 1000000))
        return rec
    key = 'x' if rec['op'] == 'same' else 'x2'
    d = o[key]
    cand = [j for j in range(len(d)) if Fraction(d[j]) != 0]
    if not cand:
        return None
    j = max(cand, key=lambda q: abs(Fraction(d[q])))
    d[j] = rat(Fraction(d[j]) * (Fraction(1000001, 1000000) if rec['op'] == 'same' else Fraction(11, 10)))
    return rec


def what_of(rec, clause):
    case = json.loads(rec['case']) if isinstance(rec.get('case'), str) else {}
    law = rec['in'].get('law', '')
    extra = ''
    if 'raised' in rec['out']:
        extra = ' (dadi raised %s)' % rec['out']['raised']
    return 'record %s (%s, case kind=%s features=%s): clause %s violated%s' % (rec['id'], rec.get('site'), case.get('kind'), ','.join(case.get('feats', [])), clause, extra)


def run(ctx):
    rng = random.Random(ctx.seed + 16)
    gen_info = []
    if ctx.replay:
        rec0 = ctx.replay_payload['payload']['record']
        ctx.no_mc = True
        case = json.loads(rec0['case'])
        recs = [r for r in case_records(case) if r['id'] == rec0['id']] or case_records(case)
        cases = [case]
    else:
        cases, gen_info = build_cases(ctx, rng)
        recs = []
        for case in cases:
            recs += case_records(case)
    mcs = [('DemesIOMC', 'DemesIOMC_%s.cfg' % ctx.tier)] + ([] if ctx.quick else [('DemesIOMC', 'DemesIOMC_rich_thorough.cfg')])
    kinds = {}
    for c in cases:
        kinds[c['kind']] = kinds.get(c['kind'], 0) + 1
    return common.pipeline(
        ctx, mcs, 'Trace_DemesIO', recs, mutator=mutate, what_of=what_of,
        nontrivial_of=lambda r: (r['op'], r['site'], r['in'].get('law')),
        rule='distinct (operation, site[max populations, features], law): export = graph built by Demes.output vs Export(program); import = calls executed by '
             'Demes.SFS vs Import(graph); same/refine = spectrum relations (RoundTrip, UnitsInvariance, ScaleInvariance, SamplePermutation, '
             'AncientEqualsFrozenBranch, NeParameterScalesTheta, DefaultNeScalesTheta, RoundTripRefines)',
        extra_cov={'cases': kinds, 'programs_from_tlc_simulate': gen_info,
                   'populations_per_program': {str(P): sum(1 for c in cases if c['kind'] == 'prog' and max_pops(c['prog']) == P) for P in range(1, 6)},
                   'demes_per_graph': {str(P): sum(1 for c in cases if c['kind'] == 'graph' and max_demes(c['graph']) == P) for P in range(1, 6)}},
        assumptions=['a deterministic set of hand-written programs and graphs (fixed_programs, fixed_graphs) draws every named element of the property\'s domain in every run: '
                     'each split / pulse / removal / reorder function and position for 1-5 populations, the three size functions in each integrator, symmetric and asymmetric '
                     'migration, same-time and multi-source pulses, every ancient-sample pattern incl. epoch boundaries, units years / generations / another name with '
                     'generation_time 25, 1, 1/2, scale factors 1000 and 1/16, YAML-file input, a list of grid sizes, Python ints',
                     'programs are the successor states printed by tlc -simulate on DemesIOMC (structure from TLC, numbers jittered by a seeded generator)',
                     'graphs with branches, mergers, admixtures, multi-way splits, extinctions, partial-epoch migrations and ancient samples come from a seeded generator filtered by the demes library\'s own validation',
                     'every relation is decided by TLC on exact rationals of the recorded floats: tolerance 1e-10 relative (floor 1e-13) on graph numbers and call arguments, '
                     '1e-10 of the largest entry on spectra; refinement clause: distance <= 1e-2 and halves when timescale_factor is divided by 4',
                     'powers b^x needed inside exponential epochs are supplied as a table computed with math.pow at exact rational arguments; a missing entry stops TLC',
                     'the order in which the demes library lists the children of a split (a Python set) is observed and adopted by Import; everything else is prescribed',
                     'Demes.output(Nref=None) (migration rates rescaled for display) is not a faithful export and is outside the check'])
