---------------------------- MODULE Trace_SchemeX ----------------------------
(***************************************************************************)
(* Trace validation of the X-chromosome one-population machinery against   *)
(* module SchemeX.  Two kinds of lines are consumed:                       *)
(*                                                                         *)
(* (1) self-contained records (no hidden state):                           *)
(*     xfun     _Vfunc_X, _Mfunc1D_X, _inject_mutations_1D_X on random     *)
(*              arguments (one record per function, in.fn = V | M | inj)   *)
(*     xstep    one implicit step through one_pop_X /                      *)
(*              _one_pop_const_params_X (T <= dt): the result solves the   *)
(*              documented line system of the injected density             *)
(*     xrescale the same integration expressed relative to another         *)
(*              reference size                                             *)
(*     xphi     PhiManip.phi_1D_X: finite, non-negative, and the           *)
(*              stationary density of the X scheme (D supplied as a table  *)
(*              by the recorder, evaluated independently of dadi; compared *)
(*              only in records marked strict: moderate selection)         *)
(*     xstat    phi_1D_X is stationary under one_pop_X up to a grid error  *)
(*              that shrinks by GridRatio per grid doubling                *)
(*                                                                         *)
(* (2) driver event traces of Integration.one_pop_X, recorded by proxies   *)
(*     around _inject_mutations_1D_X and tridiag:                          *)
(*         call -> ( inject ; sweep )*  -> return | raise                  *)
(*     with hidden state (time, step in progress, density).  Demanded:     *)
(*     steps positive and adding up to T - t0; injection is the documented *)
(*     X influx with the parameters of the step's end time; the arrays     *)
(*     handed to tridiag are the documented X line system (+ 1/dt) and the *)
(*     right-hand side is phi/dt; the result solves them; mass leaves only *)
(*     through the two absorbing end nodes; the density is handed from     *)
(*     event to event unchanged; the input is not modified; frozen and     *)
(*     zero-duration calls return the input; T < t0 and negative / zero    *)
(*     sizes or ratios are rejected with ValueError.  The code documents   *)
(*     that parameters given as functions of time are "currently only      *)
(*     implemented for constant parameters": NotImplementedError is        *)
(*     accepted for them, and so is a conforming integration.              *)
(***************************************************************************)
EXTENDS SchemeX, TLC, Json, IOUtils
CONSTANTS TauSolve,   \* backward-error tolerance of a line solve
          TauLin,     \* relative tolerance of float-evaluated formulas / coefficient arrays
          TauTime,    \* tolerance of logged float parameters and of the sum of the steps
          TauScale,   \* reference-size invariance of a whole integration
          TauEq,      \* phi_1D_X against the independently evaluated stationary density
          GridRatio,  \* required shrink factor of a grid error per grid doubling
          Floor       \* error floor left by round-off in the stationarity distance

Trace == JsonDeserialize(IOEnv.TRACE_FILE)
VARIABLES l,        \* number of lines consumed
          call,     \* the call event of the current driver trace (or <<>>)
          t,        \* current time (exact sum of the logged steps)
          stepdt,   \* dt of the step in progress ("0" between steps)
          cur,      \* current density as last logged
          bad       \* violated clauses of the current driver trace
vars == <<l, call, t, stepdt, cur, bad>>

F(name, ok) == IF ok THEN {} ELSE {name}
AllNum(q) == \A j \in 1..Len(q) : IsNum(q[j])
RMaxSeq(q) == LET RECURSIVE go(_, _)
                  go(j, m) == IF j > Len(q) THEN m ELSE go(j + 1, RMax(m, q[j]))
              IN go(1, "0")
DeljFor(g, x) == IF "deljtab" \in DOMAIN x THEN x.deljtab ELSE HalfDelj(g)
DeljOn(x) == "deljtab" \in DOMAIN x

\* ---------------------------------------------------------------- self-contained records
FFun(r) ==
    LET p == r.in.par x == r.in.x g == r.in.g v == r.out.v
        exp == InjectedX(r.in.phi, g, r.in.dt, r.in.theta0, p)
        sc == RSeqMaxAbs(exp)
    IN  CASE r.in.fn = "V" -> F("VarianceIsDocumented", Len(v) = Len(x) /\ \A j \in 1..Len(x) : RCloseRel(v[j], VfX(x[j], p), TauLin, "0"))
          [] r.in.fn = "M" -> F("SelectionIsDocumented", Len(v) = Len(x) /\ \A j \in 1..Len(x) : RCloseRel(v[j], MfX(x[j], p), TauLin, "0"))
          [] r.in.fn = "inj" -> F("InjectionIsDocumented", Len(v) = Len(exp) /\ \A q \in 1..Len(exp) : RCloseRel(v[q], exp[q], "0", RMul(TauLin, sc)))
          [] OTHER -> {"UnknownFunction"}

FStep(r) ==
    LET g == r.in.g p == r.in.par
        inj == InjectedX(r.in.phi, g, r.in.dt, r.in.theta0, p)
    IN  F("OutShape", Len(r.out.d) = Len(g)) \cup
        (IF Len(r.out.d) = Len(g)
         THEN F("SolvesSchemeX", IsStepX(inj, r.out.d, g, p, r.in.dt, TauSolve, DeljFor(g, r.in), DeljOn(r.in)))
         ELSE {})

FRescale(r) ==
    LET a == r.out.base b == r.out.scaled IN
    F("OutShape", Len(a) = Len(r.in.g) /\ Len(b) = Len(r.in.g) /\ AllNum(a) /\ AllNum(b)) \cup
    (IF Len(a) = Len(r.in.g) /\ Len(b) = Len(r.in.g) /\ AllNum(a) /\ AllNum(b)
     THEN F("ReferenceSizeInvariant", LET sc == RSeqMaxAbs(a) IN \A q \in 1..Len(a) : RCloseRel(b[q], a[q], "0", RMul(TauScale, sc)))
     ELSE {})

FPhi(r) ==
    LET g == r.in.g p == r.in.par N == Len(g) v == r.out.phi
        scale == EquilScaleX(p, r.in.theta0)
        fin == Len(v) = N /\ AllNum(v)
    IN  F("EquilibriumDensityFinite", fin) \cup
        (IF fin
         THEN F("EquilibriumDensityNonNegative", \A j \in 1..N : RNonNeg(v[j])) \cup
              \* the table must belong to this record: it is D of the effective selection of THIS population (size nu)
              F("TableSane", Len(r.in.D) = N /\ RCloseRel(r.in.G, EquilGX(p), TauLin, "0") /\ RCloseRel(r.in.H, EquilHX(p), TauLin, "0")
                             /\ \A j \in 1..N : IsNum(r.in.D[j]) /\ RNonNeg(r.in.D[j])) \cup
              F("EquilibriumIsStationaryDensityOfXScheme",
                   r.in.strict => (Len(r.in.D) = N /\ \A j \in 2..(N - 1) :
                       RCloseRel(RMul(v[j], RMul(g[j], RSub("1", g[j]))), RMul(scale, r.in.D[j]), TauEq, RMul(TauEq, RMul(scale, "1/1000000")))))
         ELSE {})

FStat(r) ==
    LET runs == r.out.runs n == r.in.n
        ok(q) == Len(runs[q].before) = n + 1 /\ Len(runs[q].after) = n + 1 /\ AllNum(runs[q].before) /\ AllNum(runs[q].after)
        dist(q) == RMaxSeq([b \in 1..(n - 1) |-> RDiv(RAbs(RSub(runs[q].after[b + 1], runs[q].before[b + 1])), RAbs(runs[q].before[b + 1]))])
    IN  F("SpectrumWellFormed", \A q \in 1..Len(runs) : ok(q)) \cup
        (IF \A q \in 1..Len(runs) : ok(q)
         THEN F("EquilibriumIsStationaryUpToVanishingGridError",
                   \A q \in 1..(Len(runs) - 1) : RLeq(dist(q + 1), RAdd(RMul(GridRatio, dist(q)), Floor)))
         ELSE {})

RecordOps == {"xfun", "xstep", "xrescale", "xphi", "xstat"}
Failed(r) ==
    CASE r.op = "xfun"     -> FFun(r)
      [] r.op = "xstep"    -> FStep(r)
      [] r.op = "xrescale" -> FRescale(r)
      [] r.op = "xphi"     -> FPhi(r)
      [] r.op = "xstat"    -> FStat(r)
      [] OTHER             -> {"UnknownOp"}

e == Trace[l + 1]
EvRecord ==
    /\ e.op \in RecordOps
    /\ LET f == Failed(e) IN IF f = {} THEN TRUE ELSE PrintT(<<"BAD", e.id, f>>)
    /\ UNCHANGED <<call, t, stepdt, cur, bad>>

\* ---------------------------------------------------------------- driver events
\* a parameter is [c0, c1]: the value c0 + c1 * time (c1 = "0" for constants)
PVal(f, time) == RAdd(f.c0, RMul(f.c1, time))
ParAtX(c, time) == [nu |-> PVal(c.par.nu, time), gamma |-> PVal(c.par.gamma, time), h |-> PVal(c.par.h, time),
                    beta |-> PVal(c.par.beta, time), alpha |-> PVal(c.par.alpha, time)]
NonConst(c) == c.asfunc # <<>>
\* documented refusals (ValueError): running backwards; a negative size, theta0, beta or alpha; a zero size or beta
BadValue(c) == LET p == ParAtX(c, c.t0) IN
    \/ RSign(p.nu) <= 0 \/ RSign(p.beta) <= 0 \/ RSign(p.alpha) < 0 \/ RSign(PVal(c.theta0, c.t0)) < 0
MustReject(c) == ~c.frozen /\ (RLt(c.T, c.t0) \/ (RLt(c.t0, c.T) /\ BadValue(c)))

EvCall ==
    /\ e.op = "call"
    /\ call' = e.in /\ t' = e.in.t0 /\ stepdt' = "0" /\ cur' = e.in.phi /\ bad' = {}

EvInject ==
    /\ e.op = "inject"
    /\ LET c == call
           dt == e.dt
           p == ParAtX(c, RAdd(t, dt))
           th == PVal(c.theta0, RAdd(t, dt))
           exp == InjectedX(cur, c.g, dt, th, p)
           scale == RSeqMaxAbs(exp)
           f == F("StepStartsAfterSweep", stepdt = "0") \cup
                F("DtPositive", RPos(dt)) \cup
                F("DtWithinHorizon", RLeq(RAdd(t, dt), RAdd(c.T, RMul(TauTime, RAbs(c.T))))) \cup
                F("DensityHandedOver", e.before = cur) \cup
                F("InjectionIsDocumented", Len(e.after) = Len(cur) /\ AllNum(e.after) /\
                     \A q \in 1..Len(cur) : RCloseRel(e.after[q], exp[q], "0", RMul(TauLin, scale))) \cup
                F("InfluxIsHalfThetaDtTimesMutationFactor", Len(e.after) = Len(cur) /\ AllNum(e.after) /\
                     LET mA == TrapMass(e.after, c.g) mB == TrapMass(cur, c.g)
                     IN RCloseRel(RSub(mA, mB), InjectMassX(c.g, dt, th, p), "0", RMul(TauLin, RAdd(RAbs(mA), RAbs(mB)))))
       IN bad' = bad \cup f
    /\ stepdt' = e.dt /\ cur' = e.after
    /\ UNCHANGED <<call, t>>

\* tridiag(a, b + 1/dt, c, phi/dt)
EvSweep ==
    /\ e.op = "sweep"
    /\ LET c == call
           g == c.g
           N == Len(cur)
           par == ParAtX(c, RAdd(t, stepdt))
           live == stepdt # "0"
           invdt == IF live THEN RDiv("1", stepdt) ELSE "0"
           on == DeljOn(e)
           sys == LineABCX(g, par, DeljFor(g, e))
           sc(v) == RAdd(RAdd(RAdd(RAbs(sys.a[v]), RAbs(sys.b[v])), RAbs(sys.c[v])), invdt)
           tol(v) == RAdd(RMul(TauLin, sc(v)), IF on THEN DeljCoefSlackX(g, par, v) ELSE "0")
           coeffOK == \A v \in 1..N : /\ RCloseRel(e.a[v], sys.a[v], "0", tol(v))
                                      /\ RCloseRel(e.b[v], RAdd(sys.b[v], invdt), "0", tol(v))
                                      /\ RCloseRel(e.c[v], sys.c[v], "0", tol(v))
           rhsOK == \A v \in 1..N : RCloseRel(e.r[v], RMul(cur[v], invdt), TauLin, "0")
           given == [a |-> e.a, b |-> e.b, c |-> e.c]
           massOK == AllNum(e.after) /\
                     LET mA == TrapMass(e.after, g) mB == TrapMass(cur, g)
                     IN RCloseRel(RSub(mA, mB), RNeg(OutflowX(sys, g, e.after, stepdt)), "0", RMul(TauLin, RAdd(RAbs(mA), RAbs(mB))))
           f == F("SweepInsideAStep", live) \cup
                F("CoefficientsMatchSchemeX", Len(e.a) = N /\ Len(e.b) = N /\ Len(e.c) = N /\ live /\ coeffOK) \cup
                F("RightHandSideIsPhiOverDt", Len(e.r) = N /\ live /\ rhsOK) \cup
                F("SolvesGivenSystem", Len(e.after) = N /\ Len(e.r) = N /\ AllNum(e.after) /\ IsSolution(given, "0", e.after, e.r, TauSolve)) \cup
                F("MassLeavesOnlyAtBoundaries", Len(e.after) = N /\ live /\ massOK)
       IN bad' = bad \cup f
    /\ cur' = e.after /\ t' = RAdd(t, stepdt) /\ stepdt' = "0"
    /\ UNCHANGED call

Verdict(f) == LET all == bad \cup f IN IF all = {} THEN TRUE ELSE PrintT(<<"BAD", e.tid, all>>)
EvReturn ==
    /\ e.op = "return"
    /\ LET c == call
           f == IF c.frozen
                THEN F("FrozenReturnsInputWithoutIntegrating", e.out = c.phi /\ cur = c.phi /\ t = c.t0 /\ stepdt = "0")
                ELSE IF MustReject(c) THEN {"MustBeRejected"}
                ELSE F("SweepBeforeReturn", stepdt = "0") \cup
                     F("StepsAddUpToT", RCloseRel(t, c.T, TauTime, RMul(TauTime, RAbs(RSub(c.T, c.t0))))) \cup
                     F("ReturnsCurrentDensity", e.out = cur) \cup
                     (IF c.T = c.t0 THEN F("ZeroDurationIsIdentity", e.out = c.phi) ELSE {})
       IN Verdict(f \cup F("InputDensityNotModified", e.input = c.phi))
    /\ UNCHANGED <<call, t, stepdt, cur, bad>>
EvRaise ==
    /\ e.op = "raise"
    /\ LET c == call
           allowed == (IF MustReject(c) THEN {"ValueError"} ELSE {}) \cup
                      (IF NonConst(c) /\ ~c.frozen /\ c.T # c.t0 THEN {"NotImplementedError"} ELSE {})
       IN Verdict(F("UnexpectedException:" \o e.exc, e.exc \in allowed) \cup F("InputDensityNotModified", e.input = c.phi))
    /\ UNCHANGED <<call, t, stepdt, cur, bad>>
EvOther ==
    /\ e.op \notin (RecordOps \cup {"call", "inject", "sweep", "return", "raise"})
    /\ PrintT(<<"BAD", IF "id" \in DOMAIN e THEN e.id ELSE "?", {"UnknownOp"}>>)
    /\ UNCHANGED <<call, t, stepdt, cur, bad>>

Init == l = 0 /\ call = <<>> /\ t = "0" /\ stepdt = "0" /\ cur = <<>> /\ bad = {}
Next == /\ l < Len(Trace) /\ l' = l + 1
        /\ (EvRecord \/ EvCall \/ EvInject \/ EvSweep \/ EvReturn \/ EvRaise \/ EvOther)
Spec == Init /\ [][Next]_vars
Done == (l = Len(Trace)) => PrintT(<<"DONE", l>>)
AllConsumed == TLCGet("stats").diameter - 1 = Len(Trace)
=============================================================================
