"""Driver-level traces of Integration.one_pop ... five_pops: proxies around the injection functions,
the compiled kernels and the tridiagonal solver record one event per spec action (spec/Trace_Integrator.tla)."""
import itertools, math, random, copy
import numpy as np
from . import common
from .common import rat, rats
from .scheme_common import AXN, rand_grid, rand_density, loguni, delj_table

FUNCS = {1: 'one_pop', 2: 'two_pops', 3: 'three_pops', 4: 'four_pops', 5: 'five_pops'}


def _mig_names(P):
    return [(i, j) for i in range(1, P + 1) for j in range(1, P + 1) if i != j]


def gen_case(rng, P, mode=None, n=None, kind=None, frozen_bias=False):
    """A JSON-able description of one driver call.  Parameters are c0 + c1*t; passing = 'const' | 'func'."""
    mode = mode or rng.choice(['const', 'funcconst', 'linear'])
    n = n or {1: rng.choice([7, 12]), 2: rng.choice([5, 7]), 3: 5, 4: 4, 5: 3}[P]
    kind = kind or rng.choice(['normal'] * 8 + ['zero', 'backwards', 'frozenmig'])
    frozen = [False] * P
    nomut = [False] * P
    if P >= 2 and rng.random() < (0.85 if frozen_bias else 0.4):
        for k in rng.sample(range(P), rng.randint(1, P - 1) if frozen_bias else 1):
            frozen[k] = True
    if P == 2 and rng.random() < (0.5 if frozen_bias else 0.3):
        nomut[rng.randrange(P)] = True

    def par(lo, hi, zero_ok=False, logu=False):
        c0 = 0.0 if (zero_ok and rng.random() < 0.3) else (loguni(rng, lo, hi) if logu else rng.uniform(lo, hi))
        c1 = 0.0
        if mode == 'linear' and rng.random() < 0.7 and c0 != 0.0:
            c1 = c0 * rng.uniform(-0.3, 0.3)      # slowly varying: stays positive over the few steps taken
        return {'c0': c0, 'c1': c1}
    pars = []
    for k in range(1, P + 1):
        mig = []
        for j in range(1, P + 1):
            if j == k or frozen[k - 1] or frozen[j - 1]:
                mig.append({'c0': 0.0, 'c1': 0.0, 'const': True})
            else:
                m = par(0.05, 20, zero_ok=True)
                m['c0'] = round(m['c0'], 3) + (0.001 * (k * 5 + j) if m['c0'] else 0.0)
                mig.append(m)
        pars.append({'nu': par(1e-2, 1e2, logu=True), 'gamma': par(-40, 40, zero_ok=True), 'h': {'c0': rng.choice([0.5, 0.0, 1.0, rng.random()]), 'c1': 0.0},
                     'beta': ({'c0': loguni(rng, 0.3, 3), 'c1': 0.0} if P == 1 and rng.random() < 0.5 else {'c0': 1.0, 'c1': 0.0}), 'mig': mig})
    theta0 = par(0.1, 5)
    case = {'P': P, 'n': n, 'grid_kind': rng.choice(['exponential', 'uniform', 'random']), 'grid_seed': rng.randrange(10 ** 6),
            'phi_seed': rng.randrange(10 ** 6), 'mode': mode, 'kind': kind, 'par': pars, 'theta0': theta0,
            'frozen': frozen, 'nomut': nomut, 't0': rng.choice([0.0, 0.0, 0.3]), 'steps': rng.uniform(0.3, 4.5),
            'delj': rng.random() < 0.25,
            # memory layout of the density handed to the driver: C-contiguous, Fortran order, or a transposed view
            'layout': rng.choice(['C', 'C', 'F', 'T']) if P >= 2 else 'C'}
    if kind == 'frozenmig' and P >= 2:
        k = rng.randrange(P)
        case['frozen'][k] = True
        j = (k + 1) % P
        case['par'][k]['mig'][j] = {'c0': 1.5, 'c1': 0.0}
    return case


def _value(f, mode):
    """How a parameter is passed to dadi: a constant or a function of time."""
    c0, c1 = f['c0'], f['c1']
    if mode == 'const' or f.get('const'):
        return c0
    return (lambda t, c0=c0, c1=c1: c0 + c1 * t)


class _Log:
    def __init__(self, tid):
        self.ev = []
        self.tid = tid
        self.n = itertools.count()

    def add(self, op, **kw):
        d = {'id': 't%d-%d' % (self.tid, next(self.n)), 'tid': 't%d' % self.tid, 'op': op}
        d.update(kw)
        self.ev.append(d)


def run_case(case, tid, keep_out=False):
    """Run the real driver under proxies; return the event list (one trace).  case['tf'] (optional) is the value of the
    module setting Integration.timescale_factor for this call (restored afterwards)."""
    from dadi import Integration
    real_tf = Integration.timescale_factor
    if case.get('tf'):
        Integration.timescale_factor = case['tf']
    try:
        return _run_case(case, tid, keep_out)
    finally:
        Integration.timescale_factor = real_tf


def _run_case(case, tid, keep_out=False):
    import dadi
    from dadi import Integration
    P = case['P']
    rng_g = random.Random(case['grid_seed'])
    xx = rand_grid(rng_g, case['n'], case['grid_kind'])
    phi0 = rand_density(random.Random(case['phi_seed']), [case['n']] * P)
    mode = case['mode']
    log = _Log(tid)
    kwargs = {}
    for k in range(1, P + 1):
        p = case['par'][k - 1]
        sfx = '' if P == 1 else str(k)
        kwargs['nu' + sfx] = _value(p['nu'], mode)
        kwargs['gamma' + sfx] = _value(p['gamma'], mode)
        kwargs['h' + sfx] = _value(p['h'], mode)
        if P == 1:
            kwargs['beta'] = _value(p['beta'], mode)
        for j in range(1, P + 1):
            if j != k:
                kwargs['m%d%d' % (k, j)] = _value(p['mig'][j - 1], mode)
        if P >= 2:
            kwargs['frozen%d' % k] = case['frozen'][k - 1]
        if P == 2:
            kwargs['nomut%d' % k] = case['nomut'][k - 1]
    kwargs['theta0'] = _value(case['theta0'], mode)
    if P == 1:
        kwargs.pop('frozen', None)
    # duration: a few steps of the documented rule at the initial parameters
    dts = []
    for k in range(1, P + 1):
        p = case['par'][k - 1]
        ms = [p['mig'][j]['c0'] for j in range(P) if j != k - 1] or [0]
        dts.append(Integration._compute_dt(np.diff(xx), p['nu']['c0'], ms, p['gamma']['c0'], p['h']['c0']))
    dt0 = min(dts)
    t0 = case['t0']
    T = t0 + case['steps'] * dt0
    if case['kind'] == 'zero':
        T = t0
    elif case['kind'] == 'backwards':
        T = t0 - 0.1
    callin = {'P': P, 'grids': [rats(xx)] * P, 'phi': rats(phi0.ravel()), 'T': rat(T), 't0': rat(t0),
              'par': [{'nu': _encf(p['nu']), 'gamma': _encf(p['gamma']), 'h': _encf(p['h']), 'beta': _encf(p['beta']),
                       'mig': [_encf(m) for m in p['mig']]} for p in case['par']],
              'theta0': _encf(case['theta0']), 'frozen': list(case['frozen']), 'nomut': list(case['nomut']), 'mode': mode, 'delj': bool(case.get('delj')),
              'func': FUNCS[P], 'tf': rat(Integration.timescale_factor)}
    log.add('call', **{'in': callin})

    delj_on = bool(case.get('delj'))
    shape = [case['n']] * P
    grids_f = [xx] * P

    def const_par(k):
        p = case['par'][k - 1]
        return {'nu': p['nu']['c0'], 'gamma': p['gamma']['c0'], 'h': p['h']['c0'], 'beta': p['beta']['c0'], 'mig': [m['c0'] for m in p['mig']]}

    def dj(k, par):
        return {'deljtab': delj_table(grids_f, k, par, shape)} if delj_on else {}
    real_int_c, real_tri = Integration.int_c, Integration.tridiag
    real_delj = Integration.use_delj_trick
    Integration.use_delj_trick = delj_on
    real_inj = {d: getattr(Integration, '_inject_mutations_%dD' % d) for d in range(1, 6)}

    class IntC:
        def __getattr__(self, name):
            f = getattr(real_int_c, name)
            if not name.startswith('implicit_'):
                return f

            def wrapped(phi, *a, **kw):
                if kw:      # the 1-D driver passes use_delj_trick by keyword
                    a = a + tuple(kw[x] for x in ('use_delj_trick',) if x in kw)
                before = rats(np.asarray(phi).ravel())
                if name.startswith('implicit_precalc_'):
                    d = int(name[len('implicit_precalc_')])
                    k = AXN.index(name[-1]) + 1
                    A, B, C, dt = a
                    out = f(phi, *a)
                    log.add('sweep', kind='precalc', k=k, a=rats(np.asarray(A).ravel()), b=rats(np.asarray(B).ravel()),
                            c=rats(np.asarray(C).ravel()), dt=rat(dt), before=before, after=rats(np.asarray(out).ravel()), **dj(k, const_par(k)))
                    return out
                d = int(name[len('implicit_')])
                k = AXN.index(name[-1]) + 1
                grids = a[:d]
                rest = a[d:]
                if d == 1:
                    nu, gamma, h, beta, dt = rest[:5]
                    mig = [0.0]
                else:
                    nu = rest[0]
                    ms = list(rest[1:d])
                    gamma, h, dt = rest[d], rest[d + 1], rest[d + 2]
                    beta = 1.0
                    mig = ms[:k - 1] + [0.0] + ms[k - 1:]
                out = f(phi, *a)
                log.add('sweep', kind='kernel', k=k, par={'nu': rat(nu), 'gamma': rat(gamma), 'h': rat(h), 'beta': rat(beta), 'mig': [rat(m) for m in mig]},
                        dt=rat(dt), before=before, after=rats(np.asarray(out).ravel()),
                        **dj(k, {'nu': float(nu), 'gamma': float(gamma), 'h': float(h), 'beta': float(beta), 'mig': [float(m) for m in mig]}))
                return out
            return wrapped

    class Tri:
        def __getattr__(self, name):
            f = getattr(real_tri, name)
            if name != 'tridiag':
                return f

            def wrapped(a, b, c, r):
                u = f(a, b, c, r)
                log.add('sweep', kind='tridiag', k=1, a=rats(a), b=rats(b), c=rats(c), r=rats(r), before=log.ev[-1].get('after', []), after=rats(u),
                        **dj(1, const_par(1)))
                return u
            return wrapped

    def mk_inj(d):
        def inj(phi, dt, *a):
            before = rats(np.asarray(phi).ravel())
            out = real_inj[d](phi, dt, *a)
            log.add('inject', dt=rat(dt), before=before, after=rats(np.asarray(out).ravel()))
            return out
        return inj
    Integration.int_c, Integration.tridiag = IntC(), Tri()
    for d in range(1, 6):
        setattr(Integration, '_inject_mutations_%dD' % d, mk_inj(d))
    out = None
    try:
        try:
            lay = case.get('layout', 'C')
            if lay == 'F':
                arg = np.asfortranarray(phi0)
            elif lay == 'T':
                arg = np.ascontiguousarray(phi0.transpose()).transpose()     # same values, reversed strides
            else:
                arg = phi0.copy()
            out = getattr(Integration, FUNCS[P])(arg, xx, T, initial_t=t0, **kwargs)
            log.add('return', out=rats(np.asarray(out).ravel()))
        except Exception as ex:
            log.add('raise', exc=type(ex).__name__)
    finally:
        Integration.int_c, Integration.tridiag = real_int_c, real_tri
        Integration.use_delj_trick = real_delj
        for d in range(1, 6):
            setattr(Integration, '_inject_mutations_%dD' % d, real_inj[d])
    if keep_out:
        return log.ev, out
    return log.ev


def _encf(f):
    return {'c0': rat(f['c0']), 'c1': rat(f['c1'])}


def validate(traces, parallel=14):
    """traces: list of event lists.  Returns (verdicts by tid, stats).  The traces are packed into the parallel TLC runs by
    the size of the densities they carry (a 5-population sweep costs far more to judge than a 1-population one)."""
    allrecs = [e for tr in traces for e in tr]
    cost = lambda tr: sum(1 + len(e.get('before', ())) for e in tr)
    return common.validate_trace('Trace_Integrator', allrecs, parallel=parallel, groups=traces, group_weight=cost)


def mutate_trace(tr):
    """Corrupt one logged field of a trace (binding demonstration): skip one sweep event."""
    tr = copy.deepcopy(tr)
    idx = [i for i, e in enumerate(tr) if e['op'] == 'sweep']
    if not idx:
        return None
    del tr[idx[len(idx) // 2]]
    for e in tr:
        e['tid'] = 'MUT-' + e['tid']
        e['id'] = 'MUT-' + e['id']
    return tr


def add_driver_traces(ctx, res, rng, dims, prop, frozen_bias=False):
    """Generate driver traces, validate them with Trace_Integrator and merge into the pipeline result."""
    n_per = 6 if ctx.quick else 40
    cases = []
    for P in dims:
        for r in range(n_per if P <= 3 else max(2, n_per // 3)):
            cases.append(gen_case(rng, P, frozen_bias=frozen_bias))
    if prop == 'C04':
        # every choice of frozen flags (quick: 2 and 3 populations; thorough also 4, and 5 with every single and every
        # complementary choice) and of nomut flags, on the constant and the time-function path
        import itertools as _it
        for P in ((2, 3) if ctx.quick else (2, 3, 4, 5)):
            pats = list(_it.product([False, True], repeat=P))
            if P == 5:
                pats = [pt for pt in pats if sum(pt) in (0, 1, 4, 5)]
            for pt in pats:
                for mode in ('const', 'linear'):
                    c = gen_case(rng, P, mode=mode, kind='normal')
                    c['frozen'] = list(pt)
                    for k_, p_ in enumerate(c['par']):
                        p_['mig'] = [({'c0': 0.0, 'c1': 0.0, 'const': True} if (pt[k_] or pt[j_] or j_ == k_) else m_) for j_, m_ in enumerate(p_['mig'])]
                    if P == 2:
                        c['nomut'] = [rng.random() < 0.5, rng.random() < 0.5]
                    cases.append(c)
    if prop == 'C02':
        # Chang-Cooper weights far out on both sides (|2 M dx / V| > 500: strongly negative and strongly positive advection against weak
        # drift), on the constant-parameter path (Python coefficients) and the time-function path (compiled kernels); own RNG
        rx = random.Random(ctx.seed + 902)
        for P in (1, 2, 3):
            for mode in ('const', 'linear'):
                for flavour in (('sel-', 'sel+', 'mig') if P >= 2 else ('sel-', 'sel+')):
                    if ctx.quick and flavour == 'sel+' and mode == 'linear':
                        continue
                    c = gen_case(rx, P, mode=mode, n=8, kind='normal')
                    c['grid_kind'] = 'uniform'
                    c['delj'] = True
                    c['frozen'] = [False] * P
                    c['nomut'] = [False] * P
                    c['layout'] = 'C'
                    c['steps'] = 2.3
                    for k_, p_ in enumerate(c['par']):
                        p_['nu'] = {'c0': 100.0 if flavour != 'mig' else 60.0, 'c1': 0.0}
                        p_['gamma'] = {'c0': {'sel-': -40.0, 'sel+': 38.0, 'mig': 0.0}[flavour], 'c1': 0.0}
                        p_['h'] = {'c0': 0.5, 'c1': 0.0}
                        p_['beta'] = {'c0': 1.0, 'c1': 0.0}
                        p_['mig'] = [({'c0': 0.0, 'c1': 0.0, 'const': True} if j_ == k_ else
                                      {'c0': (18.0 + 0.25 * (k_ * 3 + j_)) if flavour == 'mig' else 0.0, 'c1': 0.0, 'const': flavour != 'mig'})
                                     for j_ in range(P)]
                    cases.append(c)
    if prop == 'C02':
        # non-generic points: populations tied in all parameters but one (a coefficient matrix shared between populations
        # would be wrong), constant and time-function path
        rt = random.Random(ctx.seed + 903)
        for P in (2, 3):
            for mode in ('const', 'linear'):
                for differ in ('mig', 'h', 'gamma', 'nu'):
                    if ctx.quick and P == 3 and differ in ('gamma', 'nu') and mode == 'linear':
                        continue
                    c = gen_case(rt, P, mode=mode, kind='normal')
                    c['frozen'] = [False] * P
                    c['nomut'] = [False] * P
                    nu0, g0, h0, m0 = rt.choice([1.0, 2.0, 0.5]), rt.choice([-1.5, 2.0, 3.5]), rt.choice([0.5, 0.2]), rt.choice([0.0, 0.8, 2.5])
                    for k_, p_ in enumerate(c['par']):
                        p_['nu'] = {'c0': nu0 * ((1 + 0.37 * k_) if differ == 'nu' else 1.0), 'c1': 0.0}
                        p_['gamma'] = {'c0': g0 * ((1 - 0.6 * k_) if differ == 'gamma' else 1.0), 'c1': 0.0}
                        p_['h'] = {'c0': (h0 + 0.23 * k_) if differ == 'h' else h0, 'c1': 0.0}
                        p_['mig'] = [({'c0': 0.0, 'c1': 0.0, 'const': True} if j_ == k_ else
                                      {'c0': (0.3 + 1.1 * k_ + 0.45 * j_) if differ == 'mig' else m0, 'c1': 0.0, 'const': differ != 'mig' and m0 == 0.0})
                                     for j_ in range(P)]
                    cases.append(c)
    if prop in ('C02', 'C04'):
        # call sequences in one process: the same parameters on a different grid with the same number of points, and the
        # Chang-Cooper switch flipped between two otherwise identical calls (a coefficient table remembered from an earlier
        # call would be wrong); grids whose first / last interior point lies within 1e-8 of the boundary (only the exact
        # corner lines may absorb)
        rh = random.Random(ctx.seed + 904)
        for P in (1, 2, 3):
            if prop == 'C04' and P == 1:
                continue
            base = gen_case(rh, P, mode='const', kind='normal')
            base['frozen'] = [False] * P if prop == 'C02' else [q == P - 1 for q in range(P)]
            base['nomut'] = [False] * P
            for k_, p_ in enumerate(base['par']):
                if base['frozen'][k_] or any(base['frozen']):
                    p_['mig'] = [{'c0': 0.0, 'c1': 0.0, 'const': True} for _ in range(P)]
            base['layout'] = 'C'
            base['delj'] = False
            base['grid_kind'] = 'exponential'
            seq = [base]
            c2 = copy.deepcopy(base); c2['grid_kind'] = 'uniform'; seq.append(c2)                 # same parameters, other grid, same n
            c3 = copy.deepcopy(base); c3['grid_kind'] = 'random'; c3['grid_seed'] += 1; seq.append(c3)
            if prop == 'C02':
                c4 = copy.deepcopy(base); c4['delj'] = True; seq.append(c4)                        # switch on ...
                c5 = copy.deepcopy(base); seq.append(c5)                                           # ... and off again
            if P >= 2:
                c6 = copy.deepcopy(base); c6['mode'] = 'linear'; c6['grid_kind'] = 'uniform'; seq.append(c6)   # time-function path after the constant one
            c7 = copy.deepcopy(base); c7['tf'] = 2.5e-4; c7['steps'] = 3.3; seq.append(c7)       # the module's time-step setting changed between calls
            c8 = copy.deepcopy(base); seq.append(c8)                                               # ... and back
            cases.extend(seq)
        for P, mode in ((2, 'linear'), (3, 'linear'), (2, 'const'), (4, 'const')) if ctx.quick else ((2, 'linear'), (3, 'linear'), (2, 'const'), (3, 'const'), (4, 'const'), (4, 'linear'), (5, 'const')):
            c = gen_case(rh, P, mode=mode, kind='normal')
            c['grid_kind'] = 'crowded'
            c['delj'] = False
            c['layout'] = 'C'
            if prop == 'C04':
                c['frozen'] = [q == 0 for q in range(P)]
                c['nomut'] = [False] * P
                for k_, p_ in enumerate(c['par']):
                    p_['mig'] = [({'c0': 0.0, 'c1': 0.0, 'const': True} if (0 in (k_, j_) or j_ == k_) else m_) for j_, m_ in enumerate(p_['mig'])]
            cases.append(c)
    if prop == 'C04':
        # every choice of frozen flags (quick: 2 and 3 populations; thorough also 4, and 5 with every single and every
        # complementary choice) and of nomut flags, on the constant and the time-function path
        import itertools as _it
        for P in ((2, 3) if ctx.quick else (2, 3, 4, 5)):
            pats = list(_it.product([False, True], repeat=P))
            if P == 5:
                pats = [pt for pt in pats if sum(pt) in (0, 1, 4, 5)]
            for pt in pats:
                for mode in ('const', 'linear'):
                    c = gen_case(rng, P, mode=mode, kind='normal')
                    c['frozen'] = list(pt)
                    for k_, p_ in enumerate(c['par']):
                        p_['mig'] = [({'c0': 0.0, 'c1': 0.0, 'const': True} if (pt[k_] or pt[j_] or j_ == k_) else m_) for j_, m_ in enumerate(p_['mig'])]
                    if P == 2:
                        c['nomut'] = [rng.random() < 0.5, rng.random() < 0.5]
                    cases.append(c)
    if prop == 'C02':
        # Chang-Cooper weights far out on both sides (|2 M dx / V| > 500: strongly negative and strongly positive advection against weak
        # drift), on the constant-parameter path (Python coefficients) and the time-function path (compiled kernels); own RNG
        rx = random.Random(ctx.seed + 902)
        for P in (1, 2, 3):
            for mode in ('const', 'linear'):
                for flavour in (('sel-', 'sel+', 'mig') if P >= 2 else ('sel-', 'sel+')):
                    if ctx.quick and flavour == 'sel+' and mode == 'linear':
                        continue
                    c = gen_case(rx, P, mode=mode, n=8, kind='normal')
                    c['grid_kind'] = 'uniform'
                    c['delj'] = True
                    c['frozen'] = [False] * P
                    c['nomut'] = [False] * P
                    c['layout'] = 'C'
                    c['steps'] = 2.3
                    for k_, p_ in enumerate(c['par']):
                        p_['nu'] = {'c0': 100.0 if flavour != 'mig' else 60.0, 'c1': 0.0}
                        p_['gamma'] = {'c0': {'sel-': -40.0, 'sel+': 38.0, 'mig': 0.0}[flavour], 'c1': 0.0}
                        p_['h'] = {'c0': 0.5, 'c1': 0.0}
                        p_['beta'] = {'c0': 1.0, 'c1': 0.0}
                        p_['mig'] = [({'c0': 0.0, 'c1': 0.0, 'const': True} if j_ == k_ else
                                      {'c0': (18.0 + 0.25 * (k_ * 3 + j_)) if flavour == 'mig' else 0.0, 'c1': 0.0, 'const': flavour != 'mig'})
                                     for j_ in range(P)]
                    cases.append(c)
    if prop == 'C02':
        # non-generic points: populations with exactly equal size, selection and dominance but asymmetric migration (a shared
        # coefficient matrix would be wrong), constant and time-function path
        rt = random.Random(ctx.seed + 903)
        for P in (2, 3):
            for mode in ('const', 'linear'):
                c = gen_case(rt, P, mode=mode, kind='normal')
                c['frozen'] = [False] * P
                c['nomut'] = [False] * P
                nu0, g0, h0 = rt.choice([1.0, 2.0, 0.5]), rt.choice([0.0, -1.5, 2.0]), rt.choice([0.5, 0.2])
                for k_, p_ in enumerate(c['par']):
                    p_['nu'] = {'c0': nu0, 'c1': 0.0}
                    p_['gamma'] = {'c0': g0, 'c1': 0.0}
                    p_['h'] = {'c0': h0, 'c1': 0.0}
                    p_['mig'] = [({'c0': 0.0, 'c1': 0.0, 'const': True} if j_ == k_ else {'c0': 0.3 + 1.1 * k_ + 0.45 * j_, 'c1': 0.0})
                                 for j_ in range(P)]
                cases.append(c)
    if prop == 'C04':
        # a frozen population with migration must be rejected: every (P, frozen population, partner, direction)
        for P in (2, 3, 4, 5):
            for k in range(P):
                for j in range(P):
                    if j == k:
                        continue
                    for direction in (0, 1):
                        c = gen_case(rng, P, mode='const', n=4, kind='frozenmig')
                        c['frozen'] = [q == k for q in range(P)]
                        c['nomut'] = [False] * P
                        for p_ in c['par']:
                            p_['mig'] = [{'c0': 0.0, 'c1': 0.0, 'const': True} for _ in range(P)]
                        a, b = (k, j) if direction == 0 else (j, k)
                        c['par'][a]['mig'][b] = {'c0': 1.5, 'c1': 0.0, 'const': True}
                        c['steps'] = 0.4
                        c['delj'] = False
                        c['layout'] = 'C'
                        cases.append(c)
                        if direction == 0:
                            # the same with a rate that is zero at the start and switches on later (a function of time)
                            c2 = copy.deepcopy(c)
                            c2['mode'] = 'linear'
                            c2['par'][a]['mig'][b] = {'c0': 0.0, 'c1': 40.0}
                            cases.append(c2)
    traces = []
    for tid, case in enumerate(cases):
        traces.append(run_case(case, tid))
    verdicts, st = validate(traces)
    # binding demonstration: a trace with one sweep removed must be rejected
    muts = [m for m in (mutate_trace(tr) for tr in traces[:12]) if m]
    mv, _ = validate(muts, parallel=4)
    missed = [m[0]['tid'] for m in muts if m[0]['tid'] not in mv]
    if missed:
        raise common.MachineryError('binding demonstration failed: traces with a sweep removed accepted: %s' % missed[:4])
    for tid, clauses in verdicts.items():
        k = int(tid[1:])
        case = cases[k]
        for c in clauses:
            res['violations'].append({'key': 'Integration.%s/%s' % (FUNCS[case['P']], c),
                                      'what': 'driver trace %s (%s, %s parameters, kind=%s): clause %s violated' % (tid, FUNCS[case['P']], case['mode'], case['kind'], c),
                                      'payload': {'case': case, 'clause': c, 'trace_spec': 'Trace_Integrator'}})
    cov = res['coverage']
    cov['traces_validated_against_impl'] += len(traces)
    cov['states'] += st['states']
    cov['transitions'] += st['transitions']
    cov['driver_traces'] = {'traces': len(traces), 'events': sum(len(t) for t in traces), 'rejected': len(verdicts),
                            'by_function_and_mode': _count(cases), 'binding_demo': {'mutated_traces': len(muts), 'rejected': len(muts) - len(missed)},
                            'wall_s': round(st['wall'], 1)}
    cov['evaluations'] += len(traces)
    cov['distinct_nontrivial'] += len({(c['P'], c['mode'], c['kind'], tuple(c['frozen']), tuple(c['nomut'])) for c in cases})
    cov['samples'].append({'driver_case': cases[0], 'events': [e['op'] + (':' + e.get('kind', '') if e['op'] == 'sweep' else '') for e in traces[0]]})
    return res


def _count(cases):
    d = {}
    for c in cases:
        k = '%s/%s/%s%s' % (FUNCS[c['P']], c['mode'], c['kind'], '/delj' if c.get('delj') else '')
        d[k] = d.get(k, 0) + 1
    return d


def replay(ctx, pay):
    case = pay['case']
    tr = run_case(case, 0)
    verdicts, st = validate([tr], parallel=1)
    viol = []
    for tid, clauses in verdicts.items():
        for c in clauses:
            viol.append({'key': 'Integration.%s/%s' % (FUNCS[case['P']], c), 'what': 'replayed driver trace: clause %s violated' % c, 'payload': pay})
    return {'coverage': {'states': st['states'], 'transitions': st['transitions'], 'traces_validated_against_impl': 1, 'samples': [case]},
            'assumptions': [], 'violations': viol}
