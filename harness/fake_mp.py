"""Deterministic lock-step scheduler with thread-backed fakes of
multiprocessing.Manager / Queue / list / Process  (C17, behaviour replay).

dadi's Cache1D/Cache2D._multiple_processes do `from multiprocessing import
Manager, Process` *inside* the method, so patching the attributes of the
multiprocessing module makes the unmodified dadi code run on these fakes.
Every queue.put / queue.get / list.append / iter(list) / Process.start /
Process.join is a *yield point*: the calling thread parks there, announces
what it wants to do, and only proceeds when the scheduler grants it one step.
Between two yield points a thread runs alone (the scheduler waits until every
thread is parked or finished), so an execution is exactly a sequence of
(actor) choices - a schedule - and is reproducible.

Actor 0 is the thread running the parent code (`Scheduler.run_main(fn)`),
actors 1, 2, ... are the fake processes in the order they were *started*.

Nothing here judges anything: `Scheduler.view()` exposes what is observable
(queue contents, result list, what each actor is parked at) for the recorder.
"""
import threading, collections, multiprocessing, contextlib

TIMEOUT = 20.0


class Abort(BaseException):
    """Raised inside managed threads to unwind them when a run is abandoned."""


class SchedulerError(Exception):
    pass


class _Actor:
    def __init__(self, ident, name):
        self.ident = ident
        self.name = name
        self.state = 'new'          # new | running | parked | finished
        self.pending = None         # (op, arg, enabled_fn)
        self.granted = False
        self.result = None
        self.exc = None
        self.thread = None


class Scheduler:
    def __init__(self):
        self.cv = threading.Condition()
        self.actors = {}            # ident -> _Actor
        self.by_thread = {}
        self.aborting = False
        self.queues = []
        self.lists = []
        self.nproc = 0

    # ---- called from managed threads ----
    def _me(self):
        return self.by_thread[threading.get_ident()]

    def yield_point(self, op, arg, enabled, perform):
        me = self._me()
        with self.cv:
            if self.aborting:
                raise Abort()
            me.pending = (op, arg, enabled)
            me.state = 'parked'
            self.cv.notify_all()
            while not me.granted and not self.aborting:
                self.cv.wait()
            if self.aborting and not me.granted:
                raise Abort()
            me.granted = False
            me.pending = None
            # state was set to 'running' by the scheduler when it granted the step
            return perform()

    def _thread_body(self, actor, fn):
        self.by_thread[threading.get_ident()] = actor
        try:
            actor.result = fn()
        except Abort:
            actor.exc = None
            actor.aborted = True
        except BaseException as e:     # recorded; the recorder reports it, TLC judges
            actor.exc = e
        finally:
            with self.cv:
                actor.state = 'finished'
                actor.pending = None
                self.cv.notify_all()

    def _spawn(self, ident, name, fn):
        """Create and start a managed thread (caller holds self.cv)."""
        a = _Actor(ident, name)
        a.state = 'running'
        self.actors[ident] = a
        t = threading.Thread(target=self._thread_body, args=(a, fn), name=name, daemon=True)
        a.thread = t
        t.start()
        return a

    # ---- scheduler side ----
    def _quiesce(self):
        """Wait (holding cv) until no managed thread is running."""
        import time
        t0 = time.time()
        while any(a.state == 'running' for a in self.actors.values()):
            if not self.cv.wait(timeout=1.0) and time.time() - t0 > TIMEOUT:
                raise SchedulerError('a managed thread neither parked nor finished within %ss: %s'
                                     % (TIMEOUT, [(a.ident, a.state) for a in self.actors.values()]))

    def run_main(self, fn):
        with self.cv:
            self._spawn(0, 'main', fn)
            self._quiesce()

    def enabled(self, ident):
        a = self.actors.get(ident)
        if a is None or a.state != 'parked':
            return False
        return bool(a.pending[2]())

    def enabled_actors(self):
        with self.cv:
            return [i for i in sorted(self.actors) if self.enabled(i)]

    def step(self, ident):
        """Grant one step to actor ident.  Returns False (nothing done) when the
        actor is not parked at an enabled yield point."""
        with self.cv:
            if not self.enabled(ident):
                return False
            a = self.actors[ident]
            a.state = 'running'
            a.granted = True
            self.cv.notify_all()
            self._quiesce()
            return True

    def finished(self, ident=0):
        a = self.actors.get(ident)
        return a is not None and a.state == 'finished'

    def abort(self):
        with self.cv:
            self.aborting = True
            self.cv.notify_all()
        for a in list(self.actors.values()):
            if a.thread is not None:
                a.thread.join(timeout=TIMEOUT)

    def view(self):
        """Observable state: queues, lists and what every actor is parked at."""
        with self.cv:
            acts = {}
            for i, a in sorted(self.actors.items()):
                if a.state == 'parked':
                    acts[i] = ('parked', a.pending[0], a.pending[1])
                else:
                    acts[i] = (a.state, None, a.exc)
            return {'queues': [list(q._items) for q in self.queues],
                    'lists': [list(l._items) for l in self.lists],
                    'actors': acts, 'nproc': self.nproc}

    # ---- the fake multiprocessing API ----
    def Manager(self):
        return FakeManager(self)

    def Process(self, group=None, target=None, name=None, args=(), kwargs=None, daemon=None):
        return FakeProcess(self, target, args, kwargs or {})

    @contextlib.contextmanager
    def patched(self):
        """Replace multiprocessing.Manager/Process by the fakes for the duration."""
        old = (multiprocessing.Manager, multiprocessing.Process)
        multiprocessing.Manager, multiprocessing.Process = self.Manager, self.Process
        try:
            yield self
        finally:
            multiprocessing.Manager, multiprocessing.Process = old


class FakeManager:
    def __init__(self, sched):
        self.s = sched

    def __enter__(self):
        return self

    def __exit__(self, *exc):
        return False

    def Queue(self, maxsize=0):
        q = FakeQueue(self.s, maxsize)
        self.s.queues.append(q)
        return q

    def list(self, seq=()):
        l = FakeList(self.s, seq)
        self.s.lists.append(l)
        return l

    def shutdown(self):
        pass


class FakeQueue:
    def __init__(self, sched, maxsize):
        self.s = sched
        self.maxsize = maxsize
        self._items = collections.deque()

    def put(self, item, block=True, timeout=None):
        return self.s.yield_point('put', item,
                                  lambda: self.maxsize <= 0 or len(self._items) < self.maxsize,
                                  lambda: self._items.append(item))

    def get(self, block=True, timeout=None):
        return self.s.yield_point('get', None, lambda: len(self._items) > 0, lambda: self._items.popleft())

    def qsize(self):
        return len(self._items)

    def empty(self):
        return not self._items

    def full(self):
        return self.maxsize > 0 and len(self._items) >= self.maxsize


class FakeList:
    def __init__(self, sched, seq=()):
        self.s = sched
        self._items = list(seq)

    def append(self, x):
        return self.s.yield_point('append', x, lambda: True, lambda: self._items.append(x))

    def __iter__(self):
        return self.s.yield_point('iter', None, lambda: True, lambda: iter(list(self._items)))

    def __len__(self):
        return len(self._items)

    def __getitem__(self, k):
        return self._items[k]


class FakeProcess:
    def __init__(self, sched, target, args, kwargs):
        self.s = sched
        self.target, self.args, self.kwargs = target, args, kwargs
        self.actor = None
        self.exitcode = None

    def _do_start(self):
        self.s.nproc += 1
        self.ident = self.s.nproc
        self.actor = self.s._spawn(self.ident, 'worker-%d' % self.ident,
                                   lambda: self.target(*self.args, **self.kwargs))

    def start(self):
        return self.s.yield_point('start', self, lambda: True, self._do_start)

    def join(self, timeout=None):
        return self.s.yield_point('join', self,
                                  lambda: self.actor is not None and self.actor.state == 'finished',
                                  lambda: None)

    def is_alive(self):
        return self.actor is not None and self.actor.state != 'finished'
