CONSTANT TauSame = "1/10000000000"
CONSTANT NegTol = "1/1000000"
CONSTANT SwapRatio = "1/4"
CONSTANT SwapFloor = "1/10000000000"
SPECIFICATION Spec
CHECK_DEADLOCK FALSE
INVARIANT Done
POSTCONDITION AllConsumed
