CONSTANTS
  MaxSteps = 2
  Tier = "thorough"
SPECIFICATION Spec
CHECK_DEADLOCK FALSE
INVARIANT MassBalanceX
INVARIANT LinesConservativeX
INVARIANT LinesPrecalcX
INVARIANT GenericFormIsSchemeLine
INVARIANT XIsEffectiveAutosome
INVARIANT VarianceFactorIsCensusOverEffectiveSize
INVARIANT BetaOneGenicReduction
INVARIANT InjectionReduction
INVARIANT LinesRescaleX
INVARIANT NeutralEquilibriumFlux
PROPERTY StepOKX
PROPERTY StepRescaleX
