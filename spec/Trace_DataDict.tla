--------------------------- MODULE Trace_DataDict ---------------------------
(***************************************************************************)
(* Trace validation for module DataDict (C13).  Every record is one call   *)
(* of the real dadi on files the driver wrote from an abstract genotype    *)
(* matrix; the record carries that matrix (not dadi's view of it) and the  *)
(* raw result.  The verdict of a record is the set of violated clauses.    *)
(*                                                                         *)
(* Source of a dictionary in a record:  in.vcf + in.filter (the abstract   *)
(* file: the specification's reader produces the dictionary) or in.dd (a   *)
(* dictionary given explicitly: hand-made, read from a SNP table, or the   *)
(* randomly subsampled one that a previous, separately judged call made).  *)
(***************************************************************************)
EXTENDS DataDict, Json, IOUtils
CONSTANTS Tau        \* relative tolerance per entry / backward tolerance of the statistics

Trace == JsonDeserialize(IOEnv.TRACE_FILE)
VARIABLE i
F(name, ok) == IF ok THEN {} ELSE {name}
Raised(r) == "raised" \in DOMAIN r.out
ToSet(q) == {q[j] : j \in 1..Len(q)}
Tiny == "1/1000000000000000000000000000000"

\* ---- dictionaries as recorded: a sequence of [key, seg, og, calls (record pop -> <<c1, c2>>)]
DDFromSeq(q) == [k \in {q[j].key : j \in 1..Len(q)} |->
                    LET e == q[CHOOSE j \in 1..Len(q) : q[j].key = k] IN [seg |-> e.seg, og |-> e.og, calls |-> e.calls]]
NoDupKeys(q) == Cardinality({q[j].key : j \in 1..Len(q)}) = Len(q)
SrcDD(r) == IF "dd" \in DOMAIN r.in THEN DDFromSeq(r.in.dd) ELSE DDOf(r.in.vcf, r.in.filter)
CallsEq(got, exp) == DOMAIN got = DOMAIN exp /\ \A p \in DOMAIN exp : got[p] = exp[p]
SubMap(q) == [p \in {q[j].pop : j \in 1..Len(q)} |-> q[CHOOSE j \in 1..Len(q) : q[j].pop = p].k]

\* ---- Misc.make_data_dict_vcf, no subsampling
FVcf(r) ==
    IF Raised(r) THEN {"VcfRaised"}
    ELSE LET exp == DDOf(r.in.vcf, r.in.filter)
             got == DDFromSeq(r.out.dd)
             both == (DOMAIN exp) \cap (DOMAIN got) IN
         F("VcfKeys", DOMAIN got = DOMAIN exp /\ NoDupKeys(r.out.dd)) \cup
         F("VcfSegregating", \A k \in both : got[k].seg = exp[k].seg) \cup
         F("VcfOutgroup", \A k \in both : got[k].og = exp[k].og) \cup
         F("VcfCalls", \A k \in both : CallsEq(got[k].calls, exp[k].calls))

\* ---- Misc.make_data_dict_vcf with subsample = {pop: k}
FVcfSub(r) ==
    IF Raised(r) THEN {"SubRaised"}
    ELSE LET file == r.in.vcf
             sub  == SubMap(r.in.sub)
             E    == SubEffective(file, r.in.filter, sub)
             line(k) == file.lines[CHOOSE x \in E : Key(file.lines[x]) = k]
             got  == DDFromSeq(r.out.dd)
             both == {Key(file.lines[x]) : x \in E} \cap (DOMAIN got)
             SP   == SubPops(file.samples, sub) IN
         F("SubKeys", DOMAIN got = {Key(file.lines[x]) : x \in E} /\ NoDupKeys(r.out.dd)) \cup
         F("SubSegregating", \A k \in both : got[k].seg = <<line(k).ref, line(k).alt>>) \cup
         F("SubOutgroup", \A k \in both : got[k].og = Outgroup(line(k))) \cup
         F("SubPops", \A k \in both : DOMAIN got[k].calls = SP) \cup
         F("SubExactK", \A k \in both : \A p \in SP \cap DOMAIN got[k].calls :
                            got[k].calls[p][1] + got[k].calls[p][2] = 2 * sub[p]) \cup
         F("SubFromCalled", \A k \in both : \A p \in SP \cap DOMAIN got[k].calls :
                            SubCallsOK(file.samples, line(k), p, sub[p], got[k].calls[p]))

\* ---- Misc.make_data_dict (SNP table): rows [idcols, ii, a1, a2, og, c1, c2]; later rows win
RECURSIVE JoinU(_)
JoinU(q) == IF Len(q) = 0 THEN "" ELSE IF Len(q) = 1 THEN q[1] ELSE q[1] \o "_" \o JoinU(Tail(q))
RowKey(row) == IF Len(row.idcols) = 0 THEN "SNP_" \o ToString(row.ii) ELSE JoinU(row.idcols)
RECURSIVE TableDD(_, _, _, _)
TableDD(dd, pops, rows, j) ==
    IF j > Len(rows) THEN dd
    ELSE LET row == rows[j] IN
         TableDD(Put(dd, RowKey(row), [seg |-> <<row.a1, row.a2>>, og |-> row.og,
                                       calls |-> [p \in ToSet(pops) |-> LET a == CHOOSE a \in 1..Len(pops) : pops[a] = p IN <<row.c1[a], row.c2[a]>>]]),
                 pops, rows, j + 1)
FSnpFile(r) ==
    IF Raised(r) THEN {"TableRaised"}
    ELSE LET exp == TableDD(<<>>, r.in.pops, r.in.rows, 1)
             got == DDFromSeq(r.out.dd)
             both == (DOMAIN exp) \cap (DOMAIN got) IN
         F("TableKeys", DOMAIN got = DOMAIN exp /\ NoDupKeys(r.out.dd)) \cup
         F("TableSegregating", \A k \in both : got[k].seg = exp[k].seg) \cup
         F("TableOutgroup", \A k \in both : got[k].og = exp[k].og) \cup
         F("TableCalls", \A k \in both : CallsEq(got[k].calls, exp[k].calls))

\* ---- Misc.count_data_dict
FCount(r) ==
    IF Raised(r) THEN {"CountRaised"}
    ELSE LET exp == Counts(SrcDD(r), r.in.pops)
             got == {<<c.called, c.derived, c.pol, c.n>> : c \in ToSet(r.out.counts)} IN
         F("CountConfigurations", {<<t[1], t[2], t[3]>> : t \in got} = DOMAIN exp) \cup
         F("CountNumbers", got = {<<c[1], c[2], c[3], exp[c]>> : c \in DOMAIN exp})

\* ---- spectra: data at entries the specification leaves unmasked (a corner entry that dadi
\* ---- masked by default is not compared); masks exact away from the two corners
DataOK(out, exp) ==
    LET floor == RMul(Tiny, RSeqMaxAbs(exp.d)) IN
    /\ out.sh = exp.sh
    /\ \A k \in 1..Size(exp.sh) :
          (~exp.m[k] /\ ~(IsCornerIx(exp.sh, Unflat(exp.sh, k)) /\ out.m[k])) => RCloseRel(out.d[k], exp.d[k], Tau, floor)
MaskOK(out, exp) ==
    /\ out.sh = exp.sh
    /\ \A k \in 1..Size(exp.sh) : IsCornerIx(exp.sh, Unflat(exp.sh, k)) \/ out.m[k] = exp.m[k]
Cmp(out, exp, tag) ==
    F(tag \o "Shape", out.sh = exp.sh) \cup
    (IF out.sh = exp.sh THEN F(tag \o "Data", DataOK(out, exp)) \cup F(tag \o "Mask", MaskOK(out, exp)) ELSE {}) \cup
    F(tag \o "Folded", out.f = exp.f) \cup F(tag \o "Labels", out.ids = exp.ids)

\* ---- Spectrum.from_data_dict
FFs(r) ==
    IF Raised(r) THEN {"FsRaised"}
    ELSE LET dd  == SrcDD(r)
             exp == SpectrumOf(dd, r.in.pops, r.in.proj, r.in.pol)
             nus == Cardinality(UsableKeys(dd, r.in.pops, r.in.proj, r.in.pol)) IN
         Cmp(r.out.s, exp, "Fs") \cup
         \* the total (nothing masked) is the number of usable SNPs
         (IF r.in.pol /\ ~r.in.mask_corners /\ r.out.s.sh = exp.sh
          THEN F("FsTotalIsUsableCount", (\A k \in 1..Size(exp.sh) : ~r.out.s.m[k]) /\ RCloseRel(Total(r.out.s), RInt(nus), Tau, "0"))
          ELSE {})

\* ---- Misc.fragment_data_dict
FFragment(r) ==
    IF Raised(r) THEN {"FragmentRaised"}
    ELSE LET where == [k \in {r.in.where[j].key : j \in 1..Len(r.in.where)} |->
                          LET w == r.in.where[CHOOSE j \in 1..Len(r.in.where) : r.in.where[j].key = k] IN [chrom |-> w.chrom, pos |-> w.pos]]
             q == [j \in 1..Len(r.out.chunks) |-> ToSet(r.out.chunks[j])] IN
         F("ChunksPartitionTheSNPs", IsPartition(q, DOMAIN where) /\ \A j \in 1..Len(q) : Cardinality(q[j]) = Len(r.out.chunks[j])) \cup
         (IF \A j \in 1..Len(q) : q[j] \subseteq DOMAIN where
          THEN F("ChunkOneChromosome", OneChrom(q, where)) \cup F("ChunkSpan", SpanOK(q, where, r.in.cs)) \cup
               F("ChunkContiguous", Contiguous(q, where))
          ELSE {})

\* ---- spectra of the chunks of a fragmented dictionary and their sum
FChunkFs(r) ==
    IF Raised(r) THEN {"ChunkFsRaised"}
    ELSE LET dd == SrcDD(r)
             q  == [j \in 1..Len(r.in.chunks) |-> ToSet(r.in.chunks[j])]
             whole == SpectrumOf(dd, r.in.pops, r.in.proj, r.in.pol)
             n == Len(r.out.ss)
             sum(k) == RSum([j \in 1..n |-> r.out.ss[j].d[k]]) IN
         F("ChunkCount", n = Len(q)) \cup
         UNION {Cmp(r.out.ss[j], SpectrumOfKeys(dd, q[j], r.in.pops, r.in.proj, r.in.pol), "Chunk") : j \in 1..(IF n = Len(q) THEN n ELSE 0)} \cup
         Cmp(r.out.whole, whole, "Whole") \cup
         F("ChunkSpectraAddUp", \A j \in 1..n : r.out.ss[j].sh = r.out.whole.sh /\
              \A k \in 1..Size(r.out.whole.sh) : r.out.whole.m[k] \/
                   RCloseRel(sum(k), r.out.whole.d[k], Tau, RMul(Tiny, RSeqMaxAbs(r.out.whole.d))))

\* ---- Misc.bootstraps_from_dd_chunks: replicate b is the sum of the chunk spectra drawn[b]
FBoot(r) ==
    IF Raised(r) THEN {"BootRaised"}
    ELSE LET dd == SrcDD(r)
             q  == [j \in 1..Len(r.in.chunks) |-> ToSet(r.in.chunks[j])]
             csp == ChunkSpectra(dd, q, r.in.pops, r.in.proj, r.in.pol)
             nb == Len(r.in.drawn) IN
         F("BootCount", Len(r.out.bs) = nb) \cup
         F("BootDrawCount", \A b \in 1..nb : Len(r.in.drawn[b]) = Len(q)) \cup
         UNION {Cmp(r.out.bs[b], BootSum(csp, r.in.drawn[b]), "Boot") : b \in 1..(IF Len(r.out.bs) = nb THEN nb ELSE 0)}

\* ---- statistics: from the specification's spectrum, and from the genotype counts directly
IsRat(x) == x \notin {"nan", "inf", "-inf", "raised", "na", "masked"}
StatClose(got, exact) == IsRat(got) /\ RCloseRel(got, exact, Tau, "0")
FStats(r) ==
    LET dd == SrcDD(r)
        pops == r.in.pops  proj == r.in.proj  pol == r.in.pol
        s  == SpectrumOf(dd, pops, proj, pol)
        o  == r.out
        sm == SMat(dd, pops, proj, pol)
        common == F("StatS", StatClose(o.S, SOf(s))) \cup F("StatSFromMatrix", StatClose(o.S, sm)) IN
    IF Len(pops) = 1
    THEN LET p == pops[1]  m == proj[1]
             pim == PiMat(dd, p, m, pol)
             wat == RDiv(sm, Harm(m))
             csq == TajCsqOf(m, sm)
             num == RSub(pim, wat) IN
         common \cup
         (IF m >= 2 THEN F("StatPi", StatClose(o.pi, PiOf(s))) \cup F("StatPiFromMatrix", StatClose(o.pi, pim)) \cup
                         F("StatWatterson", StatClose(o.W, WattersonOf(s))) \cup F("StatWattersonFromMatrix", StatClose(o.W, wat))
          ELSE {}) \cup
         (IF m >= 2 /\ pol THEN F("StatThetaL", StatClose(o.thetaL, ThetaLOf(s))) \cup
                                F("StatThetaLFromMatrix", StatClose(o.thetaL, ThetaLMat(dd, p, m)))
          ELSE {}) \cup
         \* Tajima's D = num / sqrt(csq): the recorder supplies c = sqrt(csq), which is verified here
         (IF m >= 4 /\ RPos(csq)
          THEN LET c == r.tab.sqrtC IN
               F("SqrtTable", IsRat(c) /\ RPos(c) /\ RCloseRel(RSq(c), csq, "1/1000000000000", "0")) \cup
               (IF IsRat(c) /\ RPos(c)
                THEN F("StatTajimaD", IsRat(o.D) /\
                         RLeq(RAbs(RSub(RMul(o.D, c), num)), RMul(Tau, RAdd(RAdd(RAbs(pim), RAbs(wat)), RAbs(num))))) \cup
                     F("StatTajimaDSpectrum", TajNumOf(s) = num /\ TajCsq(s) = csq)
                ELSE {})
          ELSE {})
    ELSE common \cup
         (IF FstDefined(s.sh)
          THEN LET fs == FstSums(s) IN
               IF RIsZero(RAdd(fs[1], fs[2])) THEN {}
               ELSE F("StatFst", IsRat(o.Fst) /\
                        RLeq(RAbs(RSub(RMul(o.Fst, RAdd(fs[1], fs[2])), fs[1])), RMul(Tau, RAdd(fs[3], fs[4]))))
          ELSE {})

Failed(r) ==
    CASE r.op = "vcf"       -> FVcf(r)
      [] r.op = "vcf_sub"   -> FVcfSub(r)
      [] r.op = "snpfile"   -> FSnpFile(r)
      [] r.op = "count"     -> FCount(r)
      [] r.op = "fs"        -> FFs(r)
      [] r.op = "fragment"  -> FFragment(r)
      [] r.op = "chunk_fs"  -> FChunkFs(r)
      [] r.op = "boot"      -> FBoot(r)
      [] r.op = "stats"     -> FStats(r)
      [] OTHER              -> {"UnknownOp"}

Init == i = 0
Next == /\ i < Len(Trace)
        /\ i' = i + 1
        /\ LET r == Trace[i + 1] f == Failed(r) IN IF f = {} THEN TRUE ELSE PrintT(<<"BAD", r.id, f>>)
Spec == Init /\ [][Next]_i
Done == (i = Len(Trace)) => PrintT(<<"DONE", i>>)
AllConsumed == TLCGet("stats").diameter - 1 = Len(Trace)
=============================================================================
