def add_driver_traces(ctx, res, rng, dims, prop):
    return res
def replay(ctx, pay):
    raise NotImplementedError
