"""C18 - low-pass calling model (spec/LowPass.tla, spec/LowPassMC.tla, spec/Trace_LowPass.tla).

The driver only generates inputs, calls the real dadi.LowPass.LowPass functions and records
what they returned (exact rationals).  Every verdict is TLC's (Trace_LowPass.Failed)."""
import random, itertools, copy
from fractions import Fraction
import numpy as np
from . import common
from .common import rat, rats
from .spectrum_common import enc

PROP = 'C18'
S_PART = 'LowPass.partitions_and_probabilities'
S_PINB = 'LowPass.part_inbreeding_probability'
S_PRJI = 'LowPass.projection_inbreeding'
S_PRJM = 'LowPass.projection_matrix'
S_CEM = 'LowPass.calling_error_matrix'
S_NOCALL = 'LowPass.probability_of_no_call_1D_GATK_multisample'
S_ENOUGH = 'LowPass.probability_enough_individuals_covered'
S_PRE = 'LowPass.low_cov_precalc_GATK_multisample_GATK_multisample'
S_APPLY = 'LowPass.make_low_pass_func_GATK_multisample'
S_SIMC = 'LowPass.simulate_GATK_multisample_calling'
S_SIMR = 'LowPass.simulate_reads'
S_SUBS = 'LowPass.subsample_genotypes_1D'


# --------------------------------------------------------------------------
# input generators
# --------------------------------------------------------------------------
def gen_F(rng, allow_zero=True):
    """Inbreeding coefficient in [0, 1): 0, generic, close to 1, and small (the F -> 0 part of the statement)."""
    u = rng.random()
    if allow_zero and u < 0.25:
        return 0.0
    if u < 0.60:
        return rng.uniform(0.01, 0.98)
    if u < 0.70:
        return 1.0 - 10 ** rng.uniform(-6, -2)
    return 10 ** rng.uniform(-10, -2)


def gen_cov(rng, kind=None, D=None):
    """A depth-of-coverage distribution in dadi's format: array([depths 0..D, probabilities])."""
    kind = kind or rng.choice(['poisson', 'poisson', 'random', 'sparse', 'nozero', 'deep'])
    if kind == 'deep':
        D = D or rng.randint(55, 80)
        p = np.zeros(D + 1)
        lo = rng.randint(52, D)
        for d in range(lo, D + 1):
            p[d] = rng.random()
        if p.sum() == 0:
            p[D] = 1.0
    else:
        D = D or rng.choice([1, 2, 3, 5, 10, 20, 40, 80])
        if kind == 'poisson':
            lam = rng.uniform(0.3, min(8.0, D))
            p = np.array([np.exp(-lam + d * np.log(lam) - sum(np.log(range(1, d + 1)))) for d in range(D + 1)])
        elif kind == 'random':
            p = np.array([rng.random() ** 3 for _ in range(D + 1)])
        elif kind == 'sparse':
            p = np.zeros(D + 1)
            for d in rng.sample(range(D + 1), min(D + 1, rng.randint(1, 3))):
                p[d] = rng.random()
            if p[1:].sum() == 0:
                p[rng.randint(1, D)] = rng.random() + 0.1
        else:  # 'nozero': every individual has at least one read
            p = np.array([0.0] + [rng.random() for _ in range(D)])
    p = p / p.sum()
    return np.array([np.arange(D + 1, dtype=float), p])


def enc_cov(cov):
    return rats(cov[1])


def gen_sizes(rng, hi=20, lo=2):
    nseq = 2 * rng.randint(lo // 2, hi // 2)
    nsub = 2 * rng.randint(1, nseq // 2)
    return nseq, nsub


def observe(fn, pack):
    try:
        res = fn()
    except Exception as e:       # recorded; the specification decides
        return {'raised': type(e).__name__}
    return pack(res)


def ilist(x):
    return [int(v) for v in x]


# --------------------------------------------------------------------------
# single-helper calls (deterministic; re-executable from the record's 'in')
# --------------------------------------------------------------------------
def call_helper(op, inp):
    from dadi.LowPass import LowPass as LP
    fl = lambda s: float(Fraction(s))
    covarr = lambda c: np.array([np.arange(len(c), dtype=float), [fl(v) for v in c]])
    if op == 'parts_af':
        return observe(lambda: LP.partitions_and_probabilities(inp['nseq'], 'allele_frequency', fl(inp['F']), inp['x']),
                       lambda r: {'parts': [ilist(p) for p in r[0]], 'probs': rats(np.asarray(r[1], dtype=float))})
    if op == 'parts_gt':
        return observe(lambda: LP.partitions_and_probabilities(inp['nseq'], 'genotype', fl(inp['F'])),
                       lambda r: {'parts': [[ilist(p) for p in ps] for ps in r[0]],
                                  'probs': [rats(np.asarray(pr, dtype=float).ravel()) for pr in r[1]]})
    if op == 'part_inb':
        return observe(lambda: LP.part_inbreeding_probability([list(p) for p in inp['parts']], fl(inp['F'])),
                       lambda r: {'probs': rats(np.asarray(r, dtype=float))})
    if op == 'proj_inb':
        return observe(lambda: LP.projection_inbreeding(list(inp['part']), inp['k']), lambda r: {'v': rats(np.asarray(r, dtype=float))})
    if op == 'proj_mat':
        return observe(lambda: LP.projection_matrix(inp['nseq'], inp['nsub'], fl(inp['F'])), lambda r: {'M': rats(np.asarray(r, dtype=float))})
    if op == 'cem':
        return observe(lambda: LP.calling_error_matrix(covarr(inp['cov']), inp['nsub'], fl(inp['F'])), lambda r: {'M': rats(np.asarray(r, dtype=float))})
    if op == 'nocall':
        return observe(lambda: LP.probability_of_no_call_1D_GATK_multisample(covarr(inp['cov']), inp['nseq'], fl(inp['F'])),
                       lambda r: {'v': rats(np.asarray(r, dtype=float))})
    if op == 'enough':
        return observe(lambda: LP.probability_enough_individuals_covered(covarr(inp['cov']), inp['nseq'], inp['nsub']), lambda r: {'v': rat(float(r))})
    raise KeyError(op)


HELPER_SITE = {'parts_af': S_PART, 'parts_gt': S_PART, 'part_inb': S_PINB, 'proj_inb': S_PRJI, 'proj_mat': S_PRJM,
               'cem': S_CEM, 'nocall': S_NOCALL, 'enough': S_ENOUGH}


# --------------------------------------------------------------------------
# the whole correction: make_low_pass_func_GATK_multisample
# --------------------------------------------------------------------------
def enc_pre(pre):
    """The precalculated tables of the correction (an internal 5-tuple).  If the implementation hands back something of another
    form, that is an observation ('raised'), judged by the trace spec - not a failure of the recorder."""
    try:
        prob_nocall_ND, use_sim_mat, proj_mats, heterr_mats, sim_outputs = pre
        return _enc_pre(prob_nocall_ND, use_sim_mat, proj_mats, heterr_mats, sim_outputs)
    except Exception as e:
        return {'raised': 'MalformedPrecalc:' + type(e).__name__}


def _enc_pre(prob_nocall_ND, use_sim_mat, proj_mats, heterr_mats, sim_outputs):
    return {'nocall': rats(np.asarray(prob_nocall_ND, dtype=float).ravel()),
            'usesim': [bool(b) for b in np.asarray(use_sim_mat).ravel()],
            'proj': [rats(np.asarray(m, dtype=float)) for m in proj_mats],
            'heterr': [rats(np.asarray(m, dtype=float)) for m in heterr_mats],
            'sims': [{'af': ilist(af), 'd': rats(np.asarray(o, dtype=float).ravel())} for af, o in sim_outputs.items()]}


def _container(x, kind):
    return list(x) if kind == 'list' else tuple(x) if kind == 'tuple' else np.array(x)


def run_lowpass(model_fs, covs, nseq, nsub, thr, Fx, nsim, seed, defaults=False, container='list', calls=1):
    """Build the low-pass version of a model function that returns model_fs, evaluate it (calls times; the last result
    counts), and return (precalc components as dadi computed them, result spectrum) - or the exception raised.
    defaults=True leaves sim_threshold, Fx and nsim to the library's defaults (the caller records 1/100, zeros, 1000);
    container gives the Python type of the nseq / nsub / Fx arguments."""
    import dadi
    from dadi.LowPass import LowPass as LP
    pop_ids = ['p%d' % k for k in range(len(nseq))]
    cov_dist = {pid: c for pid, c in zip(pop_ids, covs)}
    captured = {}
    orig = LP.low_cov_precalc_GATK_multisample_GATK_multisample

    def spy(*a, **kw):
        captured['pre'] = orig(*a, **kw)
        return captured['pre']

    def func(params, ns, pts=None):
        return model_fs.copy()
    func.__name__ = 'synthetic_model'
    np.random.seed(seed % (2 ** 32))
    old_rng = LP.rng
    LP.rng = np.random.default_rng(seed)
    LP.low_cov_precalc_GATK_multisample_GATK_multisample = spy
    try:
        a_nseq, a_nsub = _container(nseq, container), _container(nsub, container)
        if defaults:
            f = LP.make_low_pass_func_GATK_multisample(func, cov_dist, pop_ids, a_nseq, a_nsub)
        else:
            f = LP.make_low_pass_func_GATK_multisample(func, cov_dist, pop_ids, a_nseq, a_nsub, sim_threshold=thr,
                                                       Fx=None if Fx is None else _container(Fx, container), nsim=nsim)
        for _ in range(calls):
            out = f([1.0], [999] * len(nseq), None)      # the ns argument is replaced by nseq inside
    finally:
        LP.low_cov_precalc_GATK_multisample_GATK_multisample = orig
        LP.rng = old_rng
    return captured.get('pre'), out


def low_then_deep(model, low_covs, covs, nseq, nsub, thr, Fx, nsim, seed):
    """Evaluate, in this process and immediately before the deep-coverage wrapper, a LOW-coverage wrapper with identical
    sizes and settings (its result is discarded): whatever the library keeps between wrappers must not leak into the
    deep-coverage model.  Returns run_lowpass's result for the deep-coverage wrapper."""
    try:
        run_lowpass(model, low_covs, nseq, nsub, thr, Fx, nsim, seed)
    except Exception:
        pass
    return run_lowpass(model, covs, nseq, nsub, thr, Fx, nsim, seed)


def reexecute_lowpass(rec):
    """Run a 'deep' or 'precalc' case again on the current tree from the record's inputs (seeded, hence reproducible)."""
    import dadi
    i = rec['in']
    fl = lambda t: float(Fraction(t))
    covs = [np.array([np.arange(len(c), dtype=float), [fl(v) for v in c]]) for c in i['covs']]
    Fx = [fl(f) for f in i['F']] if i.get('Fx_given') else None
    if 's' in i:
        sh = tuple(i['s']['sh'])
        model = dadi.Spectrum(np.array([fl(v) for v in i['s']['d']]).reshape(sh), mask=np.array(i['s']['m'], dtype=bool).reshape(sh), mask_corners=False)
    else:
        model = dadi.Spectrum(np.ones(tuple(n + 1 for n in i['nseq'])))
    try:
        if 'pre_covs' in i:
            low = [np.array([np.arange(len(c), dtype=float), [fl(v) for v in c]]) for c in i['pre_covs']]
            pre, out = low_then_deep(model, low, covs, i['nseq'], i['nsub'], fl(i['thr']), Fx, i['nsim'], i['seed'])
        else:
            pre, out = run_lowpass(model, covs, i['nseq'], i['nsub'], fl(i['thr']), Fx, i['nsim'], i['seed'])
    except Exception as e:
        return dict(rec, out={'raised': type(e).__name__})
    return dict(rec, out={'s': enc(out)} if rec['op'] in ('deep', 'deep_sim') else enc_pre(pre))


def gen_model(rng, nseq, kind=None):
    import dadi
    sh = tuple(n + 1 for n in nseq)
    kind = kind or rng.choice(['random', 'random', 'neutralish', 'sparse'])
    size = int(np.prod(sh))
    if kind == 'random':
        data = np.array([rng.uniform(0, 10) for _ in range(size)])
    elif kind == 'neutralish':
        data = np.array([1.0 / max(1, sum(np.unravel_index(k, sh))) * rng.uniform(0.5, 1.5) for k in range(size)])
    else:
        data = np.array([rng.choice([0.0, 0.0, rng.uniform(0, 100)]) for _ in range(size)])
    data = data.reshape(sh)
    return dadi.Spectrum(data, mask_corners=rng.random() < 0.8)


def records(ctx):
    import dadi
    from dadi import Numerics
    from dadi.LowPass import LowPass as LP
    rng = random.Random(ctx.seed + 18)
    q = ctx.quick
    recs = []
    nid = itertools.count()

    def add(op, inp, out, site):
        recs.append({'id': '%s-%d' % (op, next(nid)), 'op': op, 'site': site, 'in': inp, 'out': out})

    def helper(op, inp):
        add(op, inp, call_helper(op, inp), HELPER_SITE[op])

    # 1. partitions of every allele count, n_sequenced = 2..20: random mating (all) and inbreeding (sampled F)
    for nseq in range(2, 21, 2):
        for x in range(nseq + 1):
            helper('parts_af', {'nseq': nseq, 'x': x, 'F': '0'})
            if not q or rng.random() < 0.5:
                helper('parts_af', {'nseq': nseq, 'x': x, 'F': rat(gen_F(rng, allow_zero=False))})
        helper('parts_gt', {'nseq': nseq, 'F': '0'})
        for _ in range(1 if q else 4):
            helper('parts_gt', {'nseq': nseq, 'F': rat(gen_F(rng, allow_zero=False))})
    for _ in range(30 if q else 300):
        n = rng.randint(1, 10)
        x = rng.randint(0, 2 * n)
        parts = Numerics.cached_part(x, n)
        parts = [ilist(p) for p in parts]
        if len(parts) > 1 and rng.random() < 0.3:
            parts = rng.sample(parts, rng.randint(1, len(parts)))
        helper('part_inb', {'parts': parts, 'F': rat(gen_F(rng, allow_zero=False))})
    # 2. subsampling
    for _ in range(40 if q else 400):
        n = rng.randint(1, 10)
        x = rng.randint(0, 2 * n)
        part = ilist(rng.choice(Numerics.cached_part(x, n)))
        if rng.random() < 0.5:
            rng.shuffle(part)
        helper('proj_inb', {'part': part, 'k': 2 * rng.randint(1, n)})
    pairs = [(a, b) for a in range(2, 21, 2) for b in range(2, a + 1, 2)]
    for (nseq, nsub) in (rng.sample(pairs, 24) if q else pairs):
        helper('proj_mat', {'nseq': nseq, 'nsub': nsub, 'F': '0'})
        for _ in range(1 if q else 3):
            helper('proj_mat', {'nseq': nseq, 'nsub': nsub, 'F': rat(gen_F(rng, allow_zero=False))})
    # 3. calling: heterozygote miscalls, no-call, enough individuals covered
    for _ in range(40 if q else 400):
        cov = gen_cov(rng)
        nseq, nsub = gen_sizes(rng)
        F = gen_F(rng)
        helper('cem', {'cov': enc_cov(cov), 'nsub': nsub, 'F': rat(F)})
        helper('nocall', {'cov': enc_cov(cov), 'nseq': nseq, 'F': rat(F)})
        helper('enough', {'cov': enc_cov(cov), 'nseq': nseq, 'nsub': nsub})
        cov2 = gen_cov(rng)
        nseq2, nsub2 = gen_sizes(rng)
        helper('enough', {'cov': enc_cov(cov2), 'nseq': nseq2, 'nsub': nsub2})
    # 4. the whole correction, 1-3 populations, analytic / mixed / simulated regimes
    plan = []
    for P, count, hi in ((1, 16 if q else 120, 20), (2, 10 if q else 70, 10), (3, 5 if q else 30, 6)):
        for _ in range(count):
            plan.append((P, hi, 'lowpass'))
    for P, count, hi in ((1, 8 if q else 60, 20), (2, 5 if q else 40, 12), (3, 2 if q else 12, 6)):
        for _ in range(count):
            plan.append((P, hi, 'deep'))
    for k, (P, hi, kind) in enumerate(plan):
        sizes = [gen_sizes(rng, hi=hi) for _ in range(P)]
        nseq = [s[0] for s in sizes]
        nsub = [s[1] for s in sizes]
        Fx = None if rng.random() < 0.3 else [gen_F(rng) for _ in range(P)]
        Fs = [0.0] * P if Fx is None else Fx
        model = gen_model(rng, nseq)
        seed = ctx.seed + 1000 + k
        low_covs = None
        if kind == 'deep':
            covs = [gen_cov(rng, 'deep') for _ in range(P)]
            low_covs = [gen_cov(rng, 'poisson', D=rng.choice([5, 10, 20])) for _ in range(P)]
            thr = rng.choice([1.0, 1e-2, 0.5, 10 ** rng.uniform(-6, 0)])
            nsim = 50
        else:
            covs = [gen_cov(rng, rng.choice(['poisson', 'poisson', 'random', 'sparse', 'nozero'])) for _ in range(P)]
            thr = rng.choice([1.0, 1.0, 1e-2, 1e-2, 0.0, rng.random(), 10 ** rng.uniform(-4, 0)])
            # keep the simulated regime affordable: all-simulated only for small tables
            cells = int(np.prod([n + 1 for n in nseq])) * int(np.prod([n + 1 for n in nsub]))
            if thr < 1.0 and cells > (2500 if q else 6000):
                thr = 1.0
            nsim = rng.choice([300, 500, 1000])
        base = {'covs': [enc_cov(c) for c in covs], 'nseq': nseq, 'nsub': nsub, 'thr': rat(thr), 'F': [rat(f) for f in Fs],
                'Fx_given': Fx is not None, 'nsim': nsim, 'seed': seed}
        try:
            if low_covs is not None:
                base['pre_covs'] = [enc_cov(c) for c in low_covs]
                pre, out = low_then_deep(model, low_covs, covs, nseq, nsub, thr, Fx, nsim, seed)
            else:
                pre, out = run_lowpass(model, covs, nseq, nsub, thr, Fx, nsim, seed)
        except Exception as e:
            add('deep' if kind == 'deep' else 'apply', dict(base, s=enc(model)), {'raised': type(e).__name__}, S_APPLY)
            continue
        if kind == 'deep':
            add('deep', dict(base, s=enc(model)), {'s': enc(out)}, S_APPLY)
        else:
            epre = enc_pre(pre)
            add('precalc', base, epre, S_PRE)
            if 'raised' in epre:
                continue
            add('apply', {'s': enc(model), 'nsub': nsub, 'nseq': nseq, 'thr': rat(thr), 'pre': epre}, {'s': enc(out)}, S_APPLY)
    # a real dadi model through the correction (deep coverage and low coverage)
    for j, (kind, nseq, nsub) in enumerate([('deep', [12], [8]), ('lowpass', [10], [6])] if q else
                                           [('deep', [12], [8]), ('lowpass', [10], [6]), ('deep', [20], [20]), ('lowpass', [20], [14])]):
        model = dadi.Numerics.make_extrap_func(dadi.Demographics1D.two_epoch)([2.0, 0.1], nseq, [30, 40, 50])
        covs = [gen_cov(rng, 'deep' if kind == 'deep' else 'poisson', D=None if kind == 'deep' else 20)]
        seed = ctx.seed + 5000 + j
        base = {'covs': [enc_cov(c) for c in covs], 'nseq': nseq, 'nsub': nsub, 'thr': '1', 'F': ['0'], 'Fx_given': False, 'nsim': 100, 'seed': seed}
        try:
            if kind == 'deep':
                low_covs = [gen_cov(rng, 'poisson', D=20)]
                base['pre_covs'] = [enc_cov(c) for c in low_covs]
                pre, out = low_then_deep(model, low_covs, covs, nseq, nsub, 1.0, None, 100, seed)
            else:
                pre, out = run_lowpass(model, covs, nseq, nsub, 1.0, None, 100, seed)
        except Exception as e:
            add('deep' if kind == 'deep' else 'apply', dict(base, s=enc(model)), {'raised': type(e).__name__}, S_APPLY)
            continue
        if kind == 'deep':
            add('deep', dict(base, s=enc(model)), {'s': enc(out)}, S_APPLY)
        else:
            epre = enc_pre(pre)
            add('precalc', base, epre, S_PRE)
            if 'raised' in epre:
                continue
            add('apply', {'s': enc(model), 'nsub': nsub, 'nseq': nseq, 'thr': '1', 'pre': epre}, {'s': enc(out)}, S_APPLY)
    # deep coverage in the SIMULATED regime (sim_threshold = 0, subsampling nsub < nseq somewhere): the corrected model must be
    # within the sampling error of the subsampled model; again preceded by a low-coverage wrapper with the same settings
    for k, P in enumerate([1] * (4 if q else 24) + [2] * (2 if q else 10)):
        while True:
            sizes = [gen_sizes(rng, hi=12 if P == 1 else 6, lo=4) for _ in range(P)]
            if any(b < a for a, b in sizes):
                break
        nseq = [a for a, b in sizes]
        nsub = [b for a, b in sizes]
        Fx = None if rng.random() < 0.6 else [rng.choice([0.0, rng.uniform(0.05, 0.9)]) for _ in range(P)]
        Fs = [0.0] * P if Fx is None else Fx
        model = gen_model(rng, nseq, kind=rng.choice(['random', 'neutralish']))
        covs = [gen_cov(rng, 'deep') for _ in range(P)]
        low_covs = [gen_cov(rng, 'poisson', D=10) for _ in range(P)]
        nsim = 2000
        seed = ctx.seed + 6000 + k
        base = {'covs': [enc_cov(c) for c in covs], 'pre_covs': [enc_cov(c) for c in low_covs], 'nseq': nseq, 'nsub': nsub, 'thr': '0',
                'F': [rat(f) for f in Fs], 'Fx_given': Fx is not None, 'nsim': nsim, 'seed': seed, 's': enc(model)}
        try:
            pre, out = low_then_deep(model, low_covs, covs, nseq, nsub, 0.0, Fx, nsim, seed)
            add('deep_sim', base, {'s': enc(out)}, S_APPLY)
        except Exception as e:
            add('deep_sim', base, {'raised': type(e).__name__}, S_APPLY)
    # 5. the simulator on its own (random by construction: closure clauses only)
    for k in range(10 if q else 80):
        P = rng.choice([1, 1, 2, 3])
        sizes = [gen_sizes(rng, hi={1: 16, 2: 8, 3: 6}[P]) for _ in range(P)]
        nseq = [s[0] for s in sizes]
        nsub = [s[1] for s in sizes]
        covs = [gen_cov(rng, rng.choice(['poisson', 'random', 'sparse', 'nozero'])) for _ in range(P)]
        af = [rng.randint(0, n) for n in nseq]
        Fs = [gen_F(rng) for _ in range(P)]
        nsim = rng.choice([200, 500, 1000])
        seed = ctx.seed + 7000 + k
        np.random.seed(seed % (2 ** 32))
        old = LP.rng
        LP.rng = np.random.default_rng(seed)
        try:
            out = observe(lambda: LP.simulate_GATK_multisample_calling({'p%d' % j: c for j, c in enumerate(covs)}, af, nseq, nsub, nsim, Fs),
                          lambda r: {'sh': ilist(np.shape(r)), 'd': rats(np.asarray(r, dtype=float).ravel())})
        finally:
            LP.rng = old
        add('sim_calling', {'covs': [enc_cov(c) for c in covs], 'af': af, 'nseq': nseq, 'nsub': nsub, 'F': [rat(f) for f in Fs], 'nsim': nsim, 'seed': seed},
            out, S_SIMC)
    for k in range(8 if q else 60):
        nind = rng.randint(1, 8)
        part = [rng.randint(0, 2) for _ in range(nind)]
        cov = gen_cov(rng, rng.choice(['poisson', 'sparse', 'nozero', 'random']), D=rng.choice([2, 5, 12, 30]))
        nsim = rng.randint(1, 12)
        seed = ctx.seed + 8000 + k
        np.random.seed(seed % (2 ** 32))
        out = observe(lambda: LP.simulate_reads({'p0': cov}, part, [nind], nsim),
                      lambda r: {'ref': [ilist(row) for row in r[0]], 'alt': [ilist(row) for row in r[1]]})
        add('sim_reads', {'cov': enc_cov(cov), 'partition': part, 'nsim': nsim, 'seed': seed}, out, S_SIMR)
    for k in range(12 if q else 100):
        nind = rng.randint(1, 8)
        nloci = rng.randint(1, 10)
        calls = [[rng.choice([0, 1, 2, 99, 99]) for _ in range(nind)] for _ in range(nloci)]
        nsub = 2 * rng.randint(1, nind)
        if not any(sum(1 for g in row if g != 99) >= nsub // 2 for row in calls):
            calls[0] = [rng.randint(0, 2) for _ in range(nind)]
        seed = ctx.seed + 9000 + k
        old = LP.rng
        LP.rng = np.random.default_rng(seed)
        try:
            out = observe(lambda: LP.subsample_genotypes_1D(np.array(calls, dtype=int), nsub), lambda r: {'rows': [ilist(row) for row in r]})
        finally:
            LP.rng = old
        add('subsample', {'calls': calls, 'nsub': nsub, 'seed': seed}, out, S_SUBS)
    boundary_records(ctx, add, helper)
    # spread the heavy records over the validation batches
    order = list(range(len(recs)))
    random.Random(ctx.seed).shuffle(order)
    return [recs[j] for j in order]


# --------------------------------------------------------------------------
# the end points and named options of the stated domain, drawn deterministically in every tier
# --------------------------------------------------------------------------
def fixed_covs():
    """Coverage distributions at the edges of 'depths 0..80' (dadi format)."""
    def mk(p):
        p = np.array(p, dtype=float)
        return np.array([np.arange(len(p), dtype=float), p / p.sum()])
    pois = [np.exp(-3.0 + d * np.log(3.0) - sum(np.log(range(1, d + 1)))) for d in range(81)]
    return {'point80': mk([0.0] * 80 + [1.0]),             # every individual at the largest depth
            'poisson80': mk(pois),                          # all depths 0..80 carry mass
            'uniform80': mk([1.0] * 81),
            'D1': mk([0.4, 0.6]),                           # shortest possible table: depths 0..1
            'point1': mk([0.0, 1.0]),                       # every individual has exactly one read (every heterozygote miscalled)
            'mostly0': mk([0.99, 0.004, 0.003, 0.002, 0.001]),   # almost nobody covered
            'nozero': mk([0.0, 0.1, 0.2, 0.3, 0.2, 0.1, 0.1])}  # everybody covered


def boundary_records(ctx, add, helper):
    import dadi
    from dadi import Numerics
    from dadi.LowPass import LowPass as LP
    rng = random.Random(ctx.seed + 180)
    q = ctx.quick
    covs = fixed_covs()
    F_TINY, F_NEAR1 = 1e-12, 1.0 - 1e-6
    # -- helpers at n_sequenced = 2 and 20, n_subsampling = 2 and = n_sequenced, F = 0 / generic / -> 0 / -> 1
    for name, cov in covs.items():
        e = enc_cov(cov)
        helper('cem', {'cov': e, 'nsub': 2, 'F': '0'})
        helper('cem', {'cov': e, 'nsub': 20, 'F': '0'})
        helper('nocall', {'cov': e, 'nseq': 2, 'F': '0'})
        helper('nocall', {'cov': e, 'nseq': 20, 'F': rat(0.5)})
        for nseq, nsub in ((2, 2), (20, 20), (20, 2)):
            helper('enough', {'cov': e, 'nseq': nseq, 'nsub': nsub})
    for name in ('poisson80', 'D1') if q else tuple(covs):
        e = enc_cov(covs[name])
        for F in (F_TINY, F_NEAR1):
            helper('cem', {'cov': e, 'nsub': 20, 'F': rat(F)})
            helper('nocall', {'cov': e, 'nseq': 20, 'F': rat(F)})
            helper('nocall', {'cov': e, 'nseq': 2, 'F': rat(F)})
            helper('cem', {'cov': e, 'nsub': 2, 'F': rat(F)})
    for nseq, nsub in ((2, 2), (20, 20), (20, 2), (20, 18), (4, 2)):
        for F in (0.0, 0.5, F_TINY, F_NEAR1):
            helper('proj_mat', {'nseq': nseq, 'nsub': nsub, 'F': rat(F)})
    for nseq in (2, 20):
        for F in (F_TINY, F_NEAR1, 0.5):
            helper('parts_gt', {'nseq': nseq, 'F': rat(F)})
            for x in sorted({0, 1, nseq // 2, nseq - 1, nseq}):
                helper('parts_af', {'nseq': nseq, 'x': x, 'F': rat(F)})
    for part, k in (([0], 2), ([2], 2), ([1], 2), ([0] * 10, 2), ([2] * 10, 20), ([0, 0, 0, 1, 1, 1, 1, 2, 2, 2], 20), ([0, 0, 0, 1, 1, 1, 1, 2, 2, 2], 2)):
        helper('proj_inb', {'part': part, 'k': k})
    # -- the same calls with other argument types / layouts (recorded under the canonical inputs)
    cov = covs['nozero']
    e = enc_cov(cov)
    variants = [('fortran', np.asfortranarray(cov)), ('transposed_view', np.ascontiguousarray(cov.T).T),
                ('sliced_view', np.concatenate([cov, cov], axis=1)[:, :cov.shape[1]]), ('list_of_arrays', [cov[0].copy(), cov[1].copy()])]
    for vname, c in variants:
        add('cem', {'cov': e, 'nsub': 6, 'F': rat(0.25), 'variant': vname},
            observe(lambda: LP.calling_error_matrix(c, 6, 0.25), lambda r: {'M': rats(np.asarray(r, dtype=float))}), S_CEM)
        add('nocall', {'cov': e, 'nseq': 8, 'F': '0', 'variant': vname},
            observe(lambda: LP.probability_of_no_call_1D_GATK_multisample(c, 8, 0), lambda r: {'v': rats(np.asarray(r, dtype=float))}), S_NOCALL)
        add('enough', {'cov': e, 'nseq': 8, 'nsub': 4, 'variant': vname},
            observe(lambda: LP.probability_enough_individuals_covered(c, 8, 4), lambda r: {'v': rat(float(r))}), S_ENOUGH)
    add('cem', {'cov': e, 'nsub': 6, 'F': '0', 'variant': 'Fx_omitted'},
        observe(lambda: LP.calling_error_matrix(cov, 6), lambda r: {'M': rats(np.asarray(r, dtype=float))}), S_CEM)
    i64 = np.int64
    add('parts_af', {'nseq': 8, 'x': 4, 'F': '0', 'variant': 'int_F_numpy_sizes'},
        observe(lambda: LP.partitions_and_probabilities(i64(8), 'allele_frequency', 0, i64(4)),
                lambda r: {'parts': [ilist(p_) for p_ in r[0]], 'probs': rats(np.asarray(r[1], dtype=float))}), S_PART)
    add('parts_af', {'nseq': 8, 'x': 4, 'F': rat(0.5), 'variant': 'numpy_F'},
        observe(lambda: LP.partitions_and_probabilities(8, 'allele_frequency', np.float64(0.5), 4),
                lambda r: {'parts': [ilist(p_) for p_ in r[0]], 'probs': rats(np.asarray(r[1], dtype=float))}), S_PART)
    add('parts_af', {'nseq': 8, 'x': 4, 'F': '0', 'variant': 'Fx_omitted_keyword'},
        observe(lambda: LP.partitions_and_probabilities(8, 'allele_frequency', allele_frequency=4),
                lambda r: {'parts': [ilist(p_) for p_ in r[0]], 'probs': rats(np.asarray(r[1], dtype=float))}), S_PART)
    add('proj_mat', {'nseq': 8, 'nsub': 4, 'F': '0', 'variant': 'int_F_numpy_sizes'},
        observe(lambda: LP.projection_matrix(i64(8), i64(4), 0), lambda r: {'M': rats(np.asarray(r, dtype=float))}), S_PRJM)
    add('nocall', {'cov': e, 'nseq': 8, 'F': rat(0.5), 'variant': 'numpy_sizes'},
        observe(lambda: LP.probability_of_no_call_1D_GATK_multisample(cov, i64(8), np.float64(0.5)), lambda r: {'v': rats(np.asarray(r, dtype=float))}), S_NOCALL)
    add('enough', {'cov': e, 'nseq': 8, 'nsub': 4, 'variant': 'numpy_sizes'},
        observe(lambda: LP.probability_enough_individuals_covered(cov, i64(8), i64(4)), lambda r: {'v': rat(float(r))}), S_ENOUGH)
    for vname, part in (('tuple', (0, 1, 1, 2)), ('array', np.array([0, 1, 1, 2])), ('unsorted', [2, 0, 1, 1])):
        add('proj_inb', {'part': ilist(part), 'k': 2, 'variant': vname},
            observe(lambda: LP.projection_inbreeding(part, 2), lambda r: {'v': rats(np.asarray(r, dtype=float))}), S_PRJI)
    add('part_inb', {'parts': [[0, 1, 1], [0, 0, 2]], 'F': rat(0.3), 'variant': 'tuples'},
        observe(lambda: LP.part_inbreeding_probability([(0, 1, 1), (0, 0, 2)], 0.3), lambda r: {'probs': rats(np.asarray(r, dtype=float))}), S_PINB)

    # -- the whole correction: every population count x both ends of sim_threshold and the library defaults,
    #    smallest and largest sizes, no subsampling and strongest subsampling, argument containers, repeated calls
    def lowpass_case(tag, nseq, nsub, cov_names, thr, Fx, nsim, defaults=False, container='list', calls=1, fortran=False, mask_corners=True, seedk=0):
        P = len(nseq)
        cs = [covs[c] for c in cov_names]
        sh = tuple(n + 1 for n in nseq)
        data = np.array([rng.uniform(0.1, 10) for _ in range(int(np.prod(sh)))]).reshape(sh)
        if fortran:
            data = np.asfortranarray(data)
        model = dadi.Spectrum(data, mask_corners=mask_corners)
        Fs = [0.0] * P if Fx is None else list(Fx)
        seed = ctx.seed + 11000 + seedk
        rec_thr, rec_nsim = (0.01, 1000) if defaults else (thr, nsim)
        base = {'covs': [enc_cov(c) for c in cs], 'nseq': list(nseq), 'nsub': list(nsub), 'thr': rat(rec_thr), 'F': [rat(f) for f in Fs],
                'Fx_given': Fx is not None, 'nsim': rec_nsim, 'seed': seed,
                'variant': '%s defaults=%s container=%s calls=%d fortran=%s' % (tag, defaults, container, calls, fortran)}
        try:
            pre, out = run_lowpass(model, cs, nseq, nsub, thr, Fx, nsim, seed, defaults=defaults, container=container, calls=calls)
        except Exception as ex:
            add('apply', dict(base, s=enc(model)), {'raised': type(ex).__name__}, S_APPLY)
            return
        epre = enc_pre(pre)
        add('precalc', base, epre, S_PRE)
        if 'raised' in epre:
            return
        add('apply', {'s': enc(model), 'nsub': list(nsub), 'nseq': list(nseq), 'thr': rat(rec_thr), 'pre': epre, 'variant': base['variant']}, {'s': enc(out)}, S_APPLY)
    cases = [
        # tag, nseq, nsub, covs, thr, Fx, nsim, options
        ('1pop-min', [2], [2], ['D1'], 1.0, None, 300, {}),
        ('1pop-min-sim', [2], [2], ['poisson80'], 0.0, [0.0], 300, {'container': 'tuple'}),
        ('1pop-min-defaults', [2], [2], ['D1'], None, None, None, {'defaults': True}),
        ('1pop-max-nosub', [20], [20], ['poisson80'], 1.0, [0.5], 300, {'calls': 2}),
        ('1pop-max-sub2-sim', [20], [2], ['uniform80'], 0.0, None, 300, {'mask_corners': False}),
        ('1pop-max-defaults', [20], [10], ['mostly0'], None, None, None, {'defaults': True}),
        ('1pop-point1', [8], [4], ['point1'], 1.0, [F_TINY], 300, {}),
        ('2pop-analytic', [2, 20], [2, 2], ['nozero', 'poisson80'], 1.0, [0, 0.5], 300, {'container': 'tuple', 'fortran': True}),
        ('2pop-sim', [6, 4], [4, 4], ['D1', 'nozero'], 0.0, [F_NEAR1, 0.0], 300, {'calls': 2}),
        ('2pop-defaults', [4, 6], [2, 6], ['poisson80', 'mostly0'], None, None, None, {'defaults': True, 'container': 'array'}),
        ('3pop-analytic', [6, 4, 2], [4, 4, 2], ['nozero', 'D1', 'poisson80'], 1.0, [0.3, 0.0, F_TINY], 300, {'fortran': True, 'calls': 2}),
        ('3pop-sim', [4, 2, 4], [2, 2, 4], ['poisson80', 'point1', 'nozero'], 0.0, None, 300, {}),
        ('3pop-defaults', [2, 2, 2], [2, 2, 2], ['D1', 'D1', 'uniform80'], None, None, None, {'defaults': True, 'container': 'tuple'}),
        ('2pop-mixed', [8, 6], [6, 2], ['poisson80', 'nozero'], 0.5, (0.2, 0.7), 500, {'container': 'array'}),
    ]
    for k, (tag, nseq, nsub, cn, thr, Fx, nsim, opt) in enumerate(cases):
        lowpass_case(tag, nseq, nsub, cn, thr, Fx, nsim, seedk=k, **opt)
    # -- deep coverage at the largest depth, analytic regime and library-default threshold, preceded by a low-coverage wrapper
    deep80 = covs['point80']
    dcases = [([20], [20], 1.0, None), ([20], [2], 1e-2, [0.0]), ([2], [2], 1.0, [0.5]), ([20, 2], [10, 2], 1.0, None),
              ([4, 4, 4], [2, 4, 2], 1e-2, None), ([6, 2, 4], [6, 2, 2], 1.0, [0.0, 0.9, F_TINY])]
    for k, (nseq, nsub, thr, Fx) in enumerate(dcases):
        P = len(nseq)
        sh = tuple(n + 1 for n in nseq)
        model = dadi.Spectrum(np.array([rng.uniform(0.1, 10) for _ in range(int(np.prod(sh)))]).reshape(sh), mask_corners=(k % 2 == 0))
        Fs = [0.0] * P if Fx is None else Fx
        low = [covs['mostly0' if j % 2 else 'D1'] for j in range(P)]
        seed = ctx.seed + 12000 + k
        base = {'covs': [enc_cov(deep80)] * P, 'pre_covs': [enc_cov(c) for c in low], 'nseq': nseq, 'nsub': nsub, 'thr': rat(thr),
                'F': [rat(f) for f in Fs], 'Fx_given': Fx is not None, 'nsim': 50, 'seed': seed, 's': enc(model)}
        try:
            pre, out = low_then_deep(model, low, [deep80] * P, nseq, nsub, thr, Fx, 50, seed)
            add('deep', base, {'s': enc(out)}, S_APPLY)
        except Exception as ex:
            add('deep', base, {'raised': type(ex).__name__}, S_APPLY)
    # -- deep coverage, simulated regime: largest size, a population that is not subsampled, three populations
    scases = [([20], [10], None), ([4, 4], [4, 2], [0.0, 0.4]), ([4, 4, 4], [2, 4, 2], None)] if q else \
             [([20], [10], None), ([20], [2], [0.3]), ([4, 4], [4, 2], [0.0, 0.4]), ([4, 4, 4], [2, 4, 2], None), ([4, 2, 6], [2, 2, 4], [0.5, 0.0, 0.1])]
    for k, (nseq, nsub, Fx) in enumerate(scases):
        P = len(nseq)
        sh = tuple(n + 1 for n in nseq)
        model = dadi.Spectrum(np.array([rng.uniform(0.5, 10) for _ in range(int(np.prod(sh)))]).reshape(sh))
        Fs = [0.0] * P if Fx is None else Fx
        low = [covs['D1']] * P
        seed = ctx.seed + 13000 + k
        base = {'covs': [enc_cov(deep80)] * P, 'pre_covs': [enc_cov(c) for c in low], 'nseq': nseq, 'nsub': nsub, 'thr': '0',
                'F': [rat(f) for f in Fs], 'Fx_given': Fx is not None, 'nsim': 2000, 'seed': seed, 's': enc(model)}
        try:
            pre, out = low_then_deep(model, low, [deep80] * P, nseq, nsub, 0.0, Fx, 2000, seed)
            add('deep_sim', base, {'s': enc(out)}, S_APPLY)
        except Exception as ex:
            add('deep_sim', base, {'raised': type(ex).__name__}, S_APPLY)
    # -- the simulator: no subsampling / subsampling, monomorphic and fixed sites, smallest and largest sizes
    for k, (nseq, nsub, af, cn, Fs) in enumerate([([2], [2], [1], ['D1'], [0.0]), ([20], [20], [10], ['poisson80'], [0.5]), ([20], [2], [20], ['nozero'], [0.0]),
                                                   ([4, 6], [4, 2], [0, 0], ['poisson80', 'nozero'], [0.0, F_NEAR1]),
                                                   ([2, 4, 2], [2, 2, 2], [1, 4, 0], ['point80', 'D1', 'nozero'], [F_TINY, 0.0, 0.3])]):
        seed = ctx.seed + 14000 + k
        np.random.seed(seed % (2 ** 32))
        old = LP.rng
        LP.rng = np.random.default_rng(seed)
        try:
            out = observe(lambda: LP.simulate_GATK_multisample_calling({'p%d' % j: covs[c] for j, c in enumerate(cn)}, af, nseq, nsub, 500, Fs),
                          lambda r: {'sh': ilist(np.shape(r)), 'd': rats(np.asarray(r, dtype=float).ravel())})
        finally:
            LP.rng = old
        add('sim_calling', {'covs': [enc_cov(covs[c]) for c in cn], 'af': af, 'nseq': nseq, 'nsub': nsub, 'F': [rat(f) for f in Fs], 'nsim': 500, 'seed': seed},
            out, S_SIMC)


# --------------------------------------------------------------------------
# binding demonstration: corrupt one observed field
# --------------------------------------------------------------------------
BUMP = Fraction(1000001, 1000000)


def _bump_seq(v):
    cand = [j for j in range(len(v)) if v[j] not in ('nan', 'inf', '-inf') and Fraction(v[j]) != 0]
    if not cand:
        return False
    j = max(cand, key=lambda t: Fraction(v[t]))
    v[j] = rat(Fraction(v[j]) * BUMP)
    return True


def _bump_mat(M):
    rows = [r for r in M if any(Fraction(x) != 0 for x in r if x not in ('nan', 'inf', '-inf'))]
    return bool(rows) and _bump_seq(rows[len(rows) // 2])


def mutate(rec):
    out = rec['out']
    op = rec['op']
    if 'raised' in out:
        return None
    if op == 'parts_af':
        return rec if _bump_seq(out['probs']) else None
    if op == 'parts_gt':
        return rec if _bump_seq(out['probs'][len(out['probs']) // 2]) else None
    if op == 'part_inb':
        return rec if _bump_seq(out['probs']) else None
    if op in ('proj_inb', 'nocall'):
        return rec if _bump_seq(out['v']) else None
    if op in ('proj_mat', 'cem'):
        return rec if _bump_mat(out['M']) else None
    if op == 'enough':
        if Fraction(out['v']) == 0:
            return None
        out['v'] = rat(Fraction(out['v']) * BUMP)
        return rec
    if op == 'precalc':
        return rec if _bump_mat(out['proj'][-1]) else None
    if op in ('apply', 'deep'):
        d = out['s']['d']
        m = out['s']['m']
        cand = [j for j in range(len(d)) if d[j] not in ('nan', 'inf', '-inf') and Fraction(d[j]) != 0 and not m[j] and 0 < j < len(d) - 1]
        if not cand:
            return None
        j = max(cand, key=lambda t: Fraction(d[t]))      # the largest cell: far above the deep-coverage floor
        d[j] = rat(Fraction(d[j]) * BUMP)
        return rec
    if op == 'deep_sim':      # a statistical clause: the corruption must be gross (largest cell tripled)
        d = out['s']['d']
        cand = [j for j in range(1, len(d)) if d[j] not in ('nan', 'inf', '-inf') and Fraction(d[j]) != 0]
        if not cand:
            return None
        j = max(cand, key=lambda t: Fraction(d[t]))
        d[j] = rat(Fraction(d[j]) * 3)
        return rec
    if op == 'sim_calling':
        return rec if _bump_seq(out['d']) else None
    if op == 'sim_reads':
        g = rec['in']['partition']
        for j, gj in enumerate(g):
            if gj == 0:
                out['alt'][0][j] += 1
                return rec
            if gj == 2:
                out['ref'][0][j] += 1
                return rec
        return None
    if op == 'subsample':
        if out['rows'] and out['rows'][0]:
            out['rows'][0][0] = 99
            return rec
        return None
    return None


def fclass(s):
    f = Fraction(s)
    return 'F0' if f == 0 else 'Fsmall' if f < Fraction(1, 1000) else 'Fnear1' if f > Fraction(98, 100) else 'Fmid'


def nontrivial(r):
    i, op = r['in'], r['op']
    if 'raised' in r['out']:
        return (op, 'raised', common.digest(i))
    if op == 'parts_af':
        return (op, i['nseq'], i['x'], fclass(i['F'])) if len(r['out']['parts']) > 1 else None
    if op == 'parts_gt':
        return (op, i['nseq'], fclass(i['F'])) if i['nseq'] >= 4 else None
    if op == 'part_inb':
        return (op, common.digest(i)) if len(i['parts']) > 1 else None
    if op == 'proj_inb':
        return (op, tuple(sorted(i['part'])), i['k']) if 0 < sum(i['part']) < 2 * len(i['part']) else None
    if op == 'proj_mat':
        return (op, i['nseq'], i['nsub'], fclass(i['F'])) if i['nsub'] < i['nseq'] else None
    if op in ('cem', 'nocall', 'enough'):
        return (op, common.digest(i))
    if op == 'deep_sim':
        return (op, tuple(i['nseq']), tuple(i['nsub']), common.digest(i['covs']))
    if op in ('precalc', 'apply', 'deep'):
        regime = 'analytic'
        if op != 'deep':
            us = (r['out'] if op == 'precalc' else i['pre'])['usesim']
            regime = 'simulated' if all(us) else 'mixed' if any(us) else 'analytic'
        return (op, tuple(i['nseq']), tuple(i['nsub']), regime, common.digest(i.get('covs', i.get('pre', {}).get('nocall'))))
    return (op, common.digest(i))


VALUE_CLAUSES = {'PartsProbValue', 'PartInbValue', 'ProjMatValue', 'CallErrValue', 'NoCallValue', 'NoCallNDValue', 'SubsampleMatValue',
                 'DeepEqualsSubsampling', 'DeepEqualsProjection', 'ApplyComposition', 'DeepSimWithinSamplingError'}


def smallest_positive_F(rec):
    F = rec.get('in', {}).get('F')
    vals = [Fraction(f) for f in (F if isinstance(F, list) else [F] if F is not None else [])]
    vals = [f for f in vals if f > 0]
    return min(vals) if vals else None


def key_of(rec, clause):
    """Violation key.  All numeric clauses of records whose inbreeding coefficient is positive but below 1e-4 share one key
    (one root cause class: the F -> 0 limit of the inbreeding genotype probabilities); everything else is <site>/<clause>."""
    f = smallest_positive_F(rec)
    if f is not None and f < Fraction(1, 10000) and clause in VALUE_CLAUSES:
        return 'LowPass.part_inbreeding_probability[F->0]/InbreedingContinuity'
    return '%s/%s' % (rec.get('site', rec['op']), clause)


def what_of(rec, clause):
    f = smallest_positive_F(rec)
    extra = '' if f is None else ' (smallest positive F = %.3g)' % float(f)
    return 'record %s (%s): clause %s violated%s' % (rec['id'], rec.get('site', rec['op']), clause, extra)


def run(ctx):
    if ctx.replay:
        rec = ctx.replay_payload['payload']['record']
        ctx.no_mc = True
        if rec['op'] in HELPER_SITE:      # deterministic helper: execute the case again on the current tree
            rec = dict(rec, out=call_helper(rec['op'], rec['in']))
        elif rec['op'] in ('deep', 'deep_sim', 'precalc') and 'covs' in rec['in']:
            rec = reexecute_lowpass(rec)
        recs = [rec]
    else:
        recs = records(ctx)
    return common.pipeline(
        ctx, [('LowPassMC', 'LowPassMC_%s.cfg' % ctx.tier)], 'Trace_LowPass', recs,
        nontrivial_of=nontrivial, mutator=mutate, parallel=8, key_of=key_of, what_of=what_of,
        rule='helpers: distinct (operation, sizes, class of F, coverage distribution); partitions non-trivial if the allele count has more than '
             'one configuration; corrected model: distinct (sizes, regime analytic/mixed/simulated, coverage distributions)',
        assumptions=['BigInteger rational arithmetic of the Rat override (self-tested against the TLA+ definitions)',
                     'coverage distributions give positive probability to some depth >= 1 and list depths 0..D consecutively (as compute_cov_dist builds them)',
                     'relative tolerance 1e-10 per entry for float-evaluated rational formulas, 1e-9 where dadi goes through lgamma/exp or scipy pmf '
                     '(inbreeding, calling-error matrix); closure clauses (row sums, [0,1], totals) with slack 1e-10',
                     'deep coverage = every depth with positive probability is >= 50 reads (residual miscall / no-call terms < 1e-11)',
                     'with inbreeding F > 0 the deep-coverage limit is subsampling of individuals under inbreeding (DeepLimit); it is the plain '
                     'hypergeometric projection only for F = 0, where both are checked',
                     'simulated regime: only closure clauses (distribution over the called spectrum, composition of the observed components), numpy RNGs seeded',
                     'deep coverage in the simulated regime (sim_threshold 0, nsim 2000): |corrected - subsampled model| <= bias + 8 sqrt(V) per cell, '
                     'V = sum_j M_j^2 (q(1-q) + 1/n_j)/n_j, n_j = nsim - #configurations(j), bias = sum_j M_j 2 #configurations(j)/n_j + 1e-12 max '
                     '(stratified multinomial sampling error of the simulator plus its stratum-weight truncation)',
                     'every deep-coverage wrapper is evaluated immediately after a low-coverage wrapper with identical sizes, Fx, sim_threshold and nsim in the same process',
                     'model spectra are non-negative; masked model entries carry no sites'])
