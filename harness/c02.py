"""C02 - every integration path solves the documented implicit scheme (spec/Scheme.tla, spec/Integrator.tla)."""
import random, itertools, math
import numpy as np
from . import common
from .scheme_common import (kernel_names, rand_grid, rand_density, rand_params, enc_par, enc_phi, delj_table,
                            CLib, call_wrapper, loguni, AXN)

PROP = 'C02'


def kernel_records(ctx, rng, nid):
    recs = []
    clib = CLib(ctx.overlay)
    reps = 3 if ctx.quick else 12
    sizes_q = {1: [9, 17], 2: [6, 7], 3: [4, 5], 4: [3, 4], 5: [3]}
    sizes_t = {1: [9, 17, 33], 2: [7, 9, 12], 3: [5, 6, 8], 4: [4, 5], 5: [3, 4]}
    sizes = sizes_q if ctx.quick else sizes_t
    for (P, k, name) in kernel_names():
        for rep in range(reps):
            via = 'ctypes' if rep % 2 else 'wrapper'
            n = rng.choice(sizes[P])
            if via == 'ctypes' and P > 1:
                shape = [max(3, n + rng.randint(-1, 1)) for _ in range(P)]     # unequal axis lengths
            else:
                shape = [n] * P
            grids = [rand_grid(rng, s) for s in shape]
            phi = rand_density(rng, shape)
            par = rand_params(rng, P, k)
            dt = loguni(rng, 1e-6, 1e-1)
            delj = (rep % 3 == 2)
            try:
                out = (clib.call if via == 'ctypes' else call_wrapper)(P, k, phi, grids, par, dt, delj)
                o = {'d': common.rats(np.asarray(out).ravel())}
            except Exception as e:
                o = {'d': [], 'raised': type(e).__name__}
            inp = {'P': P, 'k': k, 'grids': [common.rats(g) for g in grids], 'phi': enc_phi(phi), 'par': enc_par(par),
                   'dt': common.rat(dt), 'delj': delj, 'via': via}
            if delj:
                inp['deljtab'] = delj_table(grids, k, par, shape)
            recs.append({'id': 'kernel-%d' % next(nid), 'op': 'kernel', 'site': 'integration_c.%s' % name, 'in': inp, 'out': o})
    return recs


def solver_records(ctx, rng, nid):
    """tridiag and the five precomputed-coefficient kernels with random diagonally dominant systems."""
    import dadi.integration_c as int_c
    import dadi.tridiag_cython as tri
    recs = []
    for rep in range(6 if ctx.quick else 40):
        n = rng.choice([2, 3, 5, 9, 17, 40])
        a = np.array([0.0] + [-rng.uniform(0, 5) for _ in range(n - 1)])
        c = np.array([-rng.uniform(0, 5) for _ in range(n - 1)] + [0.0])
        b = np.abs(a) + np.abs(c) + np.array([rng.uniform(0.1, 50) for _ in range(n)])
        r = np.array([rng.uniform(-3, 3) for _ in range(n)])
        u = tri.tridiag(a.copy(), b.copy(), c.copy(), r.copy())
        recs.append({'id': 'tridiag-%d' % next(nid), 'op': 'tridiag', 'site': 'tridiag_cython.tridiag',
                     'in': {'a': common.rats(a), 'b': common.rats(b), 'c': common.rats(c), 'r': common.rats(r)}, 'out': {'u': common.rats(u)}})
    for (P, k) in [(2, 1), (2, 2), (3, 1), (3, 2), (3, 3)]:
        for rep in range(2 if ctx.quick else 10):
            n = rng.choice([4, 5, 6] if P == 3 else [5, 7, 9])
            shape = [n] * P
            a = -np.abs(rand_density(rng, shape))
            c = -np.abs(rand_density(rng, shape))
            b = np.abs(a) + np.abs(c) + np.abs(rand_density(rng, shape))
            phi = rand_density(rng, shape)
            dt = loguni(rng, 1e-6, 1e-1)
            name = 'implicit_precalc_%dD%s' % (P, AXN[k - 1])
            out = getattr(int_c, name)(phi.copy(), a, b, c, dt)
            recs.append({'id': 'precalc-%d' % next(nid), 'op': 'precalc', 'site': 'integration_c.%s' % name,
                         'in': {'k': k, 'phi': enc_phi(phi), 'a': common.rats(a.ravel()), 'b': common.rats(b.ravel()), 'c': common.rats(c.ravel()),
                                'dt': common.rat(dt)}, 'out': {'d': common.rats(np.asarray(out).ravel())}})
    return recs


def mutate(rec):
    from fractions import Fraction
    key = 'u' if rec['op'] == 'tridiag' else 'd'
    if rec['op'] == 'coeffs':
        key = 'b'
    d = rec['out'].get(key)
    if not d:
        return None
    cand = [j for j in range(len(d)) if d[j] not in ('nan', 'inf', '-inf') and Fraction(d[j]) != 0]
    if not cand:
        return None
    j = cand[len(cand) // 2]
    d[j] = common.rat(Fraction(d[j]) * Fraction(1000001, 1000000))
    return rec


def nontrivial(r):
    i = r['in']
    if r['op'] == 'kernel':
        p = i['par']
        return (r['site'], i['via'], i['delj'], tuple(i['phi']['sh']), p['gamma'] != '0', sum(1 for m in p['mig'] if m != '0'), p['h'])
    return (r['site'], common.digest(i))


def run(ctx):
    from . import integrator_common
    rng = random.Random(ctx.seed + 2)
    nid = itertools.count()
    if ctx.replay:
        pay = ctx.replay_payload['payload']
        ctx.no_mc = True
        if pay.get('trace_spec') == 'Trace_Integrator':
            return integrator_common.replay(ctx, pay)
        recs = [pay['record']]
    else:
        recs = kernel_records(ctx, rng, nid) + solver_records(ctx, rng, nid)
    res = common.pipeline(
        ctx, [('SchemeMC', 'SchemeMC_C02_%s.cfg' % ctx.tier), ('IntegratorMC', 'IntegratorMC.cfg')], 'Trace_Scheme', recs, nontrivial_of=nontrivial, mutator=mutate,
        rule='each of the 15 per-axis kernels x (Cython wrapper | ctypes with unequal axis lengths) x delj off/on, random grids '
             '(uniform/exponential/quadratic/random monotone, a different grid per axis), densities, nu in [1e-2,1e2], distinct m in {0}U[0.05,20], '
             'gamma in [-40,40], h in [0,1], beta in [0.2,5], dt in [1e-6,1e-1]; 5 precalc kernels and tridiag on random diagonally dominant systems; '
             'distinct by (kernel, path, delj, shape, selection on/off, number of non-zero migration rates, h)',
        assumptions=['exact rational residuals; backward-error tolerance 1e-11 per row', 'with the Chang-Cooper switch on, delj comes from an independent stable evaluation (recorder) '
                     'and the residual bound is widened by the conditioning allowance of the documented double-precision formula (DESIGN 9)'])
    if not ctx.replay:
        res = integrator_common.add_driver_traces(ctx, res, rng, dims=(1, 2, 3, 4, 5), prop='C02')
    if not ctx.replay and not getattr(ctx, 'no_mc', False):
        # unbounded companion of IntegratorMC: the inductive invariant of the driver state machine (integer ticks), by Apalache
        ap = common.apalache_inductive('IntegratorInt')
        res['coverage'].setdefault('model_checking_runs', []).append(ap)
        if ap.get('steps') and not ap['ok']:
            for st in ap['steps']:
                if not st['holds']:
                    res['violations'].append({'key': 'spec/IntegratorInt/' + st['obligation'], 'what': 'Apalache refutes the proof obligation %s of the driver state machine' % st['obligation'],
                                              'payload': {'spec': 'IntegratorInt', 'obligation': st['obligation']}})
    return res
