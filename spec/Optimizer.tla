------------------------------ MODULE Optimizer ------------------------------
(***************************************************************************)
(* C12: the protocol of ONE call of a dadi optimiser, as seen from the two *)
(* places where it can be observed from outside: the user's model function *)
(* (every call of it is an "evaluation") and the value the optimiser       *)
(* returns.                                                                *)
(*                                                                         *)
(*   Start  the call begins: kind (which public function), the user's      *)
(*          start vector p0, bounds lb/ub, the fixed-parameter mask, the   *)
(*          parameterisation (log or natural) and f0, the log-likelihood   *)
(*          of the start point (measured by the driver before the call).   *)
(*   Eval   the user's model function is called with parameter vector p;   *)
(*          ll is the log-likelihood of the spectrum it returned.          *)
(*   Return the optimiser returns x (and, where the API reports it, the    *)
(*          optimum log-likelihood f; otherwise f = None).                 *)
(*   Probe  the driver evaluates the model once more at the returned x.    *)
(*                                                                         *)
(* Numbers are exact rationals (module Rat) or one of the tokens "nan",    *)
(* "inf", "-inf"; an absent bound / free parameter / unreported optimum is *)
(* the token None.  The requirements of C12 are the state predicates       *)
(* below.  All of them are stable (once false they stay false until the    *)
(* call ends), so judging the last state of a call judges every state.     *)
(***************************************************************************)
EXTENDS Rat, Integers, Sequences, FiniteSets
CONSTANTS Tau,      \* relative tolerance on log-likelihoods, "1/1000000000"
          TauX      \* relative round-off allowance for parameter values that went through a coordinate map

None == "none"

(***************************************************************************)
(* Parameter vectors around fixed values (Inference._project_params_up /   *)
(* _project_params_down).  A mask m is a sequence whose entries are None   *)
(* (free) or the fixed value.                                              *)
(***************************************************************************)
RECURSIVE CountFree(_, _)
CountFree(m, k) == IF k = 0 THEN 0 ELSE CountFree(m, k - 1) + (IF m[k] = None THEN 1 ELSE 0)
NFree(m) == CountFree(m, Len(m))
\* expand the reduced vector x (one entry per free parameter) to full length
Up(x, m)   == [i \in 1..Len(m) |-> IF m[i] = None THEN x[CountFree(m, i)] ELSE m[i]]
\* keep the entries of the full-length vector y at the free positions
Down(y, m) == LET RECURSIVE go(_)
                  go(i) == IF i > Len(m) THEN <<>> ELSE (IF m[i] = None THEN <<y[i]>> ELSE <<>>) \o go(i + 1)
              IN go(1)
Agrees(y, m) == Len(y) = Len(m) /\ \A i \in 1..Len(m) : m[i] # None => y[i] = m[i]
\* the laws the statement names ("mutually inverse"), for vectors over a value set V
UpDownInverse(m, V) ==
    /\ \A x \in [1..NFree(m) -> V] : Len(Up(x, m)) = Len(m) /\ Agrees(Up(x, m), m) /\ Down(Up(x, m), m) = x
    /\ \A y \in [1..Len(m) -> V] : Len(Down(y, m)) = NFree(m) /\ (Agrees(y, m) => Up(Down(y, m), m) = y)

(***************************************************************************)
(* Which public function has which obligations                             *)
(***************************************************************************)
Kinds == {"opt", "optimize", "optimize_log", "optimize_lbfgsb", "optimize_log_lbfgsb",
          "optimize_log_fmin", "optimize_log_powell", "optimize_cons", "optimize_grid"}
IsLocal(k)    == k # "optimize_grid"          \* has a start point
IsPrimary(k)  == k = "opt"                    \* the optimiser dadi documents and uses
ReturnsBest(k) == k = "optimize_grid"         \* brute force: the best evaluated point
AlwaysLog(k)  == k \in {"optimize_log", "optimize_log_lbfgsb", "optimize_log_fmin", "optimize_log_powell"}
NeverLog(k)   == k \in {"optimize", "optimize_lbfgsb", "optimize_cons", "optimize_grid"}
\* the log-likelihood a raw reported optimum stands for: opt maximises ll and reports it; the scipy
\* wrappers minimise -ll/ll_scale and report that
ReportedLL(k, raw, scale) == IF raw = None THEN None
                             ELSE IF ~IsNum(raw) THEN raw
                             ELSE IF k = "opt" THEN raw ELSE RNeg(RMul(raw, scale))

(***************************************************************************)
(* Comparisons                                                             *)
(***************************************************************************)
\* Parameter values are compared up to the round-off of the coordinate maps between the user's
\* parameters and the inner optimiser's variables (exp(log(x)); NLopt's internal rescaling of x):
\* relative TauX.  Fixed parameters are not transformed and are compared exactly (FixedKept).
Slack(a, b) == RMul(TauX, RMax(RAbs(a), RAbs(b)))
LeqX(a, b) == RLeq(a, RAdd(b, Slack(a, b)))
SameX(a, b) == a # None /\ b # None /\ IsNum(a) /\ IsNum(b) /\ RLeq(RAbs(RSub(a, b)), Slack(a, b))
SamePoint(x, y) == Len(x) = Len(y) /\ \A i \in 1..Len(x) : SameX(x[i], y[i])
InBounds(v, l, u) == /\ v # None /\ IsNum(v)
                     /\ (l = None \/ LeqX(l, v))
                     /\ (u = None \/ LeqX(v, u))
InBoundsExact(v, l, u) == /\ v # None /\ IsNum(v)
                          /\ (l = None \/ RLeq(l, v))
                          /\ (u = None \/ RLeq(v, u))
IsLL(a) == a # None /\ IsNum(a)
CloseLL(a, b) == IsLL(a) /\ IsLL(b) /\ RLeq(RAbs(RSub(a, b)), RMul(Tau, RMax(RAbs(a), RAbs(b))))
\* a <= b up to Tau
LeqLL(a, b) == IsLL(a) /\ IsLL(b) /\ RLeq(a, RAdd(b, RMul(Tau, RMax(RAbs(a), RAbs(b)))))

(***************************************************************************)
(* The protocol                                                            *)
(***************************************************************************)
VARIABLES phase,   \* "idle" | "running" | "done" | "probed"
          kind, p0, lb, ub, fixed, log, f0,
          evals,   \* sequence of [p |-> full parameter vector, f |-> log-likelihood]
          ret,     \* [p |-> returned vector, f |-> reported optimum log-likelihood or None]
          probe    \* [p |-> ret.p, f |-> log-likelihood there]
ovars == <<phase, kind, p0, lb, ub, fixed, log, f0, evals, ret, probe>>
NoPoint == [p |-> <<>>, f |-> None]
N == Len(fixed)

OInit == /\ phase = "idle" /\ kind = None /\ p0 = <<>> /\ lb = <<>> /\ ub = <<>> /\ fixed = <<>>
         /\ log = FALSE /\ f0 = None /\ evals = <<>> /\ ret = NoPoint /\ probe = NoPoint

\* p is ignored (and may hold None) for an optimiser without a start point
Start(k, p, l, u, fx, lg, ll0) ==
    /\ phase = "idle"
    /\ k \in Kinds /\ (AlwaysLog(k) => lg) /\ (NeverLog(k) => ~lg)
    /\ Len(p) = Len(fx) /\ Len(l) = Len(fx) /\ Len(u) = Len(fx)
    /\ phase' = "running" /\ kind' = k /\ p0' = p /\ lb' = l /\ ub' = u /\ fixed' = fx /\ log' = lg /\ f0' = ll0
    /\ evals' = <<>> /\ ret' = NoPoint /\ probe' = NoPoint
Eval(p, ll) ==
    /\ phase = "running"
    /\ evals' = Append(evals, [p |-> p, f |-> ll])
    /\ UNCHANGED <<phase, kind, p0, lb, ub, fixed, log, f0, ret, probe>>
Return(x, f) ==
    /\ phase = "running"
    /\ phase' = "done" /\ ret' = [p |-> x, f |-> f]
    /\ UNCHANGED <<kind, p0, lb, ub, fixed, log, f0, evals, probe>>
Probe(x, ll) ==
    /\ phase = "done" /\ x = ret.p
    /\ phase' = "probed" /\ probe' = [p |-> x, f |-> ll]
    /\ UNCHANGED <<kind, p0, lb, ub, fixed, log, f0, evals, ret>>
\* the call is over; the next one may start
Finish == /\ phase \in {"done", "probed"}
          /\ phase' = "idle" /\ kind' = None /\ p0' = <<>> /\ lb' = <<>> /\ ub' = <<>> /\ fixed' = <<>>
          /\ log' = FALSE /\ f0' = None /\ evals' = <<>> /\ ret' = NoPoint /\ probe' = NoPoint

(***************************************************************************)
(* The requirements of C12                                                 *)
(***************************************************************************)
Returned == phase \in {"done", "probed"}
\* the user's start point with the fixed values substituted
StartPoint == [i \in 1..N |-> IF fixed[i] = None THEN p0[i] ELSE fixed[i]]

\* every local optimiser first evaluates the model at the user's starting point
FirstEvalIsStart ==
    (phase # "idle" /\ IsLocal(kind)) =>
        /\ (evals # <<>> => SamePoint(evals[1].p, StartPoint))
        /\ (Returned => evals # <<>>)
\* the model is never evaluated outside the bounds
EvalInBounds ==
    \A k \in 1..Len(evals) :
        /\ Len(evals[k].p) = N
        /\ \A i \in 1..N : InBounds(evals[k].p[i], lb[i], ub[i])
\* fixed parameters reach every evaluation, and the caller, unchanged
FixedKept ==
    /\ \A k \in 1..Len(evals) : Len(evals[k].p) = N /\ \A i \in 1..N : fixed[i] # None => evals[k].p[i] = fixed[i]
    /\ Returned => (Len(ret.p) = N /\ \A i \in 1..N : fixed[i] # None => ret.p[i] = fixed[i])
\* free parameters come back within the bounds
ReturnInBounds ==
    Returned => (Len(ret.p) = N /\ \A i \in 1..N : fixed[i] = None => InBounds(ret.p[i], lb[i], ub[i]))
\* the returned parameters have the likelihood that is reported as the optimum; an API that reports
\* only parameters must hand back a point it evaluated (the best one for the brute-force search)
ReturnMatchesProbe ==
    phase = "probed" =>
        /\ IsLL(probe.f)
        /\ IF ret.f # None THEN CloseLL(ret.f, probe.f)
           ELSE \E k \in 1..Len(evals) : SamePoint(evals[k].p, ret.p) /\ CloseLL(evals[k].f, probe.f)
        /\ ReturnsBest(kind) => \A k \in 1..Len(evals) : IsLL(evals[k].f) => LeqLL(evals[k].f, probe.f)
\* the primary optimiser returns a point at least as good as the start point
NoWorseThanStart ==
    (phase = "probed" /\ IsPrimary(kind)) => LeqLL(f0, probe.f)

Clauses == [FirstEvalIsStart |-> FirstEvalIsStart, EvalInBounds |-> EvalInBounds, FixedKept |-> FixedKept,
            ReturnInBounds |-> ReturnInBounds, ReturnMatchesProbe |-> ReturnMatchesProbe,
            NoWorseThanStart |-> NoWorseThanStart]
Violated == {c \in DOMAIN Clauses : ~Clauses[c]}

(***************************************************************************)
(* Results belong to the caller.  A caller who keeps the parameter vectors *)
(* returned by earlier calls (the (popt, ll) pairs of a multi-start loop)  *)
(* finds in each of them, after any number of later calls, the values it   *)
(* held when it was returned - otherwise the fixed parameters and the      *)
(* likelihood reported with it would no longer be those of the point.      *)
(*   atReturn[q], now[q]: values of the q-th kept result at its return and *)
(*   after the latest call;  shares[q]: the latest result overlaps it in   *)
(*   memory (then one write changes both).                                 *)
(***************************************************************************)
EarlierResultsKept(atReturn, now) == Len(now) = Len(atReturn) /\ \A q \in 1..Len(now) : now[q] = atReturn[q]
NoSharedMemory(shares) == \A q \in 1..Len(shares) : shares[q] = FALSE

(***************************************************************************)
(* Misc.perturb_params: the perturbed vector stays within the bounds       *)
(* (bounds exact: nothing is transformed).                                 *)
(***************************************************************************)
PerturbInBounds(out, l, u) ==
    /\ Len(out) = Len(l) /\ Len(out) = Len(u)
    /\ \A i \in 1..Len(out) : InBoundsExact(out[i], l[i], u[i])
\* Reference construction: scale by a power of two, then pull to a margin inside each bound
\* (1% of the bound's magnitude), finally into the bounds themselves if they are closer
\* together than the margins.
Inward(b, dir) == \* dir = 1: just above a lower bound; dir = -1: just below an upper bound
    IF b = None THEN None ELSE RAdd(b, RMul(RInt(dir), RMul("1/100", RAbs(b))))
ClampLo(v, l) == IF l = None THEN v ELSE RMax(v, l)
ClampHi(v, u) == IF u = None THEN v ELSE RMin(v, u)
PerturbRef(x, e, l, u) ==
    [i \in 1..Len(x) |-> ClampLo(ClampHi(ClampLo(RMul(x[i], RPow("2", e[i])), Inward(l[i], 1)), Inward(u[i], -1)), l[i])]
\* what dadi shipped: multiply the bounds by 1.01 / 0.99 whatever their sign
PerturbShipped(x, e, l, u) ==
    [i \in 1..Len(x) |-> ClampHi(ClampLo(RMul(x[i], RPow("2", e[i])), IF l[i] = None THEN None ELSE RMul("101/100", l[i])),
                                 IF u[i] = None THEN None ELSE RMul("99/100", u[i]))]
=============================================================================
