-------------------------- MODULE Trace_Likelihood --------------------------
(***************************************************************************)
(* Trace validation for module Likelihood (C11).  One record = one call of *)
(* a real dadi.Inference function on exact inputs, with the raw result.    *)
(* Tables (r.tab) are positional over the flat index of the spectra:       *)
(*   ln[k] = <<model value, its natural log>>     (k in Joint)             *)
(*   lg[k] = <<data value + 1, its lnGamma>>      (k in Joint)             *)
(*   lnth  = <<ThetaOpt, its natural log>>                                 *)
(*   sqrt[k], m6[k], d3[k] = roots, verified here by exact powering        *)
(* The argument stored with every table value must be exactly the number   *)
(* the specification needs the function at; otherwise TLC stops with an    *)
(* assertion failure (machinery error), never with a pass.                 *)
(*                                                                         *)
(* r.in.mo / r.in.da are the abstract values of the two operands.  For a   *)
(* call made after other calls on the same two objects (r.in.seq) they are *)
(* the values the objects were created with: the clauses of the call judge *)
(* it against them, so a call that depends on what was called before is    *)
(* rejected.  r.out.after holds the two objects as they are after the call *)
(* (clause OperandsUnchanged, against what the call found).                *)
(***************************************************************************)
EXTENDS Likelihood, TLC, Json, IOUtils
CONSTANTS Tau        \* relative tolerance on sums (relative to the sum of the magnitudes of the terms)

Trace == JsonDeserialize(IOEnv.TRACE_FILE)
VARIABLE i
F(name, ok) == IF ok THEN {} ELSE {name}

Raised(r)  == "raised" \in DOMAIN r.out
CloseTo(got, exact, scale) == IsNum(got) /\ RLeq(RAbs(RSub(got, exact)), RMul(Tau, scale))
Ln(r)  == [k \in 1..Len(r.tab.ln) |-> r.tab.ln[k][2]]
LnG(r) == [k \in 1..Len(r.tab.lg) |-> r.tab.lg[k][2]]
TabOK(r, em, da) ==
    /\ Len(r.tab.ln) = Size(da.sh) /\ Len(r.tab.lg) = Size(da.sh)
    /\ \A k \in Joint(em, da) : /\ r.tab.ln[k][1] = em.d[k]
                                 /\ LnSane(em.d[k], r.tab.ln[k][2])
                                 /\ r.tab.lg[k][1] = RAdd(da.d[k], "1")
ThetaTabOK(r, em, da) == r.tab.lnth[1] = ThetaOpt(em, da) /\ LnSane(r.tab.lnth[1], r.tab.lnth[2])
NeedTab(r, ok) == Assert(ok, <<"table argument mismatch in record", r.id>>)

\* ---- ll, ll_per_bin ----
FLL(r, em, da) ==
    IF Raised(r) THEN {"Raised"} ELSE
    F("LLValue", CloseTo(r.out.v, LL(em, da, Ln(r), LnG(r)), LLScale(em, da, Ln(r), LnG(r))))
FPerBin(r, em, da) ==
    IF Raised(r) THEN {"Raised"} ELSE
    LET o == r.out.s J == Joint(em, da) IN
    F("PerBinShape", o.sh = da.sh) \cup
    (IF o.sh = da.sh
     THEN F("PerBinMask", \A k \in 1..Size(da.sh) : o.m[k] = (k \notin J)) \cup
          F("PerBinValue", \A k \in J : CloseTo(o.d[k], PerBin(em, da, Ln(r), LnG(r), k),
                                                 TermScale(em.d[k], da.d[k], Ln(r)[k], LnG(r)[k])))
     ELSE {})
\* ---- optimal scaling, multinomial likelihood ----
FTheta(r, em, da) ==
    IF Raised(r) THEN {"Raised"} ELSE F("ThetaOpt", RCloseRel(r.out.v, ThetaOpt(em, da), Tau, "0"))
FScaled(r, mo, em, da) ==
    IF Raised(r) THEN {"Raised"} ELSE
    LET o == r.out.s th == ThetaOpt(em, da) IN
    F("ScaledShape", o.sh = mo.sh) \cup
    (IF o.sh = mo.sh
     THEN F("ScaledMask", o.m = mo.m) \cup
          F("ScaledValue", \A k \in 1..Size(mo.sh) : ~mo.m[k] => RCloseRel(o.d[k], RMul(th, mo.d[k]), Tau, "0"))
     ELSE {})
FMultinom(r, em, da) ==
    IF Raised(r) THEN {"Raised"} ELSE
    F("MultinomValue", CloseTo(r.out.v, LLmultinom(em, da, Ln(r), LnG(r), r.tab.lnth[2]),
                               LLmultinomScale(em, da, Ln(r), LnG(r), r.tab.lnth[2])))
\* ll_multinom(model) and ll_multinom(c * model) observed on the implementation
FScaleInv(r, em, da) ==
    IF Raised(r) THEN {"Raised"} ELSE
    LET exact == LLmultinom(em, da, Ln(r), LnG(r), r.tab.lnth[2])
        scale == LLmultinomScale(em, da, Ln(r), LnG(r), r.tab.lnth[2])
    IN  F("MultinomValue", CloseTo(r.out.a, exact, scale)) \cup
        F("ScaleInvariance", CloseTo(r.out.b, exact, scale) /\ CloseTo(r.out.b, r.out.a, RMul("2", scale)))
\* ll_multinom(c * data, data) against ll_multinom(other model, data), same masks
FMaximises(r) ==
    IF Raised(r) THEN {"Raised"} ELSE
    F("DataMaximises", IsNum(r.out.star) /\ IsNum(r.out.other) /\
        RLeq(r.out.other, RAdd(r.out.star, RMul(Tau, RAdd(RAbs(r.out.star), RAbs(r.out.other))))))

\* ---- residuals ----
FLin(r, em, da) ==
    IF Raised(r) THEN {"Raised"} ELSE
    LET o == r.out.s lvl == r.in.lvl
        def == {k \in 1..Size(da.sh) : DefinedLin(em, da, lvl, k)}
        ok  == NeedTab(r, \A k \in def : RootOK(r.tab.sqrt[k], 2, em.d[k]))
        val(k) == LinResid(em.d[k], da.d[k], r.tab.sqrt[k])
        sc(k)  == LinResidScale(em.d[k], da.d[k], r.tab.sqrt[k])
    IN  F("ResidShape", o.sh = da.sh) \cup
        (IF o.sh = da.sh /\ ok
         THEN F("ResidMaskLevel", \A k \in 1..Size(da.sh) : MustMaskLin(em, da, lvl, k) => o.m[k]) \cup
              F("ResidUnmasked", \A k \in def : ~o.m[k]) \cup
              F("ResidSign", \A k \in def : (IsNum(o.d[k]) /\ ~CloseTo("0", val(k), sc(k))) => RSign(o.d[k]) = RSign(RSub(em.d[k], da.d[k]))) \cup
              F("ResidValue", \A k \in def : CloseTo(o.d[k], val(k), sc(k)))
         ELSE {})
FAns(r, em, da) ==
    IF Raised(r) THEN {"Raised"} ELSE
    LET o == r.out.s lvl == r.in.lvl
        def == {k \in 1..Size(da.sh) : DefinedAns(em, da, lvl, k)}
        ok  == NeedTab(r, \A k \in def : RootOK(r.tab.m6[k], 6, em.d[k]) /\ RootOK(r.tab.d3[k], 3, da.d[k]))
        val(k) == AnsResid(r.tab.m6[k], r.tab.d3[k])
        sc(k)  == AnsResidScale(r.tab.m6[k], r.tab.d3[k])
    IN  F("ResidShape", o.sh = da.sh) \cup
        (IF o.sh = da.sh /\ ok
         THEN F("ResidMaskLevel", \A k \in 1..Size(da.sh) : MustMaskAns(em, da, lvl, k) => o.m[k]) \cup
              F("ResidUnmasked", \A k \in def : ~o.m[k]) \cup
              F("ResidSign", \A k \in def : (IsNum(o.d[k]) /\ ~CloseTo("0", val(k), sc(k))) => RSign(o.d[k]) = RSign(RSub(em.d[k], da.d[k]))) \cup
              F("ResidValue", \A k \in def : CloseTo(o.d[k], val(k), sc(k)))
         ELSE {})

\* ---- both operands after the call (recorded for every call of the alphabet as r.out.after) ----
\* (in a call sequence r.in.before is what the objects held when this call began: the clause names the call that changed them)
FOperands(r) ==
    IF "after" \in DOMAIN r.out
    THEN LET b == IF "before" \in DOMAIN r.in THEN r.in.before ELSE [mo |-> r.in.mo, da |-> r.in.da]
         IN  F("OperandsUnchanged", OperandsUnchanged(b.mo, b.da, r.out.after.mo, r.out.after.da))
    ELSE {}

FailedCall(r) ==
    IF r.op = "maximises" THEN FMaximises(r)
    ELSE IF r.op \notin {"ll", "ll_per_bin", "theta", "scaled", "ll_multinom", "scale_inv", "lin_resid", "ans_resid"} THEN {"UnknownOp"}
    ELSE
    LET mo == r.in.mo da == r.in.da em == EffModel(mo, da) IN
    IF mo.sh # da.sh THEN {"ShapeMismatch"}
    ELSE CASE r.op = "ll"          -> IF NeedTab(r, TabOK(r, em, da)) THEN FLL(r, em, da) ELSE {}
           [] r.op = "ll_per_bin"  -> IF NeedTab(r, TabOK(r, em, da)) THEN FPerBin(r, em, da) ELSE {}
           [] r.op = "theta"       -> FTheta(r, em, da)
           [] r.op = "scaled"      -> FScaled(r, mo, em, da)
           [] r.op = "ll_multinom" -> IF NeedTab(r, TabOK(r, em, da) /\ ThetaTabOK(r, em, da)) THEN FMultinom(r, em, da) ELSE {}
           [] r.op = "scale_inv"   -> IF NeedTab(r, TabOK(r, em, da) /\ ThetaTabOK(r, em, da)) THEN FScaleInv(r, em, da) ELSE {}
           [] r.op = "lin_resid"   -> FLin(r, em, da)
           [] r.op = "ans_resid"   -> FAns(r, em, da)

Failed(r) == FailedCall(r) \cup FOperands(r)

Init == i = 0
Next == /\ i < Len(Trace)
        /\ i' = i + 1
        /\ LET r == Trace[i + 1] f == Failed(r) IN IF f = {} THEN TRUE ELSE PrintT(<<"BAD", r.id, f>>)
Spec == Init /\ [][Next]_i
Done == (i = Len(Trace)) => PrintT(<<"DONE", i>>)
AllConsumed == TLCGet("stats").diameter - 1 = Len(Trace)
=============================================================================
