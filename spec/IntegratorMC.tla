---------------------------- MODULE IntegratorMC ----------------------------
(* Integrator over a lattice of configurations (chosen in the initial state). *)
EXTENDS Integrator, TLC
AllCfgs == {[P |-> p, T0 |-> t0, T |-> tt, DtAt |-> d, Frozen |-> fz, MigPairs |-> mp, AllConst |-> ac] :
            p \in 1..3, t0 \in {"0", "3/10"}, tt \in {"0", "3/10", "1", "7/5", "-1/10"},
            d \in {<<"1/2">>, <<"1/3", "1/2">>, <<"7/10", "1/5", "2/5">>, <<"3">>},
            fz \in {{}, {1}, {2}}, mp \in {{}, {<<1, 2>>}, {<<2, 3>>}}, ac \in BOOLEAN}
ValidCfgs == {c \in AllCfgs : c.Frozen \subseteq 1..c.P /\ \A pr \in c.MigPairs : pr[1] \in 1..c.P /\ pr[2] \in 1..c.P}
=============================================================================
