CONSTANT Tau = "1/10000000000"
CONSTANT TauInb = "1/1000000000"
SPECIFICATION Spec
CHECK_DEADLOCK FALSE
INVARIANT Done
POSTCONDITION AllConsumed
