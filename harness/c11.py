"""C11 - likelihoods are Poisson/multinomial over jointly unmasked entries (spec/Likelihood.tla).

The driver generates model/data pairs, calls the real dadi.Inference functions and
records exact inputs, raw outputs and the ln / lnGamma / root tables the
specification needs (computed here with the stdlib math module at the exact
arguments; the specification checks the arguments).  TLC judges every record."""
import random, itertools, math, io, contextlib, logging
from fractions import Fraction
import numpy as np
from . import common
from .common import rat, rats
from .spectrum_common import enc, rand_shape

PROP = 'C11'
OPS = ('ll', 'll_per_bin', 'theta', 'scaled', 'll_multinom', 'lin_resid', 'ans_resid')


# ---------------------------------------------------------------- exact helpers (table arguments only)
def _unflat(sh, k):
    ix = []
    for s in reversed(sh):
        ix.append(k % s)
        k //= s
    return tuple(reversed(ix))


def _flat(sh, ix):
    k = 0
    for s, i in zip(sh, ix):
        k = k * s + i
    return k


def fold_exact(sh, d, m):
    """Exact fold of (data, mask) lists: only used to know at which rational arguments
    the specification will want ln / roots of the automatically folded model; the
    specification re-derives these arguments itself and stops if they differ."""
    n = sum(s - 1 for s in sh)
    D, M = [], []
    for k in range(len(d)):
        ix = _unflat(sh, k)
        t = sum(ix)
        mk = _flat(sh, tuple(s - 1 - i for s, i in zip(sh, ix)))
        if 2 * t > n:
            D.append(Fraction(0)); M.append(True)
        else:
            v = d[k] + d[mk]
            D.append(v / 2 if 2 * t == n else v)
            M.append(m[k] or m[mk])
    return D, M


def _pair(arg, val):
    return [rat(arg), rat(val)]


class ZeroJointData(Exception):
    pass


def tables(mo, da, want):
    """mo, da: encoded spectra (dicts).  Returns the 'tab' part of a record."""
    sh = mo['sh']
    md = [Fraction(x) for x in mo['d']]
    mm = list(mo['m'])
    if da['f'] and not mo['f']:
        md, mm = fold_exact(sh, md, mm)
    dd = [Fraction(x) for x in da['d']]
    dm = da['m']
    tab = {}
    n = len(md)
    live = [not mm[k] and not dm[k] for k in range(n)]
    pos = [live[k] and md[k] > 0 for k in range(n)]
    zero = ['0', '0']
    if 'ln' in want:
        tab['ln'] = [_pair(md[k], math.log(float(md[k]))) if pos[k] else zero for k in range(n)]
        tab['lg'] = [_pair(dd[k] + 1, math.lgamma(float(dd[k] + 1))) if pos[k] else zero for k in range(n)]
    if 'lnth' in want:
        sm = sum(md[k] for k in range(n) if live[k])
        sd = sum(dd[k] for k in range(n) if live[k])
        th = sd / sm
        if th <= 0:
            raise ZeroJointData('jointly unmasked data are all zero: the optimal scaling is 0')
        tab['lnth'] = _pair(th, math.log(float(th)))
    if 'sqrt' in want:
        tab['sqrt'] = [rat(math.sqrt(float(md[k]))) if pos[k] else '0' for k in range(n)]
    if 'roots' in want:
        tab['m6'] = [rat(float(md[k]) ** (1.0 / 6)) if pos[k] else '0' for k in range(n)]
        tab['d3'] = [rat(math.cbrt(float(dd[k]))) if pos[k] and dd[k] > 0 else '0' for k in range(n)]
    return tab


# ---------------------------------------------------------------- input generation
def gen_pair(rng, ndim=None, cfg=None):
    """A (model, data) pair of real dadi.Spectrum objects with independent masks.  cfg (all optional) fixes elements of the
    domain: ndim, shape, kind ('counts' | 'projected' | 'mixed' | 'large'), fold ('none' | 'data' | 'both'),
    masks (data mode, model mode), parity of the total sample size, zero (an unmasked zero datum), layout ('C' | 'F' | 'strided')."""
    import dadi
    cfg = cfg or {}
    for attempt in range(40):
        pair = _gen_pair_once(rng, ndim, cfg)
        if pair is not None:
            return pair
    raise common.MachineryError('C11 generator: no pair in the domain for configuration %r' % (cfg,))


def _layout(arr, layout, rng):
    """the same values in another memory layout (Fortran order, or a strided view of a larger array)"""
    if layout == 'F':
        return np.asfortranarray(arr)
    if layout == 'strided':
        big = np.zeros(tuple(2 * s for s in arr.shape))
        view = big[tuple(slice(None, None, 2) for _ in arr.shape)]
        view[...] = arr
        return view
    return arr


def _gen_pair_once(rng, ndim, cfg):
    import dadi
    ndim = cfg.get('ndim', ndim) or rng.choice([1, 1, 2, 2, 3])
    hi = {1: 18, 2: 6, 3: 3}[ndim]
    if 'shape' in cfg:
        sh = tuple(cfg['shape'])
    else:
        sh = tuple(rand_shape(rng, ndim, 2, hi))
        if 'parity' in cfg and (sum(x - 1 for x in sh) % 2 == 0) != (cfg['parity'] == 'even'):
            sh = (sh[0] + 1,) + sh[1:]
    size = int(np.prod(sh))
    kind = cfg.get('kind') or rng.choice(['counts', 'counts', 'projected', 'projected', 'mixed'])
    if kind == 'projected':
        # genuinely projected data: integer counts at a larger sample size, projected down by dadi
        big = tuple(s + rng.randint(1, 4) for s in sh)
        raw = np.array([float(rng.choice([0, 0, 1, 2, 3, 5, 8, 20, rng.randrange(0, 400)])) for _ in range(int(np.prod(big)))]).reshape(big)
        dvals = np.array(np.asarray(dadi.Spectrum(raw, mask_corners=False).project([s - 1 for s in sh]).data))
    elif kind == 'counts':
        dvals = np.array([float(rng.choice([0, 0, 1, 2, 3, rng.randrange(0, 60), rng.randrange(0, 2000)])) for _ in range(size)]).reshape(sh)
    elif kind == 'large':
        dvals = np.array([float(rng.choice([0, rng.randrange(10 ** 4, 10 ** 6), rng.randrange(0, 100)])) for _ in range(size)]).reshape(sh)
    else:
        dvals = np.array([rng.choice([0.0, rng.uniform(0, 3), rng.uniform(0, 300), float(rng.randrange(0, 30))]) for _ in range(size)]).reshape(sh)
    if cfg.get('zero') and size > 2:
        dvals.flat[rng.randrange(1, size - 1)] = 0.0
    scale = 10 ** rng.uniform(-3, 3)
    mvals = np.array([scale * rng.choice([rng.uniform(0.01, 2), rng.uniform(0.5, 1.5), 10 ** rng.uniform(-4, 2)]) for _ in range(size)]).reshape(sh)
    if cfg.get('zero_model', rng.random() < 0.3):
        # a model that vanishes where the data vanish (contribution 0)
        z = [k for k in range(size) if dvals.flat[k] == 0]
        for k in z[:max(1, len(z) // 2)]:
            mvals.flat[k] = 0.0
    layout = cfg.get('layout', 'C')
    data = dadi.Spectrum(_layout(dvals.astype(int) if cfg.get('dtype') == 'int' else dvals, layout, rng), mask_corners=False)
    model = dadi.Spectrum(_layout(mvals, layout, rng), mask_corners=False)

    def rmask(mode):
        mk = np.zeros(sh, dtype=bool)
        if mode in ('corners', 'random', 'single'):
            mk.flat[0] = mk.flat[-1] = True
        if mode == 'random':
            for k in range(size):
                if rng.random() < 0.2:
                    mk.flat[k] = True
        if mode in ('single', 'interior') and size > 2:
            mk.flat[rng.randrange(1, size - 1)] = True      # 'interior': an interior entry only, both corners stay unmasked
        return mk
    modes = ['none', 'corners', 'random', 'single', 'interior']
    for _ in range(20):
        dmode, mmode = cfg.get('masks', (rng.choice(modes), rng.choice(modes)))
        model.mask = rmask(mmode)
        data.mask = rmask(dmode)
        if 'fold' in cfg:
            fd, fm = cfg['fold'] in ('data', 'both'), cfg['fold'] == 'both'
        else:
            fd = rng.random() < 0.35
            fm = fd and rng.random() < 0.3
        d2 = data.fold() if fd else data
        m2 = model.fold() if fm else model
        # make sure at least two entries carry likelihood, and that the data and model totals are positive there
        e = m2.fold() if (fd and not fm) else m2
        jm = ~np.ma.getmaskarray(e) & ~np.ma.getmaskarray(d2)
        joint = jm & (e.data > 0)
        if joint.sum() >= 2 and d2.data[joint].sum() > 0 and d2.data[jm].sum() > 0:
            if cfg.get('zero') and not np.any(jm & (np.asarray(d2.data) == 0)):
                continue
            return m2, d2
    return None


# Elements of the quantifier drawn on purpose in every tier: every (dimension, kind of data) pair; every folding mode with
# every dimension and every kind (Latin square); nine independent mask-mode pairs; both parities of the total sample size;
# three memory layouts; the smallest spectra; very large counts.
_FOLDS = ['none', 'data', 'both']
_MASKS = [('none', 'none'), ('corners', 'corners'), ('interior', 'none'), ('none', 'interior'), ('random', 'random'),
          ('single', 'corners'), ('corners', 'random'), ('interior', 'interior'), ('random', 'none')]
PAIR_CONFIGS = [{'name': '%dD-%s' % (nd, kind), 'ndim': nd, 'kind': kind, 'fold': _FOLDS[(i + j) % 3], 'masks': _MASKS[3 * i + j],
                 'parity': ['even', 'odd'][(i + j) % 2], 'zero': kind != 'projected', 'layout': ['C', 'F', 'strided'][(2 * i + j) % 3]}
                for i, nd in enumerate((1, 2, 3)) for j, kind in enumerate(('counts', 'projected', 'mixed'))] + [
    {'name': 'smallest-1D', 'shape': (3,), 'ndim': 1, 'kind': 'counts', 'fold': 'none', 'masks': ('none', 'none')},
    {'name': 'integer-dtype-data', 'ndim': 2, 'kind': 'counts', 'fold': 'data', 'masks': ('corners', 'none'), 'dtype': 'int', 'layout': 'F'},
    {'name': 'smallest-2D', 'shape': (2, 3), 'ndim': 2, 'kind': 'mixed', 'fold': 'none', 'masks': ('none', 'interior')},
    {'name': 'folded-even-1D', 'shape': (9,), 'ndim': 1, 'kind': 'counts', 'fold': 'data', 'masks': ('none', 'none'), 'zero': True},
    {'name': 'folded-odd-2D', 'shape': (3, 4), 'ndim': 2, 'kind': 'projected', 'fold': 'data', 'masks': ('interior', 'none')},
    {'name': 'large-counts', 'ndim': 1, 'kind': 'large', 'fold': 'none', 'masks': ('corners', 'none')},
    {'name': 'model-zero-at-zero-data', 'ndim': 2, 'kind': 'counts', 'fold': 'none', 'masks': ('none', 'none'), 'zero': True, 'zero_model': True},
]
LEVELS = [None, 0.0, 0.5, 1e-2, 2.0]
FACTORS = [1e-3, 1e3, 0.5, 7.0]


def residual_boundary_records(nid):
    """Residual masking exactly at the level (model <= level and data <= level), and the zero-datum rule of the Anscombe
    residual, on a hand-made pair without masks."""
    import dadi
    model = dadi.Spectrum(np.array([0.5, 0.005, 2.0, 2.0, 3.0, 0.01, 1.0, 2.5]), mask_corners=False)
    data = dadi.Spectrum(np.array([0.5, 0.0, 2.0, 2.5, 0.0, 0.01, 7.0, 2.0]), mask_corners=False)
    recs = []
    for lvl in (None, 0.0, 0.01, 2.0, 3.0):
        for op in ('lin_resid', 'ans_resid'):
            recs.append(make_record('%s-%d' % (op, next(nid)), op, model, data, lvl))
    return recs


def _val(x):
    """raw scalar observation -> token"""
    if x is np.ma.masked:
        return 'nan'
    return rat(float(x))


def observe_scalar(fn):
    try:
        with contextlib.redirect_stdout(io.StringIO()):
            return {'v': _val(fn())}
    except Exception as e:
        return {'raised': type(e).__name__}


def observe_spec(fn):
    try:
        with contextlib.redirect_stdout(io.StringIO()):
            return {'s': enc(fn())}
    except Exception as e:
        return {'raised': type(e).__name__}


def call(op, model, data, lvl=None):
    from dadi import Inference
    if op == 'll':
        return observe_scalar(lambda: Inference.ll(model, data))
    if op == 'll_multinom':
        return observe_scalar(lambda: Inference.ll_multinom(model, data))
    if op == 'theta':
        return observe_scalar(lambda: Inference.optimal_sfs_scaling(model, data))
    if op == 'll_per_bin':
        return observe_spec(lambda: Inference.ll_per_bin(model, data))
    if op == 'scaled':
        return observe_spec(lambda: Inference.optimally_scaled_sfs(model, data))
    if op == 'lin_resid':
        return observe_spec(lambda: Inference.linear_Poisson_residual(model, data, mask=lvl))
    if op == 'ans_resid':
        return observe_spec(lambda: Inference.Anscombe_Poisson_residual(model, data, mask=lvl))
    raise KeyError(op)


SITE = {'ll': 'Inference.ll', 'll_per_bin': 'Inference.ll_per_bin', 'theta': 'Inference.optimal_sfs_scaling',
        'scaled': 'Inference.optimally_scaled_sfs', 'll_multinom': 'Inference.ll_multinom', 'scale_inv': 'Inference.ll_multinom',
        'maximises': 'Inference.ll_multinom', 'lin_resid': 'Inference.linear_Poisson_residual',
        'ans_resid': 'Inference.Anscombe_Poisson_residual'}
WANT = {'ll': ('ln',), 'll_per_bin': ('ln',), 'theta': (), 'scaled': (), 'll_multinom': ('ln', 'lnth'), 'scale_inv': ('ln', 'lnth'),
        'lin_resid': ('sqrt',), 'ans_resid': ('roots',)}


def make_record(rid, op, model, data, lvl=None, orig=None, site=None):
    """One call on the real objects.  The record's input is the abstract value of the two operands BEFORE the call
    (orig = (mo, da): the value they were created with, when earlier calls have already been made on them; in['before']
    then is what the objects held when this call began); out['after'] is what the two objects hold after the call
    (values, mask, folded flag, labels)."""
    mo, da = orig if orig else (enc(model), enc(data))
    inp = {'mo': mo, 'da': da}
    if orig:
        inp['before'] = {'mo': enc(model), 'da': enc(data)}     # what this call found (OperandsUnchanged names the call that changed it)
    if op in ('lin_resid', 'ans_resid'):
        inp['lvl'] = 'none' if lvl is None else rat(lvl)
    tab = tables(mo, da, WANT[op])
    out = call(op, model, data, lvl)
    out['after'] = {'mo': enc(model), 'da': enc(data)}
    return {'id': rid, 'op': op, 'site': site or SITE[op], 'in': inp, 'tab': tab, 'out': out}


# ---------------------------------------------------------------- call sequences on the same objects (no edits in between)
#: the alphabet of the likelihood layer: (function, masking level of a residual)
SEQ_ALPHABET = [('ll', None), ('ll_per_bin', None), ('theta', None), ('scaled', None), ('ll_multinom', None),
                ('lin_resid', None), ('lin_resid', 0.5), ('ans_resid', None), ('ans_resid', 0.5)]
SEQ_SUFFIX = '[call sequence]'
#: pairs for the sequences: the data hold an unmasked zero (and a zero where the model is unmasked)
SEQ_CONFIGS = [
    {'name': 'seq-1D', 'ndim': 1, 'shape': (9,), 'kind': 'counts', 'fold': 'none', 'masks': ('corners', 'none'), 'zero': True, 'zero_model': False,
     'ids': ['A']},
    {'name': 'seq-2D-autofold', 'ndim': 2, 'shape': (4, 5), 'kind': 'mixed', 'fold': 'data', 'masks': ('interior', 'single'), 'zero': True,
     'zero_model': False},
]


def clone(fs, ids=None):
    """A new Spectrum object with its own buffers holding the same abstract value."""
    import dadi
    return dadi.Spectrum(np.array(fs.data, dtype=float, copy=True), mask=np.array(np.ma.getmaskarray(fs), copy=True), mask_corners=False,
                         data_folded=bool(fs.folded), check_folding=False, pop_ids=ids or getattr(fs, 'pop_ids', None))


def _tag(step):
    op, lvl = step
    return op if lvl is None else '%s@%s' % (op, lvl)


def seq_pair(rng, cfg):
    """A pair in the domain of every function of the alphabet whose data hold at least one unmasked zero."""
    for attempt in range(60):
        model, data = gen_pair(rng, cfg=cfg)
        model, data = clone(model, cfg.get('ids')), clone(data, cfg.get('ids'))
        mo, da = enc(model), enc(data)
        try:
            tables(mo, da, ('ln', 'lnth', 'sqrt', 'roots'))
        except ZeroJointData:
            continue
        if any(Fraction(x) == 0 and not m for x, m in zip(da['d'], da['m'])):
            return model, data
    raise common.MachineryError('C11 sequences: no pair with an unmasked zero datum for %r' % (cfg,))


def sequence_records(rng, nid, model0, data0, chains=2):
    """Histories without edits: every function of the alphabet followed by every function of the alphabet on the same
    two objects, and `chains` random orders of the whole alphabet on one pair of objects.  Every recorded call carries
    the abstract value the objects were CREATED with as its input: the ordinary clauses judge the later call against
    it (history independence), and OperandsUnchanged compares what the objects hold afterwards with it."""
    orig = (enc(model0), enc(data0))
    recs = []

    def rec(step, model, data, history):
        op, lvl = step
        r = make_record('seq-%s-%d' % ('>'.join(history + [_tag(step)]), next(nid)), op, model, data, lvl, orig=orig, site=SITE[op] + SEQ_SUFFIX)
        r['in']['seq'] = {'history': history}
        return r
    for first in SEQ_ALPHABET:
        for second in SEQ_ALPHABET:
            model, data = clone(model0), clone(data0)
            call(first[0], model, data, first[1])
            recs.append(rec(second, model, data, [_tag(first)]))
    for c in range(chains):
        order = list(SEQ_ALPHABET)
        rng.shuffle(order)
        model, data = clone(model0), clone(data0)
        history = []
        for step in order:
            recs.append(rec(step, model, data, list(history)))
            history.append(_tag(step))
    return recs


# ---------------------------------------------------------------- histories on the same objects (in-place edits)
HIST_OPS = ('ll', 'll_per_bin', 'll_multinom', 'theta')


def _editable(fs):
    """flat indices that may be edited in place: a folded spectrum keeps its folded-out entries masked, and its two
    corner entries stay as they are (dadi's fold() masks them by default, which the specification allows)"""
    sh = fs.shape
    n = sum(x - 1 for x in sh)
    return [k for k in range(fs.size) if not (fs.folded and (2 * sum(_unflat(sh, k)) > n or k in (0, fs.size - 1)))]


def choose_edit(rng, fs, target):
    """An in-place modification of a real Spectrum: mask an unmasked entry, unmask a masked one, change a value
    (through the .data view or through item assignment), set one to zero."""
    idx = _editable(fs)
    mask = np.ma.getmaskarray(fs)
    un = [k for k in idx if not mask.flat[k]]
    ma = [k for k in idx if mask.flat[k]]
    kinds = ['value', 'setitem'] + (['mask'] if len(un) > 2 else []) + (['unmask'] if ma else []) + (['zero'] if target == 'data' and len(un) > 2 else [])
    kind = rng.choice(kinds)
    if kind == 'unmask':
        k = rng.choice(ma)
    else:
        k = rng.choice(un) if un else rng.choice(idx)
    old = float(fs.data.flat[k])
    if target == 'data':
        v = float(rng.choice([rng.randrange(1, 50), rng.randrange(1, 50), round(rng.uniform(0.1, 30), 3)]))
    else:
        v = (abs(old) if old != 0 else 1.0) * rng.choice([0.25, 0.5, 2.0, 3.5])
    return {'target': target, 'kind': kind, 'k': int(k), 'v': rat(0.0 if kind == 'zero' else v)}


def apply_edit(fs, edit):
    """Modify fs IN PLACE (same object before and after)."""
    ix = _unflat(fs.shape, edit['k'])
    kind = edit['kind']
    if kind == 'mask':
        fs.mask[ix] = True
    elif kind == 'unmask':
        fs.mask[ix] = False
    elif kind == 'value':
        fs.data[ix] = float(Fraction(edit['v']))
    else:                       # 'setitem', 'zero': item assignment (also unmasks a masked entry)
        fs[ix] = float(Fraction(edit['v']))


def in_domain(model, data):
    e = model.fold() if (data.folded and not model.folded) else model
    jm = ~np.ma.getmaskarray(e) & ~np.ma.getmaskarray(data)
    pos = jm & (np.asarray(e.data) > 0)
    return pos.sum() >= 1 and float(np.asarray(data.data)[jm].sum()) > 0 and float(np.asarray(e.data)[jm].sum()) > 0


def history_records(rng, nid, model, data, nsteps):
    """evaluate, edit one of the two objects in place, evaluate again - the records carry the MODIFIED objects as
    their input, so the ordinary clauses judge the second evaluation; 'hist' keeps what is needed to replay the step."""
    from dadi import Inference
    recs = []
    for step in range(nsteps):
        target = 'data' if step % 3 != 2 else 'model'
        obj = data if target == 'data' else model
        before = {'mo': enc(model), 'da': enc(data)}
        edit = choose_edit(rng, obj, target)
        for op in HIST_OPS:                    # first evaluation on the objects as they are
            call(op, model, data)
        saved = (np.array(obj.data, copy=True), np.array(np.ma.getmaskarray(obj), copy=True))
        apply_edit(obj, edit)
        if not in_domain(model, data):
            obj.data[...] = saved[0]           # leave the domain of the property: undo (still in place) and go on
            obj.mask[...] = saved[1]
            continue
        try:
            batch = []
            for op in HIST_OPS:
                r = make_record('hist-%s-%d' % (op, next(nid)), op, model, data)
                r['in']['hist'] = {'before': before, 'edit': edit}
                batch.append(r)
            recs.extend(batch)
        except ZeroJointData:
            pass
    return recs


def records(ctx):
    import dadi
    from dadi import Inference
    logging.getLogger('Inference').setLevel(logging.CRITICAL)
    rng = random.Random(ctx.seed + 11)
    recs = []
    nid = itertools.count()
    recs.extend(residual_boundary_records(nid))
    nrand = 30 if ctx.quick else 450
    ndet = len(PAIR_CONFIGS)
    for c in range(ndet + nrand):
        cfg = PAIR_CONFIGS[c] if c < ndet else None
        model, data = gen_pair(rng, cfg=cfg)
        # the optimal scaling sum(d)/sum(m) must be positive for the multinomial likelihood to be defined:
        # redraw pairs whose jointly unmasked data are all zero
        for attempt in range(20):
            joint = ~(np.ma.getmaskarray(model) | np.ma.getmaskarray(data))
            dm = data.fold() if False else data
            if float(np.asarray(data.data)[joint].sum()) > 0:
                break
            model, data = gen_pair(rng, cfg=cfg)
        try:
            batch = []
            for op in OPS:
                lvl = (LEVELS[(c + (op == 'ans_resid')) % 5] if cfg else rng.choice(LEVELS)) if op.endswith('resid') else None
                batch.append(make_record('%s-%d' % (op, next(nid)), op, model, data, lvl))
            recs.extend(batch)
        except ZeroJointData:
            continue        # outside the domain of the multinomial likelihood (no data on the joint entries)
        # invariance to rescaling the model
        cfac = FACTORS[c % 4] if cfg else 10 ** rng.uniform(-3, 3)      # both ends of the scale range on purpose
        mo, da = enc(model), enc(data)
        out = {}
        try:
            with contextlib.redirect_stdout(io.StringIO()):
                out = {'a': _val(Inference.ll_multinom(model, data)), 'b': _val(Inference.ll_multinom(cfac * model, data))}
        except Exception as e:
            out = {'raised': type(e).__name__}
        recs.append({'id': 'scale_inv-%d' % next(nid), 'op': 'scale_inv', 'site': SITE['scale_inv'],
                     'in': {'mo': mo, 'da': da, 'c': rat(cfac)}, 'tab': tables(mo, da, WANT['scale_inv']), 'out': out})
        # model = const * data maximises the multinomial likelihood (same mask on both, positive competitor)
        other = dadi.Spectrum(np.abs(model.data) + 1e-3 * float(np.abs(model.data).max()), mask=np.ma.getmaskarray(data).copy(),
                              mask_corners=False, data_folded=bool(data.folded), check_folding=False)
        if rng.random() < 0.5:
            # a competitor close to the optimum
            other = dadi.Spectrum(data.data * (1 + 0.05 * np.array([rng.uniform(-1, 1) for _ in range(data.size)]).reshape(data.shape)) + 1e-3,
                                  mask=np.ma.getmaskarray(data).copy(), mask_corners=False, data_folded=bool(data.folded), check_folding=False)
        star = dadi.Spectrum(data.data * 10 ** rng.uniform(-2, 2), mask=np.ma.getmaskarray(data).copy(), mask_corners=False,
                             data_folded=bool(data.folded), check_folding=False)
        try:
            with contextlib.redirect_stdout(io.StringIO()):
                out = {'star': _val(Inference.ll_multinom(star, data)), 'other': _val(Inference.ll_multinom(other, data))}
        except Exception as e:
            out = {'raised': type(e).__name__}
        recs.append({'id': 'maximises-%d' % next(nid), 'op': 'maximises', 'site': SITE['maximises'],
                     'in': {'mo': enc(other), 'da': enc(data)}, 'tab': {}, 'out': out})
        # call histories on the same two objects: likelihoods may not remember anything about an earlier state of them
        if c % 2 == 0:
            recs.extend(history_records(rng, nid, model, data, 3))
    # call sequences on the same objects, every ordered pair of functions (deterministic configurations in both tiers)
    srng = random.Random(ctx.seed + 1100)
    for cfg in SEQ_CONFIGS:
        model, data = seq_pair(srng, cfg)
        recs.extend(sequence_records(srng, nid, model, data))
    for c in range(0 if ctx.quick else 12):
        model, data = seq_pair(srng, {'zero': True, 'zero_model': False})
        recs.extend(sequence_records(srng, nid, model, data, chains=1))
    return recs


def mutate(rec):
    """Corrupt one observed field so that a sound trace spec must reject the record."""
    out = rec['out']
    op = rec['op']
    if 'after' in out and int(rec['id'].rsplit('-', 1)[1]) % 3 == 0:
        # the call is said to have left its data operand changed: one more entry masked (or the first value doubled)
        da = out['after']['da']
        free = [k for k in range(len(da['m'])) if not da['m'][k]]
        if free:
            da['m'][free[-1]] = True
        else:
            da['d'][0] = rat(Fraction(da['d'][0]) * 2 + 1)
        return rec
    if 'raised' in out:
        return None

    def bump(v):
        f = Fraction(v)
        return rat(f + 1 + abs(f) / 1000)
    if op in ('ll', 'll_multinom'):
        if out['v'] in ('nan', 'inf', '-inf'):
            return None
        out['v'] = bump(out['v'])
        return rec
    if op == 'theta':
        out['v'] = rat(Fraction(out['v']) * Fraction(1000001, 1000000))
        return rec
    if op == 'scale_inv':
        out['b'] = bump(out['b'])
        return rec
    if op == 'maximises':
        s, o = Fraction(out['star']), Fraction(out['other'])
        out['other'] = rat(s + 1 + (abs(s) + abs(o)) / 1000)
        return rec
    s = out['s']
    cand = [k for k in range(len(s['d'])) if not s['m'][k] and s['d'][k] not in ('nan', 'inf', '-inf') and Fraction(s['d'][k]) != 0]
    if not cand:
        return None
    k = max(cand, key=lambda j: abs(Fraction(s['d'][j])))
    f = Fraction(s['d'][k])
    if op == 'll_per_bin':
        s['d'][k] = rat(f + Fraction(1, 100) * (1 + abs(f)))
    else:
        s['d'][k] = rat(f * Fraction(1001, 1000))
    return rec


def nontrivial(r):
    i = r['in']
    mo, da = i['mo'], i['da']
    d = [Fraction(x) for x in da['d']]
    hist = i.get('hist')
    if 'seq' in i:
        return (r['op'], i.get('lvl'), tuple(i['seq']['history']), len(mo['sh']), da['f'], mo['f'])
    return (r['op'], (hist['edit']['target'], hist['edit']['kind']) if hist else None, len(mo['sh']), da['f'], mo['f'], mo['m'] != da['m'],
            any(x.denominator != 1 for x in d), any(x == 0 and not m for x, m in zip(d, da['m'])), i.get('lvl', '') not in ('', 'none'))


def run(ctx):
    if ctx.replay:
        rec = ctx.replay_payload['payload']['record']
        ctx.no_mc = True
        recs = [reexecute(rec)]
    else:
        recs = records(ctx)
    return common.pipeline(
        ctx, [('LikelihoodMC', 'LikelihoodMC_%s.cfg' % ctx.tier)], 'Trace_Likelihood', recs,
        nontrivial_of=nontrivial, mutator=mutate,
        rule='every tier draws on purpose (PAIR_CONFIGS): each dimension 1-3 x each kind of data (integer counts, projected by dadi, mixed), '
             'each folding mode (none, data only, both) with each dimension and kind, nine independent mask-mode pairs incl. equal masks and '
             'masks that differ with both corners unmasked, both parities of the total sample size, C / Fortran / strided input arrays, integer '
             'dtype data, the smallest 1-D and 2-D spectra, counts up to 1e6, model zero where the datum is zero, an unmasked zero datum; '
             'residual levels None / 0 / 0.01 / 0.5 / 2 in rotation and a hand-made pair with model and data exactly at the level; rescaling '
             'factors 1e-3 and 1e3.  Plus random pairs (30 quick, 450 thorough), and for every second pair three evaluate / edit-in-place / '
             'evaluate steps on the same objects; call sequences without edits on the same two objects (data with unmasked zeros, a 1-D pair and '
             'a 2-D pair with automatic folding; 12 more random pairs in the thorough tier): every function of the alphabet (the five likelihood / '
             'scaling functions, both residuals without and with a masking level) followed by every function of the alphabet, and random orders of '
             'the whole alphabet on one pair of objects, every call judged against the value the objects were created with; after EVERY recorded '
             'call both operands are compared with their value before it (values, mask, folded flag, labels).  '
             'Every listed Inference function per pair plus ll_multinom(c*model) and '
             'll_multinom(c\'*data) vs a competitor; distinct by (function, edit | call history, ndim, data folded, model folded, masks differ, '
             'non-integer data, unmasked zero datum, masking level given)',
        assumptions=['ln, lnGamma and roots are supplied by the recorder from the stdlib math module at arguments that TLC checks exactly '
                     '(roots are verified by exact powering, ln values by 1-1/x <= ln x <= x-1); libm is trusted to 1e-15',
                     'tolerance Tau = 1e-9 relative to the sum of the magnitudes of the likelihood terms (per entry for ll_per_bin and residuals)',
                     'non-positive model entries are outside the joint entries (dadi masks them through numpy.ma.log); '
                     'models with negative or non-finite entries and pairs without joint entries are not generated',
                     'residual masking is required where documented and unmasked where both spectra are unmasked, the model positive '
                     '(Anscombe: and the datum positive); other entries are left unconstrained'])


def reexecute(rec):
    """Replay: rebuild the real spectra from the record's inputs and call the function again."""
    import dadi
    logging.getLogger('Inference').setLevel(logging.CRITICAL)

    def dec(s):
        arr = np.array([float(Fraction(x)) if x not in ('nan', 'inf', '-inf') else float(x) for x in s['d']]).reshape(s['sh'])
        return dadi.Spectrum(arr, mask=np.array(s['m']).reshape(s['sh']), mask_corners=False, data_folded=s["f"], check_folding=False,
                             pop_ids=['+'.join(x) for x in s['ids']] if s.get('ids') else None)
    op = rec['op']
    if op in ('scale_inv', 'maximises'):
        return rec          # relational records are re-validated as recorded
    hist = rec['in'].get('hist')
    if hist:
        # the step as it happened: evaluate on the objects before the edit, edit in place, evaluate again
        model, data = dec(hist['before']['mo']), dec(hist['before']['da'])
        for o in HIST_OPS:
            call(o, model, data)
        apply_edit(data if hist['edit']['target'] == 'data' else model, hist['edit'])
        new = make_record(rec['id'], op, model, data)
        new['in']['hist'] = hist
        return new
    model, data = dec(rec['in']['mo']), dec(rec['in']['da'])
    lvl = rec['in'].get('lvl', 'none')
    lvl = None if lvl == 'none' else float(Fraction(lvl))
    seq = rec['in'].get('seq')
    if seq:
        # the sequence as it happened: the earlier calls on the same two objects, then the recorded one
        orig = (enc(model), enc(data))
        for t in seq['history']:
            o, _, l = t.partition('@')
            call(o, model, data, float(l) if l else None)
        new = make_record(rec['id'], op, model, data, lvl, orig=orig, site=rec['site'])
        new['in']['seq'] = seq
        return new
    return make_record(rec['id'], op, model, data, lvl)
