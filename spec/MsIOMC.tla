------------------------------- MODULE MsIOMC -------------------------------
(***************************************************************************)
(* Exhaustive exploration of module MsIO over all small simulator outputs. *)
(* The state holds an abstract output (of ms or of sfs_code, or the        *)
(* arguments of a command builder), the text lines the simulator prints    *)
(* for it, the reading options and what the reader returns.                *)
(*   RunMs / RunSfs     the simulator produces the output file             *)
(*   FromMsFile / FromSfscodeFile   Spectrum.from_ms_file / from_sfscode_.. *)
(*   BuildCommand       Misc.ms_command (around a *_mscore core)           *)
(* The laws are invariants of every reachable state.                       *)
(* ms outputs: <= 2 populations x <= MaxChrom chromosomes x <= MaxSites    *)
(* sites x <= 2 replicates (two replicates: <= MaxTotal2 sites in total).  *)
(***************************************************************************)
EXTENDS MsIO, TLC
CONSTANTS Kinds, Full, MaxChrom, MaxSites, MaxTotal2, SegChoices, SfsMaxList, SfsMaxTotal2

VARIABLES pc, out, opt, file, res
vars == <<pc, out, opt, file, res>>
Nothing == [ok |-> FALSE, none |-> TRUE]

\* ---------------------------------------------------------------- ms outputs
Columns(nsam) == [1..nsam -> {0, 1}]
ColSeqs(nsam, S) == [1..S -> Columns(nsam)]
\* positions of the sites of a replicate (4 decimals, sorted; break points 0, 1/2, 1 and ties occur)
PosTab(r, S) == IF r = 1 THEN <<<<"1/2">>, <<"1/4", "3/4">>, <<"0", "1/2", "1">>>>[S]
                ELSE <<<<"3/10">>, <<"1/2", "1/2">>, <<"1/10", "2/5", "9/10">>>>[S]
RepOf(r, cols) == [j \in 1..Len(cols) |-> [pos |-> PosTab(r, Len(cols))[j], al |-> cols[j]]]
\* Full = FALSE (quick tier) keeps a representative part of the -I configurations and of the option combinations
PopConfigs(nsam) == {<<>>, <<nsam>>} \cup {<<a, nsam - a>> : a \in (IF Full THEN 0..nsam ELSE {1, nsam})}
Tok_t == <<"-", "t">>
CmdFor(nsam, pops) ==
    IF Len(pops) < 2
    THEN [prog |-> W_ms, pre |-> <<Tok_t, <<"1", ".", "5">>>>, mig |-> <<>>, post |-> <<>>, seeds |-> <<"1", " ", "2", " ", "3">>,
          tbs |-> IF nsam = 2 THEN <<"\t", "0", ".", "5">> ELSE <<>>]
    ELSE [prog |-> <<".", "/", "m", "s", "d", "i", "r", "/", "m", "s">>, pre |-> <<Tok_t, <<"2">>>>,
          mig |-> IF pops[1] % 2 = 1 THEN <<<<"0", ".", "5">>>> ELSE <<>>,
          post |-> <<<<"-", "e", "j">>, <<"0", ".", "1">>, <<"2">>, <<"1">>>>, seeds |-> <<"4", "0", " ", "5", " ", "6">>, tbs |-> <<>>]
PaChoices(nsam) == {<<>>, <<nsam>>} \cup {<<a, nsam - a>> : a \in 0..nsam} \cup (IF nsam >= 2 THEN {<<1>>, <<1, nsam - 2>>} ELSE {})
OptChoices(nsam) == IF Full THEN (PaChoices(nsam) \X SegChoices) \cup ({<<>>, <<1, nsam - 1>>} \X {2})
                    ELSE (PaChoices(nsam) \X {1}) \cup ({<<>>, <<1, nsam - 1>>} \X SegChoices)
GivenIds(n) == [k \in 1..n |-> <<"x", " ", DigitSeq[k + 1]>>]

\* ---------------------------------------------------------------- sfs_code outputs
Ch(a, b, c) == <<a, b, c>>
FieldsOf(id, fixgen, cnt) ==
    <<<<"0">>, <<"A">>, IF id = 1 THEN <<"1", "4">> ELSE <<"1", "5">>, <<"4", "9", "9">>, fixgen, Ch("G", "C", "A"), <<"T">>,
      IF id = 1 THEN <<"1">> ELSE <<"0">>, <<"A">>, IF id = 1 THEN <<"V">> ELSE <<"A">>,
      IF id = 1 THEN <<"-", "0", ".", "0", "0", "1">> ELSE <<"0", ".", "0">>, IntText(cnt)>>
CarChoices(npop) == {<<>>, <<<<0, 0>>>>, <<<<0, 0>>, <<0, 1>>>>, <<<<0, -1>>>>} \cup
                    (IF npop = 2 THEN {<<<<1, 1>>>>, <<<<0, 1>>, <<1, 0>>>>, <<<<0, 0>>, <<1, -1>>>>, <<<<1, -1>>, <<0, -1>>>>} ELSE {})
Listings(npop) == {[f |-> FieldsOf(id, IF Len(car) % 2 = 0 THEN <<"0">> ELSE <<"3">>, Len(car)), car |-> car] : id \in {1, 2}, car \in CarChoices(npop)}
IterSeqs(npop, n) == [1..n -> Listings(npop)]
SfsCmdFor(npop, flagN) ==
    [prog |-> <<"s", "f", "s", "_", "c", "o", "d", "e">>, flag |-> IF flagN THEN W_dashn ELSE W_sampSize,
     pre |-> <<<<"-", "T", "E">>, <<"0">>>>, post |-> <<<<"-", "r">>, <<"0", ".", "0">>>>,
     seeds |-> <<"S", "E", "E", "D", " ", "=", " ", "-", "5">>, third |-> <<>>,
     hdr |-> <<<<"N", "c", ":", "5", "0", "0", ";">>, <<"M", "A", "L", "E", "S", ":", "1", ";">>, <<"l", "o", "c", "u", "s", ";">>, <<"A", "C", "G", "T", ";">>>>,
     split |-> IF flagN THEN 1 ELSE 2]

\* ---------------------------------------------------------------- command builder cases
CoreP == [nu1 |-> "3/2", nu2 |-> "1/2", T |-> "1/5", m |-> "1", m12 |-> "1/4", m21 |-> "3", s |-> "1/4", nuPre |-> "2", TPre |-> "3/10"]
CoreLn == [a1 |-> "7/4", a2 |-> "1/8"]
CoreToks(model) == IF model = "none" THEN <<<<"-", "e", "N">>, <<"0", ".", "1">>, <<"2">>>> ELSE Words(Render(MsCore(model, CoreP, CoreLn)))
CmdCases == [theta : {"1", "3/2", "1/40"}, ns : {<<2>>, <<3>>, <<1, 2>>, <<2, 0>>, <<1, 1, 1>>}, model : {"none", "split_mig", "IM", "IM_pre"},
             iter : {1, 2, 10}, recomb : {"0", "1/2"}, rsites : {"none", "7"}, seeds : {<<>>, <<1, 22, 333>>}]

\* ---------------------------------------------------------------- the machine
Init == /\ pc = "choose" /\ file = <<>> /\ res = Nothing /\ opt = Nothing
        /\ \/ "ms" \in Kinds /\ \E nsam \in 1..MaxChrom : \E pops \in PopConfigs(nsam) : \E S \in 0..MaxSites : \E cols \in ColSeqs(nsam, S) :
                 out = [kind |-> "ms", nsam |-> nsam, pops |-> pops, reps |-> <<RepOf(1, cols)>>, cmd |-> CmdFor(nsam, pops)]
           \/ "sfs" \in Kinds /\ \E npop \in 1..2 : \E dflt \in BOOLEAN : \E n \in 0..SfsMaxList : \E it \in IterSeqs(npop, n) :
                 /\ dflt => npop = 1
                 /\ out = [kind |-> "sfs", npop |-> npop, samp |-> IF dflt THEN <<>> ELSE [k \in 1..npop |-> 1], its |-> <<it>>,
                           cmd |-> SfsCmdFor(npop, n % 2 = 1)]
           \/ "cmd" \in Kinds /\ \E c \in CmdCases : out = [kind |-> "cmd"] @@ c
\* the simulator finishes its run (possibly a second replicate) and prints; the reading options other than
\* average / mask_corners are fixed here
RunMs == /\ pc = "choose" /\ out.kind = "ms" /\ pc' = "file"
         /\ \/ out' = out
            \/ \E S \in 0..MaxSites : \E cols \in ColSeqs(out.nsam, S) :
                  /\ Len(out.reps[1]) + S <= MaxTotal2
                  /\ out' = [out EXCEPT !.reps = Append(@, RepOf(2, cols))]
         /\ file' = MsWrite(out')
         /\ \E c \in OptChoices(out.nsam) : opt' = [avg |-> TRUE, mc |-> TRUE, pa |-> c[1], ids |-> <<>>, B |-> c[2]]
         /\ UNCHANGED res
FromMsFile == /\ pc = "file" /\ out.kind = "ms" /\ pc' = "read"
              /\ LET p == MsParse(file) IN
                 \E avg \in BOOLEAN : \E mc \in {avg} :      \* (average, mask_corners, pop_ids) = all defaults or all non-default
                    /\ opt' = [opt EXCEPT !.avg = avg, !.mc = mc, !.ids = IF mc THEN <<>> ELSE GivenIds(Len(MsGroups(out, opt.pa)))]
                    /\ res' = MsReadParsed(p, opt')
              /\ UNCHANGED <<out, file>>
RunSfs == /\ pc = "choose" /\ out.kind = "sfs" /\ pc' = "file"
          /\ \/ out' = out
             \/ \E n \in 0..SfsMaxList : \E it \in IterSeqs(out.npop, n) :
                   /\ Len(out.its[1]) + n <= SfsMaxTotal2
                   /\ out' = [out EXCEPT !.its = Append(@, it)]
          /\ file' = SfsWrite(out')
          /\ opt' = [sites |-> "all", avg |-> TRUE, mc |-> TRUE, ids |-> <<>>]
          /\ UNCHANGED res
FromSfscodeFile == /\ pc = "file" /\ out.kind = "sfs" /\ pc' = "read"
                   /\ LET p == SfsParse(file) IN
                      \E sites \in {"all", "syn", "nonsyn"} : \E avg \in BOOLEAN :
                         /\ opt' = [sites |-> sites, avg |-> avg, mc |-> (sites = "all"), ids |-> IF avg THEN <<>> ELSE GivenIds(out.npop)]
                         /\ res' = SfsReadParsed(p, opt')
                   /\ UNCHANGED <<out, file>>
CmdItems(c) == MsCommand(c.theta, c.ns, CoreToks(c.model), c.iter, c.recomb, c.rsites, c.seeds)
BuildCommand == /\ pc = "choose" /\ out.kind = "cmd" /\ pc' = "cmdline"
                /\ file' = <<Render(CmdItems(out))>>
                /\ UNCHANGED <<out, opt, res>>
Next == RunMs \/ FromMsFile \/ RunSfs \/ FromSfscodeFile \/ BuildCommand
Spec == Init /\ [][Next]_vars

TypeOK == pc \in {"choose", "file", "read", "cmdline"} /\ out.kind \in {"ms", "sfs", "cmd"}

\* ---------------------------------------------------------------- laws: ms
IsMs(p)  == out.kind = "ms" /\ pc = p
Content  == [nsam |-> out.nsam, pops |-> out.pops, reps |-> out.reps]
NSites   == ISumSeq([r \in 1..Len(out.reps) |-> Len(out.reps[r])])
SumAll(specs) == RSum([b \in 1..Len(specs) |-> RSum(specs[b].d)])
SwapAt(q, j) == [q EXCEPT ![j] = q[j + 1], ![j + 1] = q[j]]
\* the file ms prints is read back to exactly the content, the command and the seeds
L_MsRoundTrip == IsMs("file") =>
    LET p == MsParse(file) IN p.ok /\ p.out = Content /\ p.command = file[1] /\ p.seeds = file[2]
\* the file has the documented line structure
L_MsLines == IsMs("file") =>
    /\ Len(file) = 2 + ISumSeq([r \in 1..Len(out.reps) |-> IF out.reps[r] = <<>> THEN 4 ELSE 4 + out.nsam])
    /\ Cardinality({j \in 1..Len(file) : StartsWith(file[j], W_slashes)}) = Len(out.reps)
    /\ Cardinality({j \in 1..Len(file) : StartsWith(file[j], W_positions)}) = Cardinality({r \in 1..Len(out.reps) : out.reps[r] # <<>>})
\* the result: one spectrum per segment, unfolded, shape = group sizes + 1, corners masked on demand, labels given or pop0, pop1, ..
L_MsShape == IsMs("read") =>
    LET g == MsGroups(out, opt.pa) IN
    /\ res.ok /\ Len(res.specs) = opt.B
    /\ \A b \in 1..opt.B : LET s == res.specs[b] IN
          /\ s.sh = [k \in 1..Len(g) |-> g[k] + 1] /\ ~s.f /\ Len(s.d) = SizeOf(s.sh) /\ Len(s.m) = SizeOf(s.sh)
          /\ \A k \in 1..SizeOf(s.sh) : s.m[k] = (opt.mc /\ (k = 1 \/ k = SizeOf(s.sh)))
          /\ s.ids = (IF opt.mc THEN [k \in 1..Len(g) |-> W_pop \o <<DigitSeq[k]>>] ELSE GivenIds(Len(g)))
\* total = number of segregating sites, per replicate when averaging
L_MsTotal == IsMs("read") => SumAll(res.specs) = (IF opt.avg THEN RDiv(RInt(NSites), RInt(Len(out.reps))) ELSE RInt(NSites))
\* average = sum / NREPS
L_MsAverage == (IsMs("read") /\ opt.avg) =>
    LET t == SpectrumOfMs(Content, [opt EXCEPT !.avg = FALSE]) IN
    \A b \in 1..opt.B : \A k \in 1..Len(t[b].d) : RMul(res.specs[b].d[k], RInt(Len(out.reps))) = t[b].d[k]
\* permuting the sites of a replicate (with their positions; for one segment also the columns under fixed positions)
L_MsPermSites == IsMs("read") => \A r \in 1..Len(out.reps) : \A j \in 1..(Len(out.reps[r]) - 1) :
    /\ SpectrumOfMs([Content EXCEPT !.reps[r] = SwapAt(@, j)], opt) = res.specs
    /\ opt.B = 1 => SpectrumOfMs([Content EXCEPT !.reps[r][j].al = out.reps[r][j + 1].al, !.reps[r][j + 1].al = out.reps[r][j].al], opt) = res.specs
\* permuting the replicates
L_MsPermReps == (IsMs("read") /\ Len(out.reps) = 2) => SpectrumOfMs([Content EXCEPT !.reps = <<out.reps[2], out.reps[1]>>], opt) = res.specs
\* permuting chromosomes inside one group
L_MsPermChroms == IsMs("read") =>
    LET g == MsGroups(out, opt.pa) IN
    \A k \in 1..Len(g) : \A c \in GroupLo(g, k)..(GroupHi(g, k) - 1) :
        SpectrumOfMs([Content EXCEPT !.reps = [r \in 1..Len(out.reps) |-> [j \in 1..Len(out.reps[r]) |->
                                                   [out.reps[r][j] EXCEPT !.al = SwapAt(@, c)]]]], opt) = res.specs
\* pop_assignments regroups the columns: same as an output whose -I says so; without it the -I configuration is used
L_MsRegroup == IsMs("read") =>
    /\ (opt.pa # <<>> /\ ISumSeq(opt.pa) = out.nsam) => SpectrumOfMs([Content EXCEPT !.pops = opt.pa], [opt EXCEPT !.pa = <<>>]) = res.specs
    /\ opt.pa = <<>> => SpectrumOfMs(Content, [opt EXCEPT !.pa = MsGroups(out, <<>>)]) = res.specs
    /\ (opt.pa # <<>> /\ ISumSeq(opt.pa) < out.nsam) =>      \* chromosomes beyond the assignments do not count
          SpectrumOfMs([Content EXCEPT !.reps = [r \in 1..Len(out.reps) |-> [j \in 1..Len(out.reps[r]) |->
                            [out.reps[r][j] EXCEPT !.al = [c \in 1..out.nsam |-> IF c > ISumSeq(opt.pa) THEN 1 - @[c] ELSE @[c]]]]]], opt) = res.specs
\* merging two groups: the one-population spectrum is the anti-diagonal sum of the two-population one
L_MsCollapse == IsMs("read") =>
    LET g == MsGroups(out, opt.pa) IN
    Len(g) = 2 =>
        LET one == SpectrumOfMs(Content, [opt EXCEPT !.pa = <<g[1] + g[2]>>]) sh == ShapeOf(g) IN
        \A b \in 1..opt.B : \A t \in 0..(g[1] + g[2]) :
            one[b].d[t + 1] = RSum([ij \in {ij \in (0..g[1]) \X (0..g[2]) : ij[1] + ij[2] = t} |-> res.specs[b].d[FlatIndex(sh, ij)]])
\* segments: every count lies between the sites surely and the sites possibly in the segment; the segments add up
\* to the one-segment reading
L_MsSegments == IsMs("read") =>
    LET whole == SpectrumOfMs(Content, [opt EXCEPT !.B = 1])[1].d IN
    /\ \A k \in 1..Len(whole) : RSum([b \in 1..opt.B |-> res.specs[b].d[k]]) = whole[k]
    /\ \A b \in 1..opt.B :
          LET lo == SegCounts(Content, opt, b, SegSure) hi == SegCounts(Content, opt, b, SegMaybe) d == res.specs[b].d IN
          \A k \in 1..Len(whole) : /\ RLeq(Scale(lo[k], Len(out.reps), opt.avg), d[k])
                                    /\ RLeq(d[k], Scale(hi[k], Len(out.reps), opt.avg))

\* ---------------------------------------------------------------- laws: sfs_code
IsSfs(p) == out.kind = "sfs" /\ pc = p
SContent == [npop |-> out.npop, samp |-> out.samp, its |-> out.its]
L_SfsRoundTrip == IsSfs("file") =>
    LET p == SfsParse(file) IN p.ok /\ p.c = SContent /\ p.command = file[1] /\ p.seeds = file[2]
L_SfsShape == IsSfs("read") =>
    LET s == res.spec IN
    /\ res.ok /\ s.sh = [k \in 1..out.npop |-> IF out.samp = <<>> THEN 13 ELSE 2 * out.samp[k] + 1] /\ ~s.f
    /\ \A k \in 1..SizeOf(s.sh) : s.m[k] = (opt.mc /\ (k = 1 \/ k = SizeOf(s.sh)))
    /\ s.ids = (IF opt.avg THEN [k \in 1..out.npop |-> W_pop \o <<DigitSeq[k]>>] ELSE GivenIds(out.npop))
\* total = number of distinct mutations of the kind asked for, per iteration when averaging
L_SfsTotal == IsSfs("read") =>
    LET n == ISumSeq([r \in 1..Len(out.its) |-> Cardinality({SfsMutId(out.its[r][j]) : j \in {j \in 1..Len(out.its[r]) : SfsKeep(out.its[r][j], opt.sites)}})])
    IN RSum(res.spec.d) = Scale(n, Len(out.its), opt.avg)
\* all = synonymous + non-synonymous
L_SfsSplit == (IsSfs("read") /\ opt.sites = "all") =>
    LET a == SpectrumOfSfs(SContent, [opt EXCEPT !.sites = "syn"]) b == SpectrumOfSfs(SContent, [opt EXCEPT !.sites = "nonsyn"]) IN
    \A k \in 1..Len(res.spec.d) : res.spec.d[k] = RAdd(a.d[k], b.d[k])
\* order of listings and of iterations is irrelevant
L_SfsPerm == IsSfs("read") =>
    /\ \A r \in 1..Len(out.its) : \A j \in 1..(Len(out.its[r]) - 1) : SpectrumOfSfs([SContent EXCEPT !.its[r] = SwapAt(@, j)], opt) = res.spec
    /\ Len(out.its) = 2 => SpectrumOfSfs([SContent EXCEPT !.its = <<out.its[2], out.its[1]>>], opt) = res.spec
\* a mutation listed once with carriers in two populations = listed twice, once per population
L_SfsMerge == IsSfs("read") => \A r \in 1..Len(out.its) : \A j \in 1..Len(out.its[r]) :
    LET l  == out.its[r][j]
        p0 == SelectSeq(l.car, LAMBDA e : e[1] = 0)
        p1 == SelectSeq(l.car, LAMBDA e : e[1] # 0)
        others == {SfsMutId(out.its[r][q]) : q \in (1..Len(out.its[r])) \ {j}}
    IN  (p0 # <<>> /\ p1 # <<>> /\ SfsMutId(l) \notin others) =>
            SpectrumOfSfs([SContent EXCEPT !.its[r] = SubSeq(@, 1, j - 1) \o <<[l EXCEPT !.car = p0, !.f[5] = <<"7">>], [l EXCEPT !.car = p1, !.f[12] = <<"9">>]>> \o SubSeq(@, j + 1, Len(@))],
                          opt) = res.spec

\* "fixed in a population" (POP.-1) = carried by every sampled chromosome of that population
L_SfsFixed == IsSfs("read") =>
    LET n == SfsSamples(SContent)
        expand(l) == [l EXCEPT !.car = Cat([j \in 1..Len(l.car) |-> IF l.car[j][2] = -1 THEN [c \in 1..n[l.car[j][1] + 1] |-> <<l.car[j][1], c - 1>>]
                                                                                        ELSE <<l.car[j]>>])]
    IN  SpectrumOfSfs([SContent EXCEPT !.its = [r \in 1..Len(out.its) |-> [j \in 1..Len(out.its[r]) |-> expand(out.its[r][j])]]], opt) = res.spec
\* ---------------------------------------------------------------- laws: command builders
\* the command ms_command builds is headed as the reader expects: NSAM = sum of ns, NREPS = iter, -I gives ns back
L_Command == (out.kind = "cmd" /\ pc = "cmdline") =>
    LET c == MsParseCmd(file[1]) toks == Words(file[1]) core == CoreToks(out.model) IN
    /\ c.ok /\ c.nsam = ISumSeq(out.ns) /\ c.nreps = out.iter /\ c.pops = (IF Len(out.ns) > 1 THEN out.ns ELSE <<>>)
    /\ TokensOK(MsCommand(out.theta, out.ns, core, out.iter, out.recomb, out.rsites, out.seeds), toks, "1/2000000", "0")
    /\ toks[4] = Tok_t /\ IsDecText(toks[5]) /\ RLeq(RAbs(RSub(DecValue(toks[5]), out.theta)), "1/2000000")
    /\ \A j \in 1..Len(core) : toks[5 + (IF Len(out.ns) > 1 THEN 2 + Len(out.ns) ELSE 0) + j] = core[j]
    /\ (out.recomb = "0") = (\A j \in 1..Len(toks) : toks[j] # <<"-", "r">>)
    /\ (out.seeds = <<>>) = (\A j \in 1..Len(toks) : toks[j] # <<"-", "s", "e", "e", "d", "s">>)
\* every placeholder of a core is a decimal number: no "%", "(" or ")" is left
L_Core == (out.kind = "cmd" /\ pc = "cmdline" /\ out.model # "none") =>
    LET t == CoreToks(out.model) IN
    /\ TokensOK(MsCore(out.model, CoreP, CoreLn), t, "1/2000000", "0")
    /\ \A j \in 1..Len(t) : \A q \in 1..Len(t[j]) : t[j][q] \notin {"%", "(", ")"}
    /\ Len(t) = (CASE out.model = "split_mig" -> 19 [] out.model = "IM" -> 27 [] OTHER -> 31)

\* ---------------------------------------------------------------- self tests of the text helpers
ASSUME Words(<<" ", "a", "b", "\t", " ", "c">>) = <<<<"a", "b">>, <<"c">>>>
ASSUME Pieces(<<"a", ";", ";", "b">>, ";") = <<<<"a">>, <<>>, <<"b">>>>
ASSUME IsDecText(<<"-", "0", ".", "2", "5">>) /\ DecValue(<<"-", "0", ".", "2", "5">>) = "-1/4" /\ DecValue(<<"1", "2">>) = "12"
ASSUME ~IsDecText(<<"1", "e", "5">>) /\ ~IsDecText(<<".">>) /\ ~IsDecText(<<>>) /\ IsDecText(<<"3", ".">>)
ASSUME FixedText("1/4", 4) = <<"0", ".", "2", "5", "0", "0">> /\ FixedText("1", 4) = <<"1", ".", "0", "0", "0", "0">>
ASSUME FixedText("1234567/1000", 6) = <<"1", "2", "3", "4", ".", "5", "6", "7", "0", "0", "0">>
ASSUME FlatIndex(<<3, 4>>, <<2, 1>>) = 10 /\ FlatIndex(<<5>>, <<0>>) = 1
ASSUME SiteIndex(<<2, 3>>, <<1, 0, 1, 1, 0>>) = <<1, 2>> /\ SiteIndex(<<1, 2>>, <<1, 0, 1, 1, 0>>) = <<1, 1>>
ASSUME MsParseCmd(<<"m", "s", " ", "5", " ", "2", " ", "-", "I", " ", "2", " ", "2", " ", "3">>) = [ok |-> TRUE, nsam |-> 5, nreps |-> 2, pops |-> <<2, 3>>]
ASSUME ~MsParseCmd(<<"s", "c", "r", "m", " ", "5", " ", "2">>).ok
ASSUME SegRef("1/2", 2, 2) /\ ~SegRef("1/2", 2, 1) /\ SegMaybe("1/2", 2, 1) /\ ~SegSure("1/2", 2, 2) /\ SegSure("1", 2, 2) /\ SegSure("0", 3, 1)
=============================================================================
