\* C20 exhaustive model: every call of the full alphabet in every memory layout (1 call)
CONSTANTS
  MaxDepth = 1
  BaseSel = "all"
  LaySel = "all"
  ProjKeyMode = "full"
  DbetaKeyMode = "full"
  PartKeyMode = "full"
  EntryMode = "copy_all"
  XXMode = "contig"
  GodMode = "object"
  DemesMode = "pure"
  PerturbMode = "pure"
  HashMode = "ordered"
  SFSMode = "copies"
  VectorMode = "copies"
  MaskMode = "setter"
  KernelMode = "stateless"
  MaxTable = 60
SPECIFICATION Spec
CHECK_DEADLOCK FALSE
CONSTRAINT TableBound
VIEW MCView
INVARIANT TypeOK
INVARIANT AlphabetOK
INVARIANT TablesSound
INVARIANT ResultIndependentOfHistory
INVARIANT ResultIndependentOfHashSeed
INVARIANT LayoutIndependent
INVARIANT ArgumentsUnchanged
INVARIANT ResultIsFresh
