CONSTANT TauLin = "1/10000000000"
SPECIFICATION Spec
CHECK_DEADLOCK FALSE
INVARIANT Done
POSTCONDITION AllConsumed
