---------------------------- MODULE Trace_Scheme ----------------------------
(***************************************************************************)
(* Trace validation of single integration steps (C02): every record is one *)
(* call of a compiled per-axis kernel, a precomputed-coefficient kernel,   *)
(* the tridiagonal solver, or the coefficient arrays built by a constant-  *)
(* parameter driver, judged against module Scheme.                         *)
(***************************************************************************)
EXTENDS Scheme, TLC, Json, IOUtils
CONSTANTS TauSolve,   \* backward-error tolerance of a line solve, e.g. "1/100000000000"
          TauLin      \* relative tolerance for float-evaluated coefficient arrays

Trace == JsonDeserialize(IOEnv.TRACE_FILE)
VARIABLE i
F(name, ok) == IF ok THEN {} ELSE {name}
AllNum(q) == \A j \in 1..Len(q) : IsNum(q[j])

\* one grid line of a kernel record
LineOK(r, ix, tau) ==
    LET k   == r.in.k
        g   == r.in.grids[k]
        N   == Len(g)
        p   == r.in.par
        oth == Others(r.in.grids, ix)
        c0  == AllOthers(r.in.grids, k, ix, "0")
        c1  == AllOthers(r.in.grids, k, ix, "1")
        lineNo == (Flat(r.in.phi.sh, ix) - 1)       \* used only to index the supplied delj table
        delj == IF r.in.delj THEN r.in.deljtab[ToString(lineNo)] ELSE HalfDelj(g)
        sys == LineABC(g, k, oth, p, delj, c0, c1)
        phi == r.in.phi
        y   == [v \in 1..N |-> r.out.d[Flat(phi.sh, WithAxis(ix, k, v - 1))]]
        rhs == [v \in 1..N |-> RDiv(phi.d[Flat(phi.sh, WithAxis(ix, k, v - 1))], r.in.dt)]
        invdt == RDiv("1", r.in.dt)
        slack(v) == RAdd(AdvResidualSlack(r.in.grids, k, ix, p, y, v), IF ~r.in.delj THEN "0" ELSE DeljResidualSlack(r.in.grids, k, ix, p, y, v))
    IN  /\ AllNum(y)
        /\ \A v \in 1..N : RLeq(RAbs(RSub(rhs[v], RowApply(sys, invdt, y, v))),
                                RAdd(RMul(tau, RowScale(sys, invdt, y, rhs, v)), slack(v)))

FKernel(r) ==
    LET sh == r.in.phi.sh k == r.in.k IN
    F("OutShape", Len(r.out.d) = Size(sh)) \cup
    (IF Len(r.out.d) = Size(sh)
     THEN F("SolvesScheme", \A ix \in LineIxs(sh, k) : LineOK(r, ix, TauSolve))
     ELSE {})

\* precomputed-coefficient kernel: arrays a,b,c (b without 1/dt) are part of the input
FPrecalc(r) ==
    LET sh == r.in.phi.sh k == r.in.k N == sh[k] invdt == RDiv("1", r.in.dt)
        lineOK(ix) ==
            LET at(v) == Flat(sh, WithAxis(ix, k, v - 1))
                sys == [a |-> [v \in 1..N |-> r.in.a[at(v)]], b |-> [v \in 1..N |-> r.in.b[at(v)]], c |-> [v \in 1..N |-> r.in.c[at(v)]]]
                y   == [v \in 1..N |-> r.out.d[at(v)]]
                rhs == [v \in 1..N |-> RDiv(r.in.phi.d[at(v)], r.in.dt)]
            IN AllNum(y) /\ IsSolution(sys, invdt, y, rhs, TauSolve)
    IN  F("OutShape", Len(r.out.d) = Size(sh)) \cup
        (IF Len(r.out.d) = Size(sh) THEN F("SolvesGivenSystem", \A ix \in LineIxs(sh, k) : lineOK(ix)) ELSE {})

FTridiag(r) ==
    LET N == Len(r.in.b)
        sys == [a |-> r.in.a, b |-> r.in.b, c |-> r.in.c]
    IN  F("OutLen", Len(r.out.u) = N) \cup
        (IF Len(r.out.u) = N THEN F("SolvesTridiagonal", AllNum(r.out.u) /\ IsSolution(sys, "0", r.out.u, r.in.r, TauSolve)) ELSE {})

\* coefficient arrays handed by a constant-parameter driver to a precalc kernel
FCoeffs(r) ==
    LET sh == r.in.sh k == r.in.k g == r.in.grids[k] N == Len(g)
        lineOK(ix) ==
            LET sys == SysOf(r.in.grids, k, ix, r.in.par)
                at(v) == Flat(sh, WithAxis(ix, k, v - 1))
                sc(v) == RAdd(RAdd(RAbs(sys.a[v]), RAbs(sys.b[v])), RAbs(sys.c[v]))
            IN \A v \in 1..N : /\ RCloseRel(r.out.a[at(v)], sys.a[v], "0", RMul(TauLin, sc(v)))
                               /\ RCloseRel(r.out.b[at(v)], sys.b[v], "0", RMul(TauLin, sc(v)))
                               /\ RCloseRel(r.out.c[at(v)], sys.c[v], "0", RMul(TauLin, sc(v)))
    IN  F("CoefficientsMatchScheme", \A ix \in LineIxs(sh, k) : lineOK(ix))

Failed(r) ==
    CASE r.op = "kernel"  -> FKernel(r)
      [] r.op = "precalc" -> FPrecalc(r)
      [] r.op = "tridiag" -> FTridiag(r)
      [] r.op = "coeffs"  -> FCoeffs(r)
      [] OTHER            -> {"UnknownOp"}

Init == i = 0
Next == /\ i < Len(Trace)
        /\ i' = i + 1
        /\ LET r == Trace[i + 1] f == Failed(r) IN IF f = {} THEN TRUE ELSE PrintT(<<"BAD", r.id, f>>)
Spec == Init /\ [][Next]_i
Done == (i = Len(Trace)) => PrintT(<<"DONE", i>>)
AllConsumed == TLCGet("stats").diameter - 1 = Len(Trace)
=============================================================================
