---------------------------- MODULE SamplingMC ----------------------------
(***************************************************************************)
(* Exhaustive exploration for property C05.  The state is a density phi on *)
(* a product of grids together with the sample sizes to draw; the actions  *)
(* integrate a population out of phi (trapezoid rule) -- the operation     *)
(* that the sampling laws have to commute with.  The laws are invariants,  *)
(* evaluated in every reachable state.  All laws are linear in phi, so     *)
(* unit densities plus one generic (prime) density decide them for every   *)
(* density on the grids.                                                   *)
(***************************************************************************)
EXTENDS Sampling, TLC
CONSTANTS Cases       \* set of <<grids, set of sample-size vectors>>

G2  == <<"0", "1">>
G3a == <<"0", "1/2", "1">>
G3b == <<"0", "1/3", "1">>
G4a == <<"0", "1/4", "2/3", "1">>
G4b == <<"0", "1/8", "1/2", "1">>
G3i == <<"1/8", "1/2", "7/8">>        \* a grid that does not reach the end points
G4u == <<"0", "1/3", "2/3", "1">>

NsBox(P, hi) == [1..P -> 1..hi]
CasesQuick ==
    {<<<<g>>, NsBox(1, 4)>> : g \in {G2, G3a, G3b, G4a, G3i}}
    \cup {<<<<g, h>>, NsBox(2, 2)>> : g \in {G3b, G4a}, h \in {G2, G3i}}
    \cup {<<<<G3b, G3b>>, {<<3, 1>>, <<2, 3>>}>>, <<<<G2, G3a, G3b>>, {<<1, 1, 1>>, <<2, 1, 2>>}>>}
CasesThorough ==
    {<<<<g>>, NsBox(1, 4)>> : g \in {G2, G3a, G3b, G4a, G4b, G3i, G4u}}
    \cup {<<<<g, h>>, NsBox(2, 3)>> : g \in {G3b, G4a, G3i}, h \in {G2, G3b, G4b}}
    \cup {<<<<g, h, k>>, NsBox(3, 2)>> : g \in {G2, G3b}, h \in {G3a, G3i}, k \in {G3b}}

VARIABLES phi, grids, ns, stage
vars == <<phi, grids, ns, stage>>

Primes == <<"2", "3", "5", "7", "11", "13", "17", "19", "23", "29", "31", "37", "41", "43", "47", "53", "59", "61", "67", "71",
            "73", "79", "83", "89", "97", "101", "103", "107", "109", "113", "127", "131", "137", "139", "149", "151",
            "157", "163", "167", "173", "179", "181", "191", "193", "197", "199", "211", "223", "227", "229", "233",
            "239", "241", "251", "257", "263", "269", "271", "277", "281", "283", "293", "307", "311">>
PhiChoices(sh) == {[sh |-> sh, d |-> [k \in 1..GSize(sh) |-> IF k = u THEN "1" ELSE "0"]] : u \in 1..GSize(sh)}
                  \cup {[sh |-> sh, d |-> [k \in 1..GSize(sh) |-> Primes[k]]]}
\* a second density for the linearity laws
Other(sh) == [sh |-> sh, d |-> [k \in 1..GSize(sh) |-> Primes[GSize(sh) + 1 - k]]]

\* initial states fix the grids; the first step chooses density and sample sizes (so that the
\* workers share the evaluation of the laws)
Init == /\ stage = "grids"
        /\ \E c \in Cases : grids = c[1] /\ ns \in c[2]
        /\ phi = [sh |-> GShapeOf(grids), d |-> [k \in 1..GSize(GShapeOf(grids)) |-> "0"]]
Choose == /\ stage = "grids" /\ stage' = "phi"
          /\ phi' \in PhiChoices(phi.sh)
          /\ UNCHANGED <<grids, ns>>
\* integrate population a out of the density
MargPhi == /\ stage = "phi" /\ Len(ns) >= 2
           /\ \E a \in 1..Len(ns) :
                 /\ phi' = LET t == TrapzAxis(phi, a, grids[a]) IN [sh |-> t.sh, d |-> [k \in 1..Len(t.d) |-> t.d[k]]]
                 /\ grids' = GRemoveAt(grids, a) /\ ns' = GRemoveAt(ns, a)
           /\ UNCHANGED stage
Next == Choose \/ MargPhi
Spec == Init /\ [][Next]_vars

P == Len(ns)
Axes == 1..P
Live == stage = "phi"
TypeOK == /\ \A a \in 1..Len(grids) : IsGrid(grids[a])
          /\ IsTensorOn(phi, grids) /\ Len(ns) = Len(grids)
SameD(s, t) == s.sh = t.sh /\ \A k \in 1..Size(s.sh) : s.d[k] = t.d[k]
Mass == TrapzAll(phi, grids)
Smaller == {ms \in [Axes -> 1..4] : \A a \in Axes : ms[a] <= ns[a]}
LinS(c1, s1, c2, s2) == [sh |-> s1.sh, d |-> [k \in 1..Size(s1.sh) |-> RAdd(RMul(c1, s1.d[k]), RMul(c2, s2.d[k]))]]

\* ---------------- one dimension: the hat weights ----------------
\* total over the sample = the trapezoid weight of the grid point
L_HatMass == Live => \A a \in Axes : \A j \in 1..Len(grids[a]) :
                 RSum([i \in 0..ns[a] |-> HatWeight(ns[a], i, grids[a], j)]) = W(grids[a], j)
\* sampling n then projecting to m = sampling m
L_HatProject == Live => \A a \in Axes : \A mm \in 1..ns[a] : \A j \in 1..Len(grids[a]) : \A k \in 0..mm :
                 RSum([h \in 0..ns[a] |-> IF HypSupport(ns[a], mm, h, k)
                                           THEN RMul(HatWeight(ns[a], h, grids[a], j), Hyp(ns[a], mm, h, k)) ELSE "0"])
                   = HatWeight(mm, k, grids[a], j)
\* Sum_j f[j] HatWeight(.,.,g,j) is the integral of binomial * interpolant, computed interval by interval
\* from the linear piece f[j] + s (x - g[j])
L_HatIsInterpolant == Live => \A a \in Axes : \A i \in 0..ns[a] :
                 LET g == grids[a] f == [j \in 1..Len(g) |-> Primes[j + 3]]
                     piece(j) == LET s == RDiv(RSub(f[j + 1], f[j]), Dx(g, j)) IN
                                 BinLinInt(ns[a], i, g[j], g[j + 1], RSub(f[j], RMul(s, g[j])), s)
                 IN  RSum([j \in 1..Len(g) |-> RMul(f[j], HatWeight(ns[a], i, g, j))]) = RSum([j \in 1..(Len(g) - 1) |-> piece(j)])
\* the hat functions interpolate: a partition of unity on the grid's span, Interp reproduces grid values and is linear between
L_HatPartition == Live => \A a \in Axes : LET g == grids[a] f == [j \in 1..Len(g) |-> Primes[j]] IN
                 /\ \A j \in 1..Len(g) : Interp(g, f, g[j]) = f[j]
                 /\ \A j \in 1..(Len(g) - 1) : /\ Interp(g, f, Mid(g, j)) = RHalf(RAdd(f[j], f[j + 1]))
                                               /\ RSum([q \in 1..Len(g) |-> Hat(g, q, Mid(g, j))]) = "1"
                 /\ RSum(WSeq(g)) = RSub(g[Len(g)], g[1])
\* ---------------- Analytic ----------------
L_AnalyticSeparable == Live => SameD(Analytic(phi, ns, grids), AnalyticDef(phi, ns, grids))
L_AnalyticMass      == Live => Total(Analytic(phi, ns, grids)) = Mass
L_AnalyticProject   == Live => \A ms \in Smaller : SameD(Project(Analytic(phi, ns, grids), ms), Analytic(phi, ms, grids))
L_AnalyticMarg      == (Live /\ P >= 2) => \A a \in Axes :
                          SameD(SumAxis(Analytic(phi, ns, grids), a),
                                Analytic(TrapzAxis(phi, a, grids[a]), GRemoveAt(ns, a), GRemoveAt(grids, a)))
L_AnalyticLinear    == Live => SameD(Analytic(GLin("2/3", phi, "5/7", Other(phi.sh)), ns, grids),
                                     LinS("2/3", Analytic(phi, ns, grids), "5/7", Analytic(Other(phi.sh), ns, grids)))
\* ---------------- Direct ----------------
HetOpt(a) == [admix |-> <<>>, het |-> a]
AdmOpt(A) == [admix |-> A, het |-> 0]
\* a row-stochastic admixture matrix for P populations
Mix(PP) == [d \in 1..PP |-> [k \in 1..PP |-> IF PP = 1 THEN "1"
                                              ELSE IF k = d THEN "2/3" ELSE IF k = (d % PP) + 1 THEN "1/3" ELSE "0"]]
L_DirectSeparable == Live => /\ SameD(Direct(phi, ns, grids, NoOpt), DirectDef(phi, ns, grids, NoOpt))
                             /\ \A a \in Axes : SameD(Direct(phi, ns, grids, HetOpt(a)), DirectDef(phi, ns, grids, HetOpt(a)))
                             /\ SameD(Direct(phi, ns, grids, AdmOpt(Mix(P))), DirectDef(phi, ns, grids, AdmOpt(Mix(P))))
L_DirectIdentityAdmix == Live => /\ SameD(DirectDef(phi, ns, grids, AdmOpt(IdentityAdmix(P))), DirectDef(phi, ns, grids, NoOpt))
                                 /\ SameD(Direct(phi, ns, grids, AdmOpt(IdentityAdmix(P))), Direct(phi, ns, grids, NoOpt))
L_DirectMass    == Live => /\ Total(Direct(phi, ns, grids, NoOpt)) = Mass
                           /\ RowStochastic(Mix(P)) /\ Total(Direct(phi, ns, grids, AdmOpt(Mix(P)))) = Mass
L_DirectProject == Live => \A ms \in Smaller :
                           /\ SameD(Project(Direct(phi, ns, grids, NoOpt), ms), Direct(phi, ms, grids, NoOpt))
                           /\ SameD(Project(Direct(phi, ns, grids, AdmOpt(Mix(P))), ms), Direct(phi, ms, grids, AdmOpt(Mix(P))))
L_DirectMarg    == (Live /\ P >= 2) => \A a \in Axes :
                          SameD(SumAxis(Direct(phi, ns, grids, NoOpt), a),
                                Direct(TrapzAxis(phi, a, grids[a]), GRemoveAt(ns, a), GRemoveAt(grids, a), NoOpt))
L_DirectLinear  == Live => \A o \in {NoOpt, AdmOpt(Mix(P)), HetOpt(1)} :
                           SameD(Direct(GLin("2/3", phi, "5/7", Other(phi.sh)), ns, grids, o),
                                 LinS("2/3", Direct(phi, ns, grids, o), "5/7", Direct(Other(phi.sh), ns, grids, o)))
\* ---------------- sampling probabilities are distributions ----------------
FsMC == {"1/10", "1/2", "9/10"}
L_ProbSum == Live => \A a \in Axes : \A j \in 1..Len(grids[a]) : LET x == grids[a][j] IN
                 /\ RSum([i \in 0..ns[a] |-> BinomP(ns[a], i, x)]) = "1"
                 /\ \A F \in FsMC : \A p \in 2..4 :
                       LET q == InbredPMF(x, F, p, ns[a]) IN
                       /\ Len(q) = p * ns[a] + 1 /\ RSum(q) = "1" /\ \A k \in 1..Len(q) : RNonNeg(q[k])
                       \* mean allele frequency is x whatever F
                       /\ RSum([k \in 1..Len(q) |-> RMul(RInt(k - 1), q[k])]) = RMul(RInt(p * ns[a]), x)
L_AdmixProbSum == Live => \A k \in 1..GSize(phi.sh) : \A a \in Axes :
                 LET x == AdmixFreq(Mix(P), a, grids, GUnflat(phi.sh, k)) IN
                 /\ RLeq("0", x) /\ RLeq(x, "1")
                 /\ RSum([i \in 0..ns[a] |-> BinomP(ns[a], i, x)]) = "1"
\* ---------------- Inbreeding ----------------
Twice == [a \in Axes |-> 2 * ns[a]]
AllF(F) == [a \in Axes |-> F]
AllP(p) == [a \in Axes |-> p]
InbDist(F) == MaxDiff(Inbreeding(phi, Twice, grids, AllF(F), AllP(2), 0), Direct(phi, Twice, grids, NoOpt))
\* total-variation bound from the urn coupling: n (p-1) F / (1-F) per population, 1/(1-F) <= 10/9
InbBound(F) == RMul(RMul("10/9", RInt(ISum(Twice))), RMul(F, Mass))
\* some mass sits at a grid point with a polymorphic frequency
HasInterior == \E k \in 1..GSize(phi.sh) : /\ RPos(phi.d[k])
                   /\ \E a \in Axes : LET x == grids[a][GUnflat(phi.sh, k)[a]] IN RPos(x) /\ RLt(x, "1")
L_InbreedingMass  == (Live /\ P <= 2) => \A F \in FsMC :
                        /\ Total(Inbreeding(phi, Twice, grids, AllF(F), AllP(2), 0)) = Mass
                        /\ Total(Inbreeding(phi, [a \in Axes |-> 3 * ns[a]], grids, AllF(F), AllP(3), 0)) = Mass
L_InbreedingZero  == (Live /\ P <= 2) => SameD(Inbreeding(phi, Twice, grids, AllF("0"), AllP(2), 0), Direct(phi, Twice, grids, NoOpt))
L_InbreedingLimit == (Live /\ P <= 2) =>
                        /\ \A F \in {"1/10", "1/100", "1/1000"} : RLeq(InbDist(F), InbBound(F))
                        /\ RLeq(InbDist("1/100"), InbDist("1/10")) /\ RLeq(InbDist("1/1000"), InbDist("1/100"))
                        /\ HasInterior => RPos(InbDist("1/1000"))      \* the limit is approached, not attained
L_InbreedingLinear == (Live /\ P <= 2) =>
                        SameD(Inbreeding(GLin("2/3", phi, "5/7", Other(phi.sh)), Twice, grids, AllF("1/3"), AllP(2), 1),
                              LinS("2/3", Inbreeding(phi, Twice, grids, AllF("1/3"), AllP(2), 1),
                                   "5/7", Inbreeding(Other(phi.sh), Twice, grids, AllF("1/3"), AllP(2), 1)))
\* BetaBinomConvolution is the distribution of a sum of independent beta-binomials
L_BetaBinomConv == Live => \A al \in {"1/3", "5/2"} : \A be \in {"1/7", "4"} : \A p \in 2..3 :
                        RSum([i \in 0..(p * ns[1]) |-> BetaBinomConv(i, ns[1], al, be, p)]) = "1"

\* ---------------- dispatch ----------------
ASSUME /\ \A PP \in 1..5 : Dispatch(PP, FALSE, 0, FALSE) = "analytic" /\ Dispatch(PP, FALSE, 0, TRUE) = "direct"
       /\ \A PP \in 2..5 : \A fo \in BOOLEAN : Dispatch(PP, TRUE, 0, fo) = "admix" /\ Dispatch(PP, TRUE, 1, fo) = "refuse"
       /\ \A PP \in 1..5 : \A h \in 1..PP : \A fo \in BOOLEAN : Dispatch(PP, FALSE, h, fo) = "direct"

\* ---------------- Java overrides agree with the TLA+ definitions ----------------
Pts == {"0", "1/8", "1/3", "1/2", "5/7", "1", "-1/1000", "1001/1000"}
RECURSIVE Fact(_)
Fact(k) == IF k = 0 THEN "1" ELSE RMul(RInt(k), Fact(k - 1))
OverrideSelfTest ==
    /\ \A a \in 0..5 : \A b \in 0..5 : \A lo \in Pts : \A hi \in Pts : IntMono(a, b, lo, hi) = IntMonoDef(a, b, lo, hi)
    \* Euler's beta integral, and additivity over adjacent intervals
    /\ \A a \in 0..6 : \A b \in 0..6 : IntMonoDef(a, b, "0", "1") = RDiv(RMul(Fact(a), Fact(b)), Fact(a + b + 1))
    /\ \A a \in 0..4 : \A b \in 0..4 : RAdd(IntMono(a, b, "0", "1/3"), IntMono(a, b, "1/3", "1")) = IntMono(a, b, "0", "1")
    /\ LET f == [k \in 1..5 |-> RInt(k * k)] h == [k \in 0..3 |-> [j \in 1..2 |-> RInt(k + j)]] IN
       /\ Strict(f) = f /\ Strict(h) = h /\ Strict(f)[3] = "9" /\ Strict(h)[0][2] = "2" /\ Strict(<<"1", "2">>) = <<"1", "2">>
       /\ DOMAIN Strict(h) = 0..3 /\ Len(Strict(f)) = 5
ASSUME OverrideSelfTest
=============================================================================
