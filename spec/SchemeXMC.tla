------------------------------ MODULE SchemeXMC ------------------------------
(***************************************************************************)
(* Exhaustive exploration of the X-chromosome one-population integrator on *)
(* tiny grids with exact arithmetic.  State: (configuration, density,      *)
(* phase); actions: the X injection and one implicit step solved exactly   *)
(* by the Thomas recurrence.  Laws (invariants / action properties):       *)
(*  - column sums of the line system vanish except at the two absorbing    *)
(*    end nodes, for ANY Chang-Cooper weights; total mass changes only by  *)
(*    the X influx and the outflow at the end nodes;                       *)
(*  - precomputed-coefficient (array) form = flux form;                    *)
(*  - the generic line structure with the autosomal V, M is Scheme!LineABC;*)
(*  - the X system is the autosomal system of the effective parameters     *)
(*    (nu/KvX, 4 gamma/3, (1+2h)/4, beta = 1) except for the boundary rate,*)
(*    which is 1/KvX of it; KvX is census size over X-linked effective     *)
(*    size; for beta = 1, h = 1/2 the interior is 4/3 of the autosomal     *)
(*    system of the same nu, gamma and the boundary rates are equal; for   *)
(*    beta = alpha = 1 the influx is the autosomal influx;                 *)
(*  - rescaling the reference size rescales system, time-step bound and    *)
(*    leaves the step unchanged;                                           *)
(*  - the Thomas recurrence solves the system exactly;                     *)
(*  - the neutral equilibrium C/x with C = theta0 nu MutFacX/KvX has zero  *)
(*    interior residual on any grid and carries the flux theta0 MutFacX/2, *)
(*    the influx (this is the normalisation of phi_1D_X).                  *)
(***************************************************************************)
EXTENDS SchemeX, TLC
CONSTANTS MaxSteps, Tier

G3 == <<"0", "1/2", "1">>
G4 == <<"0", "1/8", "1/2", "1">>
G5 == <<"0", "1/10", "1/3", "3/4", "1">>
G6 == <<"0", "1/16", "1/5", "1/2", "7/8", "1">>
GridChoices == IF Tier = "quick" THEN {G4, G5} ELSE {G3, G4, G5, G6}
Nus    == {"1/2", "3"}
Gammas == {"-2", "0", "3"}
Hs     == IF Tier = "quick" THEN {"1/2", "1"} ELSE {"0", "1/2", "7/10", "1"}
Betas  == IF Tier = "quick" THEN {"1", "2"} ELSE {"1/3", "1", "2"}
Alphas == IF Tier = "quick" THEN {"1", "3"} ELSE {"0", "1", "3"}
DeljKinds == {"half", "skew"}
Ccs    == {"1/20", "1/3", "7"}

VARIABLES cf,      \* configuration: [g, p, dk, theta0, dt]
          ph,      \* density (sequence over the grid)
          phase,   \* "choose" | "inject" | "sweep" | "done"
          steps,
          acct     \* expected mass: initial + injected - outflow
vars == <<cf, ph, phase, steps, acct>>

\* Chang-Cooper weights: 1/2 (switch off) or arbitrary weights in (0,1), different per interval
DeljOf(c) == IF c.dk = "half" THEN HalfDelj(c.g) ELSE [i \in 1..(Len(c.g) - 1) |-> RDiv(RInt(i), RInt(i + 2))]
Sys(c)    == LineABCX(c.g, c.p, DeljOf(c))

UnitData(n) == {[q \in 1..n |-> IF q = u THEN "1" ELSE "0"] : u \in 1..n}
GenData(n)  == [q \in 1..n |-> RInt(1 + ((q * q * 7) % 11))]

Init == /\ phase = "choose" /\ steps = 0 /\ acct = "0" /\ ph = <<>>
        /\ \E g \in GridChoices : \E nu \in Nus : \E gm \in Gammas : \E h \in Hs : \E be \in Betas : \E al \in Alphas : \E dk \in DeljKinds :
              cf = [g |-> g, p |-> [nu |-> nu, gamma |-> gm, h |-> h, beta |-> be, alpha |-> al], dk |-> dk,
                    theta0 |-> "3/2", dt |-> "1/10"]
Choose == /\ phase = "choose" /\ phase' = "inject"
          /\ \E d \in UnitData(Len(cf.g)) \cup {GenData(Len(cf.g))} : ph' = d
          /\ acct' = TrapMass(ph', cf.g)
          /\ UNCHANGED <<cf, steps>>
Inject == /\ phase = "inject" /\ steps < MaxSteps
          /\ ph' = InjectedX(ph, cf.g, cf.dt, cf.theta0, cf.p)
          /\ acct' = RAdd(acct, InjectMassX(cf.g, cf.dt, cf.theta0, cf.p))
          /\ phase' = "sweep"
          /\ UNCHANGED <<cf, steps>>
Sweep == /\ phase = "sweep"
         /\ ph' = ExactStepX(ph, cf.g, cf.p, DeljOf(cf), cf.dt)
         /\ acct' = RSub(acct, OutflowX(Sys(cf), cf.g, ph', cf.dt))
         /\ steps' = steps + 1 /\ phase' = (IF steps + 1 = MaxSteps THEN "done" ELSE "inject")
         /\ UNCHANGED cf
Next == Choose \/ Inject \/ Sweep
Spec == Init /\ [][Next]_vars

\* ------------------------------------------------------------------ laws
Ready == phase # "choose"
\* laws that depend on the configuration only are evaluated once per configuration: every configuration has a "choose" state
OncePerConfig == phase = "choose"
SameABC(s, t) == s.a = t.a /\ s.b = t.b /\ s.c = t.c
NoBc(s) == [i \in DOMAIN s.b |-> RSub(s.b[i], IF i = 1 THEN s.out0 ELSE IF i = Len(s.b) THEN s.out1 ELSE "0")]
Scaled(f, q) == [i \in DOMAIN q |-> RMul(f, q[i])]

MassBalanceX == Ready => TrapMass(ph, cf.g) = acct

\* column sums vanish except at the absorbing end nodes, where they are the outflow rates 1/(nu dx) >= 0; holds for any weights;
\* without selection the interior is decoupled from the end nodes
LinesConservativeX == OncePerConfig =>
    LET g == cf.g N == Len(g) w == TrapW(g) sys == Sys(cf) dx == Dx(g)
        col(i) == RAdd(RAdd(IF i > 1 THEN RMul(w[i - 1], sys.c[i - 1]) ELSE "0", RMul(w[i], sys.b[i])),
                       IF i < N THEN RMul(w[i + 1], sys.a[i + 1]) ELSE "0")
    IN  /\ \A i \in 1..N : col(i) = (IF i = 1 THEN RMul(w[1], sys.out0) ELSE IF i = N THEN RMul(w[N], sys.out1) ELSE "0")
        /\ sys.out0 = RDiv("1", RMul(cf.p.nu, dx[1])) /\ sys.out1 = RDiv("1", RMul(cf.p.nu, dx[N - 1]))
        /\ (cf.p.gamma = "0" => (sys.a[2] = "0" /\ sys.c[N - 1] = "0"))

LinesPrecalcX == OncePerConfig => LET py == LineABCXPy(cf.g, cf.p, DeljOf(cf)) IN SameABC(py, Sys(cf))

\* the structure shared with the autosomal scheme: LineFromVM with the autosomal V and M is Scheme!LineABC (any beta, any weights)
GenericFormIsSchemeLine == OncePerConfig =>
    LET s1 == LineABCAuto(cf.g, cf.p, DeljOf(cf))
        s2 == LineABC(cf.g, 1, <<"0">>, AutoP(cf.p), DeljOf(cf), TRUE, TRUE)
    IN  SameABC(s1, s2) /\ s1.out0 = s2.out0 /\ s1.out1 = s2.out1

\* X = autosomal scheme of the effective parameters, except for the boundary rate (built from the nominal nu)
XIsEffectiveAutosome == OncePerConfig =>
    LET sx == Sys(cf)
        sa == LineABC(cf.g, 1, <<"0">>, EffP(cf.p), DeljOf(cf), TRUE, TRUE)
        N  == Len(cf.g) xI == XInt(cf.g)
    IN  /\ sx.a = sa.a /\ sx.c = sa.c /\ NoBc(sx) = NoBc(sa)
        /\ sa.out0 = RMul(KvX(cf.p.beta), sx.out0) /\ sa.out1 = RMul(KvX(cf.p.beta), sx.out1)
        /\ \A i \in 1..N : VfX(cf.g[i], cf.p) = Vf(cf.g[i], EffP(cf.p))
        /\ \A i \in 1..(N - 1) : MfX(xI[i], cf.p) = Mf(xI[i], 1, <<"0">>, EffP(cf.p))
        /\ EquilGX(cf.p) = RDiv(RMul(RMul("4/3", cf.p.gamma), cf.p.nu), KvX(cf.p.beta))
        /\ Q1X(cf.p) = RMul(RMul("4", EquilGX(cf.p)), EquilHX(cf.p))
        /\ Q2X(cf.p) = RMul(RMul("2", EquilGX(cf.p)), RSub("1", RMul("2", EquilHX(cf.p))))

\* the variance factors are the census-to-effective size ratios of a population of Nf females and Nm males (beta = Nf/Nm):
\* X-linked   Ne = 9 Nf Nm / (4 Nm + 2 Nf),   autosomal   Ne = 4 Nf Nm / (Nf + Nm)
VarianceFactorIsCensusOverEffectiveSize == OncePerConfig =>
    \A Nf \in 1..4 : \A Nm \in 1..4 :
        LET be == RDiv(RInt(Nf), RInt(Nm)) N == RInt(Nf + Nm) IN
        /\ KvX(be) = RDiv(N, RDiv(RInt(9 * Nf * Nm), RInt(4 * Nm + 2 * Nf)))
        /\ BetaFac(be) = RDiv(N, RDiv(RInt(4 * Nf * Nm), N))

\* beta = 1 and genic selection: the interior of the X system is 4/3 of the autosomal system of the same nu, gamma; the boundary rates are equal
BetaOneGenicReduction == OncePerConfig =>
    LET q  == [cf.p EXCEPT !.beta = "1", !.h = "1/2"]
        sx == LineABCX(cf.g, q, DeljOf(cf))
        sa == LineABC(cf.g, 1, <<"0">>, AutoP(q), DeljOf(cf), TRUE, TRUE)
    IN  /\ KvX("1") = "4/3"
        /\ sx.a = Scaled("4/3", sa.a) /\ sx.c = Scaled("4/3", sa.c) /\ NoBc(sx) = Scaled("4/3", NoBc(sa))
        /\ sx.out0 = sa.out0 /\ sx.out1 = sa.out1
\* beta = alpha = 1: the influx is the autosomal influx; in general it is MutFacX times it
InjectionReduction == OncePerConfig =>
    /\ \A be \in Betas : MutFacX(be, "1") = "1"        \* alpha = 1: no factor, whatever the breeding ratio
    \* what the code's formula is: the mean over the X copies (2 Nf in females, Nm in males) of a rate 1 in females and 2/(1+alpha) in males
    /\ \A Nf \in 1..3 : \A Nm \in 1..3 : \A al \in Alphas :
          MutFacX(RDiv(RInt(Nf), RInt(Nm)), al) = RDiv(RAdd(RInt(2 * Nf), RMul(RInt(Nm), RDiv("2", RAdd("1", al)))), RInt(2 * Nf + Nm))
    /\ InjectAmountX(cf.g, cf.dt, cf.theta0, [cf.p EXCEPT !.beta = "1", !.alpha = "1"]) = InjectAmount(<<cf.g>>, 1, cf.dt, cf.theta0)
    /\ InjectAmountX(cf.g, cf.dt, cf.theta0, cf.p) = RMul(MutFacX(cf.p.beta, cf.p.alpha), InjectAmount(<<cf.g>>, 1, cf.dt, cf.theta0))
    /\ InjectMassX(cf.g, cf.dt, cf.theta0, cf.p) = RMul(InjectAmountX(cf.g, cf.dt, cf.theta0, cf.p), TrapW(cf.g)[2])

\* rescaling the reference size: system and time-step bound scale by 1/cc, the influx dt*theta0 is invariant
LinesRescaleX == OncePerConfig =>
    \A cc \in Ccs :
        LET s2 == LineABCX(cf.g, RescalePX(cc, cf.p), DeljOf(cf)) s1 == Sys(cf) f == RDiv("1", cc) IN
        /\ s2.a = Scaled(f, s1.a) /\ s2.b = Scaled(f, s1.b) /\ s2.c = Scaled(f, s1.c)
        /\ s2.out0 = RMul(f, s1.out0) /\ s2.out1 = RMul(f, s1.out1)
        /\ MaxVMX(RescalePX(cc, cf.p)) = RDiv(MaxVMX(cf.p), cc)
        /\ InjectAmountX(cf.g, RMul(cc, cf.dt), RDiv(cf.theta0, cc), RescalePX(cc, cf.p)) = InjectAmountX(cf.g, cf.dt, cf.theta0, cf.p)

\* the neutral equilibrium C/x: interior rows of the system vanish exactly and the flux through every interior interval is the influx
NeutralEquilibriumFlux == OncePerConfig =>
    LET g == cf.g N == Len(g) dx == Dx(g)
        q == [cf.p EXCEPT !.gamma = "0"]
        C == EquilScaleX(q, cf.theta0)
        e == [i \in 1..N |-> IF i = 1 THEN "0" ELSE RDiv(C, g[i])]
        sys == LineABCX(g, q, DeljOf(cf))
        flux(i) == RNeg(RDiv(RSub(RMul(VfX(g[i + 1], q), e[i + 1]), RMul(VfX(g[i], q), e[i])), RMul("2", dx[i])))
    IN  /\ \A i \in 3..(N - 1) : RowApply(sys, "0", e, i) = "0"
        /\ \A i \in 2..(N - 1) : flux(i) = RMul(RHalf(cf.theta0), MutFacX(q.beta, q.alpha))
        /\ InjectMassX(g, cf.dt, cf.theta0, q) = RDiv(RMul(cf.dt, RMul(RHalf(cf.theta0), MutFacX(q.beta, q.alpha))), g[2])

\* the Thomas recurrence solves the line system exactly
StepOKX == [][Sweep => IsStepX(ph, ph', cf.g, cf.p, cf.dt, "0", DeljOf(cf), FALSE)]_vars
\* the step is invariant under a change of the reference size (times scale by cc)
StepRescaleX == [][Sweep => \A cc \in {"1/3", "7"} : ExactStepX(ph, cf.g, RescalePX(cc, cf.p), DeljOf(cf), RMul(cc, cf.dt)) = ph']_vars
=============================================================================
