--------------------------- MODULE Trace_DFECache ---------------------------
(***************************************************************************)
(* Trace validation / behaviour replay for module DFECache (C17 part A).   *)
(*                                                                         *)
(* op "schedule": one execution of the REAL Cache1D/Cache2D constructor    *)
(*   (cpus = nw) on the lock-step scheduler: r.in.c is the configuration,  *)
(*   r.in.F the table of the single-process cache (digest per job),        *)
(*   r.out.init the observable state before the first step, r.out.steps    *)
(*   the actor of every step with the observable state after it,           *)
(*   r.out.final what the constructor returned or raised.  The             *)
(*   specification's transition function is folded over the steps.         *)
(* op "mp_cache": a real multi-process (or single-process, or split) run:  *)
(*   observed table / exception, jobs computed per job, number of pids.    *)
(* op "merge": Cache2D.merge on a list of pieces (tables of digests).      *)
(***************************************************************************)
EXTENDS DFECache, TLC, Json, IOUtils

Trace == JsonDeserialize(IOEnv.TRACE_FILE)
VARIABLE i
F(name, ok) == IF ok THEN {} ELSE {name}
NoneTok == "none"

ConfOf(x) == [nw |-> x.nw, nj |-> x.nj, cap |-> x.cap, split |-> x.split, this |-> x.this,
              fail |-> {x.fail[k] : k \in DOMAIN x.fail}, die |-> FALSE]
ConfOK(x) == x.nw \in 1..64 /\ x.nj \in 1..4096 /\ x.cap \in 1..64 /\ x.split \in 1..64 /\ x.this \in 0..(x.split - 1)
             /\ \A k \in DOMAIN x.fail : x.fail[k] \in 0..(x.nj - 1)

ProjOK(s, e) == LET p == Proj(s) IN e.q = p.q /\ e.res = p.res /\ e.m = p.m /\ e.w = p.w

\* fold the transition function over the recorded steps; stop at the first step that cannot be judged further
RECURSIVE RunFrom(_, _, _)
RunFrom(s, steps, k) ==
  IF k > Len(steps) THEN [s |-> s, f |-> {}]
  ELSE LET e == steps[k] IN
       IF e.done # "yes" THEN [s |-> s, f |-> {"ScheduleNotFollowed"}]       \* the code could not take a step the spec allows
       ELSE IF ~(e.a \in 0..s.c.nw /\ En(s, e.a)) THEN [s |-> s, f |-> {"StepNotInSpec"}]   \* the code took a step the spec forbids
       ELSE LET t == Apply(s, e.a) IN
            IF ProjOK(t, e) THEN RunFrom(t, steps, k + 1) ELSE [s |-> t, f |-> {"StateMismatch"}]

\* the table law: F on the jobs of this piece, nothing elsewhere
TableOK(c, tab, Fv) == /\ Len(tab) = c.nj /\ Len(Fv) = c.nj
                       /\ \A j \in JobsOf(c) : tab[j + 1] = (IF j \in MyJobs(c) THEN Fv[j + 1] ELSE NoneTok)
                       /\ \A j \in JobsOf(c) : Fv[j + 1] # NoneTok
ShouldFail(c) == c.fail \cap MyJobs(c) # {}
\* what the caller sees: "ok" iff no job of the piece fails; a failure surfaces as an exception
OutcomeClauses(c, fin, Fv) ==
     F("FailureAbsorbed", ShouldFail(c) => fin.outcome = "error")
\cup F("SpuriousError", ~ShouldFail(c) => fin.outcome = "ok")
\cup F("Table", fin.outcome = "ok" => TableOK(c, fin.table, Fv))

FSchedule(r) ==
  IF ~ConfOK(r.in.c) THEN {"BadConfig"}
  ELSE LET c == ConfOf(r.in.c)
           s0 == InitState(c)
       IN  IF ~ProjOK(s0, r.out.init) THEN {"InitProjection"}
           ELSE LET run == RunFrom(s0, r.out.steps, 1)
                    fin == r.out.final
                IN  run.f
                    \cup (IF run.f = {}
                          THEN F("NotTerminated", Terminated(run.s) /\ fin.outcome \in {"ok", "error"})
                               \cup F("Outcome", Terminated(run.s) => fin.outcome = run.s.outcome)
                               \cup F("ExactlyOnce", ExactlyOnce(run.s) /\ AtMostOnce(run.s))
                          ELSE {})
                    \cup OutcomeClauses(c, fin, r.in.F)

\* real processes: table / outcome, every job of the piece evaluated exactly once (by someone), at most nw
\* worker pids (cpus = 1 runs in the calling process)
FMpCache(r) ==
  IF ~ConfOK(r.in.c) THEN {"BadConfig"}
  ELSE LET c == ConfOf(r.in.c) IN
       OutcomeClauses(c, r.out, r.in.F)
       \cup F("Terminates", r.out.outcome \in {"ok", "error"})    \* "hang": the pool did not finish within the recorder's time limit
       \* every job of the piece evaluated exactly once when the run succeeds; never twice, never a foreign job
       \* (a single-process run stops at the first failure, so after an error only "at most once" is required)
       \cup F("ComputedOnce", Len(r.out.computed) = c.nj
                               /\ \A j \in JobsOf(c) : IF r.out.outcome = "ok"
                                                         THEN r.out.computed[j + 1] = (IF j \in MyJobs(c) THEN 1 ELSE 0)
                                                         ELSE r.out.computed[j + 1] <= (IF j \in MyJobs(c) THEN 1 ELSE 0))
       \cup F("Pids", r.out.pids <= c.nw /\ (MyJobs(c) # {} => r.out.pids >= 1))

FMerge(r) ==
  LET D == 1..r.in.nj
      P == r.in.pieces
      wf == Len(P) >= 1 /\ \A p \in DOMAIN P : Len(P[p]) = r.in.nj
  IN  IF ~wf THEN {"BadPieces"}
      ELSE LET exp == Merge(P, D, NoneTok)
               op  == MergeOp(P, D, NoneTok)
           IN  F("SpecMergeForms", exp = op)
               \cup F("ConflictOrHoleReported", exp.err => r.out.raised # "none")
               \cup F("SpuriousMergeError", ~exp.err => r.out.raised = "none")
               \cup F("MergedTable", (~exp.err /\ r.out.raised = "none") =>
                                        Len(r.out.table) = r.in.nj /\ \A j \in D : r.out.table[j] = exp.table[j])

\* a COMPLETE job set of one split (piece t of r.in.split at position t of r.in.paths, merged in r.in.order), the pieces
\* built through different code paths: the pieces partition the jobs whatever the path (OutcomeLaw for each piece), so
\* every piece holds F exactly on its own jobs, the merge succeeds, and the merged cache is the single-process cache
FJobSet(r) ==
  LET nj == r.in.nj sp == r.in.split
      wf == sp \in 1..64 /\ nj \in 1..4096 /\ Len(r.in.order) = sp /\ Len(r.in.pieces) = sp /\ Len(r.in.F) = nj
            /\ {r.in.order[k] : k \in 1..sp} = 0..(sp - 1) /\ \A k \in 1..sp : Len(r.in.pieces[k]) = nj
  IN  IF ~wf THEN {"BadJobSet"}
      ELSE LET conf(t) == [nw |-> 1, nj |-> nj, cap |-> 1, split |-> sp, this |-> t, fail |-> {}, die |-> FALSE] IN
           F("PiecePartition", \A k \in 1..sp : TableOK(conf(r.in.order[k]), r.in.pieces[k], r.in.F))
           \cup F("CompleteSetMerges", r.out.raised = "none")
           \cup F("MergedIsSingleProcessCache", r.out.raised = "none" => r.out.table = r.in.F)
           \cup F("SpecMergeOfObserved", LET exp == Merge(r.in.pieces, 1..nj, NoneTok) IN
                                            (exp.err <=> r.out.raised # "none") /\ (~exp.err /\ r.out.raised = "none" =>
                                               \A j \in 1..nj : r.out.table[j] = exp.table[j]))

Failed(r) == CASE r.op = "schedule" -> FSchedule(r)
               [] r.op = "mp_cache" -> FMpCache(r)
               [] r.op = "merge"    -> FMerge(r)
               [] r.op = "jobset"   -> FJobSet(r)
               [] OTHER -> {"UnknownOp"}

Init == i = 0
Next == i < Len(Trace) /\ i' = i + 1 /\ LET r == Trace[i + 1] f == Failed(r) IN IF f = {} THEN TRUE ELSE PrintT(<<"BAD", r.id, f>>)
Spec == Init /\ [][Next]_i
Done == (i = Len(Trace)) => PrintT(<<"DONE", i>>)
AllConsumed == TLCGet("stats").diameter - 1 = Len(Trace)
=============================================================================
