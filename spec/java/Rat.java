// Operator overrides for module Rat: exact rational arithmetic on canonical
// strings "n/d" (gcd-reduced, d > 0, "n" when d = 1).  TLC loads this class
// because its name equals the module's name and it is on the classpath.
// The TLA+ definitions in Rat.tla remain the semantics; RatSelfTest checks that
// these overrides agree with them wherever TLC's 32-bit integers can.
import java.math.BigInteger;
import java.util.HashMap;
import tlc2.value.impl.*;
import util.UniqueString;

public final class Rat {
    private static final class Q {
        final BigInteger n, d;
        Q(BigInteger n, BigInteger d) {
            if (d.signum() == 0) throw new ArithmeticException("Rat: division by zero");
            if (d.signum() < 0) { n = n.negate(); d = d.negate(); }
            BigInteger g = n.gcd(d);
            if (!g.equals(BigInteger.ONE) && g.signum() != 0) { n = n.divide(g); d = d.divide(g); }
            this.n = n; this.d = d;
        }
        Q(BigInteger n, BigInteger d, boolean raw) { this.n = n; this.d = d; }
    }
    private static final Q ZERO = new Q(BigInteger.ZERO, BigInteger.ONE, true);

    private static Q parse(Value v) {
        String s;
        if (v instanceof StringValue) s = ((StringValue) v).getVal().toString();
        else if (v instanceof IntValue) return new Q(BigInteger.valueOf(((IntValue) v).val), BigInteger.ONE, true);
        else throw new IllegalArgumentException("Rat: not a rational: " + v);
        int k = s.indexOf('/');
        try {
            if (k < 0) return new Q(new BigInteger(s), BigInteger.ONE, true);
            return new Q(new BigInteger(s.substring(0, k)), new BigInteger(s.substring(k + 1)));
        } catch (NumberFormatException e) {
            throw new IllegalArgumentException("Rat: not a rational: \"" + s + "\"");
        }
    }
    private static Value out(Q q) {
        String s = q.d.equals(BigInteger.ONE) ? q.n.toString() : q.n.toString() + "/" + q.d.toString();
        return new StringValue(s);
    }
    private static Q add(Q a, Q b) {
        if (a.d.equals(b.d)) return new Q(a.n.add(b.n), a.d);
        return new Q(a.n.multiply(b.d).add(b.n.multiply(a.d)), a.d.multiply(b.d));
    }
    private static Q mul(Q a, Q b) { return new Q(a.n.multiply(b.n), a.d.multiply(b.d)); }
    private static int cmp(Q a, Q b) { return a.n.multiply(b.d).compareTo(b.n.multiply(a.d)); }
    private static Q neg(Q a) { return new Q(a.n.negate(), a.d, true); }
    private static Value[] elems(Value v) {
        Value t = (Value) v.toTuple();
        if (t != null) return ((TupleValue) t).elems;
        Value f = (Value) v.toFcnRcd();          // any function with a finite domain: its values
        if (f == null) throw new IllegalArgumentException("Rat: not a function: " + v);
        return ((FcnRcdValue) f).values;
    }

    public static Value RAdd(Value a, Value b) { return out(add(parse(a), parse(b))); }
    public static Value RSub(Value a, Value b) { return out(add(parse(a), neg(parse(b)))); }
    public static Value RMul(Value a, Value b) { return out(mul(parse(a), parse(b))); }
    public static Value RDiv(Value a, Value b) {
        Q x = parse(a), y = parse(b);
        return out(new Q(x.n.multiply(y.d), x.d.multiply(y.n)));
    }
    public static Value RNeg(Value a) { return out(neg(parse(a))); }
    public static Value RAbs(Value a) { Q x = parse(a); return out(new Q(x.n.abs(), x.d, true)); }
    public static Value RLeq(Value a, Value b) { return cmp(parse(a), parse(b)) <= 0 ? BoolValue.ValTrue : BoolValue.ValFalse; }
    public static Value RLt(Value a, Value b) { return cmp(parse(a), parse(b)) < 0 ? BoolValue.ValTrue : BoolValue.ValFalse; }
    public static Value REq(Value a, Value b) { return cmp(parse(a), parse(b)) == 0 ? BoolValue.ValTrue : BoolValue.ValFalse; }
    public static Value RMin(Value a, Value b) { Q x = parse(a), y = parse(b); return out(cmp(x, y) <= 0 ? x : y); }
    public static Value RMax(Value a, Value b) { Q x = parse(a), y = parse(b); return out(cmp(x, y) >= 0 ? x : y); }
    public static Value RSign(Value a) { return IntValue.gen(parse(a).n.signum()); }
    public static Value RInt(Value i) { return out(parse(i)); }
    public static Value RNorm(Value a) { return out(parse(a)); }
    public static Value RIsInt(Value a) { return parse(a).d.equals(BigInteger.ONE) ? BoolValue.ValTrue : BoolValue.ValFalse; }
    public static Value RFloor(Value a) {
        Q x = parse(a);
        BigInteger[] qr = x.n.divideAndRemainder(x.d);
        BigInteger f = (qr[1].signum() < 0) ? qr[0].subtract(BigInteger.ONE) : qr[0];
        return IntValue.gen(f.intValueExact());
    }
    public static Value RPow(Value a, Value k) {
        Q x = parse(a);
        int e = ((IntValue) k).val;
        if (e >= 0) return out(new Q(x.n.pow(e), x.d.pow(e), true));
        return out(new Q(x.d.pow(-e), x.n.pow(-e)));
    }
    public static Value RFromPair(Value p) {
        Value[] e = elems(p);
        return out(new Q(BigInteger.valueOf(((IntValue) e[0]).val), BigInteger.valueOf(((IntValue) e[1]).val)));
    }
    public static Value RToPair(Value a) {
        Q x = parse(a);
        return new TupleValue(new Value[] { IntValue.gen(x.n.intValueExact()), IntValue.gen(x.d.intValueExact()) });
    }
    // identity on functions / sequences, but returns the explicit (fully evaluated) representation: TLC keeps
    // [x \in S |-> e] as a lazy closure and would re-evaluate e at every application
    public static Value RForce(Value f) {
        Value t = (Value) f.toTuple();
        if (t != null) return t;
        Value g = (Value) f.toFcnRcd();
        if (g == null) throw new IllegalArgumentException("Rat: RForce of a non-function: " + f);
        return g;
    }
    public static Value RSum(Value s) {
        Value[] e = elems(s);
        // sum with a common-denominator accumulator: cheap for dyadic inputs
        BigInteger n = BigInteger.ZERO, d = BigInteger.ONE;
        for (Value v : e) {
            Q x = parse(v);
            if (x.d.equals(d)) n = n.add(x.n);
            else { n = n.multiply(x.d).add(x.n.multiply(d)); d = d.multiply(x.d);
                   BigInteger g = n.gcd(d); if (g.signum() != 0 && !g.equals(BigInteger.ONE)) { n = n.divide(g); d = d.divide(g); } }
        }
        return out(new Q(n, d));
    }
    public static Value RSeqMaxAbs(Value s) {
        Q m = ZERO;
        for (Value v : elems(s)) { Q x = parse(v); Q a = new Q(x.n.abs(), x.d, true); if (cmp(a, m) > 0) m = a; }
        return out(m);
    }
    public static Value RDot(Value s, Value t) {
        Value[] e = elems(s), f = elems(t);
        if (e.length != f.length) throw new IllegalArgumentException("Rat: RDot length mismatch");
        Q acc = ZERO;
        for (int i = 0; i < e.length; i++) acc = add(acc, mul(parse(e[i]), parse(f[i])));
        return out(acc);
    }
    private static final HashMap<Long, BigInteger> BIN = new HashMap<>();
    private static synchronized BigInteger binom(int n, int k) {
        if (k < 0 || k > n || n < 0) return BigInteger.ZERO;
        if (k > n - k) k = n - k;
        if (k == 0) return BigInteger.ONE;
        long key = ((long) n << 32) | k;
        BigInteger v = BIN.get(key);
        if (v == null) {
            v = binom(n, k - 1).multiply(BigInteger.valueOf(n - k + 1)).divide(BigInteger.valueOf(k));
            BIN.put(key, v);
        }
        return v;
    }
    public static Value RBinom(Value n, Value k) {
        return out(new Q(binom(((IntValue) n).val, ((IntValue) k).val), BigInteger.ONE, true));
    }
    // short decimal rendering for messages only (never used in a verdict)
    public static Value RShow(Value a) {
        Q x = parse(a);
        java.math.BigDecimal bd = new java.math.BigDecimal(x.n).divide(new java.math.BigDecimal(x.d), new java.math.MathContext(6));
        return new StringValue(bd.toString());
    }
    // approximate log10 magnitude as an integer (floor), for the extrapolation fallback rule: exact comparison
    // |a| <= 10^k * |b| is done with RLeq on RPow("10",k); this helper is not needed for verdicts.
}
