\* C20 exhaustive model (quick): every history of up to 3 calls over 21 core bases (one call per mechanism);
\* every 2-call history over ALL memo-relevant bases is explored by MemoMC_graph.cfg in both tiers
CONSTANTS
  MaxDepth = 3
  BaseSel = "quickcore"
  LaySel = "C"
  ProjKeyMode = "full"
  DbetaKeyMode = "full"
  PartKeyMode = "full"
  EntryMode = "copy_all"
  XXMode = "contig"
  GodMode = "object"
  DemesMode = "pure"
  PerturbMode = "pure"
  HashMode = "ordered"
  SFSMode = "copies"
  VectorMode = "copies"
  MaskMode = "setter"
  KernelMode = "stateless"
  MaxTable = 60
SPECIFICATION Spec
CHECK_DEADLOCK FALSE
CONSTRAINT TableBound
VIEW MCView
INVARIANT TypeOK
INVARIANT AlphabetOK
INVARIANT TablesSound
INVARIANT ResultIndependentOfHistory
INVARIANT ResultIndependentOfHashSeed
INVARIANT LayoutIndependent
INVARIANT ArgumentsUnchanged
INVARIANT ResultIsFresh
