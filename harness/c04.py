"""C04 - mass leaves only via fixation/loss; frozen and isolated marginals are exact (spec/Scheme.tla, Trace_Integrator.tla)."""
import random, itertools
import numpy as np
from . import common
from . import integrator_common as ic
from .scheme_common import rand_grid, rand_density, loguni

PROP = 'C04'


def subset_records(ctx, rng, nid):
    """Without migration and selection, the marginal over the complement of S of the full run equals the
    run of S alone with the same time steps (interior frequencies)."""
    import dadi
    from dadi import Integration, Numerics
    recs = []
    n_cases = 10 if ctx.quick else 60
    for _ in range(n_cases):
        P = rng.choice([2, 2, 3, 3, 4, 5])
        n = {2: rng.choice([6, 8]), 3: 5, 4: 4, 5: 4}[P]
        case = ic.gen_case(rng, P, mode=rng.choice(['const', 'linear']), n=n, kind='normal')
        case['frozen'] = [False] * P
        case['nomut'] = [False] * P      # one_pop has no nomut option: the subset run could not mirror it
        for p in case['par']:
            p['gamma'] = {'c0': 0.0, 'c1': 0.0}
            p['mig'] = [{'c0': 0.0, 'c1': 0.0} for _ in range(P)]
        if P >= 4:
            case['mode'] = 'linear' if case['mode'] != 'const' else 'const'
        S = sorted(rng.sample(range(1, P + 1), rng.randint(1, P - 1)))
        if not ctx.quick and P <= 4:
            # thorough: cycle through every proper non-empty subset
            import itertools as _it
            allS = [list(c_) for r_ in range(1, P) for c_ in _it.combinations(range(1, P + 1), r_)]
            S = allS[len(recs) % len(allS)]
        try:
            events, out = ic.run_case(case, 0, keep_out=True)
            dts = [float(common.frac(e['dt'])) for e in events if e['op'] == 'inject']
            xx = rand_grid(random.Random(case['grid_seed']), case['n'], case['grid_kind'])
            phi0 = rand_density(random.Random(case['phi_seed']), [case['n']] * P)
            # initial marginal over the complement of S (trapezoid rule), computed here as input preparation
            marg = phi0
            for ax in sorted(set(range(P)) - set(a - 1 for a in S), reverse=True):
                marg = Numerics.trapz(marg, xx, axis=ax)
            phiS = np.ascontiguousarray(marg)
            t = case['t0']
            q = len(S)
            for dt in dts:
                kw = {}
                for newk, oldk in enumerate(S, start=1):
                    p = case['par'][oldk - 1]
                    sfx = '' if q == 1 else str(newk)
                    kw['nu' + sfx] = ic._value(p['nu'], case['mode'])
                    if q == 2:
                        kw['nomut%d' % newk] = case['nomut'][oldk - 1] if P == 2 else False
                kw['theta0'] = ic._value(case['theta0'], case['mode'])
                phiS = getattr(Integration, ic.FUNCS[q])(phiS, xx, t + dt, initial_t=t, **kw)
                t = t + dt
            o = {'full': common.rats(np.asarray(out).ravel()), 'alone': common.rats(np.asarray(phiS).ravel())}
        except Exception as e:
            o = {'raised': type(e).__name__ + ': ' + str(e)[:80]}
        recs.append({'id': 'subset-%d' % next(nid), 'op': 'subset', 'site': 'Integration.%s' % ic.FUNCS[P],
                     'in': {'sh': [case['n']] * P, 'keep': S, 'grids': [common.rats(xx)] * P, 'mode': case['mode'], 'steps': len(dts)}, 'out': o})
    return recs


def mutate(rec):
    from fractions import Fraction
    import itertools as it
    o = rec['out']
    if 'raised' in o:
        return None
    d = o['alone']
    sh = [rec['in']['sh'][k - 1] for k in rec['in']['keep']]
    # the largest interior entry of the subset run, changed by 1 %
    best, bestq = None, None
    for idx in it.product(*[range(1, s_ - 1) for s_ in sh]):
        q = 0
        for s_, i_ in zip(sh, idx):
            q = q * s_ + i_
        v = abs(Fraction(d[q]))
        if best is None or v > best:
            best, bestq = v, q
    if not best:
        return None
    d[bestq] = common.rat(Fraction(d[bestq]) * Fraction(101, 100))
    return rec


def run(ctx):
    rng = random.Random(ctx.seed + 4)
    nid = itertools.count()
    if ctx.replay:
        pay = ctx.replay_payload['payload']
        ctx.no_mc = True
        if pay.get('trace_spec') == 'Trace_Integrator':
            return ic.replay(ctx, pay)
        recs = [pay['record']]
    else:
        recs = subset_records(ctx, rng, nid)
    res = common.pipeline(
        ctx, [('SchemeMC', 'SchemeMC_C04_%s.cfg' % ctx.tier), ('IntegratorMC', 'IntegratorMC.cfg')], 'Trace_Relations', recs, mutator=mutate,
        nontrivial_of=lambda r: (r['site'], tuple(r['in']['keep']), r['in']['mode'], r['in']['steps'] > 1),
        rule='subset records: 2-5 populations, no migration/selection, random sizes (constant or time functions), every kind of subset S; the run of S '
             'alone is driven with the logged time steps; driver traces: every frozen/nomut pattern drawn at random in 2-5 populations, constant and '
             'time-dependent drivers, mass balance per logged step, influx per live population, frozen marginals at return, frozen+migration rejected',
        assumptions=['exact rational mass / marginal computation; tolerance 1e-10 relative to the masses compared',
                     'the outflow is computed by the specification from the logged post-sweep corner values'])
    if not ctx.replay:
        res = ic.add_driver_traces(ctx, res, rng, dims=(2, 3, 4, 5), prop='C04', frozen_bias=True)
    return res
