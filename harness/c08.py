"""C08 - projection is hypergeometric subsampling (spec/SpectrumOps.tla)."""
import random, itertools
import numpy as np
from . import common
from .spectrum_common import enc, observe, rand_spectrum, rand_shape, rand_labels, mutate, relayout

PROP = 'C08'


def records(ctx):
    import dadi
    from dadi import Numerics
    rng = random.Random(ctx.seed)
    recs = []
    nid = itertools.count()

    def add(op, inp, out, site=None):
        r = {'id': '%s-%d' % (op, next(nid)), 'op': op, 'in': inp, 'out': out}
        if site:
            r['site'] = site
        recs.append(r)
    # 1. the weight vectors, exhaustively for n <= N0 (through the cache, as project uses them)
    N0 = 20 if ctx.quick else 40
    for n in range(1, N0 + 1):
        for m in range(1, n + 1):
            for h in range(0, n + 1):
                w = Numerics._cached_projection(m, n, h)
                add('weights', {'m': m, 'n': n, 'h': h}, {'w': common.rats(w)}, site='Numerics._cached_projection')
    for _ in range(150 if ctx.quick else 1500):
        n = rng.randint(N0 + 1, 200)
        m = rng.randint(1, n)
        h = rng.randint(0, n)
        Numerics._projection_cache.pop((m, n, h), None)
        w = Numerics._cached_projection(m, n, h)
        add('weights', {'m': m, 'n': n, 'h': h}, {'w': common.rats(w)}, site='Numerics._cached_projection')
    # 2. Spectrum.project on random spectra
    nproj = 120 if ctx.quick else 1200
    for k in range(nproj):
        ndim = [1, 2, 3, 4, 1, 2][k % 6]               # every dimension count
        hi = {1: 30 if not ctx.quick else 16, 2: 9, 3: 5, 4: 3}[ndim]
        sh = rand_shape(rng, ndim, 1, hi)
        folded = (k // 6) % 3 == 1
        fs = rand_spectrum(rng, sh, folded=folded, labels=rand_labels(rng, ndim), mask_mode=['none', 'corners', 'random', 'single'][(k // 3) % 4])
        if k % 5 == 4:      # non-contiguous memory layout, same abstract spectrum
            fs = relayout(fs, rot=(k // 5) % 3)
        ns = [rng.randint(1, s - 1) for s in sh]
        kind = rng.random()
        if kind < 0.1:      # upward projection must be refused
            a = rng.randrange(ndim)
            ns[a] = sh[a] - 1 + rng.randint(1, 3)
            add('project', {'s': enc(fs), 'ns': ns}, observe(lambda: fs.project(ns)), site='Spectrum.project')
        elif kind < 0.35:   # two stages
            ns1 = [rng.randint(n2, s - 1) for n2, s in zip(ns, sh)]
            add('project2', {'s': enc(fs), 'ns1': ns1, 'ns2': ns}, observe(lambda: fs.project(ns1).project(ns)), site='Spectrum.project')
        else:
            add('project', {'s': enc(fs), 'ns': ns}, observe(lambda: fs.project(ns)), site='Spectrum.project')
    # 2a. large sample sizes (the statement goes up to n = 200 per axis), incl. the boundary targets m = 1 and m = n
    for sh in ([201], [151, 3]) if ctx.quick else ([201], [151, 3], [4, 181], [200], [97, 5, 2]):
        fs = rand_spectrum(rng, sh, folded=rng.random() < 0.3, labels=rand_labels(rng, len(sh)), mask_mode=rng.choice(['corners', 'single']))
        for ns in ([rng.randint(1, max(1, s - 2)) for s in sh], [1] * len(sh), [s - 1 for s in sh]):
            add('project', {'s': enc(fs), 'ns': list(ns)}, observe(lambda: fs.project(list(ns))), site='Spectrum.project')
    # 2c. a masked entry in the bulk of a large spectrum: every target entry it can reach must be masked (fixed cases, own RNG)
    r2 = random.Random(ctx.seed + 808)
    for sh, ns in (([201], [100]), ([121, 3], [60, 2])) if ctx.quick else (([201], [100]), ([121, 3], [60, 2]), ([181], [90]), ([4, 141], [2, 75]), ([201], [150])):
        fs = rand_spectrum(r2, sh, folded=False, labels=rand_labels(r2, len(sh)), mask_mode='corners')
        mid = tuple(s_ // 2 for s_ in sh)
        fs.mask[mid] = True
        add('project', {'s': enc(fs), 'ns': list(ns)}, observe(lambda: fs.project(list(ns))), site='Spectrum.project')
    # 2e. projection to the SAME sizes (m = n on every axis): the identity on unfolded spectra, fold(unfold(f)) on folded ones
    #     (a mask on an ambiguous cell spreads to its mirror); 1-3 dimensions, even and odd totals, masks on the diagonal
    for k in range(8 if ctx.quick else 48):
        ndim = [1, 2, 3, 2][k % 4]
        sh = rand_shape(r2, ndim, 2, {1: 10, 2: 6, 3: 4}[ndim])
        if k % 2 == 0:
            sh[0] += (sum(x - 1 for x in sh) % 2)       # even total sample size: ambiguous entries exist
        fs = rand_spectrum(r2, sh, folded=(k % 4 != 3), labels=rand_labels(r2, ndim), mask_mode=['random', 'single', 'corners'][k % 3])
        if fs.folded and ndim >= 2:
            # mask ONE ambiguous cell (derived count = half the total) after folding, leaving its mirror unmasked
            tot = sum(s_ - 1 for s_ in sh)
            amb = [ix for ix in np.ndindex(*sh) if 2 * sum(ix) == tot and tuple(s_ - 1 - i for s_, i in zip(sh, ix)) != ix]
            if amb:
                ix = amb[k % len(amb)]
                mir = tuple(s_ - 1 - i for s_, i in zip(sh, ix))
                fs.mask[ix] = True
                fs.mask[mir] = False
        ns = [s_ - 1 for s_ in sh]
        add('project', {'s': enc(fs), 'ns': ns}, observe(lambda: fs.project(ns)), site='Spectrum.project[same sizes]')
        # ... and with only some axes unchanged
        if ndim >= 2:
            ns2 = list(ns)
            ns2[k % ndim] = max(1, ns2[k % ndim] - 1)
            add('project', {'s': enc(fs), 'ns': ns2}, observe(lambda: fs.project(ns2)), site='Spectrum.project[some sizes unchanged]')
    # 2d. the same object projected twice: both results are the projection of the object as it was, and the object (values,
    #     mask, folding, labels) is left as it was - folded spectra in particular (projection unfolds internally)
    for k in range(6 if ctx.quick else 40):
        ndim = [1, 2, 3][k % 3]
        sh = rand_shape(r2, ndim, 2, {1: 12, 2: 7, 3: 4}[ndim])
        fs = rand_spectrum(r2, sh, folded=(k % 2 == 0), labels=rand_labels(r2, ndim), mask_mode=['single', 'random', 'corners'][k % 3])
        ns = [r2.randint(1, s_ - 1) for s_ in sh]
        before = enc(fs)
        o1 = observe(lambda: fs.project(ns))
        o2 = observe(lambda: fs.project(ns))
        after = enc(fs)
        add('project', {'s': before, 'ns': ns}, o1, site='Spectrum.project')
        add('project', {'s': before, 'ns': ns}, o2, site='Spectrum.project[second call on the same object]')
        add('unchanged', {'law': 'ObjectUnchangedByProject', 'ns': ns}, {'s': before, 't': after}, site='Spectrum.project')
    # 2b. the projection weights are shared (memoised) with Spectrum.from_data_dict: after building spectra from
    #     data dictionaries that project n -> m, the weights and project() for the same (m, n) must be unchanged
    for (n, m) in ([(10, 6), (37, 13), (43, 29)] if ctx.quick else [(10, 6), (7, 3), (16, 9), (24, 5), (37, 13), (43, 29), (53, 2)]):   # the larger pairs occur nowhere else in the run: their weight tables are first touched by the data-dictionary path
        dd = {}
        ders = rng.sample(range(1, n), 3)       # only three derived-allele counts occur: the data path touches few weight rows
        for s_ in range(40):
            der = rng.choice(ders)
            dd['c_%d' % s_] = {'segregating': ('A', 'T'), 'outgroup_allele': 'A', 'calls': {'P': (n - der, der)}}
        for rep in range(3):
            dadi.Spectrum.from_data_dict(dd, ['P'], [m], polarized=True)
        # project() for the same (n, m) straight after the data-dictionary path (which may have touched only some rows of a
        # shared weight table), before anything else asks for the weights
        fs0 = rand_spectrum(rng, [n + 1], folded=False, mask_mode='corners')
        add('project', {'s': enc(fs0), 'ns': [m]}, observe(lambda: fs0.project([m])), site='Spectrum.project[after from_data_dict]')
        for h in range(0, n + 1):
            w = Numerics._cached_projection(m, n, h)
            add('weights', {'m': m, 'n': n, 'h': h, 'after': 'from_data_dict'}, {'w': common.rats(w)}, site='Numerics._cached_projection')
        fs = rand_spectrum(rng, [n + 1], folded=False, mask_mode='corners')
        add('project', {'s': enc(fs), 'ns': [m]}, observe(lambda: fs.project([m])), site='Spectrum.project')
    # 3. the neutral 1/i spectrum (interior entries) and a mask on a single source entry
    for n in ([7, 12] if ctx.quick else [7, 12, 25, 60]):
        d = np.array([0.0] + [1.0 / i for i in range(1, n)] + [0.0])
        fs = dadi.Spectrum(d)
        m = rng.randint(2, n)
        add('project', {'s': enc(fs), 'ns': [m]}, observe(lambda: fs.project([m])), site='Spectrum.project')
    return recs


def nontrivial(r):
    if r['op'] == 'weights':
        i = r['in']
        return ('w', i['m'], i['n'], i['h']) if 0 < i['h'] < i['n'] else None
    i = r['in']
    if r['op'] == 'unchanged':
        return ('unchanged', i['law'], tuple(r['out']['s']['sh']), r['out']['s']['f'])
    s = i['s']
    ns = i.get('ns', i.get('ns2'))
    return (r['op'], tuple(s['sh']), s['f'], tuple(ns), any(s['m'][1:-1]))


def run(ctx):
    if ctx.replay:
        recs = [ctx.replay_payload['payload']['record']]
        ctx.no_mc = True
    else:
        recs = records(ctx)
    return common.pipeline(
        ctx, ([('SpectrumOpsMC', 'SpectrumOpsMC_C08_quick.cfg')] if ctx.quick else [('SpectrumOpsMC', 'SpectrumOpsMC_C08_thoroughA.cfg'), ('SpectrumOpsMC', 'SpectrumOpsMC_C08_thoroughB.cfg')]), 'Trace_SpectrumOps', recs,
        nontrivial_of=nontrivial, mutator=mutate,
        rule='weights: every (m,n,h) with 1<=m<=n<=N0 (N0=20 quick, 40 thorough) plus sampled n<=200, non-trivial if 0<h<n; '
             'project: random 1-4-D spectra (random masks, folded or not, labels), distinct by (op, shape, folded, target sizes, interior mask present)',
        assumptions=['BigInteger rational arithmetic of the Rat override (self-tested against the TLA+ definitions)',
                     'data compared at entries the specification leaves unmasked; corner entries may carry dadi\'s default corner mask',
                     'relative tolerance 1e-10 per entry (non-negative data: no cancellation)'])
