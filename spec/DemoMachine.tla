----------------------------- MODULE DemoMachine -----------------------------
(***************************************************************************)
(* The demographic abstract machine (properties C15, C16).                 *)
(*                                                                         *)
(* A dadi model is a program over a handful of primitives: an equilibrium  *)
(* density, integrations of all live populations over a duration, splits,  *)
(* admixture (a new population, or a pulse into an existing one), removal  *)
(* and reordering of populations, and finally sampling.  The machine keeps *)
(* what such a program MEANS, not the density:                             *)
(*                                                                         *)
(*   pops   the live populations in axis order, as lineage ids             *)
(*   lins   one record per lineage ever created (index = lineage id):      *)
(*            origin  how it came to be (equilibrium / split / admixture)  *)
(*            hist    its epoch history: one item per integration it lived *)
(*                    through <<duration, size, selection, dominance,      *)
(*                    theta, frozen, nomut, ...>> and one per pulse it     *)
(*                    received                                             *)
(*            end     0 while alive, else the step at which it was removed *)
(*   migs   the pairwise migration histories: a set of records             *)
(*            [into, from, k, T, m] (rate m INTO lineage `into` FROM       *)
(*            lineage `from` during the integration of step k)             *)
(*   clock  number of actions performed; every item carries the step k at  *)
(*          which it was appended, so the global order of events is part   *)
(*          of the state                                                   *)
(*   pc     "start" | "running" | "sampled";  ns, how, tagged: the sample   *)
(*                                                                         *)
(* Parameter values are records [k |-> kind, v |-> sequence of strings]:   *)
(*   C(x)    an exact rational constant (module Rat)                       *)
(*   Fn(q)   a function of time, known by its values q at fixed fractions  *)
(*           of the integration interval (an opaque descriptor)            *)
(*   Tag(t)  an opaque descriptor (e.g. a function never evaluated)        *)
(*   B(b)    a boolean flag                                                *)
(*   Dflt    the argument was not passed                                   *)
(*                                                                         *)
(* Norm(s) is the normal form of a history.  In it                         *)
(*   - zero-duration integrations are stuttering steps (their epochs and   *)
(*     migration items are dropped and the remaining steps renumbered);    *)
(*   - an argument that was not passed equals its documented default, in   *)
(*     particular gamma = 0 equals the neutral form;                       *)
(*   - (through NormArgs) a symmetric rate m equals m12 = m21 = m, and a   *)
(*     single gamma equals equal gammas in all populations;                *)
(*   - a new population drawing everything from one parent is a split.     *)
(* Two programs with equal normal forms perform the same sequence of       *)
(* numerically effective operations with the same arguments.               *)
(***************************************************************************)
EXTENDS Rat, Integers, Sequences, FiniteSets

\* ------------------------------------------------------------------ values
C(x)   == [k |-> "c", v |-> <<x>>]
Fn(q)  == [k |-> "f", v |-> q]
Tag(t) == [k |-> "t", v |-> <<t>>]
B(b)   == [k |-> "b", v |-> <<IF b THEN "T" ELSE "F">>]
Dflt   == [k |-> "d", v |-> <<>>]
IsC(x) == x.k = "c"
IsD(x) == x.k = "d"
IsB(x) == x.k = "b"
Num(x) == x.v[1]                                   \* the rational of a constant
IsZeroV(x) == IsD(x) \/ (IsC(x) /\ RIsZero(Num(x)))   \* a rate / coefficient that is absent or 0
IsTrueV(x) == IsB(x) /\ x.v[1] = "T"
CanonV(x, d) == IF IsD(x) THEN d ELSE IF IsC(x) THEN C(RNorm(Num(x))) ELSE x

\* an epoch's parameters, in this order
\*   <<nu, gamma, h, theta0, frozen, nomut, beta, initial_t>>
EpochDefaults == <<C("1"), C("0"), C("1/2"), C("1"), B(FALSE), B(FALSE), C("1"), C("0")>>
\* an equilibrium's parameters: <<nu, theta0, gamma, h, beta, theta(deprecated)>>
EquilDefaults == <<C("1"), C("1"), C("0"), C("1/2"), C("1"), Dflt>>
CanonSeq(q, d) == [j \in 1..Len(q) |-> CanonV(q[j], d[j])]

\* ------------------------------------------------------------------- state
Empty == [pc |-> "start", pops |-> <<>>, lins |-> <<>>, migs |-> {}, clock |-> 0, ns |-> <<>>, how |-> "", tagged |-> FALSE]
NP(s) == Len(s.pops)
Src(l, f) == [lin |-> l, f |-> f]
MaxPops == 5

RemoveAt(q, a) == [j \in 1..(Len(q) - 1) |-> IF j < a THEN q[j] ELSE q[j + 1]]
Pairs(n) == {p \in (1..n) \X (1..n) : p[1] # p[2]}
IsPerm(p, n) == Len(p) = n /\ \A i \in 1..n : \E j \in 1..n : p[j] = i
SumProps(q) == RSum(q)
IsFraction(f) == RNonNeg(f) /\ RLeq(f, "1")

\* argument forms of Integrate: one value for all populations or one per population;
\* one symmetric rate for every ordered pair or a full matrix (diagonal unused)
All(x)   == [form |-> "all", one |-> x]
Each(q)  == [form |-> "each", q |-> q]
Sym(x)   == [form |-> "sym", one |-> x]
Mat(q)   == [form |-> "mat", rows |-> q]
PerPop(f, i)  == IF f.form = "all" THEN f.one ELSE f.q[i]
Rate(f, i, j) == IF f.form = "sym" THEN f.one ELSE f.rows[i][j]
FormOK(f, n)  == f.form = "all" \/ (f.form = "each" /\ Len(f.q) = n)
MFormOK(f, n) == f.form = "sym" \/ (f.form = "mat" /\ Len(f.rows) = n /\ \A i \in 1..n : Len(f.rows[i]) = n)

\* ----------------------------------------------------------------- actions
\* An action is a record with field op; Enabled(s, a) is its guard, Do(s, a) its effect.
\*   [op |-> "equilibrium", via, par]                via = the dadi function, par as EquilDefaults
\*   [op |-> "integrate", T, nus, gammas, hs, ms, theta, frozen, nomut, beta, t0]     T = duration (rational)
\*   [op |-> "split", parent]      [op |-> "admixnew", props]     [op |-> "pulse", dest, props]
\*   [op |-> "remove", i]          [op |-> "reorder", perm]       [op |-> "sample", ns, how]
HasMigration(a, n, i) == \E j \in 1..n : j # i /\ (~IsZeroV(Rate(a.ms, i, j)) \/ ~IsZeroV(Rate(a.ms, j, i)))

Enabled(s, a) ==
    CASE a.op = "equilibrium" -> s.pc = "start" /\ Len(a.par) = Len(EquilDefaults)
      [] a.op = "integrate"   ->
            LET n == NP(s) IN
            /\ s.pc = "running"
            /\ Len(a.nus) = n /\ Len(a.frozen) = n /\ Len(a.nomut) = n
            /\ FormOK(a.gammas, n) /\ FormOK(a.hs, n) /\ MFormOK(a.ms, n)
            /\ RNonNeg(a.T)
            \* a frozen population exchanges no migrants (checked, as dadi does, only when something is integrated)
            /\ (RPos(a.T) /\ n >= 2) => \A i \in 1..n : IsTrueV(a.frozen[i]) => ~HasMigration(a, n, i)
      [] a.op = "split"       -> s.pc = "running" /\ a.parent \in 1..NP(s) /\ NP(s) < MaxPops
      [] a.op = "admixnew"    -> /\ s.pc = "running" /\ NP(s) < MaxPops /\ Len(a.props) = NP(s)
                                 /\ \A i \in 1..NP(s) : IsFraction(a.props[i])
                                 /\ SumProps(a.props) = "1"
      [] a.op = "pulse"       -> /\ s.pc = "running" /\ NP(s) >= 2 /\ a.dest \in 1..NP(s) /\ Len(a.props) = NP(s)
                                 /\ \A i \in 1..NP(s) : IsFraction(a.props[i])
                                 /\ SumProps(a.props) = "1"
      [] a.op = "remove"      -> s.pc = "running" /\ NP(s) >= 2 /\ a.i \in 1..NP(s)
      [] a.op = "reorder"     -> s.pc = "running" /\ IsPerm(a.perm, NP(s))
      [] a.op = "sample"      -> s.pc = "running" /\ Len(a.ns) = NP(s) /\ \A i \in 1..NP(s) : a.ns[i] >= 1
      [] OTHER                -> FALSE

NewLineage(s, origin) == Append(s.lins, [origin |-> origin, hist |-> <<>>, end |-> 0])

Do(s, a) ==
    LET k == s.clock + 1
        n == NP(s)
    IN
    CASE a.op = "equilibrium" ->
            [s EXCEPT !.pc = "running", !.clock = k, !.pops = <<1>>,
                      !.lins = NewLineage(s, [kind |-> "eq", via |-> a.via, k |-> k, src |-> <<>>, par |-> a.par])]
      [] a.op = "integrate" ->
            LET pos(l) == CHOOSE i \in 1..n : s.pops[i] = l
                ep(i) == [kind |-> "epoch", k |-> k, T |-> a.T, src |-> <<>>,
                          par |-> <<a.nus[i], PerPop(a.gammas, i), PerPop(a.hs, i), a.theta, a.frozen[i], a.nomut[i], a.beta, a.t0>>]
            IN [s EXCEPT !.clock = k,
                         !.lins = [l \in 1..Len(s.lins) |->
                                     IF s.lins[l].end = 0 THEN [s.lins[l] EXCEPT !.hist = Append(@, ep(pos(l)))] ELSE s.lins[l]],
                         !.migs = @ \cup {[into |-> s.pops[p[1]], from |-> s.pops[p[2]], k |-> k, T |-> a.T, m |-> Rate(a.ms, p[1], p[2])] : p \in Pairs(n)}]
      [] a.op = "split" ->
            [s EXCEPT !.clock = k, !.pops = Append(@, Len(s.lins) + 1),
                      !.lins = NewLineage(s, [kind |-> "split", via |-> "", k |-> k, src |-> <<Src(s.pops[a.parent], "1")>>, par |-> <<>>])]
      [] a.op = "admixnew" ->
            [s EXCEPT !.clock = k, !.pops = Append(@, Len(s.lins) + 1),
                      !.lins = NewLineage(s, [kind |-> "admix", via |-> "", k |-> k, src |-> [i \in 1..n |-> Src(s.pops[i], a.props[i])], par |-> <<>>])]
      [] a.op = "pulse" ->
            [s EXCEPT !.clock = k,
                      !.lins[s.pops[a.dest]].hist = Append(@, [kind |-> "pulse", k |-> k, T |-> "0", par |-> <<>>,
                                                               src |-> [i \in 1..n |-> Src(s.pops[i], a.props[i])]])]
      [] a.op = "remove" ->
            [s EXCEPT !.clock = k, !.pops = RemoveAt(@, a.i), !.lins[s.pops[a.i]].end = k]
      [] a.op = "reorder" ->
            [s EXCEPT !.clock = k, !.pops = [j \in 1..n |-> s.pops[a.perm[j]]]]
      [] a.op = "sample" ->
            [s EXCEPT !.clock = k, !.pc = "sampled", !.ns = a.ns, !.how = a.how, !.tagged = TRUE]

\* --------------------------------------------------------------- normal form
\* canonical arguments of an action: forms expanded, defaults filled in
NormArgs(a, n) ==
    CASE a.op = "equilibrium" -> [a EXCEPT !.par = CanonSeq(a.par, EquilDefaults)]
      [] a.op = "integrate" ->
            [a EXCEPT !.T = RNorm(a.T),
                      !.nus = [i \in 1..n |-> CanonV(a.nus[i], EpochDefaults[1])],
                      !.gammas = Each([i \in 1..n |-> CanonV(PerPop(a.gammas, i), EpochDefaults[2])]),
                      !.hs = Each([i \in 1..n |-> CanonV(PerPop(a.hs, i), EpochDefaults[3])]),
                      !.ms = Mat([i \in 1..n |-> [j \in 1..n |-> IF i = j THEN Dflt ELSE CanonV(Rate(a.ms, i, j), C("0"))]]),
                      !.theta = CanonV(a.theta, EpochDefaults[4]),
                      !.frozen = [i \in 1..n |-> CanonV(a.frozen[i], EpochDefaults[5])],
                      !.nomut = [i \in 1..n |-> CanonV(a.nomut[i], EpochDefaults[6])],
                      !.beta = CanonV(a.beta, EpochDefaults[7]),
                      !.t0 = CanonV(a.t0, EpochDefaults[8])]
      [] a.op \in {"admixnew", "pulse"} -> [a EXCEPT !.props = [i \in 1..Len(a.props) |-> RNorm(a.props[i])]]
      [] OTHER -> a

Survives(it) == it.kind # "epoch" \/ ~RIsZero(it.T)
ItemsOf(s)   == UNION {{s.lins[l].hist[j] : j \in 1..Len(s.lins[l].hist)} : l \in 1..Len(s.lins)}
\* the steps that left something behind
LiveSteps(s) == {s.lins[l].origin.k : l \in 1..Len(s.lins)}
                \cup {s.lins[l].end : l \in {x \in 1..Len(s.lins) : s.lins[x].end # 0}}
                \cup {it.k : it \in {x \in ItemsOf(s) : Survives(x)}}
                \cup (IF s.pc = "sampled" THEN {s.clock} ELSE {})
Rank(K, k)   == Cardinality({j \in K : j <= k})
IsUnit(src)  == /\ \E j \in 1..Len(src) : RNorm(src[j].f) = "1"
                /\ \A j \in 1..Len(src) : RNorm(src[j].f) \in {"0", "1"}
NormSrc(src) == [j \in 1..Len(src) |-> Src(src[j].lin, RNorm(src[j].f))]

Norm(s) ==
    LET K == LiveSteps(s)
        rk(k) == Rank(K, k)
        item(it) == IF it.kind = "epoch"
                    THEN [it EXCEPT !.k = rk(it.k), !.T = RNorm(it.T), !.par = CanonSeq(it.par, EpochDefaults)]
                    ELSE [it EXCEPT !.k = rk(it.k), !.src = NormSrc(it.src)]
        origin(o) == IF o.kind = "eq" THEN [o EXCEPT !.k = rk(o.k), !.par = CanonSeq(o.par, EquilDefaults)]
                     ELSE IF o.kind = "admix" /\ IsUnit(o.src)
                          THEN [o EXCEPT !.k = rk(o.k), !.kind = "split",
                                         !.src = <<Src(o.src[CHOOSE j \in 1..Len(o.src) : RNorm(o.src[j].f) = "1"].lin, "1")>>]
                          ELSE [o EXCEPT !.k = rk(o.k), !.src = NormSrc(o.src)]
        lin(r) == LET h == SelectSeq(r.hist, Survives) IN
                  [origin |-> origin(r.origin), hist |-> [j \in 1..Len(h) |-> item(h[j])], end |-> IF r.end = 0 THEN 0 ELSE rk(r.end)]
    IN [s EXCEPT !.lins = [l \in 1..Len(s.lins) |-> lin(s.lins[l])],
                 !.migs = {[r EXCEPT !.k = rk(r.k), !.T = RNorm(r.T), !.m = CanonV(r.m, C("0"))] : r \in {x \in s.migs : ~RIsZero(x.T)}},
                 !.clock = Cardinality(K)]

\* ------------------------------------------------------------ well-formedness
Alive(s)   == {l \in 1..Len(s.lins) : s.lins[l].end = 0}
PopSet(s)  == {s.pops[i] : i \in 1..NP(s)}
Increasing(q) == \A i, j \in 1..Len(q) : i < j => q[i].k < q[j].k
EpochSteps(s, l, after) == {s.lins[l].hist[j].k : j \in {x \in 1..Len(s.lins[l].hist) : s.lins[l].hist[x].kind = "epoch" /\ s.lins[l].hist[x].k > after}}
Born(s, l) == s.lins[l].origin.k
Until(s, l) == IF s.lins[l].end = 0 THEN s.clock + 1 ELSE s.lins[l].end
\* the steps during which both lineages were integrated
CommonSteps(s, a, b) == {k \in EpochSteps(s, a, Born(s, b)) : k < Until(s, b)} \cap {k \in EpochSteps(s, b, Born(s, a)) : k < Until(s, a)}

WF(s) ==
    /\ s.pc \in {"start", "running", "sampled"}
    /\ (s.pc = "start") = (Len(s.lins) = 0)
    /\ s.pc # "start" => NP(s) \in 1..MaxPops
    \* the axes are exactly the live lineages, each once
    /\ PopSet(s) = Alive(s) /\ Cardinality(PopSet(s)) = NP(s)
    /\ \A l \in 1..Len(s.lins) :
          LET r == s.lins[l] IN
          /\ r.origin.k >= 1 /\ r.origin.k <= s.clock
          /\ Increasing(r.hist)
          /\ \A j \in 1..Len(r.hist) : r.hist[j].k > r.origin.k /\ r.hist[j].k <= s.clock /\ (r.end # 0 => r.hist[j].k < r.end)
          /\ r.end <= s.clock
          \* ancestors exist and were created earlier
          /\ \A j \in 1..Len(r.origin.src) : r.origin.src[j].lin \in 1..(l - 1)
          /\ (r.origin.kind = "eq") = (l = 1)
          /\ \A j \in 1..Len(r.hist) : r.hist[j].kind = "epoch" => Len(r.hist[j].par) = Len(EpochDefaults) /\ RNonNeg(r.hist[j].T)
    \* dimension: lineages alive together are integrated together, step by step
    /\ \A a, b \in 1..Len(s.lins) : a # b =>
          /\ {k \in EpochSteps(s, a, Born(s, b)) : k < Until(s, b)} = {k \in EpochSteps(s, b, Born(s, a)) : k < Until(s, a)}
          \* and their migration history covers exactly those steps, once
          /\ {r.k : r \in {x \in s.migs : x.into = a /\ x.from = b}} = CommonSteps(s, a, b)
          /\ Cardinality({x \in s.migs : x.into = a /\ x.from = b}) = Cardinality(CommonSteps(s, a, b))
    /\ \A r \in s.migs : r.into # r.from /\ r.into \in 1..Len(s.lins) /\ r.from \in 1..Len(s.lins)
    \* the sample: one size per live population, tagged for extrapolation
    /\ (s.pc = "sampled") => (Len(s.ns) = NP(s) /\ s.tagged)
    /\ (s.pc # "sampled") => (s.ns = <<>> /\ ~s.tagged)
=============================================================================
