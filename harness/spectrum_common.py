"""Recorders shared by the SpectrumOps checks (C08, C09, C10): encode a real
dadi.Spectrum as the abstract value of spec/SpectrumOps.tla, run an operation
on the real object and record what came back (or what was raised)."""
import random
import numpy as np
from .common import rat, rats


def enc(fs):
    """dadi.Spectrum -> abstract spectrum record (exact data, mask, folded flag, labels)."""
    import numpy.ma as ma
    mask = ma.getmaskarray(fs)
    ids = getattr(fs, 'pop_ids', None)
    return {'sh': [int(x) for x in fs.shape],
            'd': rats(np.asarray(fs.data, dtype=float).ravel()),
            'm': [bool(x) for x in mask.ravel()],
            'f': bool(fs.folded),
            'ids': [str(x).split('+') for x in ids] if ids else []}


def observe(fn):
    """Run fn() -> Spectrum; return the 'out' part of a record."""
    try:
        res = fn()
    except Exception as e:           # recorded, judged by the specification
        return {'raised': type(e).__name__}
    return {'s': enc(res)}


def rand_spectrum(rng, shape, folded=False, labels=None, mask_mode=None, integer=None, corners=None):
    """A random dadi.Spectrum.  Data are non-negative (counts or projected
    counts).  mask_mode: 'none' | 'corners' | 'random' | 'single'."""
    import dadi
    shape = tuple(shape)
    size = int(np.prod(shape))
    integer = rng.random() < 0.5 if integer is None else integer
    if integer:
        data = np.array([float(rng.randrange(0, 40)) for _ in range(size)]).reshape(shape)
    else:
        data = np.array([rng.choice([0.0, rng.uniform(0, 5), rng.uniform(0, 1e3), 10 ** rng.uniform(-6, 6)]) for _ in range(size)]).reshape(shape)
    mask_mode = mask_mode or rng.choice(['none', 'corners', 'corners', 'random', 'single'])
    mask = np.zeros(shape, dtype=bool)
    if mask_mode in ('corners', 'random', 'single'):
        mask.flat[0] = mask.flat[-1] = True
    if mask_mode == 'random':
        for k in range(size):
            if rng.random() < 0.25:
                mask.flat[k] = True
    elif mask_mode == 'single' and size > 2:
        mask.flat[rng.randrange(1, size - 1)] = True
    fs = dadi.Spectrum(data, mask=mask, mask_corners=False, pop_ids=labels)
    if folded:
        fs = fs.fold()
    return fs


def relayout(fs, rot=1):
    """The same spectrum (values, mask, folding, labels) held in a non-C-contiguous memory layout: the axes are stored
    in rotated order (rot=0: fully reversed = Fortran order), as the views returned by reorder_pops / transposes are."""
    import dadi
    import numpy.ma as ma
    nd = fs.ndim
    if nd < 2:
        return fs
    perm = list(reversed(range(nd))) if rot == 0 else [(a + rot) % nd for a in range(nd)]
    if perm == list(range(nd)):
        perm = list(reversed(range(nd)))
    inv = [int(x) for x in np.argsort(perm)]

    def rl(a):
        return np.ascontiguousarray(np.asarray(a).transpose(perm)).transpose(inv)
    out = dadi.Spectrum(rl(fs.data), mask=rl(ma.getmaskarray(fs)), mask_corners=False, data_folded=bool(fs.folded), pop_ids=fs.pop_ids)
    return out


def rand_shape(rng, ndim, lo=1, hi=6, unequal=True):
    while True:
        sh = [rng.randint(lo, hi) + 1 for _ in range(ndim)]
        if not unequal or ndim == 1 or len(set(sh)) > 1 or rng.random() < 0.2:
            return sh


LABELS = ['YRI', 'CEU', 'CHB', 'pop4', 'p5', 'six']


def rand_labels(rng, ndim):
    return rng.sample(LABELS, ndim) if rng.random() < 0.7 else None


def mutate(rec):
    """Corrupt one observed field so that a sound trace spec must reject the record."""
    from fractions import Fraction
    out = rec['out']
    if rec['op'] == 'weights':
        w = out['w']
        k = max(range(len(w)), key=lambda j: Fraction(w[j]))
        w[k] = rat(Fraction(w[k]) * Fraction(1000001, 1000000))
        return rec
    if 'raised' in out:
        return None
    if rec['op'] == 'argkept':
        out['arg'] = [x + 1 for x in out['arg']]
        return rec
    if rec['op'] == 'keep':
        out['f'] = 'False' if out['f'] == 'True' else 'True'
        return rec
    s = out['s']
    if rec['op'] == 'same_as':
        t = out['t']
        for k in range(1, len(s['d']) - 1):
            if not s['m'][k] and not t['m'][k] and Fraction(s['d'][k]) != 0:
                s['d'][k] = rat(Fraction(s['d'][k]) * Fraction(1000001, 1000000))
                return rec
        return None
    cand = [k for k in range(len(s['d'])) if not s['m'][k] and s['d'][k] not in ('nan', 'inf', '-inf') and Fraction(s['d'][k]) != 0]
    if cand and not (rec['op'] == 'arith' and not rec['in'].get('values', True)):
        # the entry of largest magnitude: a change of 1e-6 relative is then far above the absolute floor (1e-30 of the largest
        # entry) that the comparison grants to tiny entries of a spectrum with a huge dynamic range
        k = max(cand, key=lambda j: abs(Fraction(s['d'][j])))
        s['d'][k] = rat(Fraction(s['d'][k]) * Fraction(1000001, 1000000))
        return rec
    if rec['op'] == 'arith':
        # values are not compared for this record (pow / floordiv of spectra) and the specification lets an operator mask
        # more than the union: a flipped mask bit may be legitimate.  The folding status is always demanded: corrupt that.
        s['f'] = not s['f']
        return rec
    if len(s['m']) > 2:
        k = len(s['m']) // 2
        s['m'][k] = not s['m'][k]
        return rec
    return None
