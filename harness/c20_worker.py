"""C20 evaluator: the concrete realisation of the call alphabet of spec/Memo.tla against the real dadi.

Run as a script:   python c20_worker.py <job.json>
  job = {"mode": "fresh",  "items": [callid, ...],                 "out": dir, "parallel": k}
      | {"mode": "replay", "items": [{"hid":..., "calls":[callid..]}], "out": dir, "parallel": k}
The parent process imports dadi and nothing else (pristine process state); every item is then evaluated in
its own forked child, i.e. in a process whose dadi state is the state right after `import dadi`:
  fresh  - ONE call per process, no instrumentation: the history-free reference value of that call;
  replay - one whole history per process; the memo tables are wrapped by a logging dict subclass so that the
           hits / misses / insertions of every call are observed; arguments are digested before and after.
Nothing is judged here: the observations are written as JSON and judged by TLC (spec/Trace_Memo.tla).

A call id is "<base>|<phi layout>|<xx layout>" with layouts C (contiguous), F (Fortran order), T (first two axes
transposed view), S (every second element of a larger array), N (negative strides).
"""
import sys, os, json, hashlib, struct, math, itertools, traceback

FULL_CAP = 1300      # at most this many floats are recorded in full (for tolerance comparisons decided by TLC)


# --------------------------------------------------------------------------------------------------
# canonical encoding of results / arguments
# --------------------------------------------------------------------------------------------------
def _rat(x):
    from fractions import Fraction
    x = float(x)
    if x != x:
        return 'nan'
    if x in (float('inf'), float('-inf')):
        return 'inf' if x > 0 else '-inf'
    f = Fraction(x)
    return str(f.numerator) if f.denominator == 1 else '%d/%d' % (f.numerator, f.denominator)


def canon(obj, out, floats, raw=False):
    """Append a canonical byte encoding of obj to out (list of bytes); collect the floats it contains.
    raw=True (arguments): masked arrays are encoded with the data under the mask (bit-for-bit);
    raw=False (results): the data under the mask is not part of the value."""
    import numpy as np
    if obj is None:
        out.append(b'N')
    elif isinstance(obj, (bool, np.bool_)):
        out.append(b'b1' if obj else b'b0')
    elif isinstance(obj, (int, np.integer)):
        out.append(b'i%d;' % int(obj))
    elif isinstance(obj, (float, np.floating)):
        out.append(b'f' + struct.pack('<d', float(obj)))
        floats.append(float(obj))
    elif isinstance(obj, str):
        out.append(b's' + obj.encode() + b';')
    elif isinstance(obj, np.ma.MaskedArray):
        out.append(b'M(')
        m = np.ma.getmaskarray(obj)
        d = np.asarray(obj.data)
        if not raw:
            d = np.where(m, 0.0, d)
        canon(np.asarray(d), out, floats)
        out.append(np.ascontiguousarray(m).tobytes())
        for attr in ('folded', 'pop_ids', 'extrap_x'):
            if hasattr(obj, attr):
                v = getattr(obj, attr)
                canon(list(v) if isinstance(v, (list, tuple)) else v, out, floats if attr != 'extrap_x' else [])
        out.append(b')')
    elif isinstance(obj, np.ndarray):
        a = np.ascontiguousarray(obj)
        out.append(b'A' + a.dtype.str.encode() + str(a.shape).encode())
        out.append(a.tobytes())
        if a.dtype.kind == 'f':
            floats.extend(a.ravel().tolist())
    elif isinstance(obj, (list, tuple)):
        out.append(b'[')
        for v in obj:
            canon(v, out, floats, raw)
            out.append(b',')
        out.append(b']')
    elif isinstance(obj, dict):
        out.append(b'{')
        for k in sorted(obj, key=repr):
            canon(repr(k), out, floats)
            canon(obj[k], out, floats, raw)
        out.append(b'}')
    else:
        try:
            import demes
            if isinstance(obj, demes.Graph):
                out.append(b'G' + demes.dumps(obj).encode())
                return
        except ImportError:
            pass
        out.append(b'R' + repr(obj).encode())


def observe(obj):
    out, floats = [], []
    canon(obj, out, floats)
    h = hashlib.sha256(b''.join(out)).hexdigest()[:20]
    sel = floats if len(floats) <= 6 else floats[:3] + floats[-3:]
    o = {'dig': h, 'vals': [_rat(v) for v in sel], 'n': len(floats), 'exc': ''}
    if len(floats) <= FULL_CAP:
        o['full'] = [_rat(v) for v in floats]
    return o


def argdig(obj):
    out = []
    canon(obj, out, [], raw=True)
    import numpy as np
    if isinstance(obj, np.ndarray):      # layout is part of an argument's identity
        out.append(str(obj.strides).encode())
    return hashlib.sha256(b''.join(out)).hexdigest()[:20]


def owner_roots(obj, out=None):
    """The arrays that OWN the memory an array argument is a view of: the end of the `.base` chain of the data array and,
    for masked arrays, of the mask array (`_mask`).  Collected BEFORE the call (a call may rebind `_mask`, which detaches
    the argument from the mask it shared) and digested before and after: an argument's value includes the buffers it shares."""
    import numpy as np
    out = [] if out is None else out

    def root(a):
        n = 0
        while isinstance(getattr(a, 'base', None), np.ndarray) and n < 64:
            a = a.base
            n += 1
        return a
    if isinstance(obj, np.ndarray):
        out.append(root(obj))
        if isinstance(obj, np.ma.MaskedArray) and isinstance(obj._mask, np.ndarray) and obj._mask.ndim:
            out.append(root(obj._mask))
    elif isinstance(obj, (list, tuple)):
        for v in obj:
            owner_roots(v, out)
    elif isinstance(obj, dict):
        for v in obj.values():
            owner_roots(v, out)
    return out


def ownerdig(roots):
    import numpy as np
    out = []
    for a in roots:
        d = np.asarray(a.data) if isinstance(a, np.ma.MaskedArray) else np.asarray(a)
        out.append(b'O' + d.dtype.str.encode() + str(d.shape).encode() + str(d.strides).encode())
        out.append(np.ascontiguousarray(d).tobytes())
        if isinstance(a, np.ma.MaskedArray):
            out.append(np.ascontiguousarray(np.ma.getmaskarray(a)).tobytes())
    return hashlib.sha256(b''.join(out)).hexdigest()[:20]


# --------------------------------------------------------------------------------------------------
# fixtures (pure numpy; no dadi state is touched while building arguments, except where noted)
# --------------------------------------------------------------------------------------------------
def grid(kind, n):
    import numpy as np
    if kind == 'A':
        import dadi
        return np.array(dadi.Numerics.default_grid(n))      # pure function of n
    if kind == 'B':
        return np.linspace(0.0, 1.0, n)
    raise KeyError(kind)


GRIDS = [('A', n) for n in (4, 5, 6, 7, 8, 10, 12)] + [('B', n) for n in (4, 5, 6, 8, 10)]


def lay1(g, code):
    import numpy as np
    g = np.asarray(g, dtype=float)
    if code == 'C':
        return np.ascontiguousarray(g).copy()
    if code == 'S':
        big = np.empty(2 * len(g) - 1)
        big[::2] = g
        big[1::2] = 0.5 * (g[1:] + g[:-1])
        return big[::2]
    if code == 'N':
        return g[::-1].copy()[::-1]
    raise KeyError(code)


def layn(P, code):
    import numpy as np
    P = np.asarray(P)
    d = P.ndim
    if d == 1:
        if P.dtype == float:
            return lay1(P, 'C' if code in ('F', 'T') else code)
        code = 'C' if code in ('F', 'T') else code
    if code == 'C':
        return np.ascontiguousarray(P).copy()
    if code == 'F':
        return np.asfortranarray(P).copy(order='F')
    if code == 'T':
        return np.ascontiguousarray(P.swapaxes(0, 1)).swapaxes(0, 1)
    if code == 'S':
        big = np.full([2 * s - 1 for s in P.shape], -7.0 if P.dtype == float else 0, dtype=P.dtype)
        ix = (slice(None, None, 2),) * d
        big[ix] = P
        return big[ix]
    if code == 'N':
        ix = (slice(None, None, -1),) * d
        return P[ix].copy()[ix]
    raise KeyError(code)


def phi_fix(d, n, kind='A'):
    import numpy as np
    xx = grid(kind, n)
    P = np.ones([n] * d)
    for ax in range(d):
        sh = [1] * d
        sh[ax] = n
        P = P * ((1.0 / (xx + 0.07)) * (1.0 + 0.2 * np.sin(3.0 * (ax + 1) * xx))).reshape(sh)
    P = P + 0.05 * np.arange(P.size, dtype=float).reshape(P.shape) / P.size
    return P


def fs_fix(shape, seed, folded=False, interior_mask=False, lay='C', pop_ids=None, corners=True):
    import numpy as np
    import dadi
    rs = np.random.RandomState(seed)
    d = rs.uniform(0.5, 20.0, size=shape)
    m = np.zeros(shape, dtype=bool)
    if corners:
        m.flat[0] = m.flat[-1] = True
    if interior_mask:
        m.flat[m.size // 2] = True
    if lay in ('S', 'N', 'V'):
        # a VIEW of a larger / reversed owning Spectrum (fs[::2], fs[::-1], fs[1:-1]): data and mask memory are the owner's;
        # the owner's corners are not masked, elsewhere it is unmasked filler
        nd = len(shape)
        if lay == 'S':
            bshape, ix = [2 * k - 1 for k in shape], (slice(None, None, 2),) * nd
        elif lay == 'N':
            bshape, ix = list(shape), (slice(None, None, -1),) * nd
        else:
            bshape, ix = [k + 2 for k in shape], (slice(1, -1),) * nd
        bigd = np.full(bshape, 3.25)
        bigd[ix] = d
        bigm = np.zeros(bshape, dtype=bool)
        bigm[ix] = m
        owner = dadi.Spectrum(bigd, mask=bigm, pop_ids=pop_ids, mask_corners=False)
        fs = owner[ix]
    else:
        fs = dadi.Spectrum(layn(d, lay), mask=layn(m, lay), pop_ids=pop_ids, mask_corners=corners)
    if folded:
        fs = fs.fold()
    return fs


def data_dict_fix(npop):
    """A small SNP dictionary: calls of 6 (sometimes 5) chromosomes in pop A, 4 in pop B."""
    dd = {}
    calls = [((5, 1), (3, 1)), ((4, 2), (2, 2)), ((3, 3), (4, 0)), ((5, 1), (1, 3)), ((2, 3), (3, 1)), ((1, 5), (2, 2)),
             ((4, 2), (3, 1)), ((6, 0), (2, 2)), ((3, 2), (4, 0))]
    for k, (a, b) in enumerate(calls):
        dd['snp%d' % k] = {'segregating': ('A', 'G'), 'outgroup_allele': 'A' if k % 3 else 'G', 'context': '-A-',
                           'outgroup_context': '-A-', 'calls': {'A': a, 'B': b}}
    return dd


# model functions used by the uncertainty calls: two different models with equal (params, ns, pts)
def model_A(p, ns, pts):
    import dadi
    nu, T = p
    xx = dadi.Numerics.default_grid(pts if not hasattr(pts, '__len__') else pts[0])
    phi = dadi.PhiManip.phi_1D(xx)
    phi = dadi.Integration.one_pop(phi, xx, T, nu)
    return dadi.Spectrum.from_phi(phi, ns, (xx,))


def model_B(p, ns, pts):
    import dadi
    nu, T = p
    xx = dadi.Numerics.default_grid(pts if not hasattr(pts, '__len__') else pts[0])
    phi = dadi.PhiManip.phi_1D(xx, gamma=-1.5)
    phi = dadi.Integration.one_pop(phi, xx, T, nu, gamma=-1.5)
    return dadi.Spectrum.from_phi(phi, ns, (xx,))


MODELS = {'A': model_A, 'B': model_B}
CURRENT = {'model': '?', 'fn': '?', 'k': 1}   # model / function-object identity of the running call (for abstracting Godambe.cache keys)


def god_data(ns=(6,)):
    import numpy as np
    import dadi
    d = np.array([0.0, 39.2, 14.1, 7.5, 4.8, 3.3, 0.0])      # between the two models' expectations: both information matrices are positive definite
    return dadi.Spectrum(d)


# --------------------------------------------------------------------------------------------------
# the call alphabet
# --------------------------------------------------------------------------------------------------
REG = {}


def reg(name, site, integrator=False):
    def deco(f):
        REG[name] = {'make': f, 'site': site, 'integrator': integrator}
        return f
    return deco


def _mk_project(name, shape, ns, folded=False):
    @reg(name, 'Spectrum.project')
    def mk(lay, xl):
        fs = fs_fix(shape, 11, folded=folded, lay=lay)
        return {'fs': fs}, (lambda a: a['fs'].project(list(ns)))


_mk_project('project_1d_8_4', (9,), (4,))
_mk_project('project_1d_8_6', (9,), (6,))
_mk_project('project_1d_6_4', (7,), (4,))
_mk_project('project_2d_64_43', (7, 5), (4, 3))
_mk_project('project_2d_64_44', (7, 5), (4, 4))
_mk_project('project_1d_6_4_folded', (7,), (4,), folded=True)


def _mk_stat(name, site, shape, fn, interior_mask=False, folded=False, corners=True):
    @reg(name, site)
    def mk(lay, xl):
        fs = fs_fix(shape, 23, interior_mask=interior_mask, lay=lay, folded=folded, corners=corners)
        return {'fs': fs}, (lambda a: fn(a['fs']))


# (corner entries present and unmasked: S() masks them temporarily and must restore the caller's mask)
_mk_stat('S_1d', 'Spectrum.S', (9,), lambda fs: fs.S(), interior_mask=True, corners=False)
_mk_stat('S_2d', 'Spectrum.S', (5, 4), lambda fs: fs.S(), interior_mask=True, corners=False)
_mk_stat('pi_1d', 'Spectrum.pi', (9,), lambda fs: fs.pi())
_mk_stat('watterson_1d', 'Spectrum.Watterson_theta', (9,), lambda fs: fs.Watterson_theta())
_mk_stat('tajima_1d', 'Spectrum.Tajima_D', (9,), lambda fs: fs.Tajima_D())
_mk_stat('fst_2d', 'Spectrum.Fst', (5, 4), lambda fs: fs.Fst())
_mk_stat('fold_2d', 'Spectrum.fold', (5, 4), lambda fs: fs.fold(), interior_mask=True)
_mk_stat('unfold_2d', 'Spectrum.unfold', (5, 4), lambda fs: fs.unfold(), folded=True)
_mk_stat('marginalize_2d', 'Spectrum.marginalize', (5, 4), lambda fs: fs.marginalize([1]))
_mk_stat('marginalize_3d', 'Spectrum.marginalize', (4, 3, 3), lambda fs: fs.marginalize([0, 2]))
_mk_stat('combine_3d', 'Spectrum.combine_pops', (4, 3, 3), lambda fs: fs.combine_pops([1, 3]))
_mk_stat('filter_3d', 'Spectrum.filter_pops', (4, 3, 3), lambda fs: fs.filter_pops([1, 3]))
_mk_stat('reorder_fs_3d', 'Spectrum.reorder_pops', (4, 3, 3), lambda fs: fs.reorder_pops([3, 1, 2]))
_mk_stat('log_2d', 'Spectrum.log', (5, 4), lambda fs: fs.log())


@reg('from_data_dict_1d_4', 'Spectrum.from_data_dict')
def _fdd1(lay, xl):
    import dadi
    dd = data_dict_fix(1)
    return {'pop_ids': ['A'], 'projections': [4]}, (lambda a: dadi.Spectrum.from_data_dict(dd, a['pop_ids'], a['projections']))


@reg('from_data_dict_2d_43', 'Spectrum.from_data_dict')
def _fdd2(lay, xl):
    import dadi
    dd = data_dict_fix(2)
    return {'pop_ids': ['A', 'B'], 'projections': [4, 3]}, (lambda a: dadi.Spectrum.from_data_dict(dd, a['pop_ids'], a['projections']))


@reg('from_data_dict_1d_4_unpol', 'Spectrum.from_data_dict')
def _fdd3(lay, xl):
    import dadi
    dd = data_dict_fix(1)
    return {'pop_ids': ['A'], 'projections': [4]}, (lambda a: dadi.Spectrum.from_data_dict(dd, a['pop_ids'], a['projections'], polarized=False))


# ---- sampling from phi -------------------------------------------------------------------------
def _mk_from_phi(name, d, n, ns, gk='A'):
    @reg(name, 'Spectrum.from_phi')
    def mk(lay, xl):
        import dadi
        xx = lay1(grid(gk, n), xl)
        phi = layn(phi_fix(d, n, gk), lay)
        return {'phi': phi, 'xx': xx, 'ns': list(ns)}, (lambda a: dadi.Spectrum.from_phi(a['phi'], a['ns'], (a['xx'],) * d))


_mk_from_phi('from_phi_1d_6', 1, 10, (6,))
_mk_from_phi('from_phi_2d_43_A', 2, 8, (4, 3))
_mk_from_phi('from_phi_2d_34_A', 2, 8, (3, 4))
_mk_from_phi('from_phi_2d_43_B', 2, 8, (4, 3), gk='B')
_mk_from_phi('from_phi_3d_432_A', 3, 8, (4, 3, 2))
_mk_from_phi('from_phi_2d_22_A6', 2, 6, (2, 2))
_mk_from_phi('from_phi_4d_2222', 4, 6, (2, 2, 2, 2))
_mk_from_phi('from_phi_5d_22222', 5, 6, (2, 2, 2, 2, 2))


def _mk_from_phi_inb(name, d, n, ns, Fs):
    @reg(name, 'Spectrum.from_phi_inbreeding')
    def mk(lay, xl):
        import dadi
        xx = lay1(grid('A', n), xl)
        phi = layn(phi_fix(d, n), lay)
        return ({'phi': phi, 'xx': xx, 'ns': list(ns), 'Fs': list(Fs), 'ploidys': [2] * d},
                (lambda a: dadi.Spectrum.from_phi_inbreeding(a['phi'], a['ns'], (a['xx'],) * d, a['Fs'], a['ploidys'])))


_mk_from_phi_inb('from_phi_inb_1d_4', 1, 7, (4,), (0.3,))
_mk_from_phi_inb('from_phi_inb_1d_6', 1, 7, (6,), (0.3,))
_mk_from_phi_inb('from_phi_inb_2d_42', 2, 7, (4, 2), (0.3, 0.3))


# ---- Numerics helpers -----------------------------------------------------------------------------
def _mk_num(name, site, fn):
    @reg(name, site)
    def mk(lay, xl):
        return {}, (lambda a: fn())


def _N():
    import dadi
    return dadi.Numerics


_mk_num('cached_part_4_3', 'Numerics.cached_part', lambda: _N().cached_part(4, 3))
_mk_num('cached_part_3_3', 'Numerics.cached_part', lambda: _N().cached_part(3, 3))
_mk_num('part_4_3', 'Numerics.part', lambda: [list(p) for p in _N().part(4, 3)])
_mk_num('cached_part_precalc_4_3', 'Numerics.cached_part_precalc', lambda: [list(map(list, _N().cached_part_precalc(4, 3)[0])), list(_N().cached_part_precalc(4, 3)[1])])
_mk_num('multinomln_121', 'Numerics.multinomln', lambda: float(_N().multinomln([1, 2, 1])))
_mk_num('betabinomln', 'Numerics.BetaBinomln', lambda: float(_N().BetaBinomln(1, 2, 0.75, 1.25)))
_mk_num('betabinomconv_4_3', 'Numerics.BetaBinomConvolution', lambda: float(_N().BetaBinomConvolution(4, 3, 0.75, 1.25)))
_mk_num('cached_projection_4_6_3', 'Numerics._cached_projection', lambda: _N()._cached_projection(4, 6, 3))


# ---- LowPass helpers --------------------------------------------------------------------------------
def _LP():
    import dadi.LowPass.LowPass as LP
    return LP


_mk_num('lowpass_projmat_6_4', 'LowPass.projection_matrix', lambda: _LP().projection_matrix(6, 4, 0))
_mk_num('lowpass_projmat_6_4_F', 'LowPass.projection_matrix', lambda: _LP().projection_matrix(6, 4, 0.25))
_mk_num('lowpass_partprob_af_6_4', 'LowPass.partitions_and_probabilities',
        lambda: _LP().partitions_and_probabilities(6, 'allele_frequency', 0, 4))
_mk_num('lowpass_partprob_af_6_3_F', 'LowPass.partitions_and_probabilities',
        lambda: _LP().partitions_and_probabilities(6, 'allele_frequency', 0.25, 3))
_mk_num('lowpass_partprob_geno_6', 'LowPass.partitions_and_probabilities',
        lambda: _LP().partitions_and_probabilities(6, 'genotype'))


@reg('lowpass_calling_error_4', 'LowPass.calling_error_matrix')
def _lce(lay, xl):
    import numpy as np
    cov = np.array([[0, 1, 2, 3, 4], [0.05, 0.25, 0.3, 0.25, 0.15]])
    return {'cov': cov}, (lambda a: _LP().calling_error_matrix(a['cov'], 4))


@reg('lowpass_prob_enough_6_4', 'LowPass.probability_enough_individuals_covered')
def _lpe(lay, xl):
    import numpy as np
    cov = np.array([[0, 1, 2, 3, 4], [0.05, 0.25, 0.3, 0.25, 0.15]])
    return {'cov': cov}, (lambda a: _LP().probability_enough_individuals_covered(a['cov'], 6, 4))


# ---- low-pass correction of a 2-D model (hash-seed sensitive path: dict of per-population coverage) ---------------
def lowpass_dd_fix():
    """SNP dictionary with per-individual depths for two populations of CLEARLY different coverage
    (3 diploid individuals each): YRI ~ 8-12x, CEU ~ 0-2x."""
    yri = [[9, 11, 8], [10, 12, 9], [8, 9, 11], [12, 10, 10], [9, 8, 12], [11, 11, 9]]
    ceu = [[1, 0, 2], [0, 1, 1], [2, 1, 0], [1, 1, 1], [0, 2, 1], [1, 0, 0]]
    return {'snp%d' % k: {'coverage': {'YRI': yri[k], 'CEU': ceu[k]}} for k in range(6)}


def model_2d(p, ns, pts):
    import dadi
    xx = dadi.Numerics.default_grid(pts if not hasattr(pts, '__len__') else pts[0])
    phi = dadi.PhiManip.phi_1D(xx)
    phi = dadi.PhiManip.phi_1D_to_2D(xx, phi)
    phi = dadi.Integration.two_pops(phi, xx, p[1], nu1=p[0], nu2=1.0, m12=0.5, m21=0.5)
    return dadi.Spectrum.from_phi(phi, ns, (xx, xx))


# Population labels: the order of set(['YRI', 'CEU']) (which a dict built by iterating over a set inherits) is
# ['YRI', 'CEU'] under PYTHONHASHSEED 0, 3, 11, 12 and ['CEU', 'YRI'] under 1, 2, 13 (verified by experiment with
# this interpreter): the replay seeds {0, 1} and the fresh-interpreter seeds {11, 13} of the quick tier each contain
# both classes (thorough: {0, 1, 2} and {11, 12, 13}).
@reg('lowpass_func_2d', 'LowPass.make_low_pass_func_GATK_multisample')
def _lpf(lay, xl):
    def run(a):
        LP = _LP()
        cov_dist = LP.compute_cov_dist(lowpass_dd_fix(), a['pop_ids'])
        f = LP.make_low_pass_func_GATK_multisample(model_2d, cov_dist, a['pop_ids'], a['nseq'], a['nsub'], sim_threshold=1.0)   # analytic: no RNG
        return f(a['params'], a['nsub'], 8)
    return {'pop_ids': ['YRI', 'CEU'], 'nseq': [6, 6], 'nsub': [4, 4], 'params': [1.5, 0.05]}, run


@reg('lowpass_cov_dist_2pop', 'LowPass.compute_cov_dist')
def _lcd(lay, xl):
    return {'pop_ids': ['YRI', 'CEU']}, (lambda a: _LP().compute_cov_dist(lowpass_dd_fix(), a['pop_ids']))


# ---- demes graphs with ancient samples -------------------------------------------------------------------------------
def demes_graph_fix():
    import demes
    b = demes.Builder(time_units='generations')
    b.add_deme('anc', epochs=[dict(start_size=1000, end_time=400)])
    b.add_deme('A', ancestors=['anc'], epochs=[dict(start_size=800)])
    b.add_deme('B', ancestors=['anc'], epochs=[dict(start_size=1500)])
    return b.resolve()


def _mk_demes_sfs(name, site, times, fn):
    @reg(name, site)
    def mk(lay, xl):
        g = demes_graph_fix()
        args = {'sampled_demes': ['A', 'B'], 'sample_sizes': [4, 2]}
        if times is not None:
            args['sample_times'] = list(times)
        return args, (lambda a: fn(g, a))


def _D():
    import dadi
    import dadi.Demes
    return dadi


_mk_demes_sfs('demes_sfs_ancient', 'Demes.SFS', [0, 120],
              lambda g, a: _D().Demes.SFS(g, a['sampled_demes'], a['sample_sizes'], 8, sample_times=a['sample_times']))
_mk_demes_sfs('demes_sfs_present', 'Demes.SFS', None,
              lambda g, a: _D().Demes.SFS(g, a['sampled_demes'], a['sample_sizes'], 8))
_mk_demes_sfs('from_demes_ancient', 'Spectrum.from_demes', [0, 120],
              lambda g, a: _D().Spectrum.from_demes(g, a['sampled_demes'], a['sample_sizes'], pts=[5, 6, 8], sample_times=a['sample_times']))


# ---- integrators -------------------------------------------------------------------------------------
INT_N = {1: 10, 2: 8, 3: 6, 4: 5, 5: 4}
INT_FUNC = {1: 'one_pop', 2: 'two_pops', 3: 'three_pops', 4: 'four_pops', 5: 'five_pops'}


def _int_kwargs(P, td):
    nu = [1.7, 0.6, 2.3, 1.2, 0.8]
    gam = [-0.8, 0.5, 0.0, -0.3, 0.4]
    hh = [0.3, 0.5, 0.7, 0.5, 0.5]
    kw = {}
    if P == 1:
        kw.update(nu=nu[0], gamma=gam[0], h=hh[0], theta0=1.3)
        if td:
            kw['nu'] = lambda t: 1.7 + 2.0 * t
        return kw
    for k in range(1, P + 1):
        kw['nu%d' % k] = nu[k - 1]
        kw['gamma%d' % k] = gam[k - 1]
        kw['h%d' % k] = hh[k - 1]
    kw['m12'] = 0.9
    kw['m21'] = 0.4
    if P >= 3:
        kw['m23'] = 0.7
        kw['m31'] = 0.2
    kw['theta0'] = 1.3
    if td:
        kw['nu1'] = lambda t: 1.7 + 2.0 * t
    return kw


def _mk_int(P, td, gk='A'):
    name = INT_FUNC[P] + ('_td' if td else '_c') + ('' if gk == 'A' else '_' + gk)

    @reg(name, 'Integration.' + INT_FUNC[P], integrator=True)
    def mk(lay, xl):
        import dadi
        n = INT_N[P]
        xx = lay1(grid(gk, n), xl)
        phi = layn(phi_fix(P, n, gk), lay)
        f = getattr(dadi.Integration, INT_FUNC[P])
        T = {1: 0.01, 2: 0.01, 3: 0.01, 4: 0.008, 5: 0.006}[P]
        return {'phi': phi, 'xx': xx}, (lambda a: f(a['phi'], a['xx'], T, **_int_kwargs(P, td)))


for _P in range(1, 6):
    _mk_int(_P, False)
    _mk_int(_P, True)
    # the same time-dependent call on a second grid with the SAME number of points but other spacings (uniform):
    # a compiled kernel must not remember anything grid-derived from an earlier call
    _mk_int(_P, True, gk='B')


@reg('two_pops_frozen', 'Integration.two_pops', integrator=True)
def _tpf(lay, xl):
    import dadi
    xx = lay1(grid('A', 8), xl)
    phi = layn(phi_fix(2, 8), lay)
    return {'phi': phi, 'xx': xx}, (lambda a: dadi.Integration.two_pops(a['phi'], a['xx'], 0.01, nu1=1.5, nu2=0.7, frozen2=True))


# ---- PhiManip ---------------------------------------------------------------------------------------
def _mk_phim(name, site, d, n, fn, needs_xx=True):
    @reg(name, 'PhiManip.' + site)
    def mk(lay, xl):
        import dadi
        xx = lay1(grid('A', n), xl)
        args = {'xx': xx}
        if d:
            args['phi'] = layn(phi_fix(d, n), lay)
        return args, (lambda a: fn(dadi.PhiManip, a))


_mk_phim('phi_1D', 'phi_1D', 0, 10, lambda PM, a: PM.phi_1D(a['xx'], nu=1.3, gamma=-0.7, h=0.3))
_mk_phim('phi_1D_genic', 'phi_1D', 0, 10, lambda PM, a: PM.phi_1D(a['xx'], nu=1.3, gamma=-0.7))
_mk_phim('phi_1D_to_2D', 'phi_1D_to_2D', 1, 8, lambda PM, a: PM.phi_1D_to_2D(a['xx'], a['phi']))
_mk_phim('phi_2D_to_3D_split_1', 'phi_2D_to_3D_split_1', 2, 6, lambda PM, a: PM.phi_2D_to_3D_split_1(a['xx'], a['phi']))
_mk_phim('phi_2D_to_3D_admix', 'phi_2D_to_3D_admix', 2, 6, lambda PM, a: PM.phi_2D_to_3D_admix(a['phi'], 0.3, a['xx'], a['xx'], a['xx']))
_mk_phim('phi_2D_admix_1_into_2', 'phi_2D_admix_1_into_2', 2, 8, lambda PM, a: PM.phi_2D_admix_1_into_2(a['phi'], 0.2, a['xx'], a['xx']))
_mk_phim('phi_3D_admix_1_and_2_into_3', 'phi_3D_admix_1_and_2_into_3', 3, 6, lambda PM, a: PM.phi_3D_admix_1_and_2_into_3(a['phi'], 0.2, 0.1, a['xx'], a['xx'], a['xx']))
_mk_phim('phi_3D_to_4D', 'phi_3D_to_4D', 3, 5, lambda PM, a: PM.phi_3D_to_4D(a['phi'], 0.2, 0.3, a['xx'], a['xx'], a['xx'], a['xx']))
_mk_phim('phi_4D_to_5D', 'phi_4D_to_5D', 4, 4, lambda PM, a: PM.phi_4D_to_5D(a['phi'], 0.2, 0.3, 0.1, a['xx'], a['xx'], a['xx'], a['xx'], a['xx']))
_mk_phim('remove_pop_3d_2', 'remove_pop', 3, 6, lambda PM, a: PM.remove_pop(a['phi'], a['xx'], 2))
_mk_phim('reorder_pops_3d', 'reorder_pops', 3, 6, lambda PM, a: PM.reorder_pops(a['phi'], [3, 1, 2]))


# ---- likelihoods ---------------------------------------------------------------------------------------
def _mk_ll(name, site, fn, shape=(5, 4)):
    @reg(name, 'Inference.' + site)
    def mk(lay, xl):
        import dadi
        model = fs_fix(shape, 31, lay=lay)
        data = fs_fix(shape, 37, lay=xl if xl in ('C',) else 'C', interior_mask=True)
        data = dadi.Spectrum(data.data.round(), mask=data.mask)
        return {'model': model, 'data': data}, (lambda a: fn(dadi.Inference, a['model'], a['data']))


_mk_ll('ll_2d', 'll', lambda I, m, d: float(I.ll(m, d)))
_mk_ll('ll_multinom_2d', 'll_multinom', lambda I, m, d: float(I.ll_multinom(m, d)))
_mk_ll('optimal_sfs_scaling_2d', 'optimal_sfs_scaling', lambda I, m, d: float(I.optimal_sfs_scaling(m, d)))
_mk_ll('ll_per_bin_2d', 'll_per_bin', lambda I, m, d: I.ll_per_bin(m, d))
_mk_ll('anscombe_2d', 'Anscombe_Poisson_residual', lambda I, m, d: I.Anscombe_Poisson_residual(m, d))
_mk_ll('ll_3d', 'll', lambda I, m, d: float(I.ll(m, d)), shape=(4, 3, 3))


def _mk_objfunc(name, model, store):
    @reg(name, 'Inference._object_func')
    def mk(lay, xl):
        import dadi
        data = god_data()
        params = [1.8, 0.12]
        lb, ub = [0.1, None], [None, 3.0]

        def run(a):
            CURRENT['model'] = model
            import io
            return float(dadi.Inference._object_func(a['params'], a['data'], MODELS[model], [10], lower_bound=a['lower_bound'],
                                                     upper_bound=a['upper_bound'], verbose=0, store_thetas=store,
                                                     output_stream=io.StringIO()))
        return {'params': params, 'data': data, 'lower_bound': lb, 'upper_bound': ub}, run


_mk_objfunc('object_func_A', 'A', False)
_mk_objfunc('object_func_B_store', 'B', True)


@reg('optimize_grid_A', 'Inference.optimize_grid')
def _og(lay, xl):
    import dadi
    import numpy as np
    data = god_data()

    def run(a):
        CURRENT['model'] = 'A'
        r = dadi.Inference.optimize_grid(a['data'], model_A, [10], np.index_exp[1.0:2.1:0.5, 0.1:0.21:0.1], full_output=True)
        return [np.asarray(x) for x in r]
    return {'data': data}, run


# ---- optimiser helper ---------------------------------------------------------------------------------
@reg('perturb_params_none_bounds', 'Misc.perturb_params')
def _pp(lay, xl):
    import dadi
    import numpy as np
    params = [1.5, 0.2, 3.0]
    lb = [None, 0.15, 1e-2]
    ub = [10.0, None, 3.2]

    def run(a):
        np.random.seed(5)        # the perturbation is random by contract: the call is (seed; perturb)
        return np.asarray(dadi.Misc.perturb_params(a['params'], fold=1, lower_bound=a['lower_bound'], upper_bound=a['upper_bound']))
    return {'params': params, 'lower_bound': lb, 'upper_bound': ub}, run


@reg('perturb_params_array', 'Misc.perturb_params')
def _pp2(lay, xl):
    import dadi
    import numpy as np
    params = layn(np.array([1.5, 0.2, 3.0]), 'N' if lay == 'N' else ('S' if lay == 'S' else 'C'))

    def run(a):
        np.random.seed(6)
        return np.asarray(dadi.Misc.perturb_params(a['params'], fold=2, lower_bound=a['lower_bound'], upper_bound=a['upper_bound']))
    return {'params': params, 'lower_bound': [0.1, 0.1, 0.1], 'upper_bound': [10.0, 10.0, 10.0]}, run


# ---- uncertainty ---------------------------------------------------------------------------------------
def _mk_fim(name, model, site='FIM_uncert', transient=True):
    @reg(name, 'Godambe.' + site)
    def mk(lay, xl):
        import dadi
        import numpy as np
        data = god_data()
        p0 = [1.8, 0.12, 25.0]

        def run(a):
            CURRENT['model'] = model
            CURRENT['fn'] = ('t%d' % CURRENT['k']) if transient else 'named'     # a transient lambda is a new function object in every call
            impl = MODELS[model]
            # a transient model function, as users write them: theta is an explicit last parameter (multinom=False)
            f = _transient_model(impl) if transient else _PERSISTENT[model]
            if site == 'FIM_uncert':
                return np.asarray(dadi.Godambe.FIM_uncert(f, a['pts'], a['p0'], a['data'], multinom=False, eps=0.05))
            boots = [dadi.Spectrum(np.array([0.0, 36.0 + 2 * k, 16.0 - k, 7.0 + (k % 2), 5.0, 4.0 - (k % 3), 0.0])) for k in range(4)]
            return np.asarray(dadi.Godambe.GIM_uncert(f, a['pts'], boots, a['p0'], a['data'], multinom=False, eps=0.05))
        return {'p0': p0, 'pts': [10], 'data': data}, run


def _transient_model(impl):
    """A model function written as a lambda at the call site, theta as explicit last parameter.  CPython frees it
    when the call returns and may give its address to the next such lambda; whether it does depends on unrelated
    allocations.  The evaluator steers the allocator towards that (naturally occurring) case: it keeps creating the
    lambda until it sits at the address of the previous call's lambda, if that address is free."""
    want = CURRENT.get('last_lambda_addr')
    keep = []
    f = None
    for _ in range(3000):
        f = (lambda p, ns, pts: p[2] * impl(p[:2], ns, pts))
        if want is None or id(f) == want:
            break
        keep.append(f)
    CURRENT['last_lambda_addr'] = id(f)
    del keep
    return f


def _persist_A(p, ns, pts):
    return p[2] * model_A(p[:2], ns, pts)


def _persist_B(p, ns, pts):
    return p[2] * model_B(p[:2], ns, pts)


_PERSISTENT = {'A': _persist_A, 'B': _persist_B}
_mk_fim('fim_A', 'A')
_mk_fim('fim_B', 'B')
_mk_fim('gim_A', 'A', site='GIM_uncert')
_mk_fim('gim_B', 'B', site='GIM_uncert')
_mk_fim('fim_A_named', 'A', transient=False)
_mk_fim('fim_B_named', 'B', transient=False)


# ======================================================================================================================
# alphabet extension (quantifier audit): the remaining public functions of dadi.Spectrum / Numerics / Inference / Misc /
# PhiManip / Integration / Godambe / LowPass / DFE.PDFs that take array or list arguments or touch module-level state
# ======================================================================================================================
def _np():
    import numpy
    return numpy


def _mk_fs(name, site, shape, fn, **kw):
    @reg(name, site)
    def mk(lay, xl):
        fs = fs_fix(shape, 41, lay=lay, **kw)
        return {'fs': fs}, (lambda a: fn(a['fs']))


def _seeded(k, f):
    def g(*a):
        import numpy as np
        np.random.seed(k)       # random by contract: the call is (seed; call)
        return f(*a)
    return g


_mk_fs('zengs_E_1d', 'Spectrum.Zengs_E', (9,), lambda fs: fs.Zengs_E())
_mk_fs('theta_L_1d', 'Spectrum.theta_L', (9,), lambda fs: fs.theta_L())
_mk_fs('combine_two_pops_3d', 'Spectrum.combine_two_pops', (4, 3, 3), lambda fs: fs.combine_two_pops([1, 3]))
_mk_fs('scramble_2d', 'Spectrum.scramble_pop_ids', (4, 4), lambda fs: fs.scramble_pop_ids())
_mk_fs('sample_2d', 'Spectrum.sample', (5, 4), _seeded(3, lambda fs: fs.sample()))
_mk_fs('fixed_size_sample_1d', 'Spectrum.fixed_size_sample', (9,), _seeded(4, lambda fs: fs.fixed_size_sample(25)))
_mk_fs('apply_anc_state_misid_2d', 'Numerics.apply_anc_state_misid', (5, 4), lambda fs: _N().apply_anc_state_misid(fs, 0.07))
_mk_fs('misc_combine_pops_3d', 'Misc.combine_pops', (4, 3, 3), lambda fs: __import__('dadi').Misc.combine_pops(fs))
_mk_fs('ll_multinom_per_bin_2d', 'Inference.ll_multinom_per_bin', (5, 4),
       lambda fs: __import__('dadi').Inference.ll_multinom_per_bin(fs, fs_fix((5, 4), 37, interior_mask=True)))
_mk_fs('optimally_scaled_sfs_2d', 'Inference.optimally_scaled_sfs', (5, 4),
       lambda fs: __import__('dadi').Inference.optimally_scaled_sfs(fs, fs_fix((5, 4), 37, interior_mask=True)))
_mk_fs('linear_residual_2d', 'Inference.linear_Poisson_residual', (5, 4),
       lambda fs: __import__('dadi').Inference.linear_Poisson_residual(fs, fs_fix((5, 4), 37, interior_mask=True)))


@reg('fs_add_2d', 'Spectrum.__add__')
def _fsadd(lay, xl):
    a, b = fs_fix((5, 4), 41, lay=lay), fs_fix((5, 4), 43, lay=lay, interior_mask=True)
    return {'a': a, 'b': b}, (lambda x: x['a'] + x['b'])


@reg('to_file_2d', 'Spectrum.to_file')
def _tofile(lay, xl):
    import tempfile

    def run(a):
        with tempfile.NamedTemporaryFile('r', suffix='.fs', dir='/var/tmp') as f:
            a['fs'].to_file(f.name, comment_lines=a['comment_lines'])
            return open(f.name).read()
    return {'fs': fs_fix((5, 4), 41, lay=lay, pop_ids=['A', 'B']), 'comment_lines': ['first', 'second']}, run


@reg('intersect_masks_2d', 'Numerics.intersect_masks')
def _imask(lay, xl):
    np = _np()
    rs = np.random.RandomState(5)
    m1, m2 = rs.uniform(size=(5, 4)) < 0.3, rs.uniform(size=(5, 4)) < 0.3
    return {'m1': layn(m1, lay), 'm2': layn(m2, lay)}, (lambda a: [np.asarray(x) for x in _N().intersect_masks(a['m1'], a['m2'])])


@reg('reverse_array_3d', 'Numerics.reverse_array')
def _rev(lay, xl):
    return {'arr': layn(phi_fix(3, 4), lay)}, (lambda a: _N().reverse_array(a['arr']))


@reg('trapz_2d', 'Numerics.trapz')
def _trapz(lay, xl):
    return {'yy': layn(phi_fix(2, 8), lay), 'xx': lay1(grid('A', 8), xl)}, (lambda a: _N().trapz(a['yy'], a['xx'], axis=0))


@reg('end_point_first_derivs', 'Numerics.end_point_first_derivs')
def _epfd(lay, xl):
    return {'xx': lay1(grid('A', 8), xl)}, (lambda a: _N().end_point_first_derivs(a['xx']))


@reg('quadratic_extrap', 'Numerics.quadratic_extrap')
def _qextrap(lay, xl):
    ys = [fs_fix((5,), 50 + k) for k in range(3)]
    return {'ys': ys, 'xs': [0.1, 0.07, 0.05]}, (lambda a: _N().quadratic_extrap(a['ys'], a['xs']))


@reg('extrap_func_A', 'Numerics.make_extrap_func')
def _exf(lay, xl):
    def run(a):
        CURRENT['model'] = 'A'
        return _N().make_extrap_func(model_A)(a['params'], a['ns'], a['pts'])
    return {'params': [1.8, 0.12], 'ns': [6], 'pts': [8, 10, 12]}, run


# ---- sampling from phi: the remaining code paths (direct integration, admixture proportions, ascertainment) and
#      argument container types (tuple / list / array for ns and xxs)
def _mk_from_phi_opt(name, d, n, ns, **kw):
    @reg(name, 'Spectrum.from_phi')
    def mk(lay, xl):
        import dadi
        xx = lay1(grid('A', n), xl)
        phi = layn(phi_fix(d, n), lay)
        args = {'phi': phi, 'xx': xx, 'ns': list(ns)}
        if 'admix_props' in kw:
            args['admix_props'] = [list(r) for r in kw['admix_props']]
        rest = {k: v for k, v in kw.items() if k != 'admix_props'}
        return args, (lambda a: dadi.Spectrum.from_phi(a['phi'], a['ns'], (a['xx'],) * d, **dict(rest, **({'admix_props': a['admix_props']} if 'admix_props' in a else {}))))


_mk_from_phi_opt('from_phi_1d_direct', 1, 10, (6,), force_direct=True)
_mk_from_phi_opt('from_phi_2d_direct', 2, 8, (4, 3), force_direct=True)
_mk_from_phi_opt('from_phi_3d_direct', 3, 6, (3, 2, 2), force_direct=True)
_mk_from_phi_opt('from_phi_2d_admix_props', 2, 8, (4, 3), admix_props=((0.8, 0.2), (0.0, 1.0)))
_mk_from_phi_opt('from_phi_2d_het_xx', 2, 8, (4, 3), het_ascertained='xx')
_mk_from_phi_inb('from_phi_inb_3d_422', 3, 7, (4, 2, 2), (0.3, 0.3, 0.3))


@reg('from_phi_2d_43_A_containers', 'Spectrum.from_phi')
def _fpc(lay, xl):
    import dadi
    np = _np()
    xx = grid('A', 8)
    return ({'phi': phi_fix(2, 8), 'ns': np.array([4, 3]), 'xxs': [xx, xx.copy()]},
            (lambda a: dadi.Spectrum.from_phi(a['phi'], a['ns'], a['xxs'])))


@reg('project_2d_64_43_nsarray', 'Spectrum.project')
def _pja(lay, xl):
    np = _np()
    return {'fs': fs_fix((7, 5), 11), 'ns': np.array([4, 3])}, (lambda a: a['fs'].project(a['ns']))


# ---- Misc ------------------------------------------------------------------------------------------------------------
@reg('ms_command', 'Misc.ms_command')
def _msc(lay, xl):
    import dadi
    return {'ns': [4, 6], 'seeds': [1, 2, 3]}, (lambda a: dadi.Misc.ms_command(1.5, a['ns'], '-n 1 0.5 -ej 0.1 2 1', 10, seeds=a['seeds']))


@reg('count_data_dict', 'Misc.count_data_dict')
def _cdd(lay, xl):
    import dadi
    dd = data_dict_fix(2)
    return {'pop_ids': ['A', 'B']}, (lambda a: {repr(k): v for k, v in dadi.Misc.count_data_dict(dd, a['pop_ids']).items()})


def _mk_Q(name, site, fn):
    @reg(name, site)
    def mk(lay, xl):
        np = _np()
        Q = np.random.RandomState(9).uniform(0.1, 1.0, size=(4, 4))
        return {'Q': layn(Q, lay), 'pi': np.array([0.1, 0.2, 0.3, 0.4])}, (lambda a: fn(__import__('dadi').Misc, a))


_mk_Q('zero_diag', 'Misc.zero_diag', lambda M, a: M.zero_diag(a['Q']))
_mk_Q('total_instantaneous_rate', 'Misc.total_instantaneous_rate', lambda M, a: float(M.total_instantaneous_rate(a['Q'], a['pi'])))


# ---- PhiManip: the remaining constructors, splits and (documented in-place) pulse functions ---------------------------
_mk_phim('phi_1D_snm', 'phi_1D_snm', 0, 10, lambda PM, a: PM.phi_1D_snm(a['xx'], nu=1.3))
_mk_phim('phi_1D_X', 'phi_1D_X', 0, 10, lambda PM, a: PM.phi_1D_X(a['xx'], nu=1.3, gamma=-0.7, h=0.3, beta=1.5, alpha=2.0))
_mk_phim('phi_2D_to_3D_split_2', 'phi_2D_to_3D_split_2', 2, 6, lambda PM, a: PM.phi_2D_to_3D_split_2(a['xx'], a['phi']))
_mk_phim('phi_2D_admix_2_into_1', 'phi_2D_admix_2_into_1', 2, 8, lambda PM, a: PM.phi_2D_admix_2_into_1(a['phi'], 0.2, a['xx'], a['xx']))
_mk_phim('phi_3D_admix_1_and_3_into_2', 'phi_3D_admix_1_and_3_into_2', 3, 6, lambda PM, a: PM.phi_3D_admix_1_and_3_into_2(a['phi'], 0.2, 0.1, a['xx'], a['xx'], a['xx']))
_mk_phim('phi_3D_admix_2_and_3_into_1', 'phi_3D_admix_2_and_3_into_1', 3, 6, lambda PM, a: PM.phi_3D_admix_2_and_3_into_1(a['phi'], 0.2, 0.1, a['xx'], a['xx'], a['xx']))
for _k in (1, 2, 3, 4):
    _mk_phim('phi_4D_admix_into_%d' % _k, 'phi_4D_admix_into_%d' % _k, 4, 5,
             (lambda k: lambda PM, a: getattr(PM, 'phi_4D_admix_into_%d' % k)(a['phi'], 0.1, 0.2, 0.15, a['xx'], a['xx'], a['xx'], a['xx']))(_k))
for _k in (1, 2, 3, 4, 5):
    _mk_phim('phi_5D_admix_into_%d' % _k, 'phi_5D_admix_into_%d' % _k, 5, 4,
             (lambda k: lambda PM, a: getattr(PM, 'phi_5D_admix_into_%d' % k)(a['phi'], 0.1, 0.2, 0.15, 0.05, a['xx'], a['xx'], a['xx'], a['xx'], a['xx']))(_k))


@reg('filter_pops_3d', 'PhiManip.filter_pops')
def _fp3(lay, xl):
    import dadi
    return ({'phi': layn(phi_fix(3, 6), lay), 'xx': lay1(grid('A', 6), xl), 'tokeep': [1, 3]},
            (lambda a: dadi.PhiManip.filter_pops(a['phi'], a['xx'], a['tokeep'])))


# ---- Integration.one_pop_X ---------------------------------------------------------------------------------------------
def _mk_int_X(td):
    @reg('one_pop_X_td' if td else 'one_pop_X_c', 'Integration.one_pop_X', integrator=True)
    def mk(lay, xl):
        import dadi
        xx = lay1(grid('A', 10), xl)
        phi = layn(phi_fix(1, 10), lay)
        nu = (lambda t: 1.7 + 2.0 * t) if td else 1.7
        return {'phi': phi, 'xx': xx}, (lambda a: dadi.Integration.one_pop_X(a['phi'], a['xx'], 0.01, nu=nu, gamma=-0.8, h=0.3, beta=1.5, alpha=2.0, theta0=1.3))


_mk_int_X(False)      # (the time-dependent X-chromosome path raises NotImplementedError by design: not in the alphabet)


# ---- optimisers: list arguments (start point, bounds with None, fixed parameters) --------------------------------------
def _mk_opt(name, site, call):
    @reg(name, site)
    def mk(lay, xl):
        import io
        data = god_data()

        def run(a):
            CURRENT['model'] = 'A'
            np = _np()
            r = call(__import__('dadi').Inference, a, io.StringIO())
            return np.asarray(r)
        return {'p0': [1.8, 0.12], 'data': data, 'pts': [10], 'lower_bound': [0.1, None], 'upper_bound': [None, 3.0], 'fixed_params': [None, 0.12]}, run


def _okw(a, out, **kw):
    d = dict(lower_bound=a['lower_bound'], upper_bound=a['upper_bound'], fixed_params=a['fixed_params'], verbose=0, maxiter=2)
    d.update(kw)
    return d


_mk_opt('optimize_log_A', 'Inference.optimize_log', lambda I, a, out: I.optimize_log(a['p0'], a['data'], model_A, a['pts'], **_okw(a, out)))
_mk_opt('optimize_A', 'Inference.optimize', lambda I, a, out: I.optimize(a['p0'], a['data'], model_A, a['pts'], **_okw(a, out)))
_mk_opt('optimize_log_fmin_A', 'Inference.optimize_log_fmin', lambda I, a, out: I.optimize_log_fmin(a['p0'], a['data'], model_A, a['pts'], **_okw(a, out)))
_mk_opt('optimize_log_lbfgsb_A', 'Inference.optimize_log_lbfgsb', lambda I, a, out: I.optimize_log_lbfgsb(a['p0'], a['data'], model_A, a['pts'], **_okw(a, out)))
_mk_opt('optimize_lbfgsb_A', 'Inference.optimize_lbfgsb', lambda I, a, out: I.optimize_lbfgsb(a['p0'], a['data'], model_A, a['pts'], **_okw(a, out)))
_mk_opt('opt_nlopt_A', 'Inference.opt', lambda I, a, out: I.opt(a['p0'], a['data'], model_A, a['pts'], lower_bound=[0.1, 0.01], upper_bound=[10.0, 3.0],
                                                                  fixed_params=a['fixed_params'], maxeval=4)[0])


# ---- Godambe: likelihood-ratio adjustment (internal closure over a NAMED model function), derivative helpers -------------
def _mk_lrt(name, model):
    @reg(name, 'Godambe.LRT_adjust')
    def mk(lay, xl):
        import dadi
        np = _np()
        data = god_data()

        def run(a):
            CURRENT['model'] = model
            CURRENT['fn'] = 't%d' % CURRENT['k']      # LRT_adjust differentiates an internal closure: a new function object per call
            boots = [dadi.Spectrum(np.array([0.0, 36.0 + 2 * k, 16.0 - k, 7.0 + (k % 2), 5.0, 4.0 - (k % 3), 0.0])) for k in range(4)]
            return float(dadi.Godambe.LRT_adjust(_PERSISTENT[model], a['pts'], boots, a['p0'], a['data'], a['nested_indices'], multinom=False, eps=0.05))
        return {'p0': [1.8, 0.12, 25.0], 'pts': [10], 'data': data, 'nested_indices': [1]}, run


_mk_lrt('lrt_A', 'A')
_mk_lrt('lrt_B', 'B')


@reg('get_hess_quadratic', 'Godambe.get_hess')
def _gh(lay, xl):
    import dadi
    f = lambda p, c: -(c[0] * (p[0] - 1.0) ** 2 + c[1] * (p[1] + 0.5) ** 2 + 0.3 * p[0] * p[1])
    return {'p0': [1.2, -0.4], 'c': [2.0, 3.0]}, (lambda a: dadi.Godambe.get_hess(f, a['p0'], 0.01, args=[a['c']]))


@reg('get_grad_quadratic', 'Godambe.get_grad')
def _gg(lay, xl):
    import dadi
    f = lambda p, c: -(c[0] * (p[0] - 1.0) ** 2 + c[1] * (p[1] + 0.5) ** 2 + 0.3 * p[0] * p[1])
    return {'p0': [1.2, -0.4], 'c': [2.0, 3.0]}, (lambda a: dadi.Godambe.get_grad(f, a['p0'], 0.01, args=[a['c']]))


@reg('sum_chi2_ppf', 'Godambe.sum_chi2_ppf')
def _scp(lay, xl):
    import dadi
    np = _np()
    return {'x': layn(np.array([0.5, 1.5, 3.0, 6.0]), lay), 'weights': [0.5, 0.5]}, (lambda a: dadi.Godambe.sum_chi2_ppf(a['x'], a['weights']))


# ---- LowPass: the remaining deterministic helpers (list arguments) and the seeded subsampler ------------------------------
def _mk_lp(name, site, args, fn):
    @reg(name, 'LowPass.' + site)
    def mk(lay, xl):
        import copy
        return copy.deepcopy(args), (lambda a: fn(_LP(), a))


_mk_lp('lowpass_part_inbreeding_prob', 'part_inbreeding_probability', {'parts': [[0, 0, 2], [0, 1, 1]]}, lambda LP, a: LP.part_inbreeding_probability(a['parts'], 0.25))
_mk_lp('lowpass_projection_inbreeding', 'projection_inbreeding', {'partition': [0, 1, 2]}, lambda LP, a: LP.projection_inbreeding(a['partition'], 4))
_mk_lp('lowpass_split_list', 'split_list_by_lengths', {'input_list': [1, 2, 3, 4, 5, 6], 'lengths_list': [2, 1, 3]}, lambda LP, a: LP.split_list_by_lengths(a['input_list'], a['lengths_list']))
_mk_lp('lowpass_flatten_nested', 'flatten_nested_list', {'nested_list': [[1, 2], [3, 4]]}, lambda LP, a: LP.flatten_nested_list(a['nested_list'], '*'))


@reg('lowpass_no_call_6', 'LowPass.probability_of_no_call_1D_GATK_multisample')
def _lnc(lay, xl):
    np = _np()
    cov = np.array([[0, 1, 2, 3, 4], [0.05, 0.25, 0.3, 0.25, 0.15]])
    return {'cov': cov}, (lambda a: _LP().probability_of_no_call_1D_GATK_multisample(a['cov'], 6, 0))


@reg('lowpass_subsample_genotypes', 'LowPass.subsample_genotypes_1D')
def _lsg(lay, xl):
    np = _np()
    g = np.array([[0, 1, 2, 99], [1, 1, 0, 2], [2, 99, 99, 0], [0, 0, 1, 1]])
    def run(a):
        LP = _LP()
        # random by contract; LowPass draws from its module-level generator `rng` (seeded from the OS at import):
        # the call is (LowPass.rng = default_rng(8); subsample_genotypes_1D(...))
        LP.rng = np.random.default_rng(8)
        return LP.subsample_genotypes_1D(a['genotype_calls'], 4)
    return {'genotype_calls': g}, run


# ---- DFE.PDFs ------------------------------------------------------------------------------------------------------------
def _mk_pdf(name, fname, params, two=False):
    @reg(name, 'DFE.PDFs.' + fname)
    def mk(lay, xl):
        import dadi.DFE.PDFs as P
        np = _np()
        xx = layn(np.array([0.05, 0.3, 0.9, 2.0, 5.5, 12.0]), lay)
        args = {'xx': xx, 'params': list(params)}
        if two:
            args['yy'] = lay1(np.array([0.1, 0.4, 1.1, 3.0, 7.0, 9.0]), xl)
            return args, (lambda a: getattr(P, fname)(a['xx'], a['yy'], a['params']))
        return args, (lambda a: getattr(P, fname)(a['xx'], a['params']))


_mk_pdf('pdf_gamma', 'gamma', (0.4, 3.0))
_mk_pdf('pdf_lognormal', 'lognormal', (0.5, 1.2))
_mk_pdf('pdf_exponential', 'exponential', (2.5,))
_mk_pdf('pdf_beta', 'beta', (0.8, 2.0))
_mk_pdf('pdf_biv_lognormal', 'biv_lognormal', (0.5, 1.2, 0.6), two=True)
_mk_pdf('pdf_biv_ind_gamma', 'biv_ind_gamma', (0.4, 3.0, 0.7, 2.0), two=True)
_mk_pdf('pdf_biv_lognormal_py', 'biv_lognormal_py', (0.5, 1.2, 0.6), two=True)


# ---- demes export ----------------------------------------------------------------------------------------
DEME_MAPS = {'none': None,
             'X': {'anc': ['d1_1'], 'left': ['d2_1', 'd3_1'], 'right': ['d2_2', 'd3_2']},
             'Y': {'root': ['d1_1'], 'north': ['d2_1', 'd3_1'], 'south': ['d2_2', 'd3_2']}}


def _demes_model():
    import dadi
    xx = grid('A', 8)
    phi = dadi.PhiManip.phi_1D(xx)
    phi = dadi.Integration.one_pop(phi, xx, 0.1, nu=2.0)
    phi = dadi.PhiManip.phi_1D_to_2D(xx, phi)
    phi = dadi.Integration.two_pops(phi, xx, 0.05, nu1=1.5, nu2=0.5, m12=1.0, m21=0.5)
    return phi


def _mk_demes(name, mapping, again):
    @reg(name, 'Demes.output')
    def mk(lay, xl):
        import dadi

        def run(a):
            if not again or not _DEMES_STATE.get('model'):
                # the event log is the implicit argument of Demes.output: (re)build it unless it is this model's already
                _demes_model()
                _DEMES_STATE['model'] = True
            return dadi.Demes.output(Nref=1000.0, deme_mapping=a['deme_mapping'])
        import copy
        return {'deme_mapping': copy.deepcopy(DEME_MAPS[mapping])}, run


_DEMES_STATE = {}
_mk_demes('demes_output_X', 'X', False)
_mk_demes('demes_output_Y', 'Y', False)
_mk_demes('demes_output_none', 'none', False)
_mk_demes('demes_output_again_X', 'X', True)
_mk_demes('demes_output_again_Y', 'Y', True)
_mk_demes('demes_output_again_none', 'none', True)
# any other call that appends to / resets the event log invalidates "the log is this model's"
LOG_TOUCHING_SITES = ('Integration.', 'PhiManip.', 'Godambe.', 'Inference._object_func', 'Inference.optimize', 'Inference.opt', 'Numerics.make_extrap_func',
                      'LowPass.make_low_pass_func', 'Demes.SFS', 'Spectrum.from_demes')


# ======================================================================================================================
# alphabet extension (round 5): (1) the paths that return without doing the work - zero-duration epochs of every
# integrator (T = 0 and T == initial_t > 0; constant / function-valued parameters; frozen flags), all-frozen epochs,
# admixture proportions 0 / 1, projection to the same sizes, marginalising over nothing, identity reorderings, folding
# a folded spectrum (refused); (2) the CONTAINER of the parameter vector / bounds / index lists / grid-size list:
# list, tuple, float64 ndarray, integer ndarray, for the uncertainty entry points (both theta conventions, log / linear
# parameters), the derivative helpers and the optimiser entry points.  The bases are enumerated in Memo.tla
# (ZeroTab / TrivTab / GodCTab / ContTab).
# ======================================================================================================================
ZERO_KINDS = ('z0_c', 'z0_td', 'zi_c', 'zi_td', 'z0_fr')


def _mk_int_zero(P, kind):
    name = INT_FUNC[P] + '_' + kind

    @reg(name, 'Integration.' + INT_FUNC[P], integrator=True)
    def mk(lay, xl):
        import dadi
        n = INT_N[P]
        xx = lay1(grid('A', n), xl)
        phi = layn(phi_fix(P, n), lay)
        f = getattr(dadi.Integration, INT_FUNC[P])
        kw = _int_kwargs(P, kind.endswith('_td'))
        if kind == 'z0_fr':
            if P == 1:
                kw['frozen'] = True
            else:
                kw['frozen1'] = True
                for m in ('m12', 'm21', 'm31'):     # no migration to or from a frozen population
                    if m in kw:
                        kw[m] = 0
        if kind.startswith('zi'):
            T = 0.3                                  # the epoch starts and ends at t = 0.3
            kw['initial_t'] = 0.3
        else:
            T = 0 if kind == 'z0_c' else 0.0         # (a divergence time on its lower bound; int and float zero)
        return {'phi': phi, 'xx': xx}, (lambda a: f(a['phi'], a['xx'], T, **kw))


for _P in range(1, 6):
    for _kind in ZERO_KINDS:
        _mk_int_zero(_P, _kind)


def _mk_int_allfrozen(P):
    @reg(INT_FUNC[P] + '_allfr', 'Integration.' + INT_FUNC[P], integrator=True)
    def mk(lay, xl):
        import dadi
        n = INT_N[P]
        xx = lay1(grid('A', n), xl)
        phi = layn(phi_fix(P, n), lay)
        f = getattr(dadi.Integration, INT_FUNC[P])
        if P == 1:
            kw = {'nu': 1.7, 'frozen': True}
        else:
            kw = {'nu%d' % k: 1.0 + 0.2 * k for k in range(1, P + 1)}
            kw.update({'frozen%d' % k: True for k in range(1, P + 1)})
        return {'phi': phi, 'xx': xx}, (lambda a: f(a['phi'], a['xx'], 0.004, **kw))


for _P in range(1, 6):
    _mk_int_allfrozen(_P)


@reg('one_pop_X_z0_c', 'Integration.one_pop_X', integrator=True)
def _opxz(lay, xl):
    import dadi
    xx = lay1(grid('A', 10), xl)
    phi = layn(phi_fix(1, 10), lay)
    return {'phi': phi, 'xx': xx}, (lambda a: dadi.Integration.one_pop_X(a['phi'], a['xx'], 0, nu=1.7, gamma=-0.8, h=0.3, beta=1.5, alpha=2.0, theta0=1.3))


@reg('one_pop_X_allfr', 'Integration.one_pop_X', integrator=True)
def _opxf(lay, xl):
    import dadi
    xx = lay1(grid('A', 10), xl)
    phi = layn(phi_fix(1, 10), lay)
    return {'phi': phi, 'xx': xx}, (lambda a: dadi.Integration.one_pop_X(a['phi'], a['xx'], 0.004, nu=1.7, gamma=-0.8, h=0.3, beta=1.5, alpha=2.0, frozen=True))


# ---- PhiManip / Spectrum / Numerics / Misc: degenerate arguments --------------------------------------------------------
_mk_phim('phi_2D_to_3D_admix_f0', 'phi_2D_to_3D_admix', 2, 6, lambda PM, a: PM.phi_2D_to_3D_admix(a['phi'], 0, a['xx'], a['xx'], a['xx']))
_mk_phim('phi_2D_to_3D_admix_f1', 'phi_2D_to_3D_admix', 2, 6, lambda PM, a: PM.phi_2D_to_3D_admix(a['phi'], 1.0, a['xx'], a['xx'], a['xx']))
_mk_phim('phi_3D_to_4D_f0', 'phi_3D_to_4D', 3, 5, lambda PM, a: PM.phi_3D_to_4D(a['phi'], 0, 0, a['xx'], a['xx'], a['xx'], a['xx']))
_mk_phim('phi_2D_admix_1_into_2_f0', 'phi_2D_admix_1_into_2', 2, 8, lambda PM, a: PM.phi_2D_admix_1_into_2(a['phi'], 0, a['xx'], a['xx']))
_mk_phim('reorder_pops_3d_identity', 'reorder_pops', 3, 6, lambda PM, a: PM.reorder_pops(a['phi'], [1, 2, 3]))


@reg('filter_pops_3d_all', 'PhiManip.filter_pops')
def _fp3all(lay, xl):
    import dadi
    return ({'phi': layn(phi_fix(3, 6), lay), 'xx': lay1(grid('A', 6), xl), 'tokeep': [1, 2, 3]},
            (lambda a: dadi.PhiManip.filter_pops(a['phi'], a['xx'], a['tokeep'])))


_mk_fs('project_2d_64_64_same', 'Spectrum.project', (7, 5), lambda fs: fs.project([6, 4]))
_mk_fs('fold_folded_2d', 'Spectrum.fold', (5, 4), lambda fs: fs.fold(), folded=True)              # refused: ValueError
_mk_fs('unfold_unfolded_2d', 'Spectrum.unfold', (5, 4), lambda fs: fs.unfold())                     # refused: ValueError
_mk_fs('marginalize_2d_none', 'Spectrum.marginalize', (5, 4), lambda fs: fs.marginalize([]))
_mk_fs('reorder_fs_3d_identity', 'Spectrum.reorder_pops', (4, 3, 3), lambda fs: fs.reorder_pops([1, 2, 3]))
_mk_fs('filter_3d_all', 'Spectrum.filter_pops', (4, 3, 3), lambda fs: fs.filter_pops([1, 2, 3]))
_mk_fs('apply_anc_state_misid_2d_p0', 'Numerics.apply_anc_state_misid', (5, 4), lambda fs: _N().apply_anc_state_misid(fs, 0))


@reg('perturb_params_fold0', 'Misc.perturb_params')
def _pp0(lay, xl):
    import dadi
    np = _np()

    def run(a):
        np.random.seed(7)
        return np.asarray(dadi.Misc.perturb_params(a['params'], fold=0))
    return {'params': np.array([1.5, 0.2, 3.0])}, run


# ---- the container of vector arguments ---------------------------------------------------------------------------------
CONTAINERS = ('list', 'tuple', 'f64', 'i64')


def _cont(values, c, ints=None, index=False):
    """The vector `values` in container c.  The integer array holds `ints` (a vector of whole numbers: another point
    of the parameter space).  index=True: a vector of indices / sizes (whole numbers): both array containers are
    integer arrays."""
    np = _np()
    if c == 'list':
        return list(values)
    if c == 'tuple':
        return tuple(values)
    if index:
        return np.array(values, dtype=np.int64)
    if c == 'f64':
        return np.array(values, dtype=np.float64)
    if c == 'i64':
        return np.array(values if ints is None else ints, dtype=np.int64)
    raise KeyError(c)


def _god_boots(c):
    import dadi
    np = _np()
    bs = [dadi.Spectrum(np.array([0.0, 36.0 + 2 * k, 16.0 - k, 7.0 + (k % 2), 5.0, 4.0 - (k % 3), 0.0])) for k in range(4)]
    return tuple(bs) if c == 'tuple' else bs


GODC_ENTRIES = {'cfim': 'FIM_uncert', 'cgim': 'GIM_uncert', 'cgod': 'get_godambe', 'clrt': 'LRT_adjust', 'cscore': 'score_stat',
                'cwald': 'Wald_stat'}


def _mk_godc(entry, th, scale, c):
    """entry point x theta convention (mn: multinom=True, the model has no theta parameter; th: multinom=False, theta is
    the explicit last parameter) x parameter scale (lin / log) x container of p0, grid_pts, nested_indices, full_params."""
    name = '%s_%s_%s_%s' % (entry, th, scale, c)
    site = GODC_ENTRIES[entry]

    @reg(name, 'Godambe.' + site)
    def mk(lay, xl):
        import dadi
        np = _np()
        multinom = th == 'mn'
        p0 = _cont([1.8, 0.12] if multinom else [1.8, 0.12, 25.0], c, ints=[2, 1] if multinom else [2, 1, 25])
        args = {'p0': p0, 'pts': _cont([10], c, index=True), 'data': god_data()}
        if entry in ('clrt', 'cscore', 'cwald'):
            args['nested_indices'] = _cont([1], 'list' if c == 'tuple' else c, index=True)     # (used as a numpy index: a tuple would address one element)
        if entry == 'cwald':
            args['full_params'] = _cont([1.8, 0.15] if multinom else [1.8, 0.15, 25.0], c, ints=[2, 2] if multinom else [2, 2, 25])
        if entry != 'cfim':
            args['all_boot'] = _god_boots(c)
        if entry in ('cgim', 'cgod', 'clrt') and not multinom:
            args['boot_theta_adjusts'] = [1.0, 0.95, 1.05, 1.0]
        func = model_A if multinom else _PERSISTENT['A']
        log = scale == 'log'

        def run(a):
            G = dadi.Godambe
            CURRENT['model'] = 'A'
            # the memo key holds the function object the derivatives are taken of: the caller's function when theta is
            # explicit and the entry point differentiates it directly; otherwise a closure made inside the call
            CURRENT['fn'] = 'named' if (not multinom and entry in ('cfim', 'cgim', 'cgod')) else 't%d' % CURRENT['k']
            if entry == 'cfim':
                return np.asarray(G.FIM_uncert(func, a['pts'], a['p0'], a['data'], log=log, multinom=multinom, eps=0.05))
            if entry == 'cgim':
                return np.asarray(G.GIM_uncert(func, a['pts'], a['all_boot'], a['p0'], a['data'], log=log, multinom=multinom, eps=0.05,
                                               boot_theta_adjusts=a.get('boot_theta_adjusts')))
            if entry == 'cgod':
                return [np.asarray(x) for x in G.get_godambe(func, a['pts'], a['all_boot'], a['p0'], a['data'], 0.05, log=log,
                                                             boot_theta_adjusts=a['boot_theta_adjusts'])]
            if entry == 'clrt':
                return float(G.LRT_adjust(func, a['pts'], a['all_boot'], a['p0'], a['data'], a['nested_indices'], multinom=multinom, eps=0.05,
                                          boot_theta_adjusts=a.get('boot_theta_adjusts')))
            if entry == 'cscore':
                return [float(x) for x in G.score_stat(func, a['pts'], a['all_boot'], a['p0'], a['data'], a['nested_indices'], multinom=multinom,
                                                       eps=0.05, adj_and_org=True)]
            return [float(x) for x in G.Wald_stat(func, a['pts'], a['all_boot'], a['p0'], a['data'], a['nested_indices'], a['full_params'],
                                                  multinom=multinom, eps=0.05, adj_and_org=True)]
        return args, run


for _e in ('cfim', 'cgim'):
    for _th in ('mn', 'th'):
        for _sc in ('lin', 'log'):
            for _c in CONTAINERS:
                _mk_godc(_e, _th, _sc, _c)
for _sc in ('lin', 'log'):
    for _c in CONTAINERS:
        _mk_godc('cgod', 'th', _sc, _c)
for _e in ('clrt', 'cscore', 'cwald'):
    for _th in ('mn', 'th'):
        for _c in CONTAINERS:
            _mk_godc(_e, _th, 'lin', _c)


def _mk_deriv_c(which, c):
    @reg('get_%s_quadratic_%s' % (which, c), 'Godambe.get_' + which)
    def mk(lay, xl):
        import dadi
        f = lambda p, c_: -(c_[0] * (p[0] - 1.0) ** 2 + c_[1] * (p[1] + 0.5) ** 2 + 0.3 * p[0] * p[1])
        g = getattr(dadi.Godambe, 'get_' + which)
        return ({'p0': _cont([1.2, -0.4], c, ints=[2, -1]), 'c': _cont([2.0, 3.0], c, ints=[2, 3])},
                (lambda a: g(f, a['p0'], 0.01, args=[a['c']])))


for _c in CONTAINERS[1:]:
    _mk_deriv_c('hess', _c)
    _mk_deriv_c('grad', _c)


def _mk_opt_c(name, site, call, c):
    """The optimiser entry points with start point, bounds and grid sizes in container c (no None entries in an array)."""
    @reg('%s_%s' % (name, c), site)
    def mk(lay, xl):
        import io
        data = god_data()

        def run(a):
            CURRENT['model'] = 'A'
            np = _np()
            r = call(__import__('dadi').Inference, a, io.StringIO())
            return np.asarray(r)
        if c == 'tuple':
            lb, ub, fx = (0.1, None), (None, 3.0), (None, 0.12)
        else:
            lb, ub, fx = _cont([0.1, 0.01], c, ints=[1, 1]), _cont([10.0, 3.0], c, ints=[10, 3]), [None, 0.12 if c == 'f64' else 1]
        return {'p0': _cont([1.8, 0.12], c, ints=[2, 1]), 'data': data, 'pts': _cont([10], c, index=True),
                'lower_bound': lb, 'upper_bound': ub, 'fixed_params': fx}, run


_OPTS = [('optimize_log_A', 'Inference.optimize_log', lambda I, a, out: I.optimize_log(a['p0'], a['data'], model_A, a['pts'], **_okw(a, out))),
         ('optimize_A', 'Inference.optimize', lambda I, a, out: I.optimize(a['p0'], a['data'], model_A, a['pts'], **_okw(a, out))),
         ('optimize_log_fmin_A', 'Inference.optimize_log_fmin', lambda I, a, out: I.optimize_log_fmin(a['p0'], a['data'], model_A, a['pts'], **_okw(a, out))),
         ('optimize_log_lbfgsb_A', 'Inference.optimize_log_lbfgsb', lambda I, a, out: I.optimize_log_lbfgsb(a['p0'], a['data'], model_A, a['pts'], **_okw(a, out))),
         ('optimize_lbfgsb_A', 'Inference.optimize_lbfgsb', lambda I, a, out: I.optimize_lbfgsb(a['p0'], a['data'], model_A, a['pts'], **_okw(a, out))),
         ('opt_nlopt_A', 'Inference.opt', lambda I, a, out: I.opt(a['p0'], a['data'], model_A, a['pts'],
                                                                   lower_bound=a['lower_bound'] if a['lower_bound'][1] is not None else [0.1, 0.01],
                                                                   upper_bound=a['upper_bound'] if a['upper_bound'][0] is not None else [10.0, 3.0],
                                                                   fixed_params=a['fixed_params'], maxeval=4)[0])]
for _n, _s, _f in _OPTS:
    for _c in CONTAINERS[1:]:
        _mk_opt_c(_n, _s, _f, _c)


def _mk_objfunc_c(c):
    @reg('object_func_A_%s' % c, 'Inference._object_func')
    def mk(lay, xl):
        import dadi
        import io

        def run(a):
            CURRENT['model'] = 'A'
            return float(dadi.Inference._object_func(a['params'], a['data'], model_A, a['pts'], lower_bound=a['lower_bound'],
                                                     upper_bound=a['upper_bound'], verbose=0, output_stream=io.StringIO()))
        return {'params': _cont([1.8, 0.12], c, ints=[2, 1]), 'data': god_data(), 'pts': _cont([10], c, index=True),
                'lower_bound': _cont([0.1, 0.01], c, ints=[1, 1]), 'upper_bound': _cont([10.0, 3.0], c, ints=[10, 3])}, run


for _c in CONTAINERS[1:]:
    _mk_objfunc_c(_c)


def _mk_perturb_c(c):
    @reg('perturb_params_%s' % c, 'Misc.perturb_params')
    def mk(lay, xl):
        import dadi
        np = _np()

        def run(a):
            np.random.seed(9)
            return np.asarray(dadi.Misc.perturb_params(a['params'], fold=1, lower_bound=a['lower_bound'], upper_bound=a['upper_bound']))
        return {'params': _cont([1.5, 0.2, 3.0], c, ints=[2, 1, 3]), 'lower_bound': _cont([0.1, 0.1, 0.1], c, ints=[1, 1, 1]),
                'upper_bound': _cont([10.0, 10.0, 10.0], c, ints=[10, 10, 10])}, run


for _c in ('tuple', 'i64'):
    _mk_perturb_c(_c)


def _mk_extrap_c(c):
    @reg('extrap_func_A_%s' % c, 'Numerics.make_extrap_func')
    def mk(lay, xl):
        def run(a):
            CURRENT['model'] = 'A'
            return _N().make_extrap_func(model_A)(a['params'], a['ns'], a['pts'])
        return {'params': _cont([1.8, 0.12], c, ints=[2, 1]), 'ns': _cont([6], c, index=True), 'pts': _cont([8, 10, 12], c, index=True)}, run


for _c in CONTAINERS[1:]:
    _mk_extrap_c(_c)


@reg('project_2d_64_43_nstuple', 'Spectrum.project')
def _pjt(lay, xl):
    return {'fs': fs_fix((7, 5), 11), 'ns': (4, 3)}, (lambda a: a['fs'].project(a['ns']))


@reg('from_phi_2d_43_A_tuples', 'Spectrum.from_phi')
def _fpt(lay, xl):
    import dadi
    xx = grid('A', 8)
    return ({'phi': phi_fix(2, 8), 'ns': (4, 3), 'xxs': (xx, xx.copy())},
            (lambda a: dadi.Spectrum.from_phi(a['phi'], a['ns'], a['xxs'])))


# ---- round 6: Spectrum arguments whose corner entries are present and NOT masked (so that a call that masks the corners
#      temporarily really writes), offered as views of an owning Spectrum (layouts S, N, V)
_mk_stat('watterson_1d_open', 'Spectrum.Watterson_theta', (9,), lambda fs: fs.Watterson_theta(), corners=False)
_mk_stat('pi_1d_open', 'Spectrum.pi', (9,), lambda fs: fs.pi(), corners=False)
_mk_stat('tajima_1d_open', 'Spectrum.Tajima_D', (9,), lambda fs: fs.Tajima_D(), corners=False)
_mk_stat('zengs_E_1d_open', 'Spectrum.Zengs_E', (9,), lambda fs: fs.Zengs_E(), corners=False)
_mk_stat('theta_L_1d_open', 'Spectrum.theta_L', (9,), lambda fs: fs.theta_L(), corners=False)
_mk_stat('fst_2d_open', 'Spectrum.Fst', (5, 4), lambda fs: fs.Fst(), corners=False)
_mk_stat('fold_2d_open', 'Spectrum.fold', (5, 4), lambda fs: fs.fold(), corners=False)
_mk_stat('marginalize_2d_open', 'Spectrum.marginalize', (5, 4), lambda fs: fs.marginalize([1]), corners=False)
_mk_stat('project_1d_8_4_open', 'Spectrum.project', (9,), lambda fs: fs.project([4]), corners=False)
_mk_stat('log_2d_open', 'Spectrum.log', (5, 4), lambda fs: fs.log(), corners=False)
_mk_stat('ll_2d_open', 'Inference.ll', (5, 4), lambda fs: float(__import__('dadi').Inference.ll(fs, fs_fix((5, 4), 37, interior_mask=True))), corners=False)
_mk_stat('ll_multinom_2d_open', 'Inference.ll_multinom', (5, 4),
         lambda fs: float(__import__('dadi').Inference.ll_multinom(fs, fs_fix((5, 4), 37, interior_mask=True))), corners=False)
_mk_stat('ll_data_view_2d_open', 'Inference.ll', (5, 4), lambda fs: float(__import__('dadi').Inference.ll(fs_fix((5, 4), 31), fs)), corners=False)


# ---- round 7 --------------------------------------------------------------------------------------------------------
# (a) data dictionaries over several chromosomes / scaffolds (names whose set order differs between hash seeds):
#     the fragments and the seeded bootstraps built from them are LISTS - their order is part of the value
CHR_NAMES = ['chr1', 'chr2', 'chrX', 'scaffold_7', 'chr10']


def data_dict_chr_fix():
    base = data_dict_fix(2)
    pos = [(0, 120), (0, 2600), (1, 340), (2, 90), (2, 1800), (3, 700), (4, 50), (4, 1500), (1, 2100)]
    dd = {}
    for k, (c, p) in enumerate(pos):
        dd['%s_%d' % (CHR_NAMES[c], p)] = base['snp%d' % k]
    dd['chr2_340.b'] = base['snp3']          # a recurrent mutation at the same site (additional info after the dot)
    return dd


@reg('fragment_data_dict_5chr', 'Misc.fragment_data_dict')
def _frag(lay, xl):
    import dadi
    return {'dd': data_dict_chr_fix()}, (lambda a: dadi.Misc.fragment_data_dict(a['dd'], 1000))


@reg('bootstraps_from_dd_chunks_5chr', 'Misc.bootstraps_from_dd_chunks')
def _boots(lay, xl):
    import dadi

    def run(a):
        import random
        frags = dadi.Misc.fragment_data_dict(a['dd'], 1000)
        random.seed(17)          # random by contract: the call is (seed; bootstraps_from_dd_chunks)
        return dadi.Misc.bootstraps_from_dd_chunks(frags, 3, a['pop_ids'], a['projections'])
    return {'dd': data_dict_chr_fix(), 'pop_ids': ['A', 'B'], 'projections': [4, 3]}, run


def vcf_chr_fix():
    """A small VCF (two populations of two diploid individuals, ten biallelic SNPs on five chromosomes / scaffolds) and its
    population file, written to a scratch directory; returns (vcf path, popinfo path, directory)."""
    import tempfile
    d = tempfile.mkdtemp(prefix='c20-vcf-', dir='/var/tmp')
    rows = [('chr1', 120, 'A', 'G', 'A', ['0/1', '0/0', '1/1', '0/1']), ('chr1', 2600, 'C', 'T', 'C', ['0/0', '0/1', '0/1', '0/0']),
            ('chr2', 340, 'G', 'A', 'G', ['1/1', '0/1', '0/0', '0/1']), ('chr2', 2100, 'T', 'C', 'T', ['0/1', '0/1', '0/0', '1/1']),
            ('chrX', 90, 'A', 'C', 'A', ['0/0', '1/1', '0/1', '0/0']), ('chrX', 1800, 'G', 'T', 'G', ['0/1', '0/0', '0/0', '0/1']),
            ('scaffold_7', 700, 'C', 'A', 'C', ['1/1', '0/1', '0/1', '0/1']), ('scaffold_7', 1900, 'T', 'G', 'T', ['0/0', '0/1', '1/1', '0/0']),
            ('chr10', 50, 'A', 'T', 'A', ['0/1', '1/1', '0/0', '0/1']), ('chr10', 1500, 'G', 'C', 'G', ['0/0', '0/1', '0/1', '1/1'])]
    names = ['a1', 'a2', 'b1', 'b2']
    vcf = os.path.join(d, 'five.vcf')
    with open(vcf, 'w') as f:
        f.write('##fileformat=VCFv4.2\n')
        f.write('\t'.join(['#CHROM', 'POS', 'ID', 'REF', 'ALT', 'QUAL', 'FILTER', 'INFO', 'FORMAT'] + names) + '\n')
        for c, p, ref, alt, aa, gts in rows:
            f.write('\t'.join([c, str(p), '.', ref, alt, '.', 'PASS', 'AA=' + aa, 'GT'] + gts) + '\n')
    pop = os.path.join(d, 'five.popinfo.txt')
    with open(pop, 'w') as f:
        for n in names:
            f.write('%s\t%s\n' % (n, 'A' if n[0] == 'a' else 'B'))
    return vcf, pop, d


@reg('make_data_dict_vcf_5chr', 'Misc.make_data_dict_vcf')
def _mdv(lay, xl):
    import dadi

    def run(a):
        import shutil
        vcf, pop, d = vcf_chr_fix()
        try:
            dd = dadi.Misc.make_data_dict_vcf(vcf, pop)
            return [[k, dd[k]] for k in dd]          # the order of the entries as the caller iterates over them
        finally:
            shutil.rmtree(d, ignore_errors=True)
    return {}, run


@reg('bootstraps_subsample_vcf_5chr', 'Misc.bootstraps_subsample_vcf')
def _bsv(lay, xl):
    import dadi
    np = _np()

    def run(a):
        import shutil, random
        vcf, pop, d = vcf_chr_fix()
        try:
            random.seed(19)        # random by contract: the call is (seed both generators; bootstraps_subsample_vcf)
            np.random.seed(19)
            return dadi.Misc.bootstraps_subsample_vcf(vcf, pop, a['subsample'], 3, 1000, a['pop_ids'])
        finally:
            shutil.rmtree(d, ignore_errors=True)
    return {'subsample': {'A': 1, 'B': 1}, 'pop_ids': ['A', 'B']}, run


# (b) boundary VALUES of array arguments that a call clips or sanitises: inbreeding coefficients exactly 1 and 0, ploidies
#     and admixture proportions 0 / 1, all passed as ndarrays (the caller's arrays)
def _mk_inb_boundary(name, d, ns, Fs):
    @reg(name, 'Spectrum.from_phi_inbreeding')
    def mk(lay, xl):
        import dadi
        np = _np()
        xx = grid('A', 7)
        return ({'phi': phi_fix(d, 7), 'xxs': tuple(xx.copy() for _ in range(d)), 'ns': list(ns), 'Fs': np.array(Fs, dtype=float),
                 'ploidys': np.array([2] * d)},
                (lambda a: dadi.Spectrum.from_phi_inbreeding(a['phi'], a['ns'], a['xxs'], a['Fs'], a['ploidys'])))


_mk_inb_boundary('from_phi_inb_1d_4_F1', 1, (4,), (1.0,))
_mk_inb_boundary('from_phi_inb_2d_42_F1_03', 2, (4, 2), (1.0, 0.3))
_mk_inb_boundary('from_phi_inb_1d_4_F0', 1, (4,), (0.0,))
_mk_inb_boundary('from_phi_inb_2d_42_F00', 2, (4, 2), (0.0, 0.0))


@reg('from_phi_2d_admix_props_array01', 'Spectrum.from_phi')
def _fpa01(lay, xl):
    import dadi
    np = _np()
    xx = grid('A', 8)
    return ({'phi': phi_fix(2, 8), 'ns': np.array([4, 3]), 'xxs': (xx, xx.copy()), 'admix_props': np.array([[1.0, 0.0], [0.0, 1.0]])},
            (lambda a: dadi.Spectrum.from_phi(a['phi'], a['ns'], a['xxs'], admix_props=a['admix_props'])))


@reg('from_phi_inb_2d_42_arrays', 'Spectrum.from_phi_inbreeding')
def _fpia(lay, xl):
    import dadi
    np = _np()
    xx = grid('A', 7)
    return ({'phi': phi_fix(2, 7), 'xxs': (xx, xx.copy()), 'ns': np.array([4, 2]), 'Fs': np.array([0.3, 0.3]), 'ploidys': np.array([2, 2])},
            (lambda a: dadi.Spectrum.from_phi_inbreeding(a['phi'], a['ns'], a['xxs'], a['Fs'], a['ploidys'])))


@reg('from_data_dict_2d_43_tuples', 'Spectrum.from_data_dict')
def _fddt(lay, xl):
    import dadi
    dd = data_dict_fix(2)
    return {'pop_ids': ('A', 'B'), 'projections': (4, 3)}, (lambda a: dadi.Spectrum.from_data_dict(dd, a['pop_ids'], a['projections']))


@reg('demes_sfs_present_containers', 'Demes.SFS')
def _dsc(lay, xl):
    np = _np()
    g = demes_graph_fix()
    return ({'sampled_demes': ('A', 'B'), 'sample_sizes': np.array([4, 2])},
            (lambda a: _D().Demes.SFS(g, a['sampled_demes'], a['sample_sizes'], 8)))


@reg('ms_command_containers', 'Misc.ms_command')
def _mscc(lay, xl):
    import dadi
    np = _np()
    return {'ns': np.array([4, 6]), 'seeds': (1, 2, 3)}, (lambda a: dadi.Misc.ms_command(1.5, a['ns'], '-n 1 0.5 -ej 0.1 2 1', 10, seeds=a['seeds']))


# --------------------------------------------------------------------------------------------------
# evaluation of one call
# --------------------------------------------------------------------------------------------------
def split_id(cid):
    parts = cid.split('|')
    base = parts[0]
    lay = parts[1] if len(parts) > 1 else 'C'
    xl = parts[2] if len(parts) > 2 else 'C'
    return base, lay, xl


def evaluate(cid, detailed=False):
    """Build the arguments of the call, run it, return the observation (and argument observations)."""
    import numpy as np
    import warnings
    warnings.simplefilter('ignore')
    base, lay, xl = split_id(cid)
    ent = REG[base]
    if not base.startswith('demes_output'):
        if ent['site'].startswith(LOG_TOUCHING_SITES):
            _DEMES_STATE['model'] = False
    args, run = ent['make'](lay, xl)
    before = {k: argdig(v) for k, v in args.items()}
    owners = {k: owner_roots(v) for k, v in args.items()}
    obefore = {k: ownerdig(v) for k, v in owners.items()}
    res = None
    try:
        old = np.seterr(all='ignore')
        try:
            res = run(args)
        finally:
            np.seterr(**old)
        out = observe(res)
    except Exception as ex:     # an exception is an observation, too
        out = {'dig': 'EXC:' + type(ex).__name__, 'vals': [], 'n': 0, 'exc': type(ex).__name__ + ': ' + str(ex)[:200], 'full': []}
    if not detailed:
        return out
    argobs = []
    for k, v in args.items():
        sh = False
        if isinstance(res, np.ndarray) and isinstance(v, np.ndarray):
            sh = bool(np.shares_memory(np.asarray(res), np.asarray(v)))
        argobs.append({'name': k, 'before': before[k], 'after': argdig(v), 'shares': sh, 'same_object': res is v,
                       'obefore': obefore[k], 'oafter': ownerdig(owners[k]), 'is_view': any(r is not v for r in owners[k][:1])})
    # the follow-up a caller of an integrator makes: work on the returned density IN PLACE (every entry is rewritten),
    # then look at the arguments again.  (Integrators only: other calls may hand out objects held by a memo table.)
    wrote = False
    if ent['integrator'] and isinstance(res, np.ndarray) and res.dtype.kind == 'f':
        try:
            res *= -2.0
            res -= 1.0
            wrote = True
        except Exception:
            wrote = False
    for o, (k, v) in zip(argobs, args.items()):
        o['afterw'] = argdig(v) if wrote else o['after']
        o['wrote'] = wrote
    return out, argobs, res


# --------------------------------------------------------------------------------------------------
# instrumentation of the memo tables (replay only)
# --------------------------------------------------------------------------------------------------
class LogDict(dict):
    """dict that records lookups (hit / miss) and insertions of the current call."""
    def __init__(self, name, init=()):
        dict.__init__(self, init)
        self._name = name
        self.stored_by = {}
        self.log = {'hit': [], 'miss': [], 'new': []}

    def _seen(self, key, present):
        self.log['hit' if present else 'miss'].append(key)

    def __contains__(self, key):
        p = dict.__contains__(self, key)
        self._seen(key, p)
        return p

    def __getitem__(self, key):
        p = dict.__contains__(self, key)
        if not p:
            self._seen(key, False)       # a KeyError lookup (try/except style cache)
            raise KeyError(key)
        # a successful [] right after a successful `in` is the same lookup: count a hit once
        if not (self.log['hit'] and self.log['hit'][-1] == key) and not (self.log['new'] and key in self.log['new']):
            self._seen(key, True)
        return dict.__getitem__(self, key)

    def __setitem__(self, key, value):
        if not dict.__contains__(self, key):
            self.log['new'].append(key)
            self.stored_by[key] = (CURRENT['model'], CURRENT['fn'])       # provenance (used for Godambe.cache only)
        dict.__setitem__(self, key, value)

    def take(self):
        lg = self.log
        self.log = {'hit': [], 'miss': [], 'new': []}
        return lg


TABLES = ['proj', 'dbeta', 'part', 'precalc', 'multinom', 'bb', 'godambe']


def install_tables():
    import dadi
    import dadi.Godambe
    from dadi import Numerics, Spectrum_mod
    t = {}
    for name, mod, attr in (('proj', Numerics, '_projection_cache'), ('dbeta', Spectrum_mod, '_dbeta_cache'),
                            ('part', Numerics, '_part_cache'), ('precalc', Numerics, '_part_precalc_cache'),
                            ('multinom', Numerics, '_multinomln_cache'), ('bb', Numerics, '_BetaBinomln_cache'),
                            ('godambe', dadi.Godambe, 'cache')):
        d = LogDict(name, getattr(mod, attr))
        setattr(mod, attr, d)
        t[name] = d
    return t


_GRID_NAMES = {}


def _grid_name(tup):
    import numpy as np
    if not _GRID_NAMES:
        for k, n in GRIDS:
            _GRID_NAMES[tuple(grid(k, n).tolist())] = '%s%d' % (k, n)
    return _GRID_NAMES.get(tuple(float(v) for v in tup), '?' + hashlib.sha256(repr(tup).encode()).hexdigest()[:6])


def _intlike(v):
    f = float(v)
    return int(f) if f == int(f) else _rat(f)


_BB_TAGS = {}


def _bb_tag(a, b):
    """(alpha, beta) of a BetaBinomln key -> the tag Memo.tla uses; computed with dadi's own float formulas."""
    import numpy as np
    if not _BB_TAGS:
        for gname, (gk, n), F, Fs in (('A7', ('A', 7), 0.3, '3/10'), ('A7', ('A', 7), 1.0, '1m')):      # ('1m': F = 1, used as 1 - 1e-10)
            xx = grid(gk, n)
            Fx = np.minimum([F], 1 - 1e-10)[0]
            al = xx * ((1.0 - Fx) / Fx)
            al[0], al[-1] = 1.0e-20 * ((1.0 - Fx) / Fx), (1.0 - 1.0e-20) * ((1.0 - Fx) / Fx)
            be = (1.0 - xx) * ((1.0 - Fx) / Fx)
            be[0], be[-1] = (1.0 - 1.0e-20) * ((1.0 - Fx) / Fx), 1.0e-20 * ((1.0 - Fx) / Fx)
            for j in range(n):
                _BB_TAGS[(float(al[j]), float(be[j]))] = ['G', gname, Fs, j + 1]
        _BB_TAGS[(0.75, 1.25)] = ['raw', '3/4', '5/4', 0]
    return _BB_TAGS.get((float(a), float(b)), ['?', _rat(a), _rat(b), 0])


def abstract_key(table, key, tables=None):
    """The stored key in the vocabulary of spec/Memo.tla, or None if the key has no expression in that vocabulary
    (it is then recorded verbatim as an `alien` key, which the trace spec rejects).  For Godambe.cache the first
    components are the model function object whose spectrum is stored under the key (its provenance: model,
    identity), not the address the code uses; a lookup that misses is attributed to the running call's function."""
    try:
        if table == 'proj' and len(key) == 3:
            return [int(key[0]), int(key[1]), int(key[2])]
        if table == 'dbeta' and len(key) == 2 and hasattr(key[1], '__len__'):
            return [int(key[0]), _grid_name(key[1])]
        if table in ('part', 'precalc') and len(key) == 4:
            r = [_intlike(v) for v in key]
            return r if all(isinstance(v, int) for v in r) else None
        if table == 'multinom' and len(key) == 3:
            return [int(v) for v in key]
        if table == 'bb' and len(key) == 4:
            return [int(key[0]), int(key[1]), _bb_tag(key[2], key[3])]
        if table == 'godambe' and len(key) == 4:
            cur = (CURRENT['model'], CURRENT['fn'])
            by = tables['godambe'].stored_by.get(key, cur) if tables else cur
            return [by[0], by[1], [_rat(v) for v in key[1]], [int(v) for v in key[2]], [int(v) for v in key[3]]]
    except Exception:
        pass
    return None


def _uniq(seq):
    out, seen = [], set()
    for s in seq:
        k = json.dumps(s)
        if k not in seen:
            seen.add(k)
            out.append(s)
    return out


def table_values_digest(tables, only=None):
    """Digest of every value held by the tables (restricted to the keys in `only`, per table)."""
    res = {}
    for name, d in tables.items():
        keys = only[name] if only is not None else list(dict.keys(d))
        out = []
        for k in keys:
            canon(dict.__getitem__(d, k), out, [], raw=True)
        res[name] = (hashlib.sha256(b''.join(out)).hexdigest()[:16], keys)
    return res


def cache_alias(res, tables):
    """Does the result (or one of its first-level items) alias an object held in a memo table?"""
    import numpy as np
    objs = [res] + (list(res) if isinstance(res, (list, tuple)) else [])
    for name, d in tables.items():
        for v in dict.values(d):
            vs = [v] + (list(v) if isinstance(v, tuple) else [])
            for o in objs:
                for w in vs:
                    if o is w and isinstance(o, (list, np.ndarray)):
                        return name
                    if isinstance(o, np.ndarray) and isinstance(w, np.ndarray) and o.size and w.size and np.shares_memory(o, w):
                        return name
    return ''


def replay_history(hist, progress=None):
    import dadi
    import dadi.Godambe
    tables = install_tables()
    recs = []
    for k, cid in enumerate(hist['calls']):
        base, lay, xl = split_id(cid)
        CURRENT['k'] = k + 1
        if progress:
            progress({'begin': k + 1, 'call': cid})
        pre = table_values_digest(tables)
        out, argobs, res = evaluate(cid, detailed=True)
        post = table_values_digest(tables, only={n: pre[n][1] for n in pre})
        tab = {}
        for name in TABLES:
            lg = tables[name].take()
            alien = []

            def ab(xs):
                out = []
                for x in xs:
                    a = abstract_key(name, x, tables)
                    if a is None:
                        alien.append(repr(x)[:80])
                    else:
                        out.append(a)
                return _uniq(out)
            new = ab(lg['new'])
            newk = {json.dumps(x) for x in new}
            hit = [x for x in ab(lg['hit']) if json.dumps(x) not in newk]      # re-read of a key inserted by this very call
            miss = ab(lg['miss'])
            tab[name] = {'hit': hit, 'miss': miss, 'new': new, 'alien': sorted(set(alien))}
        rec = {'hid': hist['hid'], 'k': k + 1, 'call': cid, 'base': base, 'lay': lay, 'xl': xl, 'site': REG[base]['site'],
               'out': out, 'args': argobs, 'tab': tab,
               'unstable': [n for n in TABLES if pre[n][0] != post[n][0]],
               'alias': cache_alias(res, tables),
               'counter': int(dadi.Inference._counter), 'ntheta': len(dadi.Inference._theta_store),
               'dlen': len(dadi.Demes.cache)}
        recs.append(rec)
        if progress:
            progress({'rec': rec})
        del res
    return recs


CRASH = {'dig': 'CRASH', 'vals': [], 'n': 0, 'exc': 'the process died (signal / heap corruption) during this call', 'full': []}


def crash_record(hid, k, cid):
    base, lay, xl = split_id(cid)
    return {'hid': hid, 'k': k, 'call': cid, 'base': base, 'lay': lay, 'xl': xl, 'site': REG[base]['site'], 'out': dict(CRASH),
            'args': [], 'tab': {n: {'hit': [], 'miss': [], 'new': [], 'alien': []} for n in TABLES}, 'unstable': [], 'alias': '',
            'counter': 0, 'ntheta': 0, 'dlen': 0, 'crashed': True}


# --------------------------------------------------------------------------------------------------
def _child(mode, item, path):
    if mode == 'fresh':
        try:
            res = {'call': item, 'obs': evaluate(item)}
        except Exception:
            res = {'error': traceback.format_exc(), 'item': item}
        with open(path + '.tmp', 'w') as f:
            json.dump(res, f)
        os.rename(path + '.tmp', path)
        return
    # replay: one JSON line per event, flushed, so that a dying process leaves its records behind
    with open(path + '.log', 'w') as f:
        def progress(ev):
            f.write(json.dumps(ev) + '\n')
            f.flush()
        try:
            replay_history(item, progress)
            progress({'end': True})
        except Exception:
            progress({'error': traceback.format_exc()})


def _collect_replay(item, path):
    """Parent side: turn the event log of a (possibly dead) replay child into the history's record list."""
    recs, begun, ended, err = [], None, False, None
    if os.path.exists(path + '.log'):
        with open(path + '.log') as f:
            for ln in f:
                try:
                    ev = json.loads(ln)
                except ValueError:
                    continue
                if 'begin' in ev:
                    begun = ev
                elif 'rec' in ev:
                    recs.append(ev['rec'])
                    begun = None
                elif 'end' in ev:
                    ended = True
                elif 'error' in ev:
                    err = ev['error']
    res = {'hid': item['hid'], 'recs': recs}
    if err:
        res = {'error': err, 'item': item}
    elif not ended:
        k = begun['begin'] if begun else len(recs) + 1
        cid = begun['call'] if begun else item['calls'][min(k, len(item['calls'])) - 1]
        recs.append(crash_record(item['hid'], k, cid))
        res['crashed_at'] = k
    with open(path + '.tmp', 'w') as f:
        json.dump(res, f)
    os.rename(path + '.tmp', path)
    try:
        os.remove(path + '.log')
    except OSError:
        pass


def main(jobfile):
    with open(jobfile) as f:
        job = json.load(f)
    import numpy        # noqa  (pristine parent: imports only)
    import dadi         # noqa
    import dadi.Godambe, dadi.LowPass.LowPass, dadi.Demes   # noqa
    os.makedirs(job['out'], exist_ok=True)
    par = int(job.get('parallel', 4))
    live = {}
    items = list(enumerate(job['items']))
    crashed = 0
    while items or live:
        while items and len(live) < par:
            k, item = items.pop(0)
            path = os.path.join(job['out'], '%s-%d.json' % (job['mode'], k))
            sys.stdout.flush()
            pid = os.fork()
            if pid == 0:
                try:
                    _child(job['mode'], item, path)
                    os._exit(0)
                finally:
                    os._exit(3)
            live[pid] = (k, item, path)
        pid, st = os.wait()
        k, item, path = live.pop(pid)
        if job['mode'] == 'replay':
            _collect_replay(item, path)
            if st != 0:
                crashed += 1
        elif st != 0 or not os.path.exists(path):
            crashed += 1
            with open(path, 'w') as f:
                json.dump({'call': item, 'obs': dict(CRASH), 'status': st}, f)
    print(json.dumps({'done': len(job['items']), 'crashed_children': crashed, 'hashseed': os.environ.get('PYTHONHASHSEED')}))


if __name__ == '__main__':
    main(sys.argv[1])
