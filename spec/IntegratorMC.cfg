CONSTANT Cfgs <- ValidCfgs
SPECIFICATION Spec
CHECK_DEADLOCK FALSE
INVARIANT LandsOnT
INVARIANT NeverPastT
INVARIANT StepPositive
INVARIANT SweptOncePerStep
INVARIANT OneInjectionPerStep
INVARIANT RejectedUntouched
INVARIANT PathOnlyFromDispatch
INVARIANT StepsMinimal
PROPERTY Terminates
PROPERTY TimeMonotone
