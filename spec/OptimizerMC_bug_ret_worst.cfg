\* Non-vacuity: the defective wrapper "ret_worst" must violate NoWorseThanStart (TLC is expected to report the violation).
CONSTANTS
  Tau = "1/1000000000"
  TauX = "1/1000000000000"
  MaxN = 2
  MaxEvals = 2
  FullBoxN = 2
  Bug = "ret_worst"
SPECIFICATION Spec
CHECK_DEADLOCK FALSE
INVARIANT NoWorseThanStart
