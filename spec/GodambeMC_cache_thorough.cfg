CONSTANTS
  MaxDepth = 7
  Dims = {1}
  Addrs = {1, 2, 3}
  KeyHoldsRef = TRUE
  FullBoots = FALSE
  Points <- PointsAll
SPECIFICATION SpecCache
CHECK_DEADLOCK FALSE
INVARIANT L_CacheCoherent
INVARIANT L_CacheEntries
