---------------------------- MODULE SpectrumIOMC ----------------------------
(***************************************************************************)
(* Exhaustive exploration of the file / pickle round trips of module       *)
(* SpectrumIO.  The state holds a spectrum with its writing options, the   *)
(* file produced from it and what a reader returned; to_file, from_file,   *)
(* array_to_file, array_from_file, their cross uses (pre-1.3 format),      *)
(* several arrays written into / read from one open handle, and pickling   *)
(* are actions; the laws of C14 are invariants.                            *)
(* Precisions are 1..3 significant digits here (the rounding law is the    *)
(* same for 16..20, which the conformance trace covers).                   *)
(***************************************************************************)
EXTENDS SpectrumIO, TLC
CONSTANTS Shapes, FullMaskSize, Precisions, LabelSets, CommentSets, StreamShapes

ShapesQuick    == {<<1>>, <<3>>, <<1, 2>>, <<2, 1>>, <<2, 2>>, <<1, 2, 1>>}
ShapesThorough == ShapesQuick \cup {<<2>>, <<4>>, <<1, 1>>, <<2, 3>>, <<3, 1>>, <<2, 1, 2>>, <<1, 1, 3>>, <<2, 2, 2>>}

\* shapes of the second / third array of a stream (the first one ranges over Shapes)
StreamShapesThorough == ShapesQuick \cup {<<4>>, <<2, 3>>}

Values == <<"0", "1/3", "7", "nan", "12345/10", "-5/2", "inf", "1/1024", "2/3", "999/1000", "-inf", "15/2", "1005/1000", "250">>
DataChoices(sh) == {[k \in 1..Size(sh) |-> Values[((k + u) % Len(Values)) + 1]] : u \in {0, 5, 9}}
MaskChoices(sh) ==
    IF Size(sh) <= FullMaskSize THEN [1..Size(sh) -> BOOLEAN]
    ELSE {[k \in 1..Size(sh) |-> FALSE], [k \in 1..Size(sh) |-> IsCornerK(sh, k)], [k \in 1..Size(sh) |-> TRUE]}
         \cup {[k \in 1..Size(sh) |-> k = u] : u \in 1..Size(sh)}

La  == <<"a">>
Lab == <<"a", " ", "b">>
Lsa == <<" ", "a">>
Lf  == FoldedW
Lxf == <<"x", " ", " ">> \o UnfoldedW \o <<" ">>
Ld  == <<"3">>
LabelsQuick    == {La, Lab, <<>>, Lxf}
LabelsThorough == {La, Lab, Lsa, <<>>, Lf, Lxf}
\* label tuples for a shape: none, or every axis labelled from the set (three axes: one label for
\* all axes, or the mixed tuple)
IdChoices(sh) == {<<>>} \cup (IF Len(sh) <= 2 THEN [1..Len(sh) -> LabelSets]
                              ELSE {[j \in 1..Len(sh) |-> l] : l \in LabelSets} \cup {[j \in 1..Len(sh) |-> <<La, Lxf, <<>>>>[((j - 1) % 3) + 1]]})

C1 == <<"h", "i">>
C2 == <<" ", "h", " ", "i", "\t">>
C3 == <<"#", "2", " ">> \o FoldedW
CommentsQuick    == {<<>>, <<C1>>, <<C2, <<>>>>, <<C3, C1>>}
CommentsThorough == {<<>>, <<C1>>, <<C3>>, <<<<>>>>, <<C2, <<>>>>, <<C3, C1>>}

VARIABLES pc, s, opt, file, back
vars == <<pc, s, opt, file, back>>
None == [ok |-> FALSE, none |-> TRUE]

\* Initial states fix shape and data; the first step chooses everything else
Init == /\ pc = "choose" /\ file = None /\ back = None
        /\ opt = [p |-> 1, comments |-> <<>>, fmi |-> TRUE, mc |-> FALSE]
        /\ \E sh \in Shapes : \E d \in DataChoices(sh) :
              s = [sh |-> sh, d |-> d, m |-> [k \in 1..Size(sh) |-> FALSE], f |-> FALSE, ids |-> <<>>]
Choose == /\ pc = "choose" /\ pc' = "start"
          /\ \E m \in MaskChoices(s.sh) : \E ids \in IdChoices(s.sh) : \E f \in BOOLEAN :
                s' = [s EXCEPT !.m = m, !.ids = ids, !.f = f]
          /\ \E p \in Precisions : \E c \in CommentSets : \E fmi, mc \in BOOLEAN :
                opt' = [p |-> p, comments |-> c, fmi |-> fmi, mc |-> mc]
          /\ UNCHANGED <<file, back>>

AsArray(t) == [sh |-> t.sh, d |-> t.d, m |-> t.m]
ToFile     == pc = "start" /\ pc' = "file"   /\ file' = Write(s, opt.p, opt.comments, opt.fmi) /\ UNCHANGED <<s, opt, back>>
ArrayToFile == pc = "start" /\ pc' = "afile" /\ file' = ArrayWrite(AsArray(s), opt.p, opt.comments) /\ UNCHANGED <<s, opt, back>>
FromFile   == pc \in {"file", "afile"} /\ pc' = pc \o "-spectrum" /\ back' = Read(file, opt.mc) /\ UNCHANGED <<s, opt, file>>
ArrayFromFile == (pc = "afile" \/ (pc = "file" /\ ~opt.fmi)) /\ pc' = pc \o "-array" /\ back' = ArrayRead(file) /\ UNCHANGED <<s, opt, file>>
DoPickle   == pc = "start" /\ pc' = "pickled" /\ (\E x \in {"none", "1/40"} : file' = Pickle(s, x)) /\ UNCHANGED <<s, opt, back>>
DoUnpickle == pc = "pickled" /\ pc' = "unpickled" /\ back' = Unpickle(file) /\ UNCHANGED <<s, opt, file>>
\* ---- several arrays through one open handle: file = [h |-> the handle, written |-> what was written into it],
\* back = [ok, got |-> what the reader returned so far].  The first array is the one of the state (nothing or the
\* first entry masked, any comments, the smallest precision; labels, folding and reader options play no role, so one representative of them starts a stream);
\* one or two further arrays of any shape follow, with other data and comments (the third with a masked entry).
ExtraArray(sh, u, mk) == [sh |-> sh, d |-> [k \in 1..Size(sh) |-> Values[((k + u) % Len(Values)) + 1]],
                          m |-> [k \in 1..Size(sh) |-> mk /\ k = Size(sh)]]
StreamBegin  == /\ pc = "start" /\ s.ids = <<>> /\ ~s.f /\ opt.fmi /\ ~opt.mc /\ (\A k \in 2..Size(s.sh) : ~s.m[k])
                /\ \A q \in Precisions : opt.p <= q
                /\ pc' = "stream-w"
                /\ file' = [h |-> HandleWrite(EmptyHandle, AsArray(s), opt.p, opt.comments),
                            written |-> <<[a |-> AsArray(s), comments |-> opt.comments]>>]
                /\ UNCHANGED <<s, opt, back>>
StreamAppend == /\ pc = "stream-w" /\ Len(file.written) < 3
                /\ LET n == Len(file.written) IN
                   \E sh \in StreamShapes : \E mk \in {n = 2} : \E c \in (IF n = 1 THEN CommentSets ELSE {<<>>, <<C3, C1>>}) :
                      LET a == ExtraArray(sh, 3 * n, mk) IN
                      file' = [h |-> HandleWrite(file.h, a, opt.p, c), written |-> Append(file.written, [a |-> a, comments |-> c])]
                /\ UNCHANGED <<pc, s, opt, back>>
\* the file is opened again for reading: a handle on the same lines, nothing consumed
StreamOpen   == /\ pc = "stream-w" /\ Len(file.written) >= 2 /\ pc' = "stream-r"
                /\ back' = [ok |-> TRUE, got |-> <<>>] /\ UNCHANGED <<s, opt, file>>
StreamRead   == /\ pc = "stream-r" /\ back.ok /\ Len(back.got) < Len(file.written)
                /\ LET r == HandleRead(file.h) IN
                     IF r.ok THEN /\ back' = [ok |-> TRUE, got |-> Append(back.got, [ok |-> TRUE, a |-> r.a, comments |-> r.comments])]
                                  /\ file' = [file EXCEPT !.h = r.h]
                     ELSE back' = [ok |-> FALSE, got |-> back.got] /\ file' = file
                /\ UNCHANGED <<pc, s, opt>>

Next == Choose \/ ToFile \/ ArrayToFile \/ FromFile \/ ArrayFromFile \/ DoPickle \/ DoUnpickle
           \/ StreamBegin \/ StreamAppend \/ StreamOpen \/ StreamRead
Spec == Init /\ [][Next]_vars

TypeOK == /\ pc \in {"choose", "start", "file", "afile", "file-spectrum", "afile-spectrum", "file-array", "afile-array", "pickled", "unpickled",
                      "stream-w", "stream-r"}
          /\ Len(s.d) = Size(s.sh) /\ Len(s.m) = Size(s.sh)

StrippedComments == [j \in 1..Len(opt.comments) |-> Strip(opt.comments[j])]
\* ---- to_file then from_file (current format and, with fmi = FALSE, the pre-1.3 format) ----
L_RoundTrip == pc = "file-spectrum" => RoundTripOK(s, opt.p, opt.comments, opt.fmi, opt.mc, back, "0")
\* the file has the documented line structure and every written number is within the written precision
L_FileShape == pc = "file" =>
    /\ Len(file.pre) = Len(opt.comments) + 1
    /\ \A j \in 1..Len(opt.comments) : IsCommentLine(file.pre[j])
    /\ ~IsCommentLine(file.pre[Len(file.pre)])
    /\ Len(file.body) = (IF opt.fmi THEN 2 ELSE 1)
    /\ \A k \in 1..Size(s.sh) : WithinPrecision(s.d[k], file.body[1][k], opt.p)
\* the header is parsed back to shape, folding flag and labels, whatever blanks / words the labels contain
L_Header == pc = "file" =>
    LET h == ParseHeader(file.pre[Len(file.pre)]) IN
    h.ok /\ h.sh = s.sh /\ h.f = (opt.fmi /\ s.f) /\ h.ids = (IF opt.fmi THEN s.ids ELSE <<>>)
\* writing what was read reproduces the file (second generation = first generation)
L_Regenerate == (pc = "file-spectrum" /\ ~opt.mc) => Write(back.s, opt.p, back.comments, opt.fmi) = file
\* ---- generic array writer / reader ----
L_Array == pc = "afile-array" =>
    /\ back.ok /\ back.a.sh = s.sh /\ back.comments = StrippedComments
    /\ SameValues([k \in 1..Size(s.sh) |-> IF s.m[k] THEN "nan" ELSE s.d[k]], back.a.d, opt.p, "0")
\* ---- consistency across the two writers / readers (pre-1.3 files) ----
\* a file from the array writer read as a spectrum: unfolded, unlabelled, masked entries are nan
L_ArrayFileAsSpectrum == pc = "afile-spectrum" =>
    /\ back.ok /\ back.s.sh = s.sh /\ ~back.s.f /\ back.s.ids = <<>> /\ back.comments = StrippedComments
    /\ back.s.m = [k \in 1..Size(s.sh) |-> opt.mc /\ IsCornerK(s.sh, k)]
    /\ SameValues([k \in 1..Size(s.sh) |-> IF s.m[k] THEN "nan" ELSE s.d[k]], back.s.d, opt.p, "0")
\* a pre-1.3 spectrum file read by the array reader: shape, comments and all data
L_OldFileAsArray == (pc = "file-array" /\ ~opt.fmi) =>
    /\ back.ok /\ back.a.sh = s.sh /\ back.comments = StrippedComments /\ SameValues(s.d, back.a.d, opt.p, "0")
\* ---- several arrays in one handle: reading k arrays returns the first k written, in order; the handle is then
\* positioned after the k-th array and what is left in it is exactly the lines of the others ----
WrittenLines(j) == FileLines(ArrayWrite(file.written[j].a, opt.p, file.written[j].comments))
L_Stream == pc = "stream-r" =>
    LET n == Len(back.got)
        RECURSIVE used(_)
        used(j) == IF j = 0 THEN 0 ELSE used(j - 1) + LinesOf(file.written[j].comments)
    IN  /\ back.ok
        /\ \A j \in 1..n : ArrayRoundTripOK(file.written[j].a, opt.p, file.written[j].comments, back.got[j], "0")
        /\ file.h.pos = used(n)
        /\ HandleRest(file.h) = Concat([j \in 1..(Len(file.written) - n) |-> WrittenLines(n + j)])
L_StreamWritten == pc = "stream-w" =>
    /\ file.h.pos = 0
    /\ file.h.lines = Concat([j \in 1..Len(file.written) |-> WrittenLines(j)])
\* ---- pickle ----
L_Pickle == pc = "unpickled" => (back.s = s /\ back.x = file.extrap_x)

\* rounding to p significant digits: within the written precision, idempotent, exact for short numbers
ASSUME \A p \in 1..4 : \A j \in 1..Len(Values) : LET v == Values[j] IN
          WithinPrecision(v, Fmt(v, p), p) /\ Fmt(Fmt(v, p), p) = Fmt(v, p)
ASSUME RoundSig("12345/10", 2) = "1200" /\ RoundSig("12345/10", 3) = "1230" /\ RoundSig("1/1024", 2) = "49/50000"
ASSUME RoundSig("999/1000", 2) = "1" /\ RoundSig("-5/2", 1) = "-3" /\ RoundSig("1/3", 3) = "333/1000"
ASSUME ParseHeader(<<"2", " ", "1", "3", " ">> \o UnfoldedW \o <<" ", QUOTE, "a", " ", "b", QUOTE, " ", QUOTE, QUOTE>>)
          = [ok |-> TRUE, sh |-> <<2, 13>>, f |-> FALSE, ids |-> <<<<"a", " ", "b">>, <<>>>>]
ASSUME ParseHeader(<<"5", " ">>) = [ok |-> TRUE, sh |-> <<5>>, f |-> FALSE, ids |-> <<>>]
ASSUME Strip(<<" ", "\t", "a", " ", "b", " ">>) = <<"a", " ", "b">> /\ Strip(<<" ">>) = <<>>
ASSUME SplitWS(<<" ", "a", "b", " ", " ", "c">>) = <<<<"a", "b">>, <<"c">>>>
=============================================================================
