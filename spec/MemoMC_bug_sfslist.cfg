\* DEFECTIVE design (must be refuted): Demes.SFS renames ancient samples in the caller's sampled_demes list
CONSTANTS
  MaxDepth = 1
  BaseSel = "memo"
  LaySel = "C"
  ProjKeyMode = "full"
  DbetaKeyMode = "full"
  PartKeyMode = "full"
  EntryMode = "copy_all"
  XXMode = "contig"
  GodMode = "object"
  DemesMode = "pure"
  PerturbMode = "pure"
  HashMode = "ordered"
  SFSMode = "callers_list"
  VectorMode = "copies"
  MaskMode = "setter"
  KernelMode = "stateless"
  MaxTable = 60
SPECIFICATION Spec
CHECK_DEADLOCK FALSE
CONSTRAINT TableBound
VIEW MCView
INVARIANT TypeOK
INVARIANT AlphabetOK
INVARIANT TablesSound
INVARIANT ResultIndependentOfHistory
INVARIANT ResultIndependentOfHashSeed
INVARIANT LayoutIndependent
INVARIANT ArgumentsUnchanged
INVARIANT ResultIsFresh
