\* DEFECTIVE design (must be refuted): the nested-parameter closures of LRT_adjust / score_stat / Wald_stat write the trial values into the caller's float64 parameter array
CONSTANTS
  MaxDepth = 1
  BaseSel = "all"
  LaySel = "C"
  ProjKeyMode = "full"
  DbetaKeyMode = "full"
  PartKeyMode = "full"
  EntryMode = "copy_all"
  XXMode = "contig"
  GodMode = "object"
  DemesMode = "pure"
  PerturbMode = "pure"
  HashMode = "ordered"
  SFSMode = "copies"
  VectorMode = "callers_array"
  MaskMode = "setter"
  KernelMode = "stateless"
  MaxTable = 60
SPECIFICATION Spec
CHECK_DEADLOCK FALSE
CONSTRAINT TableBound
VIEW MCView
INVARIANT TypeOK
INVARIANT AlphabetOK
INVARIANT TablesSound
INVARIANT ResultIndependentOfHistory
INVARIANT ResultIndependentOfHashSeed
INVARIANT LayoutIndependent
INVARIANT ArgumentsUnchanged
INVARIANT ResultIsFresh
