CONSTANT Tau = "1/10000000000"
CONSTANT TauLog = "1/1000000000"
CONSTANT DeepDepth = 50
CONSTANT KSigma = 8
SPECIFICATION Spec
CHECK_DEADLOCK FALSE
INVARIANT Done
POSTCONDITION AllConsumed
