#!/venv/bin/python
"""usage: seed_table.py R3  - markdown rows for DESIGN 10.5 from /verif/seeded/<prefix>-*/meta.json"""
import glob, json, os, sys
pre = sys.argv[1]
for d in sorted(glob.glob('/verif/seeded/%s-*' % pre)):
    m = json.load(open(d + '/meta.json'))
    db = m.get('detected_by', {})
    s = m['summary'].replace('|', '/').replace('\n', ' ')
    s = s[:150] + ('...' if len(s) > 150 else '')
    res = 'missed, then caught' if db.get('missed_at_first') else 'caught'
    print('| %s | %s | %s: %s | %s | %s |' % (os.path.basename(d), s, db.get('check', '?'), db.get('clauses', '').replace('|', '/'), res,
                                         (db.get('strengthening') or '').replace('|', '/')))
