----------------------------- MODULE TLSpectrum -----------------------------
(***************************************************************************)
(* Extension module X05: the two-locus haplotype frequency spectrum of     *)
(* dadi.TwoLocus (TLSpectrum_mod.TLSpectrum and the discrete helpers of    *)
(* TwoLocus.numerics).                                                     *)
(*                                                                         *)
(* Two biallelic loci A/a and B/b, a sample of n chromosomes.  An entry    *)
(* of the spectrum is indexed by the haplotype counts                      *)
(*      ix = <<i, j, k>> = (nAB, nAb, naB),   nab = n - i - j - k.         *)
(* A spectrum is a record                                                  *)
(*   [n |-> sample size,                                                   *)
(*    d |-> flat C-order sequence of (n+1)^3 rationals (module Rat),       *)
(*    m |-> flat C-order sequence of BOOLEAN (TRUE = masked),              *)
(*    f |-> "folded" | "unfolded"]                                         *)
(* An entry is FEASIBLE when nab >= 0 and INFORMATIVE when in addition     *)
(* both loci segregate in the sample (0 < nA < n and 0 < nB < n); the      *)
(* constructor masks everything else ("mask_infeasible").                  *)
(***************************************************************************)
EXTENDS Rat, Integers, Sequences, FiniteSets, TLC

Side(n)      == n + 1
Size3(n)     == (n + 1) * (n + 1) * (n + 1)
Flat3(n, ix) == 1 + (ix[1] * (n + 1) + ix[2]) * (n + 1) + ix[3]
Unflat3(n, q) == <<(q - 1) \div ((n + 1) * (n + 1)), ((q - 1) \div (n + 1)) % (n + 1), (q - 1) % (n + 1)>>
Cube(n)      == {<<i, j, k>> : i \in 0..n, j \in 0..n, k \in 0..n}
Rest(n, ix)  == n - ix[1] - ix[2] - ix[3]                    \* nab
Feasible(n, ix) == Rest(n, ix) >= 0
NA(ix)       == ix[1] + ix[2]                                \* copies of allele A
NB(ix)       == ix[1] + ix[3]                                \* copies of allele B
SegA(n, ix)  == NA(ix) > 0 /\ NA(ix) < n
SegB(n, ix)  == NB(ix) > 0 /\ NB(ix) < n
Informative(n, ix) == Feasible(n, ix) /\ SegA(n, ix) /\ SegB(n, ix)
Simplex(n)   == {ix \in Cube(n) : Feasible(n, ix)}
InfSet(n)    == {ix \in Cube(n) : Informative(n, ix)}
\* the slices TLSpectrum.mask_infeasible writes (law L_MaskMeaning: they are the non-informative entries)
SliceMasked(n, ix) == \/ (ix[1] = 0 /\ ix[3] = 0) \/ (ix[1] = 0 /\ ix[2] = 0)
                      \/ ix[1] + ix[2] + ix[3] > n
                      \/ (ix[2] = n - ix[1] /\ ix[3] = 0) \/ (ix[2] = 0 /\ ix[3] = n - ix[1])
DefaultMask(n) == TLCEval([q \in 1..Size3(n) |-> ~Informative(n, Unflat3(n, q))])

At(s, ix)     == s.d[Flat3(s.n, ix)]
MaskAt(s, ix) == s.m[Flat3(s.n, ix)]
Mk(n, D(_), M(_), f) ==
    [n |-> n, d |-> TLCEval([q \in 1..Size3(n) |-> D(Unflat3(n, q))]),
     m |-> TLCEval([q \in 1..Size3(n) |-> M(Unflat3(n, q))]), f |-> f]
WellFormed(s) == /\ s.n \in Nat /\ s.n >= 1 /\ Len(s.d) = Size3(s.n) /\ Len(s.m) = Size3(s.n)
                 /\ s.f \in {"folded", "unfolded"}
\* every infeasible entry is masked (all operations below are defined on such spectra)
WellMasked(s) == \A q \in 1..Size3(s.n) : ~Feasible(s.n, Unflat3(s.n, q)) => s.m[q]
\* every non-informative entry is masked
InfMasked(s)  == \A q \in 1..Size3(s.n) : ~Informative(s.n, Unflat3(s.n, q)) => s.m[q]
Unmasked(s)   == {ix \in Simplex(s.n) : ~MaskAt(s, ix)}
SumOver(S, Fn(_)) == RSum([x \in S |-> Fn(x)])
TotalU(s)     == SumOver(Unmasked(s), LAMBDA ix : At(s, ix))          \* total of the unmasked entries
TotalAll(s)   == SumOver(Simplex(s.n), LAMBDA ix : At(s, ix))         \* total of all feasible entries

\* constructor: TLSpectrum(data, mask, mask_infeasible, data_folded)
Construct(n, d, m, maskInf, f) ==
    [n |-> n, d |-> d, m |-> TLCEval([q \in 1..Size3(n) |-> m[q] \/ (maskInf /\ ~Informative(n, Unflat3(n, q)))]), f |-> f]

(***************************************************************************)
(* Relabelling of alleles.  Not knowing which allele is ancestral at a     *)
(* locus identifies a configuration with its image under                   *)
(*   SwA : A <-> a   (AB, Ab, aB, ab) -> (aB, ab, AB, Ab)                  *)
(*   SwB : B <-> b   (AB, Ab, aB, ab) -> (Ab, AB, ab, aB)                  *)
(*   SwAB: both      (AB, Ab, aB, ab) -> (ab, aB, Ab, AB)                  *)
(* (a Klein four-group).  Folding keeps the representative in which the    *)
(* named alleles are the minor ones (2 nA <= n and 2 nB <= n).             *)
(***************************************************************************)
SwI(n, ix)   == ix
SwA(n, ix)   == <<ix[3], Rest(n, ix), ix[1]>>
SwB(n, ix)   == <<ix[2], ix[1], Rest(n, ix)>>
SwAB(n, ix)  == <<Rest(n, ix), ix[3], ix[2]>>
SwLoci(n, ix) == <<ix[1], ix[3], ix[2]>>                      \* exchange the roles of the two loci (left / right)
HighA(n, ix) == 2 * NA(ix) > n
HighB(n, ix) == 2 * NB(ix) > n
FoldedOut(n, ix) == HighA(n, ix) \/ HighB(n, ix)
Canon(n, ix) == IF HighA(n, ix) /\ HighB(n, ix) THEN SwAB(n, ix)
                ELSE IF HighA(n, ix) THEN SwA(n, ix)
                ELSE IF HighB(n, ix) THEN SwB(n, ix) ELSE ix
Orbit(n, ix) == {ix, SwA(n, ix), SwB(n, ix), SwAB(n, ix)}
\* the entries folded onto the representative t
Sources(n, t) == {y \in Orbit(n, t) \ {t} : FoldedOut(n, y) /\ Canon(n, y) = t}
Relabel(s, G(_, _)) ==
    Mk(s.n, LAMBDA ix : IF Feasible(s.n, ix) THEN At(s, G(s.n, ix)) ELSE At(s, ix),
       LAMBDA ix : IF Feasible(s.n, ix) THEN MaskAt(s, G(s.n, ix)) ELSE MaskAt(s, ix), s.f)

\* fold (TLSpectrum.fold, numerics.fold_ancestral): defined on unfolded, well-masked spectra.  Masked entries
\* take no part; a masked representative stays masked.
Fold(s) ==
    LET n == s.n
        src(t) == {y \in Sources(n, t) : ~MaskAt(s, y)}
    IN  Mk(n,
           LAMBDA ix : IF ~Feasible(n, ix) \/ MaskAt(s, ix) THEN At(s, ix)
                       ELSE IF FoldedOut(n, ix) THEN "0"
                       ELSE RAdd(At(s, ix), SumOver(src(ix), LAMBDA y : At(s, y))),
           LAMBDA ix : MaskAt(s, ix) \/ (Feasible(n, ix) /\ FoldedOut(n, ix)),
           "folded")
\* unfold (TLSpectrum.unfold): the data as they are, with the constructor's mask
Unfold(s) == [n |-> s.n, d |-> s.d, m |-> DefaultMask(s.n), f |-> "unfolded"]
\* fold_lr (numerics.fold_lr): identify (i, j, k) with (i, k, j), representative j >= k
FoldLR(s) ==
    LET n == s.n IN
    Mk(n,
       LAMBDA ix : IF ~Feasible(n, ix) \/ MaskAt(s, ix) THEN At(s, ix)
                   ELSE IF ix[3] > ix[2] THEN "0"
                   ELSE IF ix[2] > ix[3] /\ ~MaskAt(s, SwLoci(n, ix)) THEN RAdd(At(s, ix), At(s, SwLoci(n, ix)))
                   ELSE At(s, ix),
       LAMBDA ix : MaskAt(s, ix) \/ (Feasible(n, ix) /\ ix[3] > ix[2]),
       s.f)

\* ancestral-state misidentification with probability p at each locus independently (numerics.misidentification)
Misid(s, p) ==
    LET n == s.n
        q == RSub("1", p)
        v(ix) == IF MaskAt(s, ix) THEN "0" ELSE At(s, ix)
    IN  Mk(n,
           LAMBDA ix : IF ~Feasible(n, ix) THEN "0"
                       ELSE RAdd(RAdd(RMul(RMul(q, q), v(ix)), RMul(RMul(p, q), RAdd(v(SwA(n, ix)), v(SwB(n, ix))))),
                                 RMul(RMul(p, p), v(SwAB(n, ix)))),
           LAMBDA ix : ~Informative(n, ix), "unfolded")

(***************************************************************************)
(* Projection to a smaller sample: multivariate hypergeometric subsampling *)
(* of the four haplotype classes (numerics.project, cached_projection).    *)
(***************************************************************************)
Counts(n, ix) == <<ix[1], ix[2], ix[3], Rest(n, ix)>>
\* probability that m chromosomes drawn without replacement from a sample with class counts X (size n)
\* have class counts y
MVH(n, mm, X, y) ==
    LET cx == Counts(n, X) cy == Counts(mm, y) IN
    RDiv(RMul(RMul(RBinom(cx[1], cy[1]), RBinom(cx[2], cy[2])), RMul(RBinom(cx[3], cy[3]), RBinom(cx[4], cy[4]))),
         RBinom(n, mm))
Covers(n, mm, X, y) == LET cx == Counts(n, X) cy == Counts(mm, y) IN \A c \in 1..4 : cy[c] >= 0 /\ cy[c] <= cx[c]
\* masked source entries take no part; the result carries the constructor's mask
Project(s, mm) ==
    LET n == s.n
        srcs == Unmasked(s)
    IN  Mk(mm,
           LAMBDA y : IF ~Feasible(mm, y) THEN "0"
                      ELSE SumOver({X \in srcs : Covers(n, mm, X, y)}, LAMBDA X : RMul(At(s, X), MVH(n, mm, X, y))),
           LAMBDA y : ~Informative(mm, y), "unfolded")
\* single-locus hypergeometric weight (for the law relating projection and marginals)
Hyp1(n, mm, h, k) == RDiv(RMul(RBinom(h, k), RBinom(n - h, mm - k)), RBinom(n, mm))

(***************************************************************************)
(* Marginal single-locus spectra (TLSpectrum.marginalA / marginalB,        *)
(* numerics.to_single_locus): sums of the unmasked entries by nA (by nB).  *)
(***************************************************************************)
MargA(s) == [a \in 0..s.n |-> SumOver({X \in Unmasked(s) : NA(X) = a}, LAMBDA X : At(s, X))]
MargB(s) == [b \in 0..s.n |-> SumOver({X \in Unmasked(s) : NB(X) = b}, LAMBDA X : At(s, X))]
\* conditioning on nA = a (numerics.condition): a table indexed by (nAB, naB)
Condition(s, a) == [i \in 0..a |-> [k \in 0..(s.n - a) |->
                      IF a - i >= 0 /\ Feasible(s.n, <<i, a - i, k>>) /\ ~MaskAt(s, <<i, a - i, k>>) THEN At(s, <<i, a - i, k>>) ELSE "0"]]

(***************************************************************************)
(* Linkage-disequilibrium statistics per entry (numerics.LD_per_bin) and   *)
(* their mean (TLSpectrum.mean_r2, numerics.mean_r2)                       *)
(***************************************************************************)
Freq(n, c)   == RDiv(RInt(c), RInt(n))
DStat(n, ix) == RSub(Freq(n, ix[1]), RMul(Freq(n, NA(ix)), Freq(n, NB(ix))))
R2Stat(n, ix) == LET pa == Freq(n, NA(ix)) pb == Freq(n, NB(ix)) IN
                 RDiv(RSq(DStat(n, ix)), RMul(RMul(pa, RSub("1", pa)), RMul(pb, RSub("1", pb))))
\* defined when the unmasked entries are informative and their total is not zero
MeanR2(s) == RDiv(SumOver(Unmasked(s), LAMBDA ix : RMul(At(s, ix), R2Stat(s.n, ix))), TotalU(s))

(***************************************************************************)
(* Arithmetic: entrywise on the data, masks unite, folding status kept,    *)
(* operands of different folding status refused.                           *)
(***************************************************************************)
ArithVal(op, x, y) == CASE op = "add" -> RAdd(x, y) [] op = "sub" -> RSub(x, y)
                        [] op = "mul" -> RMul(x, y) [] op = "div" -> RDiv(x, y)
                        [] op = "pow" -> (IF RIsInt(y) THEN RPow(x, RFloor(y)) ELSE "0")
                        [] OTHER -> "0"
\* s op t (spectrum) ; masked entries: value not specified ("0" here)
Arith(op, s, t) ==
    LET m == TLCEval([q \in 1..Size3(s.n) |-> s.m[q] \/ t.m[q]]) IN
    [n |-> s.n, d |-> TLCEval([q \in 1..Size3(s.n) |-> IF m[q] THEN "0" ELSE ArithVal(op, s.d[q], t.d[q])]), m |-> m, f |-> s.f]
\* s op c, or c op s when refl
ArithC(op, s, c, refl) ==
    [n |-> s.n, d |-> TLCEval([q \in 1..Size3(s.n) |-> IF s.m[q] THEN "0"
                                 ELSE IF refl THEN ArithVal(op, c, s.d[q]) ELSE ArithVal(op, s.d[q], c)]), m |-> s.m, f |-> s.f]

(***************************************************************************)
(* The discrete numerics: uniform grid on [0,1] with P intervals, the      *)
(* tetrahedral domain x1 + x2 + x3 <= 1, quadrature weights, sampling of a *)
(* spectrum from a density by quadrinomial weights.  A density phi is a    *)
(* flat C-order sequence over the (P+1)^3 grid (same layout as a spectrum  *)
(* with n = P), x the sequence of the P+1 grid points.                     *)
(***************************************************************************)
GridX(P)     == [k \in 1..(P + 1) |-> RDiv(RInt(k - 1), RInt(P))]
\* numerics.grid_dx: half the distance between the neighbours
GridDx(x)    == [k \in 1..Len(x) |-> RHalf(RAdd(IF k < Len(x) THEN RSub(x[k + 1], x[k]) ELSE "0",
                                                   IF k > 1 THEN RSub(x[k], x[k - 1]) ELSE "0"))]
\* numerics.domain on a uniform grid: 1 inside or on the boundary of the tetrahedron, 0 outside
InDomain(P, g) == g[1] + g[2] + g[3] <= P
OnSurface(P, g) == g[1] + g[2] + g[3] = P
\* numerics.grid_dx3 inside the domain: product weights, halved on the oblique face
DX3(P, dx, g) == LET w == RMul(RMul(dx[g[1] + 1], dx[g[2] + 1]), dx[g[3] + 1]) IN IF OnSurface(P, g) THEN RHalf(w) ELSE w
Int3(P, dx, phi) == SumOver(Simplex(P), LAMBDA g : RMul(DX3(P, dx, g), phi[Flat3(P, g)]))
\* n! / (i! j! k! l!)
Quad(n, ix)  == RMul(RMul(RBinom(n, ix[1]), RBinom(n - ix[1], ix[2])), RBinom(n - ix[1] - ix[2], ix[3]))
\* probability of drawing the configuration ix in n draws at haplotype frequencies (x1, x2, x3, 1-x1-x2-x3)
QuadP(n, ix, x1, x2, x3) ==
    RMul(Quad(n, ix), RMul(RMul(RPow(x1, ix[1]), RPow(x2, ix[2])),
                           RMul(RPow(x3, ix[3]), RPow(RSub(RSub(RSub("1", x1), x2), x3), Rest(n, ix)))))
\* numerics.sample_cached for a density that vanishes outside the domain
Sample(P, x, phi, n) ==
    LET dx == GridDx(x)
        supp == {g \in Simplex(P) : phi[Flat3(P, g)] # "0"}
    IN  Mk(n,
           LAMBDA ix : IF ~Feasible(n, ix) THEN "0"
                       ELSE SumOver(supp, LAMBDA g : RMul(RMul(DX3(P, dx, g), phi[Flat3(P, g)]),
                                                          QuadP(n, ix, x[g[1] + 1], x[g[2] + 1], x[g[3] + 1]))),
           LAMBDA ix : ~Informative(n, ix), "unfolded")
\* numerics.phi_to_surf / surf_to_phi: the oblique face x1 + x2 + x3 = 1 as a triangle indexed by (i, j)
FlatS(P, i, j) == 1 + i * (P + 1) + j
SurfOf(P, phi) == [q \in 1..((P + 1) * (P + 1)) |->
                     LET i == (q - 1) \div (P + 1) j == (q - 1) % (P + 1) IN
                     IF i + j <= P THEN phi[Flat3(P, <<i, j, P - i - j>>)] ELSE "0"]
PutSurf(P, surf, phi) == [q \in 1..Size3(P) |-> LET g == Unflat3(P, q) IN
                            IF OnSurface(P, g) THEN surf[FlatS(P, g[1], g[2])] ELSE phi[q]]

(***************************************************************************)
(* numerics.transition1D: the implicit finite-volume step matrix of the    *)
(* one-dimensional diffusion (variance x(1-x)/nu, selection gamma x(1-x)), *)
(* P u_new = u_old; 0-based row i, column j.                               *)
(***************************************************************************)
T1D(x, dx, dt, gamma, nu) ==
    LET N == Len(x)
        V(k) == RMul(x[k], RSub("1", x[k]))
        dif(i, j, lo, hi) == RDiv(RMul(RMul(RDiv(dt, nu), "1/2"), V(j)), RMul(dx[i], RSub(x[hi], x[lo])))   \* dt/nu/2/dx_i V_j/(x_hi-x_lo)
        sel(i, j) == RDiv(RMul(RMul(gamma, dt), V(j)), RMul("2", dx[i]))
    IN  [i \in 1..N |-> [j \in 1..N |->
          IF j = i - 1 THEN RSub(RNeg(dif(i, j, i - 1, i)), sel(i, j))
          ELSE IF j = i + 1 THEN RAdd(RNeg(dif(i, j, i, i + 1)), sel(i, j))
          ELSE IF j = i THEN RAdd("1", RAdd(IF i > 1 THEN dif(i, i, i - 1, i) ELSE "0", IF i < N THEN dif(i, i, i, i + 1) ELSE "0"))
          ELSE "0"]]

(***************************************************************************)
(* Diploid genotypes (numerics.pairings ... project_Gdict and the compiled *)
(* projection_genotypes).  The n sampled chromosomes (n even) are paired   *)
(* uniformly at random into n/2 diploid individuals.  Haplotype classes    *)
(* 1..4 = AB, Ab, aB, ab.  A pairing configuration is the 10-tuple of      *)
(* numbers of individuals                                                  *)
(*   g = <<11, 22, 33, 44, 12, 13, 14, 23, 24, 34>>                        *)
(* (dadi's order RR, GG, BB, YY, RG, RB, RY, GB, GY, BY).  What can be     *)
(* observed without phase are the 9 two-locus genotypes                    *)
(*   o = <<AABB, AABb, AAbb, AaBB, AaBb, Aabb, aaBB, aaBb, aabb>>;         *)
(* dadi's dictionaries are keyed by the first 8 of them.                   *)
(***************************************************************************)
RECURSIVE RFact(_)
RFact(n) == IF n <= 0 THEN "1" ELSE RMul(RInt(n), RFact(n - 1))
RProdSeq(q) == LET RECURSIVE go(_, _)
                   go(k, acc) == IF k > Len(q) THEN acc ELSE go(k + 1, RMul(acc, q[k]))
               IN go(1, "1")
ISumSeq(q) == LET RECURSIVE go(_)
                  go(k) == IF k > Len(q) THEN 0 ELSE q[k] + go(k + 1)
              IN go(1)
Pairings(n) == RDiv(RFact(n), RMul(RFact(n \div 2), RPow("2", n \div 2)))            \* perfect matchings of n items
HapOf(g) == <<2 * g[1] + g[5] + g[6] + g[7], 2 * g[2] + g[5] + g[8] + g[9],
              2 * g[3] + g[6] + g[8] + g[10], 2 * g[4] + g[7] + g[9] + g[10]>>
\* all configurations of a sample with haplotype counts c = <<nAB, nAb, naB, nab>>
GenoConfigs(c) ==
    LET build(a1, a2, a3, a4, x, y, z) ==
            <<a1, a2, a3, a4, x, y, c[1] - 2 * a1 - x - y, z, c[2] - 2 * a2 - x - z, c[3] - 2 * a3 - y - z>>
    IN  {g \in {build(a1, a2, a3, a4, x, y, z) : a1 \in 0..(c[1] \div 2), a2 \in 0..(c[2] \div 2), a3 \in 0..(c[3] \div 2),
                                                 a4 \in 0..(c[4] \div 2), x \in 0..c[1], y \in 0..c[1], z \in 0..c[2]} :
            (\A k \in 1..10 : g[k] >= 0) /\ HapOf(g) = c}
\* probability of the configuration g when a sample with haplotype counts c is paired at random
GenoProb(c, g) ==
    RDiv(RDiv(RProdSeq([k \in 1..4 |-> RFact(c[k])]),
              RMul(RPow("2", g[1] + g[2] + g[3] + g[4]), RProdSeq([k \in 1..10 |-> RFact(g[k])]))),
         Pairings(c[1] + c[2] + c[3] + c[4]))
Observed9(g) == <<g[1], g[5], g[2], g[6], g[7] + g[8], g[9], g[3], g[10], g[4]>>
First8(o)    == SubSeq(o, 1, 8)
With9(o8, tot) == o8 \o <<tot - ISumSeq(o8)>>
\* the spectrum of observed genotypes of a two-locus spectrum: value at the key o8 (numbers of individuals n/2)
ObsValue(s, o8) ==
    SumOver(Unmasked(s), LAMBDA X : LET c == Counts(s.n, X) IN
        RMul(At(s, X), SumOver({g \in GenoConfigs(c) : First8(Observed9(g)) = o8}, LAMBDA g : GenoProb(c, g))))
ObsKeys(s) == UNION {{First8(Observed9(g)) : g \in GenoConfigs(Counts(s.n, X))} : X \in Unmasked(s)}
\* the spectrum of pairing configurations (phase known), keyed by the first 9 entries of g
PairValue(s, g9) ==
    LET g == With9(g9, s.n \div 2) c == HapOf(g) X == <<c[1], c[2], c[3]>> IN
    IF (\A k \in 1..10 : g[k] >= 0) /\ Feasible(s.n, X) /\ ~MaskAt(s, X) /\ RPos(At(s, X)) THEN RMul(At(s, X), GenoProb(c, g)) ELSE "0"
\* subsampling nt of nf individuals: multivariate hypergeometric over the 9 genotype classes
GMVH(nf, nt, G9, O9) == RDiv(RProdSeq([k \in 1..9 |-> RBinom(G9[k], O9[k])]), RBinom(nf, nt))
GTargets(nt, G9) == {O \in [1..9 -> 0..nt] : ISumSeq(O) = nt /\ \A k \in 1..9 : O[k] <= G9[k]}
\* both loci segregate among the 2 nt chromosomes
CopiesA(O) == 2 * (O[1] + O[2] + O[3]) + O[4] + O[5] + O[6]
CopiesB(O) == 2 * (O[1] + O[4] + O[7]) + O[2] + O[5] + O[8]
SegG(nt, O) == CopiesA(O) > 0 /\ CopiesA(O) < 2 * nt /\ CopiesB(O) > 0 /\ CopiesB(O) < 2 * nt

Same(s, t)     == s.n = t.n /\ s.d = t.d /\ s.m = t.m /\ s.f = t.f
\* equal where it matters: same masks, same data at the unmasked entries
SameU(s, t)    == s.n = t.n /\ s.m = t.m /\ \A q \in 1..Size3(s.n) : ~s.m[q] => s.d[q] = t.d[q]
=============================================================================
