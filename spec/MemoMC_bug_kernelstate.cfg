\* DEFECTIVE design (must be refuted): a compiled kernel keeps grid-derived arrays in static storage, rebuilt only when the grid size changes
CONSTANTS
  MaxDepth = 2
  BaseSel = "memo"
  LaySel = "C"
  ProjKeyMode = "full"
  DbetaKeyMode = "full"
  PartKeyMode = "full"
  EntryMode = "copy_all"
  XXMode = "contig"
  GodMode = "object"
  DemesMode = "pure"
  PerturbMode = "pure"
  HashMode = "ordered"
  SFSMode = "copies"
  VectorMode = "copies"
  MaskMode = "setter"
  KernelMode = "static_by_size"
  MaxTable = 60
SPECIFICATION Spec
CHECK_DEADLOCK FALSE
CONSTRAINT TableBound
VIEW MCView
INVARIANT TypeOK
INVARIANT AlphabetOK
INVARIANT TablesSound
INVARIANT ResultIndependentOfHistory
INVARIANT ResultIndependentOfHashSeed
INVARIANT LayoutIndependent
INVARIANT ArgumentsUnchanged
INVARIANT ResultIsFresh
