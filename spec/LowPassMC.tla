----------------------------- MODULE LowPassMC -----------------------------
(***************************************************************************)
(* Exhaustive exploration of the low-pass calling model (property C18).    *)
(* A behaviour fixes a sequencing design (n_sequenced, n_subsampling, a    *)
(* depth-of-coverage distribution from a rational lattice on depths 0..3), *)
(* then an inbreeding coefficient (the calling components NoCall,          *)
(* subsampling matrix, calling-error matrix are computed at that step and  *)
(* carried in the state), then a model spectrum and a simulation           *)
(* threshold, and pushes the model through the stages of the correction:   *)
(*    model --DoCall--> called --DoSubsample--> subsampled                 *)
(*          --DoMiscall--> miscalled --DoMerge--> corrected.               *)
(* DoCall removes the sites that are not called (analytic entries) and     *)
(* sets aside the entries handed to the simulator; DoMerge adds what the   *)
(* simulator returned for them (any distribution over the called spectrum; *)
(* the extreme points are explored).  The laws of C18 are invariants       *)
(* evaluated in every reachable state.                                     *)
(***************************************************************************)
EXTENDS LowPass, TLC
CONSTANTS MaxSeq,      \* largest n_sequenced (even)
          CovDen,      \* coverage probabilities are multiples of 1/CovDen on depths 0..3
          Lip,         \* continuity as F -> 0: distance to the F = 0 object <= Lip * F
          Fs, Thresholds

FsQuick    == {"0", "1/1000", "1/100", "1/10", "1/2"}
FsThorough == {"0", "1/1000", "1/100", "1/10", "1/3", "1/2", "9/10", "99/100"}
ThrQuick    == {"1/100", "1"}
ThrThorough == {"0", "1/100", "1/2", "1"}
SmallF == {"1/10", "1/100", "1/1000"}

VARIABLES st, stage, v
vars == <<st, stage, v>>

Evens(lo, hi) == {k \in lo..hi : k % 2 = 0}
CovLattice == {[d \in 1..4 |-> RDiv(RInt(q[d]), RInt(CovDen))] :
                 q \in {qq \in [1..4 -> 0..CovDen] : qq[1] + qq[2] + qq[3] + qq[4] = CovDen /\ qq[1] < CovDen}}
Unit(len, j) == [k \in 1..len |-> IF k = j + 1 THEN "1" ELSE "0"]
UnitSpec(len, j) == [sh |-> <<len>>, d |-> Unit(len, j), m |-> [k \in 1..len |-> FALSE], f |-> FALSE, ids |-> <<>>]
\* model spectra: a generic one (all laws are linear in the model) and the neutral 1/x spectrum with empty corners
Models(nseq) == {[k \in 1..(nseq + 1) |-> RInt(2 * k + 1)],
                 [k \in 1..(nseq + 1) |-> IF k = 1 \/ k = nseq + 1 THEN "0" ELSE RDiv("1", RInt(k - 1))]}
NoComp == [nc |-> <<>>, pj |-> <<>>, pm |-> <<>>, ce |-> <<>>, e |-> "0"]
\* the calling components of a design for inbreeding coefficient f
Components(nseq, nsub, cov, f) ==
    LET e  == EnoughCovered(cov, nseq, nsub)
        pj == ProjectionMatrix(nseq, nsub, f)
    IN  [nc |-> NoCall(cov, nseq, f), e |-> e, pj |-> pj, pm |-> ScaleMat(e, pj), ce |-> CallingErrorMatrix(cov, nsub, f)]
PointMass3(cov) == cov[4] = "1"      \* laws that do not depend on the coverage distribution are evaluated at this one

\* the first step chooses F (so that TLC's workers share the designs) and computes the calling components
Init == /\ stage = "design" /\ v = <<>>
        /\ \E nseq \in Evens(2, MaxSeq) : \E nsub \in Evens(2, nseq) : \E cov \in CovLattice :
              st = [nseq |-> nseq, nsub |-> nsub, cov |-> cov, F |-> "0", c |-> NoComp, c0 |-> NoComp,
                    model |-> <<>>, usesim |-> <<>>, simj |-> 0]
ChooseF == /\ stage = "design" /\ stage' = "params" /\ v' = v
           /\ \E f \in Fs :
                 st' = [st EXCEPT !.F = f, !.c = Components(st.nseq, st.nsub, st.cov, f),
                                  \* the random-mating components, for the continuity law
                                  !.c0 = IF f \in SmallF THEN Components(st.nseq, st.nsub, st.cov, "0") ELSE NoComp]
PickModel == /\ stage = "params" /\ stage' = "model"
             /\ \E m \in Models(st.nseq) : \E thr \in Thresholds :
                   /\ st' = [st EXCEPT !.model = m, !.usesim = UseSim(st.c.nc, thr), !.c0 = NoComp]
                   /\ v' = m
\* analytic entries lose the sites that are not called; simulated entries are set aside
DoCall == /\ stage = "model" /\ stage' = "called" /\ st' = st
          /\ v' = [k \in 1..Len(v) |-> IF st.usesim[k] THEN "0" ELSE RMul(v[k], RSub("1", st.c.nc[k]))]
DoSubsample == /\ stage = "called" /\ stage' = "subsampled" /\ st' = st
               /\ v' = ContractAxis(<<st.nseq + 1>>, v, 1, st.c.pm)
DoMiscall == /\ stage = "subsampled" /\ stage' = "miscalled" /\ st' = st
             /\ v' = ContractAxis(<<st.nsub + 1>>, v, 1, st.c.ce)
\* the simulator returns, for every entry handed to it, some distribution over the called spectrum
SimMass == RSum([k \in 1..Len(st.model) |-> IF st.usesim[k] THEN st.model[k] ELSE "0"])
DoMerge == /\ stage = "miscalled" /\ stage' = "corrected"
           /\ \E j \in (IF \E k \in 1..Len(st.usesim) : st.usesim[k] THEN 0..st.nsub ELSE {0}) :
                                     /\ st' = [st EXCEPT !.simj = j]
                                     /\ v' = RAddSeq(v, RScaleSeq(SimMass, Unit(st.nsub + 1, j)))
Next == ChooseF \/ PickModel \/ DoCall \/ DoSubsample \/ DoMiscall \/ DoMerge
Spec == Init /\ [][Next]_vars

TypeOK == /\ stage \in {"design", "params", "model", "called", "subsampled", "miscalled", "corrected"}
          /\ IsCov(st.cov) /\ st.nsub <= st.nseq
          /\ (stage = "params" => st.c.pm = SubsampleMat(st.c.e, st.nseq, st.nsub, st.F))
          /\ (stage # "design" => Len(st.c.pm) = st.nseq + 1 /\ Len(st.c.ce) = st.nsub + 1 /\ Len(st.c.nc) = st.nseq + 1)

n == st.nseq \div 2
FnDist(f) == (\A c \in DOMAIN f : RNonNeg(f[c])) /\ RSum(f) = "1"
MaxAbsDiffSeq(a, b) == RSeqMaxAbs(RSubSeq(a, b))
MaxAbsDiffMat(A, B) == RSeqMaxAbs([x \in 1..Len(A) |-> MaxAbsDiffSeq(A[x], B[x])])
Mean(row) == RSum([j \in 1..Len(row) |-> RMul(RInt(j - 1), row[j])])

\* ---- partitions: all and only the configurations; probabilities ----
L_Partitions == (stage = "design" /\ PointMass3(st.cov)) =>
    /\ \A x \in 0..st.nseq :
          /\ Configs(x, n) = ConfigsBrute(x, n)
          /\ {CountsOf(s) : s \in SortedLists(x, n)} = Configs(x, n)
          /\ Cardinality(SortedLists(x, n)) = Cardinality(Configs(x, n))
          /\ RSum([c \in Configs(x, n) |-> Ways0(c)]) = RBinom(2 * n, x)             \* every haplotype assignment once
    /\ RSum([x \in 0..st.nseq |-> RSum([c \in Configs(x, n) |-> Multinom(c)])]) = RPow("3", n)   \* every genotype assignment once
    /\ Configs(st.nseq + 1, n) = {}
L_PartProbs == stage = "params" => \A x \in 0..st.nseq :
    LET pp == PartProbs(x, n, st.F) IN FnDist(pp) /\ \A c \in DOMAIN pp : RPos(pp[c])
L_GenoHW == (stage = "params" /\ st.F # "0") => \A x \in 1..(st.nseq - 1) :
    LET g == GenoProbs(x, n, st.F) IN g = GenoHW(x, n, st.F) /\ RSum(g) = "1" /\ \A k \in 1..3 : RNonNeg(g[k])
\* ---- subsampling ----
L_ProjInb == (stage = "design" /\ PointMass3(st.cov)) => \A x \in 0..st.nseq : \A c \in Configs(x, n) :
    LET pi == ProjInb(c, st.nsub) IN IsDist(pi) /\ RMul(Mean(pi), RInt(st.nseq)) = RInt(x * st.nsub)
L_ProjMatrix == stage = "params" =>
    LET M == st.c.pj IN
    /\ RowStochastic(M)
    /\ \A x \in 0..st.nseq : RMul(Mean(M[x + 1]), RInt(st.nseq)) = RInt(x * st.nsub)        \* mean frequency kept
    /\ (st.nsub = st.nseq => \A x \in 0..st.nseq : M[x + 1] = Unit(st.nseq + 1, x))          \* no subsampling = identity
\* drawing nsub/2 individuals from randomly mated genotypes = drawing nsub haplotypes (hypergeometric)
L_ProjRandomMating == (stage = "design" /\ PointMass3(st.cov)) => \A x \in 0..st.nseq :
    LET pp == PartProbs(x, n, "0") IN
    [j \in 1..(st.nsub + 1) |-> RSum([c \in DOMAIN pp |-> RMul(pp[c], ProjInb(c, st.nsub)[j])])] = ProjRow(st.nseq, st.nsub, "0", x)
\* ---- calling ----
L_CallErr == stage = "params" =>
    LET M == st.c.ce IN
    /\ RowStochastic(M)
    /\ \A x \in 0..st.nsub : Mean(M[x + 1]) = RInt(x)                 \* miscalls are symmetric
    /\ M[1] = Unit(st.nsub + 1, 0) /\ M[st.nsub + 1] = Unit(st.nsub + 1, st.nsub)   \* no heterozygote, no miscall
    /\ RNonNeg(HetErr(st.cov)) /\ RLeq(HetErr(st.cov), "1")
    \* the miscall probability refers to covered heterozygotes: it does not depend on P(depth = 0)
    /\ HetErr([d \in 1..4 |-> IF d = 1 THEN "0" ELSE RDiv(st.cov[d], Covered(st.cov))]) = HetErr(st.cov)
\* first principles: distribution of the number of alt reads of one individual, convolved over individuals
AltReads(cov, g) == IF g = 0 THEN Unit(Len(cov), 0)
                    ELSE IF g = 2 THEN cov
                    ELSE [a1 \in 1..Len(cov) |-> RSum([d \in a1..Len(cov) |-> RMul(cov[d], RMul(RBinom(d - 1, a1 - 1), HalfPow(d - 1)))])]
Conv(a, b) == [k \in 1..(Len(a) + Len(b) - 1) |-> RSum([i \in 1..Len(a) |-> IF k - i + 1 >= 1 /\ k - i + 1 <= Len(b) THEN RMul(a[i], b[k - i + 1]) ELSE "0"])]
RECURSIVE ConvPow(_, _)
ConvPow(a, k) == IF k = 0 THEN <<"1">> ELSE Conv(ConvPow(a, k - 1), a)
TotalAltReads(cov, c) == Conv(ConvPow(AltReads(cov, 1), c[2]), ConvPow(AltReads(cov, 2), c[3]))
L_NoCallSemantics == stage = "design" => \A x \in 0..st.nseq : \A c \in Configs(x, n) :
    LET t == TotalAltReads(st.cov, c) IN
    /\ IsDist(t)
    /\ NoCallConfig(st.cov, c) = RAdd(t[1], IF Len(t) >= 2 THEN t[2] ELSE "0")
L_NoCall == stage = "params" =>
    LET nc == st.c.nc IN
    /\ \A x \in 0..st.nseq : RNonNeg(nc[x + 1]) /\ RLeq(nc[x + 1], "1")
    /\ nc[1] = "1"                                                     \* a monomorphic site is never called variant
L_Enough == stage = "design" =>
    LET e == EnoughCovered(st.cov, st.nseq, st.nsub) IN
    /\ RNonNeg(e) /\ RLeq(e, "1")
    /\ (st.nsub = 2 => e = "1")
    /\ (st.nsub + 2 <= st.nseq => RLeq(EnoughCovered(st.cov, st.nseq, st.nsub + 2), e))
    /\ (st.cov[1] = "0" => e = "1")
\* ---- continuity as F -> 0 ----
L_Continuity == (stage = "params" /\ st.F \in SmallF) =>
    LET bound == RMul(Lip, st.F) IN
    /\ \A x \in 0..st.nseq : LET a == PartProbs(x, n, st.F) b == PartProbs(x, n, "0") IN
                               \A c \in DOMAIN a : RLeq(RAbs(RSub(a[c], b[c])), bound)
    /\ RLeq(MaxAbsDiffMat(st.c.pj, st.c0.pj), bound)
    /\ RLeq(MaxAbsDiffMat(st.c.ce, st.c0.ce), bound)
    /\ RLeq(MaxAbsDiffSeq(st.c.nc, st.c0.nc), bound)
\* ---- the corrected model only redistributes or loses sites ----
Pending == IF stage \in {"called", "subsampled", "miscalled"} THEN SimMass ELSE "0"      \* set aside for the simulator
L_Total == v # <<>> => /\ \A j \in 1..Len(v) : RNonNeg(v[j])
                       /\ RLeq(RAdd(RSum(v), Pending), RSum(st.model))
\* exactly the sites that are not called or lack covered individuals are lost
L_StageTotals ==
    LET called == RSum([k \in 1..Len(st.model) |-> IF st.usesim[k] THEN "0" ELSE RMul(st.model[k], RSub("1", st.c.nc[k]))]) IN
    /\ stage = "called" => RSum(v) = called
    /\ stage \in {"subsampled", "miscalled"} => RSum(v) = RMul(called, st.c.e)
    /\ stage = "corrected" => RSum(v) = RAdd(RMul(called, st.c.e), SimMass)
\* the staged computation is the packaged composition (analytic + simulated parts)
L_Corrected == stage = "corrected" =>
    LET sh == <<st.nseq + 1>>
        sims == Tab([j \in 1..Cardinality({k \in 1..(st.nseq + 1) : st.usesim[k]}) |->
                   [af |-> <<(CHOOSE k \in 1..(st.nseq + 1) : st.usesim[k] /\ Cardinality({kk \in 1..k : st.usesim[kk]}) = j) - 1>>,
                    d |-> Tab(Unit(st.nsub + 1, st.simj))]])
        c == Compose(sh, st.model, st.c.nc, st.usesim, <<st.c.pm>>, <<st.c.ce>>, sims)
    IN  /\ c.sh = <<st.nsub + 1>> /\ c.d = v
        \* with nothing simulated this is the analytic operator Apply
        /\ (\A k \in 1..(st.nseq + 1) : ~st.usesim[k]) =>
              v = Apply([sh |-> sh, d |-> st.model, m |-> [k \in 1..(st.nseq + 1) |-> FALSE], f |-> FALSE, ids |-> <<>>],
                        <<st.cov>>, <<st.nseq>>, <<st.nsub>>, <<st.F>>).d
\* two populations with the same design: the N-dimensional composition factorises over the axes; every axis
\* carries the survival factor lam = probability that enough individuals are covered in both populations
L_TwoPops == (stage = "params" /\ st.nseq <= 4) =>
    LET sh  == <<st.nseq + 1, st.nseq + 1>>
        sh2 == <<st.nsub + 1, st.nsub + 1>>
        nc  == st.c.nc
        lam == SurvivalAll(<<st.cov, st.cov>>, <<st.nseq, st.nseq>>, <<st.nsub, st.nsub>>)
        pm  == SubsampleMat(lam, st.nseq, st.nsub, st.F)
        ce  == st.c.ce
        ncnd == Tab([k \in 1..Size(sh) |-> LET ix == Unflat(sh, k) IN RMul(nc[ix[1] + 1], nc[ix[2] + 1])])
        nosim == [k \in 1..Size(sh) |-> FALSE]
        \* one population, one site class: subsample then miscall
        one == Tab([x1 \in 1..(st.nseq + 1) |-> ContractAxis(<<st.nsub + 1>>, ContractAxis(<<st.nseq + 1>>, Unit(st.nseq + 1, x1 - 1), 1, pm), 1, ce)])
        expect(x1, x2) == Tab([k \in 1..Size(sh2) |-> LET ix == Unflat(sh2, k) IN
                                  RMul(RSub("1", RMul(nc[x1 + 1], nc[x2 + 1])), RMul(one[x1 + 1][ix[1] + 1], one[x2 + 1][ix[2] + 1]))])
        expT == Tab([j \in 1..Size(sh) |-> LET jx == Unflat(sh, j) IN expect(jx[1], jx[2])])
        gen == [sh |-> sh, d |-> [k \in 1..Size(sh) |-> RInt(2 * k + 1)], m |-> [k \in 1..Size(sh) |-> FALSE], f |-> FALSE, ids |-> <<>>]
        ag  == Apply(gen, <<st.cov, st.cov>>, <<st.nseq, st.nseq>>, <<st.nsub, st.nsub>>, <<st.F, st.F>>)
    IN  /\ st.nseq = 2 => \A x1, x2 \in 0..st.nseq :
              LET a == Compose(sh, [k \in 1..Size(sh) |-> IF Unflat(sh, k) = <<x1, x2>> THEN "1" ELSE "0"], ncnd, nosim, <<pm, pm>>, <<ce, ce>>, <<>>)
              IN  /\ a.sh = sh2 /\ a.d = expT[Flat(sh, <<x1, x2>>)] /\ RLeq(RSum(a.d), "1")
                  /\ RSum(a.d) = RMul(RSub("1", RMul(nc[x1 + 1], nc[x2 + 1])), RSq(lam))      \* sites are lost, never created
        \* the packaged operator on a generic model: the same linear map
        /\ ag.sh = sh2
        /\ ag.d = Tab([k \in 1..Size(sh2) |-> RSum([j \in 1..Size(sh) |-> RMul(gen.d[j], expT[j][k])])])
        /\ RLeq(RSum(ag.d), RSum(gen.d))
\* ---- deep-coverage limit is the plain projection of SpectrumOps ----
L_DeepIsProjection == (stage = "design" /\ PointMass3(st.cov)) => \A x \in 0..st.nseq :
    DeepLimit(UnitSpec(st.nseq + 1, x), <<st.nseq>>, <<st.nsub>>, <<"0">>).d = Project(UnitSpec(st.nseq + 1, x), <<st.nsub>>).d
\* every individual at depth exactly 3 (point mass): closed forms
L_PointMass == (stage = "design" /\ st.cov[4] = "1") =>
    /\ HetErr(st.cov) = "1/4"
    /\ EnoughCovered(st.cov, st.nseq, st.nsub) = "1"
    /\ \A x \in 1..st.nseq : \A c \in Configs(x, n) :
          NoCallConfig(st.cov, c) = IF c[3] >= 1 THEN "0"
                                    ELSE RAdd(RPow("1/8", c[2]), RMul(RInt(c[2]), RMul(RPow("1/8", c[2] - 1), "3/8")))
=============================================================================
