#!/bin/sh
# Build the framework offline: compile the Rat operator override, parse every spec, run the Rat self-test.
set -e
cd "$(dirname "$0")"
CP=/opt/veriftools/tla/tla2tools.jar:/opt/veriftools/tla/CommunityModules-deps.jar
mkdir -p build/classes evidence replays
javac -cp "$CP" -d build/classes spec/java/*.java
cd spec
fail=0
for f in *.tla; do
  if ! java -cp "$CP:../build/classes" tla2sany.SANY "$f" > ../build/sany.log 2>&1 || grep -q '\*\*\* Errors\|Fatal' ../build/sany.log; then
    echo "SANY failed on $f"; cat ../build/sany.log; fail=1
  fi
done
[ $fail -eq 0 ] || exit 1
M=$(mktemp -d /var/tmp/tlcmeta-XXXXXX)
java -cp "$CP:../build/classes" tlc2.TLC -metadir "$M" -noGenerateSpecTE -config RatSelfTest.cfg RatSelfTest.tla > ../build/ratselftest.log 2>&1 || { cat ../build/ratselftest.log; rm -rf "$M"; exit 1; }
rm -rf "$M"
grep -q 'No error has been found' ../build/ratselftest.log || { cat ../build/ratselftest.log; exit 1; }
echo "setup ok"
