----------------------------- MODULE DemesIOMC -----------------------------
(***************************************************************************)
(* Exhaustive exploration of dadi programs over a tiny alphabet: the state *)
(* is a program, every step appends one block (an integration, or a        *)
(* topology event followed by an integration); the laws of C16 are         *)
(* invariants evaluated in every reachable state, in exact arithmetic:     *)
(*   Import(Export(p)) has the normal form of p (any units, any Nref),     *)
(*   Import is invariant under ScaleGraph and ChangeUnits,                 *)
(*   PermuteSamples permutes the final axes,                               *)
(*   an ancient sample is a frozen branch; sampling everything at an old   *)
(*   boundary gives the program up to that boundary.                       *)
(* The same next-state relation, with a larger alphabet (up to 5           *)
(* populations), generates the programs of the conformance run             *)
(* (tlc -simulate, cfg DemesIOMC_gen.cfg, PROG lines; Grow = TRUE makes the *)
(* walk split until four populations exist and never remove one).         *)
(***************************************************************************)
EXTENDS DemesIO
CONSTANTS MaxBlocks, MaxPops, Rich, Gen, Grow

VARIABLES prog, blocks
vars == <<prog, blocks>>

Nref == "1000"
C(x)      == [s0 |-> x, s1 |-> x, fn |-> "constant"]
Lin(a, b) == [s0 |-> a, s1 |-> b, fn |-> "linear"]
Exp(a, b) == [s0 |-> a, s1 |-> b, fn |-> "exponential"]
Zero(P)   == [i \in 1..P |-> [j \in 1..P |-> "0"]]
Mig(P, S) == [i \in 1..P |-> [j \in 1..P |-> IF \E q \in S : q[1] = i /\ q[2] = j THEN (CHOOSE q \in S : q[1] = i /\ q[2] = j)[3] ELSE "0"]]

SizeVecs(P) ==
    CASE P = 1 -> {<<C("2")>>} \cup (IF Rich THEN {<<Lin("1", "2")>>, <<Exp("1/2", "2")>>} ELSE {})
      [] P = 2 -> {<<Exp("1/2", "2"), Lin("2", "1")>>} \cup (IF Rich THEN {<<C("1"), C("3")>>} ELSE {})
      [] P = 3 -> {<<Lin("1", "2"), C("3"), Exp("2", "1/2")>>} \cup (IF Rich THEN {<<C("1"), C("2"), C("1/2")>>} ELSE {})
      [] P = 4 -> {<<C("1"), Exp("1/2", "2"), C("3"), Lin("2", "1")>>, <<C("1"), C("2"), C("1/2"), C("3")>>}
      [] P = 5 -> {<<C("1"), C("2"), Lin("1/2", "1"), C("3"), Exp("2", "1")>>, <<C("2"), C("1"), C("1/2"), C("3"), C("1")>>}
Migs(P) ==
    CASE P = 1 -> {Zero(1)}
      [] P = 2 -> {Mig(2, {<<1, 2, "1/2">>})} \cup (IF Rich \/ Gen THEN {Zero(2)} ELSE {})
                  \cup (IF Rich \/ Gen THEN {Mig(2, {<<1, 2, "1">>, <<2, 1, "1">>})} ELSE {})
      [] P = 3 -> {Mig(3, {<<1, 3, "1/2">>, <<3, 2, "1">>})} \cup (IF Rich THEN {Zero(3), Mig(3, {<<1, 2, "1">>, <<2, 1, "1">>})} ELSE {})
      [] P = 4 -> {Zero(4), Mig(4, {<<1, 4, "1/2">>, <<2, 1, "1">>, <<4, 3, "1/4">>})}
      [] P = 5 -> {Zero(5), Mig(5, {<<1, 5, "1/2">>, <<5, 1, "1/2">>, <<3, 2, "1">>, <<4, 5, "1/4">>})}
Ts == IF Gen THEN {"1/10", "1/20"} ELSE {"1/10"}
Ints(P) == {[k |-> "int", T |-> t, sizes |-> sv, mig |-> m, frozen |-> [i \in 1..P |-> FALSE]] : t \in Ts, sv \in SizeVecs(P), m \in Migs(P)}

\* a new population: a copy of one population (tree) or a mixture of populations 1 and 2 / of all (admixture)
SplitProps(P) == {Unit(P, i) : i \in 1..P}
                 \cup (IF P >= 2 THEN {[j \in 1..P |-> IF j = 1 THEN "1/4" ELSE IF j = 2 THEN "3/4" ELSE "0"]} ELSE {})
                 \cup (IF P >= 3 /\ Gen THEN {[j \in 1..P |-> IF j = 1 THEN "1/2" ELSE IF j = P THEN "1/4" ELSE IF j = 2 THEN "1/4" ELSE "0"]} ELSE {})
Pulses(P) == {[k |-> "pulse", dest |-> d, props |-> [j \in 1..P |-> IF j = s THEN "1/5" ELSE "0"]] : d \in 1..P, s \in 1..P}
             \cup (IF P >= 3 THEN {[k |-> "pulse", dest |-> d, props |-> [j \in 1..P |-> IF j = d THEN "0" ELSE IF j = 1 \/ j = P THEN "1/10" ELSE "1/5"]] : d \in IF Gen THEN 1..P ELSE {2}} ELSE {})
Perms(n) == {p \in [1..n -> 1..n] : \A a, b \in 1..n : a # b => p[a] # p[b]}
Reorders(P) == IF P = 2 THEN {<<2, 1>>} ELSE IF P = 3 THEN {<<2, 3, 1>>, <<3, 2, 1>>}
               ELSE IF P = 4 THEN {<<2, 1, 4, 3>>, <<4, 1, 2, 3>>} ELSE IF P = 5 THEN {<<2, 1, 4, 5, 3>>, <<5, 4, 3, 2, 1>>} ELSE {}

NP == PopsAfter(prog, Len(prog))
\* the blocks that may follow the current program
Blocks ==
    LET P == NP
        splits == IF P < MaxPops THEN {<<[k |-> "split", props |-> pr], e>> : pr \in SplitProps(P), e \in Ints(P + 1)} ELSE {}
    IN
    IF Grow /\ P < 4 /\ P < MaxPops THEN splits ELSE
    {<<e>> : e \in Ints(P)}
    \cup splits
    \cup (IF P >= 2 THEN {<<pu, e>> : pu \in {x \in Pulses(P) : x.props[x.dest] = "0"}, e \in Ints(P)} ELSE {})
    \cup (IF P >= 2 /\ (Rich \/ Gen) THEN {<<pu, [pu EXCEPT !.dest = (pu.dest % P) + 1, !.props = [j \in 1..P |-> IF j = pu.dest THEN "1/4" ELSE "0"]], e>> :
                                      pu \in {x \in Pulses(P) : x.props[x.dest] = "0" /\ Cardinality({j \in 1..P : x.props[j] # "0"}) = 1}, e \in Ints(P)} ELSE {})
    \cup (IF P >= 2 /\ ~Grow THEN {<<[k |-> "remove", i |-> r], e>> : r \in 1..P, e \in Ints(P - 1)} ELSE {})
    \cup (IF P >= 2 THEN {<<[k |-> "reorder", perm |-> p], e>> : p \in Reorders(P), e \in Ints(P)} ELSE {})
\* what may end a program
Tails == LET P == NP IN
         (IF P >= 2 THEN {<<[k |-> "reorder", perm |-> p]>> : p \in Reorders(P)} \cup {<<[k |-> "remove", i |-> r]>> : r \in 1..P} ELSE {})

Init == /\ blocks = 0
        /\ \E nu \in (IF Rich \/ Gen THEN {"1", "2"} ELSE {"2"}) : \E e \in Ints(1) : prog = <<[k |-> "init", nu |-> nu], e>>
Emit(p) == IF Gen THEN PrintT(<<"PROG", p>>) ELSE TRUE
Next == \/ /\ blocks >= 0 /\ blocks < MaxBlocks
           /\ \E b \in Blocks : prog' = prog \o b /\ Emit(prog')
           /\ blocks' = blocks + 1
        \/ /\ blocks >= 0 /\ (Rich \/ Gen \/ blocks >= MaxBlocks - 1)       \* (tiny alphabet: early endings only near the depth bound)
           /\ \E b \in Tails : prog' = prog \o b /\ Emit(prog')
           /\ blocks' = -1          \* finished
Spec == Init /\ [][Next]_vars

(***************************************************************************)
(* Laws                                                                    *)
(***************************************************************************)
N    == Len(prog)
Ids  == Names(prog)[N]
G    == Export(prog, Nref, NoneV)
Imp(g, s, ne) == Import(g, s, <<>>, ne, <<>>, <<>>, <<>>)
PowHalf == <<[b |-> "4", x |-> "1/2", v |-> "2"], [b |-> "1/4", x |-> "1/2", v |-> "1/2"], [b |-> "1/2", x |-> "1/2", v |-> "missing"]>>

L_Exportable    == Exportable(prog)
L_RoundTrip     == Norm(Imp(G, Ids, Nref)) = Norm(prog)
L_RoundTripYears == Norm(Imp(Export(prog, Nref, "25"), Ids, Nref)) = Norm(prog)
L_DefaultNe     == Norm(ImportNow(G, Ids)) = Norm(RescaleProg(prog, prog[1].nu))
L_ExportUnits   == /\ ChangeUnits(G, "25") = Export(prog, Nref, "25")
                   /\ ScaleGraph(G, "3") = Export(prog, RMul(Nref, "3"), NoneV)
L_Scale         == \A c \in (IF Rich THEN {"3", "1/2"} ELSE {"3"}) : /\ Imp(ScaleGraph(G, c), Ids, RMul(Nref, c)) = Imp(G, Ids, Nref)
                                           /\ ImportNow(ScaleGraph(G, c), Ids) = ImportNow(G, Ids)
L_Units         == Imp(ChangeUnits(G, "25"), Ids, Nref) = Imp(G, Ids, Nref)
\* (tiny alphabet: a rotation and the reversal generate every permutation; the rich configuration tries them all)
SomePerms(n)    == IF Rich THEN Perms(n) ELSE {[j \in 1..n |-> (j % n) + 1], [j \in 1..n |-> n + 1 - j]}
L_Permute       == \A pi \in SomePerms(Len(Ids)) : Imp(G, PermuteSamples(Ids, pi), Nref) = PermuteLastReorder(Imp(G, Ids, Nref), pi)

\* size descriptor of the first / second part of an integration cut at half its duration (powers from PowHalf)
MidSize(s) == IF s.fn = "constant" \/ s.s0 = s.s1 THEN s.s0
              ELSE IF s.fn = "linear" THEN RHalf(RAdd(s.s0, s.s1))
              ELSE RMul(s.s0, PowLookup(PowHalf, RDiv(s.s1, s.s0), "1/2"))
FirstHalf(e)  == [e EXCEPT !.T = RHalf(e.T), !.sizes = [i \in 1..Len(e.sizes) |-> [e.sizes[i] EXCEPT !.s1 = MidSize(e.sizes[i])]]]
\* second half with one more population (frozen, size irrelevant) appended
SecondHalfPlus(e) == LET P == Len(e.sizes) IN
    [k |-> "int", T |-> RHalf(e.T),
     sizes |-> [i \in 1..(P + 1) |-> IF i <= P THEN [e.sizes[i] EXCEPT !.s0 = MidSize(e.sizes[i])] ELSE C(RDiv("1", Nref))],
     mig |-> [i \in 1..(P + 1) |-> [j \in 1..(P + 1) |-> IF i <= P /\ j <= P THEN e.mig[i][j] ELSE "0"]],
     frozen |-> [i \in 1..(P + 1) |-> i = P + 1]]
\* "ancient samples equal frozen branches": population a of the last integration sampled half-way through it
L_AncientFrozen ==
    (prog[N].k = "int" /\ NP >= 2 /\ NP <= 4) =>        \* with a single population the only sample is ancient: that is slicing, see L_AncientBoundary
    \A a \in 1..NP :
        LET e   == prog[N]
            P   == NP
            t   == RMul(RHalf(e.T), RMul("2", Nref))
            st  == [j \in 1..P |-> IF j = a THEN t ELSE "0"]
            fn  == [j \in 1..P |-> "anc" \o ToString(j)]
            got == Import(G, Ids, st, Nref, fn, <<>>, PowHalf)
            want == SubSeq(prog, 1, N - 1) \o
                    <<FirstHalf(e), [k |-> "split", props |-> Unit(P, a)], SecondHalfPlus(e), [k |-> "remove", i |-> a],
                      [k |-> "reorder", perm |-> [j \in 1..P |-> IF j < a THEN j ELSE IF j = a THEN P ELSE j - 1]]>>
        IN  Norm(got) = Norm(want)
\* sampling every population at the boundary between the last two integrations gives the program up to there
L_AncientBoundary ==
    (N >= 3 /\ prog[N].k = "int" /\ prog[N - 1].k = "int") =>
        LET ids == Names(prog)[N - 1]
            t   == RMul(prog[N].T, RMul("2", Nref))
            got == Import(G, ids, [j \in 1..Len(ids) |-> t], Nref, [j \in 1..Len(ids) |-> "old" \o ToString(j)], <<>>, <<>>)
        IN  Norm(got) = Norm(SubSeq(prog, 1, N - 1))
=============================================================================
