#!/bin/sh
# usage: eval_seed3.sh <prop> [prefix]  - confirm the seeded changes of a round (demo clean/changed, full test-suite) and run the property's quick check on each
P="$1"; PRE="${2:-seed3}"; L=/tmp/$PRE-eval-$P.log
: > $L
/verif/harness/confirm_seed.sh $P $PRE >> $L 2>&1
for k in 1 2 3; do
  [ -f /tmp/$PRE-$P-out/$k/patch.diff ] || continue
  echo "== $P/$k check" >> $L
  /verif/harness/try_seed.sh /tmp/$PRE-$P-out/$k/patch.diff $P quick >> $L 2>&1
  echo "== $P/$k rc=$?" >> $L
done
echo "eval $P done"
