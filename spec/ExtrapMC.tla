------------------------------ MODULE ExtrapMC ------------------------------
(***************************************************************************)
(* Exhaustive exploration of the extrapolation dispatch machine of module  *)
(* Extrap: every ordering of k distinct x (k = 0..7) from XSet, polynomial *)
(* models from a coefficient lattice, linear and log mode, pts positional  *)
(* or keyword or scalar, no_extrap, the three x sources, several fail_mag. *)
(* The laws of C07 are invariants of the reachable states.                 *)
(* The extrapolation is linear in the data, so monomials decide exactness  *)
(* for every polynomial; the lattice polynomials are checked in addition.  *)
(***************************************************************************)
EXTENDS Extrap, TLC
CONSTANTS XSet,        \* the x values orderings are drawn from
          LatticeK,    \* full coefficient lattice {-2..2}^k for k <= LatticeK
          FailMags     \* fail_mag values explored

XSix == {"1/2", "1/3", "1/5", "1/7", "1/11", "1/13"}
XFive == {"1/2", "1/3", "1/5", "1/7", "1/11"}
XSeven == <<"1/2", "1/3", "1/5", "1/7", "1/11", "1/13", "1/17">>
Lattice == {"-2", "-1", "0", "1", "2"}

Injective(k) == {s \in [1..k -> XSet] : Distinct(s)}
\* with fewer than six values in XSet the six-grid case uses the rotations and reflections of XSix
SixSeq == <<"1/2", "1/3", "1/5", "1/7", "1/11", "1/13">>
Rotations == {[j \in 1..6 |-> SixSeq[((j - 1 + r) % 6) + 1]] : r \in 0..5} \cup {[j \in 1..6 |-> SixSeq[((6 - j + r) % 6) + 1]] : r \in 0..5}
Orderings(k) == IF k = 0 THEN {<<>>} ELSE IF k = 7 THEN {XSeven}
                ELSE IF k = 6 /\ Cardinality(XSet) < 6 THEN Rotations ELSE Injective(k)
Monomial(d, n) == [i \in 1..n |-> IF i = d + 1 THEN "1" ELSE "0"]
\* degree < k: monomials (and the lattice for small k); degree = k: one polynomial that is NOT reproduced
PolyChoices(k) ==
    LET kk == IF k = 0 THEN 1 ELSE IF k > 6 THEN 6 ELSE k IN
    {Monomial(d, kk) : d \in 0..(kk - 1)} \cup {Monomial(kk, kk + 1)}
    \cup {<<"3", "-1/2", "5", "-7/3", "2", "11">>, SubSeq(<<"3", "-1/2", "5", "-7/3", "2", "11">>, 1, kk)}
    \cup (IF kk <= LatticeK THEN [1..kk -> Lattice] ELSE {})
\* second entry: extrapolates far below the finest-grid value
FarPoly(log) == IF log THEN <<"0", "40">> ELSE <<"1/1000", "1000">>
Sorted(xs) == \A j \in 1..(Len(xs) - 1) : RGt(xs[j], xs[j + 1])

Init == /\ pc = "choose" /\ ptsl = <<>> /\ res = <<>> /\ xl = <<>> /\ val = <<>> /\ ret = NoRet
        /\ \E k \in 0..7 : \E xs \in Orderings(k) : \E lg \in BOOLEAN :
              call = [kw |-> FALSE, scalar |-> FALSE, noex |-> FALSE, xsrc |-> "attr", log |-> lg, fm |-> 10,
                      pts |-> [j \in 1..k |-> 10 * j], xs |-> xs, coef |-> <<>>, ids |-> <<>>]
\* all flag combinations on the decreasing orderings, default flags on the others
Choose == /\ pc = "choose" /\ pc' = "parse"
          /\ \E c \in PolyChoices(Len(call.xs)) : \E fm \in FailMags :
             \E kw, noex \in (IF Sorted(call.xs) THEN BOOLEAN ELSE {FALSE}) :
             \E scalar \in (IF Len(call.xs) = 1 /\ Sorted(call.xs) THEN BOOLEAN ELSE {FALSE}) :
             \E xsrc \in (IF Sorted(call.xs) THEN {"attr", "explicit", "none"} ELSE {"attr"}) :
             \E ids \in (IF Sorted(call.xs) THEN {<<>>, <<"pop 1", "b">>} ELSE {<<"a">>}) :
                call' = [call EXCEPT !.coef = <<c, FarPoly(call.log)>>, !.fm = fm, !.kw = kw, !.noex = noex, !.scalar = scalar,
                                     !.xsrc = xsrc, !.ids = ids, !.pts = IF scalar THEN 10 ELSE call.pts]
          /\ UNCHANGED <<ptsl, res, xl, val, ret>>
Next == Choose \/ ENext
Spec == Init /\ [][Next]_evars

Done  == pc = "done"
Kk    == Len(ptsl)
Deg(c) == LET nz == {i \in 1..Len(c) : c[i] # "0"} IN IF nz = {} THEN 0 ELSE (CHOOSE i \in nz : \A m \in nz : m <= i) - 1

TypeOK == /\ pc \in {"choose", "parse", "eval", "getx", "log", "formula", "fallback", "done"}
          /\ ret.kind \in {"none", "list", "raised", "value"}
          /\ Done <=> ret.kind # "none"

\* ---- headline: the polynomial's value at x = 0, whatever the ordering ----
L_Exact ==
    (Done /\ ret.kind = "value") => \A e \in 1..NEntries(call) :
        LET c == call.coef[e] p0 == c[1] pb == PolyVal(c, call.xs[ArgMin(call.xs)]) IN
        Deg(c) < Kk =>
            IF Kk = 1 THEN ret.v[e] = (IF call.log THEN Pw(p0) ELSE p0)
            ELSE IF call.log THEN ret.v[e] = (IF FarLog(p0, pb, call.fm) THEN Pw(pb) ELSE Pw(p0))
            ELSE IF ~FarDefined(p0, pb) THEN ret.v[e] \in {p0, pb}
            ELSE ret.v[e] = (IF Far(p0, pb, call.fm) THEN pb ELSE p0)
\* Lagrange weights reproduce 1 and annihilate x, x^2, ..., x^(k-1)
L_Moments ==
    (pc = "formula" /\ Kk \in 1..6) =>
        /\ RSum(Weights(xl)) = "1"
        /\ \A d \in 1..(Kk - 1) : RDot(Weights(xl), [j \in 1..Kk |-> RPow(xl[j], d)]) = "0"
\* order independence: the same (x, y) pairs in decreasing-x order give the same result;
\* since every ordering is explored this makes all k! orderings agree
SortPerm(xs) == [j \in 1..Len(xs) |-> CHOOSE a \in 1..Len(xs) : Cardinality({b \in 1..Len(xs) : RGt(xs[b], xs[a])}) = j - 1]
L_Order ==
    (pc = "formula" /\ Kk \in 1..6) =>
        LET p == SortPerm(xl) IN
        ExtrapArr([j \in 1..Kk |-> xl[p[j]]], [j \in 1..Kk |-> val[p[j]]]) = ExtrapArr(xl, val)
\* the general formula is the documented closed form for two and three grids
L_ClosedForms ==
    /\ (pc = "formula" /\ Kk = 2) => \A e \in 1..NEntries(call) : LinearForm(xl, Column(val, e)) = Extrap0(xl, Column(val, e))
    /\ (pc = "formula" /\ Kk = 3) => \A e \in 1..NEntries(call) : QuadraticForm(xl, Column(val, e)) = Extrap0(xl, Column(val, e))
\* a polynomial of degree k is NOT reproduced (the laws above are not vacuous)
L_DegreeKNotExact ==
    (Done /\ ret.kind = "value" /\ ~call.log /\ Kk >= 1) =>
        (call.coef[1] = Monomial(Kk, Kk + 1) => val[1] # "0")
\* fallback exactly on the stated entries, value of the smallest x
L_Fallback ==
    (Done /\ ret.kind = "value" /\ Kk > 1) => \A e \in 1..NEntries(call) :
        LET best == res[ArgMin(xl)].v[e] IN
        IF call.log THEN ret.v[e] = (IF FarLog(val[e], Lg(best), call.fm) THEN best ELSE Pw(val[e]))
        ELSE /\ ret.v[e] \in {val[e], best}
             /\ FarDefined(val[e], best) => (ret.v[e] = best <=> (Far(val[e], best, call.fm) \/ val[e] = best))
L_FallbackHappens ==   \* non-vacuity: with fail_mag = 1 the second entry always falls back (k >= 2, polynomial mode exact)
    (Done /\ ret.kind = "value" /\ Kk > 1 /\ call.fm = 1) => ret.v[2] = res[ArgMin(xl)].v[2]
L_SingleGrid == (Done /\ ret.kind = "value" /\ Kk = 1) => ret.v = res[1].v      \* scalar pts or one grid: no extrapolation
L_NoExtrap   == (Done /\ call.noex) => (ret.kind = "list" /\ ret.l = [j \in 1..Kk |-> ModelAt(call, j)])
L_Range      == (Done /\ ~call.noex /\ Kk \notin 1..6) => ret.kind = "raised"
L_InRange    == (Done /\ ~call.noex /\ Kk \in 1..6 /\ call.xsrc # "none") => ret.kind = "value"
L_MissingX   == (Done /\ ~call.noex /\ call.xsrc = "none" /\ Kk >= 2) => ret.kind = "raised"
L_Labels     == (Done /\ ret.kind = "value") => ret.ids = call.ids
L_EvalOrder  == \A j \in 1..Len(res) : res[j].pts = ptsl[j]

\* concrete instances (documentation and a guard against a vacuous model)
ASSUME Extrap0(<<"1/2", "1/4">>, <<"3", "2">>) = "1"                          \* line through (1/2,3), (1/4,2)
ASSUME Extrap0(<<"1/4", "1/2">>, <<"2", "3">>) = "1"
ASSUME Extrap0(<<"1", "2", "3">>, <<"6", "11", "18">>) = "3"                   \* 3 + 2x + x^2
ASSUME Extrap0(<<"1", "2", "3", "4">>, <<"1", "8", "27", "64">>) = "0"         \* x^3
ASSUME Extrap0(<<"1", "2", "3">>, <<"1", "8", "27">>) = "6"                    \* x^3 with three points: not exact
ASSUME Weights(<<"1", "2", "3", "4", "5", "6">>) = <<"6", "-15", "20", "-15", "6", "-1">>
ASSUME Far("1/1000", "77", 3) /\ ~Far("1/1000", "77", 10) /\ Far("0", "1", 10) /\ ~Far("5", "1", 1) /\ Far("11", "1", 1)
=============================================================================
