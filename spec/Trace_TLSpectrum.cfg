CONSTANT Tau = "1/10000000000"
CONSTANT TauAbs = "1/100000000000000"
SPECIFICATION Spec
CHECK_DEADLOCK FALSE
INVARIANT Done
POSTCONDITION AllConsumed
