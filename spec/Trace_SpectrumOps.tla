------------------------- MODULE Trace_SpectrumOps -------------------------
(***************************************************************************)
(* Trace validation for module SpectrumOps.  Each record of the trace is   *)
(* one public call on a real dadi.Spectrum, with its exact inputs and the  *)
(* raw observed result; the record is judged against the module's operator *)
(* for that call.  The verdict for a record is the set of violated         *)
(* clauses; nothing is judged outside TLC.                                 *)
(***************************************************************************)
EXTENDS SpectrumOps, TLC, Json, IOUtils
CONSTANTS Tau        \* relative tolerance for float-evaluated linear maps, e.g. "1/10000000000"

Trace == JsonDeserialize(IOEnv.TRACE_FILE)
VARIABLE i
F(name, ok) == IF ok THEN {} ELSE {name}

MaxAbs(q) == RSeqMaxAbs(q)
\* data comparison at the entries the specification leaves unmasked; a corner entry
\* ("seen in no / in all samples") that dadi masked by default is not compared
DataOK(out, exp) ==
    LET floor == RMul("1/1000000000000000000000000000000", MaxAbs(exp.d)) IN
    /\ out.sh = exp.sh
    /\ \A k \in 1..Size(exp.sh) :
          (~exp.m[k] /\ ~(IsCornerIx(exp.sh, Unflat(exp.sh, k)) /\ out.m[k])) => RCloseRel(out.d[k], exp.d[k], Tau, floor)
\* masks: exact at non-corner entries; at the two corner entries dadi may mask by
\* default (mask_corners), so only "specification masked => masked" is required there
MaskOK(out, exp) ==
    /\ out.sh = exp.sh
    /\ \A k \in 1..Size(exp.sh) :
          IF IsCornerIx(exp.sh, Unflat(exp.sh, k)) THEN (exp.m[k] => out.m[k]) ELSE out.m[k] = exp.m[k]
MaskExact(out, exp) == out.sh = exp.sh /\ out.m = exp.m
Raised(r) == "raised" \in DOMAIN r.out
Cmp(r, exp, tag) ==
    IF Raised(r) THEN {tag \o "Raised"}
    ELSE F(tag \o "Shape", r.out.s.sh = exp.sh) \cup
         (IF r.out.s.sh = exp.sh
          THEN F(tag \o "Data", DataOK(r.out.s, exp)) \cup F(tag \o "Mask", MaskOK(r.out.s, exp))
          ELSE {}) \cup
         F(tag \o "Folded", r.out.s.f = exp.f) \cup F(tag \o "Labels", r.out.s.ids = exp.ids)

\* ---- C08 ----
FWeights(r) ==
    LET n == r.in.n mm == r.in.m h == r.in.h w == r.out.w
        exact == [k \in 0..mm |-> IF HypSupport(n, mm, h, k) THEN Hyp(n, mm, h, k) ELSE "0"]
    IN  F("WeightsLen", Len(w) = mm + 1) \cup
        (IF Len(w) = mm + 1
         THEN F("HypWeights", \A k \in 0..mm : RCloseRel(w[k + 1], exact[k], Tau, "1/1" \o "000000000000000000000000000000000000000000000000000000000000"))
         ELSE {})
FProject(r) ==
    IF ~CanProject(r.in.s, r.in.ns) THEN F("UpwardRefused", Raised(r))
    ELSE LET exp == Project(r.in.s, r.in.ns) IN
         Cmp(r, exp, "Proj") \cup
         (IF ~Raised(r) /\ ~r.in.s.f /\ r.out.s.sh = exp.sh THEN F("ProjMaskExact", MaskExact(r.out.s, exp)) ELSE {})
FProject2(r) ==   \* project(ns1) then project(ns2) observed; must equal Project(s, ns2)
    Cmp(r, Project(r.in.s, r.in.ns2), "TwoStage")

\* ---- C09 ----
FFold(r)   == IF r.in.s.f THEN F("FoldFoldedRefused", Raised(r)) ELSE Cmp(r, Fold(r.in.s), "Fold")
FUnfold(r) == IF ~r.in.s.f THEN F("UnfoldUnfoldedRefused", Raised(r)) ELSE Cmp(r, Unfold(r.in.s), "Unfold")
FMisid(r)  == Cmp(r, Misid(r.in.s, r.in.p), "Misid")
FFoldMirror(r) == Cmp(r, Fold(r.in.s), "FoldOfMirror")      \* observed fold(mirror(s))
FFUF(r)    == Cmp(r, Fold(r.in.s), "FoldUnfoldFold")         \* observed fold(unfold(fold(s)))

ArithVal(op, x, y) == CASE op = "add" -> RAdd(x, y) [] op = "sub" -> RSub(x, y)
                        [] op = "mul" -> RMul(x, y) [] op = "div" -> RDiv(x, y)
                        [] op = "pow" -> (IF RIsInt(y) THEN RPow(x, RFloor(y)) ELSE "0")
                        [] OTHER -> "0"
\* a op b; b is a spectrum (r.in.b) or a scalar (r.in.c); r.in.refl = TRUE means b op a
FArith(r) ==
    LET a == r.in.a
        isS == "b" \in DOMAIN r.in
    IN  IF isS /\ r.in.b.f # a.f THEN F("MixedFoldingRefused", Raised(r))
        ELSE LET bd(k) == IF isS THEN r.in.b.d[k] ELSE r.in.c
                 bm(k) == IF isS THEN r.in.b.m[k] ELSE FALSE
                 m == [k \in 1..Size(a.sh) |-> a.m[k] \/ bm(k)]
                 exp == [sh |-> a.sh,
                         d |-> [k \in 1..Size(a.sh) |-> IF m[k] THEN "0"
                                  ELSE IF ~r.in.values THEN "0"
                                  ELSE IF r.in.refl THEN ArithVal(r.in.op, bd(k), a.d[k]) ELSE ArithVal(r.in.op, a.d[k], bd(k))],
                         m |-> m, f |-> a.f,
                         \* an in-place operator keeps the labels of the object it modifies; a binary one takes the other
                         \* operand's labels when the left one has none
                         ids |-> IF a.ids # <<>> \/ ("inplace" \in DOMAIN r.in /\ r.in.inplace) THEN a.ids ELSE IF isS THEN r.in.b.ids ELSE <<>>]
             IN  IF Raised(r) THEN {"ArithRaised"}
                 ELSE (IF r.in.values THEN F("ArithData", DataOK(r.out.s, exp)) ELSE F("ArithShape", r.out.s.sh = exp.sh))
                      \cup F("ArithMask", MaskExact(r.out.s, exp))
                      \cup F("ArithFolded", r.out.s.f = exp.f) \cup F("ArithLabels", r.out.s.ids = exp.ids)
\* unary / slicing / likelihood: folding flag, mask and labels survive
FKeep(r) == F("KeepFolded", r.out.f = (IF r.in.s.f THEN "True" ELSE "False")) \cup
            (IF "ids" \in DOMAIN r.out THEN F("KeepLabels", r.out.ids = r.in.s.ids) ELSE {}) \cup
            (IF "m" \in DOMAIN r.out
             THEN (IF r.in.what = "ll_per_bin_zeros"
                   \* a bin where the model is 0 has no logarithm: dadi masks it in the per-bin result (its contribution is 0);
                   \* what is demanded is that no bin masked in the data comes back unmasked
                   THEN F("KeepMaskOfData", Len(r.out.m) = Len(r.in.s.m) /\ \A k \in 1..Len(r.in.s.m) : r.in.s.m[k] => r.out.m[k])
                   ELSE F("KeepMask", r.out.m = r.in.s.m))
             ELSE {})

\* ---- C10 ----
ToSet(q) == {q[j] : j \in 1..Len(q)}
\* reorder_pops has no mask_corners option (marginalize / filter_pops have one, default True): the corner entries of the
\* reordered spectrum are masked exactly when the explicit re-indexing says so - an input whose corners are kept keeps them
CmpExact(r, exp, tag) ==
    Cmp(r, exp, tag) \cup (IF ~Raised(r) /\ r.out.s.sh = exp.sh THEN F(tag \o "MaskExact", MaskExact(r.out.s, exp)) ELSE {})
\* called with mask_corners=False (recorded as mc = FALSE) marginalize / filter_pops must not mask the corners either
KeepsCorners(r) == "mc" \in DOMAIN r.in /\ ~r.in.mc
FMarg(r)    == IF KeepsCorners(r) THEN CmpExact(r, Marginalize(r.in.s, ToSet(r.in.over)), "Marg") ELSE Cmp(r, Marginalize(r.in.s, ToSet(r.in.over)), "Marg")
FFilter(r)  == IF KeepsCorners(r) THEN CmpExact(r, Filter(r.in.s, ToSet(r.in.keep)), "Filter") ELSE Cmp(r, Filter(r.in.s, ToSet(r.in.keep)), "Filter")
FReorder(r) == CmpExact(r, Reorder(r.in.s, r.in.perm), "Reorder")
FCombine2(r) == Cmp(r, CombineTwo(r.in.s, r.in.a, r.in.b), "Combine2")
\* combine a set of populations into the lowest one: from the highest index down
RECURSIVE CombineAll(_, _, _)
CombineAll(s, a, rest) == IF rest = {} THEN s
                          ELSE LET b == CHOOSE x \in rest : \A y \in rest : y <= x IN CombineAll(CombineTwo(s, a, b), a, rest \ {b})
FCombine(r) == LET S == ToSet(r.in.pops)
                   a == CHOOSE x \in S : \A y \in S : x <= y
                   lab == IF r.in.s.ids = <<>> THEN <<>> ELSE r.in.s.ids
                   exp0 == CombineAll(r.in.s, a, S \ {a})
                   \* label of the merged population: the merged names in population order
                   exp == IF r.in.s.ids = <<>> THEN exp0
                          ELSE [exp0 EXCEPT !.ids[a] = LET RECURSIVE cat(_) cat(j) == IF j > Len(lab) THEN <<>> ELSE (IF j \in S THEN lab[j] ELSE <<>>) \o cat(j + 1) IN cat(1)]
               IN Cmp(r, exp, "Combine")
FMiscCombine(r) ==  \* old Misc.combine_pops: merged population first, data only (returns a fresh unlabeled spectrum)
    LET t == CombineTwo(r.in.s, r.in.a, r.in.b)
        P == Len(t.sh)
        perm == [j \in 1..P |-> IF j = 1 THEN r.in.a ELSE IF j - 1 < r.in.a THEN j - 1 ELSE j]
        exp == Reorder(t, perm)
    IN  IF Raised(r) THEN {"MiscCombineRaised"}
        ELSE F("MiscCombineShape", r.out.s.sh = exp.sh) \cup
             (IF r.out.s.sh = exp.sh THEN F("MiscCombineData", DataOK(r.out.s, [exp EXCEPT !.m = [k \in 1..Size(exp.sh) |-> IsCornerIx(exp.sh, Unflat(exp.sh, k))]])) ELSE {})
FScramble(r) ==
    LET u == IF r.in.s.f THEN Unfold(r.in.s) ELSE r.in.s
        e0 == ScrambleU(u)
        exp == IF r.in.s.f THEN Fold(e0) ELSE e0
    IN  Cmp(r, [exp EXCEPT !.f = r.in.s.f], "Scramble")
\* relational records: commutation with projection / folding observed on the implementation
FSameAs(r) == IF Raised(r) THEN {"SameAsRaised"}
              ELSE LET a == r.out.s b == r.out.t IN
                   F(r.in.law, a.sh = b.sh /\ a.f = b.f /\ a.ids = b.ids /\
                        \A k \in 1..Size(a.sh) : (~a.m[k] /\ ~b.m[k] /\ ~IsCornerIx(a.sh, Unflat(a.sh, k)))
                               => RCloseRel(a.d[k], b.d[k], Tau, RMul("1/1000000000000000000000000000000", MaxAbs(b.d))))
\* an operation must leave the object it was called on as it was: shape, every value, every mask bit, folding, labels
FUnchanged(r) == IF Raised(r) THEN {"UnchangedRaised"} ELSE F(r.in.law, r.out.s = r.out.t)
FTotal(r) == \* total over non-corner entries conserved (no masks inside)
    F("TotalConserved", RCloseRel(TotalNC(r.out.s), TotalNC(r.in.s), Tau, "0"))

Failed(r) ==
    CASE r.op = "weights"     -> FWeights(r)
      [] r.op = "project"     -> FProject(r)
      [] r.op = "project2"    -> FProject2(r)
      [] r.op = "fold"        -> FFold(r)
      [] r.op = "unfold"      -> FUnfold(r)
      [] r.op = "misid"       -> FMisid(r)
      [] r.op = "fold_mirror" -> FFoldMirror(r)
      [] r.op = "fuf"         -> FFUF(r)
      [] r.op = "arith"       -> FArith(r)
      [] r.op = "keep"        -> FKeep(r)
      [] r.op = "marginalize" -> FMarg(r)
      [] r.op = "filter"      -> FFilter(r)
      [] r.op = "reorder"     -> FReorder(r)
      [] r.op = "combine_two" -> FCombine2(r)
      [] r.op = "combine"     -> FCombine(r)
      [] r.op = "misc_combine" -> FMiscCombine(r)
      [] r.op = "scramble"    -> FScramble(r)
      [] r.op = "same_as"     -> FSameAs(r)
      [] r.op = "unchanged"   -> FUnchanged(r)
      [] r.op = "argkept"     -> F(r.in.law, r.out.arg = r.in.arg)
      [] OTHER                -> {"UnknownOp"}

Init == i = 0
Next == /\ i < Len(Trace)
        /\ i' = i + 1
        /\ LET r == Trace[i + 1] f == Failed(r) IN IF f = {} THEN TRUE ELSE PrintT(<<"BAD", r.id, f>>)
Spec == Init /\ [][Next]_i
Done == (i = Len(Trace)) => PrintT(<<"DONE", i>>)
AllConsumed == TLCGet("stats").diameter - 1 = Len(Trace)
=============================================================================
