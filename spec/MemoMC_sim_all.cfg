\* C20 behaviour generation (tlc -simulate): random 40-call histories over the full alphabet, all memory layouts
CONSTANTS
  MaxDepth = 40
  BaseSel = "all"
  LaySel = "all"
  ProjKeyMode = "full"
  DbetaKeyMode = "full"
  PartKeyMode = "full"
  EntryMode = "copy_all"
  XXMode = "contig"
  GodMode = "object"
  DemesMode = "pure"
  PerturbMode = "pure"
  HashMode = "ordered"
  SFSMode = "copies"
  VectorMode = "copies"
  MaskMode = "setter"
  KernelMode = "stateless"
  MaxTable = 100000
SPECIFICATION Spec
CHECK_DEADLOCK FALSE
CONSTRAINT TableBound
INVARIANT EmitHist
