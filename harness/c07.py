"""C07 - grid extrapolation is exact for polynomial grid dependence, k = 1..6
(spec/Extrap.tla, spec/ExtrapMC.tla, spec/Trace_Extrap.tla).

The driver wraps model functions whose dependence on the grid spacing x is an
exact polynomial (of the logarithm in log mode) with the real
Numerics.make_extrap_func / make_extrap_log_func, calls the wrapper along every
path of the dispatch graph and on random polynomial models / grid orderings /
fail_mag values, and records what the model returned and what came back.  TLC
(Trace_Extrap) decides every record.
"""
import itertools, math, random
from fractions import Fraction
import numpy as np
from . import common
from .common import rat, rats

PROP = 'C07'
LABELS = ['YRI', 'pop 1', 'CEU', 'b c', 'x']


def _poly(c, x):
    """Exact value of the polynomial with rational-string coefficients c at the float x."""
    x = Fraction(x)
    acc = Fraction(0)
    for a in reversed(c):
        acc = acc * x + Fraction(a)
    return acc


def execute(case, cid):
    """Run one case on the real dadi and return the full trace record.
    case: log kw scalar noex xsrc fm pts xs(rational strings of floats) kind sh mask ids coef perm params ns extra use_logfunc"""
    import dadi
    from dadi import Numerics

    class XArr(np.ndarray):
        """plain array result carrying .extrap_x (what a model built from Numerics pieces may return)"""
        extrap_x = None

    log = case['log']
    pts_l = list(case['pts'])
    xs = [] if case['kind'] == 'phi' else [float(Fraction(s)) for s in case['xs']]
    x_of = dict(zip(pts_l, xs))
    sh = tuple(case['sh'])
    mask = np.array(case['mask'], dtype=bool).reshape(sh)
    ids = list(case['ids']) or None
    calls = []
    returned = {}
    seen_x = {}
    grid1 = {}

    res_layout = case.get('res_layout', 'c')
    mem = {}

    def model(params, ns, pts, **extra):
        pts = int(pts)
        calls.append({'pts': int(pts), 'params': rats(list(params)), 'ns': [int(v) for v in ns],
                      'extra': [[k, rat(extra[k])] for k in sorted(extra)]})
        if case['kind'] == 'phi':
            # a real dadi model: equilibrium phi on the default grid, sampled by Spectrum.from_phi,
            # which records extrap_x (the first interior grid point) on its result
            xx = Numerics.default_grid(pts)
            phi = dadi.PhiManip.phi_1D(xx, nu=params[0])
            if len(sh) == 2:
                phi = dadi.PhiManip.phi_1D_to_2D(xx, phi)
            fs = dadi.Spectrum.from_phi(phi, list(ns), (xx,) * len(sh), pop_ids=ids)
            returned[pts] = rats(np.asarray(fs.data, dtype=float).ravel())
            seen_x[pts] = rat(fs.extrap_x)
            grid1[pts] = rat(xx[1])
            return fs
        x = x_of[pts]
        vals = []
        for c in case['coef']:
            q = float(_poly(c, x))            # correctly rounded value of the exact polynomial
            vals.append(math.exp(q) if log else q)
        data = np.array(vals, dtype=float).reshape(sh)
        returned[pts] = rats(data.ravel())
        if res_layout != 'c':
            # the same logical values in a memory order that is not C-contiguous (Fortran order, transposed view, strided slice)
            from .c14 import lay_out
            data = lay_out(data, res_layout, 3, 777.25)
            mem['c_contiguous'] = bool(data.flags['C_CONTIGUOUS'])
        if case['kind'] == 'spectrum':
            if res_layout != 'c':
                from .c14 import lay_out
                return dadi.Spectrum(data, mask=lay_out(mask, res_layout, 3, True), mask_corners=False, pop_ids=ids, copy=False,
                                     extrap_x=(x if case['xsrc'] == 'attr' else None))
            return dadi.Spectrum(data, mask=mask.copy(), mask_corners=False, pop_ids=ids,
                                 extrap_x=(x if case['xsrc'] == 'attr' else None))
        if case['xsrc'] == 'attr':
            a = data.view(XArr)
            a.extrap_x = x
            return a
        return data
    model.__name__ = 'model_%s' % cid

    def wrap(xl):
        if log and case.get('use_logfunc'):
            return Numerics.make_extrap_log_func(model, extrap_x_l=xl)
        if case.get('fm_default'):            # fail_mag (documented default 10) and, where possible, every other option left at its default
            if xl is None and not log:
                return Numerics.make_extrap_func(model)
            return Numerics.make_extrap_func(model, extrap_x_l=xl, extrap_log=log)
        return Numerics.make_extrap_func(model, extrap_x_l=xl, extrap_log=log, fail_mag=case['fm'])

    wrapped = {}

    def call(order):
        p_l = [pts_l[j] for j in order]
        xl = [xs[j] for j in order] if case['xsrc'] == 'explicit' else None
        # container / number types of the arguments (the statement does not restrict them to lists of Python ints)
        xk = case.get('x_kind', 'list')
        if xl is not None and xk in ('pyint', 'int64'):
            # the documented type of extrap_x_l is list[int]: integer-valued x as Python ints / as a numpy int64 array
            xl = [int(v) for v in xl]
            if xk == 'int64':
                xl = np.array(xl, dtype=np.int64)
        elif xl is not None and xk != 'list':
            xl = tuple(xl) if xk == 'tuple' else np.array(xl)
        if 'call_no' in case:
            # repeated calls of ONE wrapped function: the wrapper is made once per x list and kept
            key = repr(xl)
            if key not in wrapped:
                wrapped[key] = wrap(xl)
            f = wrapped[key]
        else:
            f = wrap(xl)
        pk = case.get('pts_kind', 'list')
        if case['scalar']:
            arg = np.int64(p_l[0]) if pk == 'npint' else p_l[0]
        else:
            arg = {'list': p_l, 'tuple': tuple(p_l), 'array': np.array(p_l), 'npint': [np.int64(v) for v in p_l]}[pk]
        params = [float(Fraction(s)) for s in case['params']]
        ak = case.get('params_kind', 'list')
        ns = list(case['ns'])
        if ak == 'tuple':
            params, ns = tuple(params), tuple(ns)
        elif ak == 'array':
            params, ns = np.array(params), np.array(ns)
        kwargs = {k: float(Fraction(v)) for k, v in case['extra']}
        if case['noex']:
            kwargs['no_extrap'] = True
        if case['kw']:
            return f(params, ns, pts=arg, **kwargs)
        return f(params, ns, arg, **kwargs)

    def flat(res):
        return rats(np.asarray(getattr(res, 'data', res), dtype=float).ravel())

    inp = {k: case[k] for k in ('log', 'kw', 'scalar', 'noex', 'xsrc', 'fm', 'pts', 'xs', 'kind', 'sh', 'mask', 'ids', 'coef',
                                 'perm', 'params', 'ns', 'extra', 'tag')}
    inp['use_logfunc'] = bool(case.get('use_logfunc'))
    for key, dflt in (('pts_kind', 'list'), ('x_kind', 'list'), ('params_kind', 'list'), ('res_layout', 'c'), ('fm_default', False)):
        inp[key] = case.get(key, dflt)
    rec = {'id': cid, 'op': 'no_extrap' if case['noex'] else 'extrap_log' if log else 'extrap_lin', 'site': 'Numerics.make_extrap_log_func' if (log and case.get('use_logfunc')) else 'Numerics.make_extrap_func',
           'in': inp}
    k = len(pts_l)
    if 'call_no' in case:
        inp['call_no'] = int(case['call_no'])
    try:
        # the recorded call is call number call_no of the same wrapped function (the earlier ones with the same arguments)
        for _ in range(int(case.get('call_no', 1)) - 1):
            call(range(k))
            calls.clear()
            returned.clear()
        res = call(range(k))
    except Exception as e:                      # recorded, judged by the specification
        out = {'raised': type(e).__name__, 'msg': str(e)[:120]}
        res = None
    else:
        if case['noex']:
            out = {'list': [flat(r) for r in res]}
        else:
            out = {'v': flat(res), 'm': [bool(b) for b in np.ma.getmaskarray(res).ravel()],
                   'ids': [str(s) for s in (getattr(res, 'pop_ids', None) or [])], 'calls': list(calls)}
    inp['ys'] = [returned.get(p, []) for p in pts_l]
    if mem:
        inp['mem'] = mem
    if case['kind'] == 'phi':
        inp['xs'] = [seen_x.get(p, 'nan') for p in pts_l]          # what the results carried as .extrap_x
        inp['grid1'] = [grid1.get(p, 'nan') for p in pts_l]        # first interior point of the grid used
    tab = {}
    if 'v' in out and case['perm']:
        try:
            alt = call([j - 1 for j in case['perm']])
            out['alt'] = flat(alt)
        except Exception as e:
            out['alt_raised'] = type(e).__name__
    if log and 'v' in out:
        def ln(s):
            try:
                v = float(Fraction(s))
                return [s, rat(math.log(v))] if v > 0 and math.isfinite(v) else [s, 'nan']
            except (ValueError, ZeroDivisionError):
                return [s, 'nan']
        tab = {'ln10': rat(math.log(10.0)), 'lny': [[ln(s) for s in row] for row in inp['ys']], 'lnv': [ln(s) for s in out['v']]}
        if 'alt' in out:
            tab['lnalt'] = [ln(s) for s in out['alt']]
    rec['out'] = out
    rec['tab'] = tab
    return rec


# --------------------------------------------------------------------------
# case generation
# --------------------------------------------------------------------------
def _xs_for(rng, style, pts_l):
    from dadi import Numerics
    if style == 'grid':          # dadi's convention: the first interior point of the default grid
        return [float(Numerics.default_grid(p)[1]) for p in pts_l]
    if style == 'inv':
        return [1.0 / p for p in pts_l]
    if style == 'dyadic':        # exactly representable, polynomial values are exact floats
        return [p / 256.0 for p in pts_l]
    return [rng.uniform(0.5, 2.0) / p for p in pts_l]


def _coefs(rng, n, k, log, tag):
    """Per-entry coefficient lists (rational strings)."""
    out = []
    for e in range(n):
        if tag == 'degk':          # degree k: not reproduced exactly (Formula clause still applies)
            deg = k
        elif tag == 'mixed':
            deg = rng.randint(0, 6)
        else:
            deg = rng.randint(0, max(0, k - 1))
        c = [Fraction(rng.randint(-8, 8), rng.choice([1, 1, 2, 3, 4])) for _ in range(deg + 1)]
        if c[-1] == 0:
            c[-1] = Fraction(1)
        if log:
            c[0] = Fraction(rng.randint(-12, 6), rng.choice([1, 2]))
        else:
            c[0] = Fraction(rng.randint(1, 40), rng.choice([1, 2, 5]))      # positive value at x = 0
        out.append([rat(v) for v in c])
    return out


def _fallback_coefs(rng, n, k, log, xmin, fm, kinds=None):
    """Entries whose extrapolation lands decisively more / less than fm decades from the finest-grid value."""
    out = []
    for e in range(n):
        kind = kinds[e % len(kinds)] if kinds else rng.choice(['far_low', 'far_high', 'near'])
        if log:
            # ln y = c0 + c1 x ; distance = |c1| xmin / ln 10 decades
            dec = {'far_low': fm + rng.uniform(0.5, 2.0), 'far_high': -(fm + rng.uniform(0.5, 2.0)), 'near': rng.uniform(-0.8, 0.8) * fm, 'near_far': 0.7 * fm}[kind]
            c1 = Fraction(dec * math.log(10.0) / xmin).limit_denominator(1000)
            c = [Fraction(rng.randint(-3, 3)), c1]
        else:
            # y = c0 + c1 x ; y(xmin)/y(0) = 10^dec
            dec = {'far_low': fm + rng.uniform(0.5, 2.0), 'far_high': -(fm + rng.uniform(0.5, 2.0)), 'near': rng.uniform(-0.8, 0.8) * fm, 'near_far': 0.7 * fm}[kind]
            dec = max(min(dec, 8.0), -8.0) if fm < 8 else dec
            c0 = Fraction(rng.randint(1, 9), 10 ** rng.randint(0, 3))
            c1 = Fraction(float(c0) * (10.0 ** dec - 1.0) / xmin).limit_denominator(10 ** 6)
            c = [c0, c1]
        out.append([rat(v) for v in c])
    return out


def _mask_for(rng, kind, n, sh):
    if kind != 'spectrum':
        return [False] * n
    m = [False] * n
    style = rng.choice(['none', 'corners', 'random'])
    if style in ('corners', 'random'):
        m[0] = m[-1] = True
    if style == 'random':
        for j in range(n):
            if rng.random() < 0.2:
                m[j] = True
    return m


def _shape(rng, kind):
    if kind == 'spectrum':
        return rng.choice([[4], [6], [3, 3], [2, 4], [2, 2, 3]])
    return rng.choice([[1], [3], [5], [2, 3]])


def cases(ctx):
    rng = random.Random(ctx.seed + 7)
    out = []

    def base(**kw):
        kind = kw.pop('kind', 'spectrum')
        k = kw.pop('k')
        log = kw.pop('log', False)
        sh = kw.pop('sh', None) or _shape(rng, kind)
        n = int(np.prod(sh))
        pts_l = kw.pop('pts', None) or sorted(rng.sample(range(8, 120), k))
        style = kw.pop('style', None) or rng.choice(['grid', 'inv', 'dyadic', 'rand'])
        xs = _xs_for(rng, style, pts_l)
        tag = kw.pop('tag', 'exact')
        fm = kw.pop('fm', 10)
        if tag == 'fallback' and k >= 2:
            coef = _fallback_coefs(rng, n, k, log, min(xs), fm)
        else:
            coef = _coefs(rng, n, max(k, 1), log, tag)
        c = {'log': log, 'kw': False, 'scalar': False, 'noex': False, 'xsrc': 'attr', 'fm': fm, 'pts': pts_l, 'xs': rats(xs),
             'kind': kind, 'sh': sh, 'mask': _mask_for(rng, kind, n, sh),
             'ids': (rng.sample(LABELS, len(sh)) if kind == 'spectrum' and rng.random() < 0.8 else []),
             'coef': coef, 'perm': [], 'params': rats([rng.uniform(0.1, 3.0), float(rng.randint(1, 5))]), 'ns': [s - 1 for s in sh],
             'extra': ([['scale', rat(2.5)]] if rng.random() < 0.3 else []), 'tag': tag, 'use_logfunc': log and fm == 10 and rng.random() < 0.7}
        c.update(kw)
        return c

    def reorder(c, order):
        """the same (pts, x) pairs in another order of the grid list"""
        c = dict(c)
        c['pts'] = [c['pts'][j] for j in order]
        c['xs'] = [c['xs'][j] for j in order]
        return c

    # 1. every path of the dispatch graph (the call set of ExtrapMC's sorted orderings); in log mode through both
    #    make_extrap_log_func and make_extrap_func(extrap_log=True); labels, mask styles, shapes, x conventions and
    #    forwarded keyword arguments are cycled deterministically so that each occurs with every k
    idx = 0
    styles = ['grid', 'inv', 'dyadic', 'rand']
    for log, logfunc, kw, noex, xsrc, kind in itertools.product([False, True], [False, True], [False, True], [False, True],
                                                              ['attr', 'explicit', 'none'], ['array', 'spectrum']):
        if (xsrc == 'none' and kind == 'spectrum') or (logfunc and not log):
            continue                     # a Spectrum always has the attribute
        for form in ['scalar'] + list(range(0, 8)):
            k = 1 if form == 'scalar' else form
            shapes = [[4], [3, 3], [6], [2, 2, 3], [2, 4]] if kind == 'spectrum' else [[1], [3], [2, 3], [5]]
            c = base(k=k, log=log, kind=kind, tag='exact', sh=shapes[idx % len(shapes)], style=styles[(idx // 2) % 4])
            n = len(c['mask'])
            if kind == 'spectrum':
                c['ids'] = LABELS[:len(c['sh'])] if idx % 2 == 0 else []
                mstyle = idx % 3
                c['mask'] = [mstyle >= 1 and j in (0, n - 1) or (mstyle == 2 and j % 3 == 1) for j in range(n)]
            c['extra'] = [['scale', rat(2.5)]] if idx % 4 == 1 else []
            c.update(kw=kw, noex=noex, xsrc=xsrc, scalar=(form == 'scalar'), use_logfunc=logfunc)
            out.append(c)
            idx += 1
    # 2. orderings: all k! orderings for small k, sampled ones above; each also repeated under a permutation
    full = 4 if ctx.quick else 6
    nrand = 12 if ctx.quick else 60
    for log in (False, True):
        for k in range(1, 7):
            for kind in ('array', 'spectrum'):
                c0 = base(k=k, log=log, kind=kind, tag='exact')
                if k <= full and (kind == 'spectrum' or k <= 4):
                    orders = list(itertools.permutations(range(k)))
                else:
                    orders = [tuple(range(k)), tuple(reversed(range(k)))] + [tuple(rng.sample(range(k), k)) for _ in range(nrand)]
                for o in orders:
                    c = reorder(c0, o)
                    c['perm'] = [j + 1 for j in rng.sample(range(k), k)]
                    c['xsrc'] = rng.choice(['attr', 'attr', 'explicit'])
                    out.append(c)
    # 3. random polynomial models: exact degree, degree k (not reproduced), mixed degrees, fallback entries
    nmodels = 60 if ctx.quick else 600
    for t in range(nmodels):
        k = rng.randint(1, 6)
        tag = rng.choice(['exact', 'exact', 'degk', 'mixed', 'fallback', 'fallback'])
        fm = rng.choice([1, 2, 3, 10]) if tag == 'fallback' else rng.choice([10, 10, 4])
        c = base(k=k, log=rng.random() < 0.5, kind=rng.choice(['array', 'spectrum']), tag=tag, fm=fm)
        o = rng.sample(range(k), k)
        c = reorder(c, o)
        c['perm'] = [j + 1 for j in rng.sample(range(k), k)]
        c['kw'] = rng.random() < 0.3
        c['xsrc'] = rng.choice(['attr', 'attr', 'explicit'])
        out.append(c)
    # 5. boundary set (deterministic in both tiers): every element of the stated domain occurs at least once
    def fixed(k, log, kind, coef, tag, sh=None, fm=10, style='inv', order=None, **kw):
        n = len(coef)
        sh = sh or [n]
        pts_l = [10 * (j + 2) + j * j for j in range(k)]                  # distinct, increasing
        xs = _xs_for(rng, style, pts_l)
        c = {'log': log, 'kw': False, 'scalar': False, 'noex': False, 'xsrc': 'attr', 'fm': fm, 'pts': pts_l, 'xs': rats(xs),
             'kind': kind, 'sh': sh, 'mask': [False] * n, 'ids': (LABELS[:len(sh)] if kind == 'spectrum' else []), 'coef': coef,
             'perm': [((j + 1) % k) + 1 for j in range(k)], 'params': rats([1.5, 2.0]), 'ns': [v - 1 for v in sh], 'extra': [], 'tag': tag,
             'use_logfunc': False}
        c.update(kw)
        if order is not None:
            c = reorder(c, order)
        return c

    def ladder(k, log, upto):
        """entry e has exact degree e (e = 0..upto): all degrees below k, degree k-1 = the largest exact one, and degree k"""
        cs = []
        for e in range(upto + 1):
            c = [Fraction(3 + e, 2) if not log else Fraction(e - 2, 2)] + [Fraction((-1) ** (j + e) * (j + 2), j + 1) for j in range(1, e + 1)]
            cs.append([rat(v) for v in c])
        return cs
    for k in range(1, 7):
        for log in (False, True):
            for kind in ('array', 'spectrum'):
                for logfunc in ([False, True] if log else [False]):
                    out.append(fixed(k, log, kind, ladder(k, log, k), 'degree-ladder', style=['inv', 'grid', 'dyadic'][k % 3],
                                     use_logfunc=logfunc, kw=(k % 2 == 0), xsrc=('explicit' if k % 3 == 0 else 'attr')))
    # fallback with the finest grid at every position of the list; entries far below / far above / near; every fail_mag
    for k in range(2, 7):
        for pos in range(k):
            for log in (False, True):
                fm = [1, 2, 3, 10][(k + pos) % 4]
                c = fixed(k, log, 'spectrum' if (k + pos) % 2 else 'array', [['1']] * 4, 'fallback-position', fm=fm, style='inv', fm_default=(fm == 10))
                xmin = min(float(Fraction(v)) for v in c['xs'])
                c['coef'] = _fallback_coefs(rng, 4, k, log, xmin, fm, kinds=['far_low', 'far_high', 'near', 'near_far'])
                order = [j for j in range(k) if j != k - 1]
                order.insert(pos, k - 1)                                  # largest pts = smallest x goes to position pos
                out.append(reorder(c, order))
    # container and number types of pts / the explicit x list / the other arguments
    for k in (1, 3, 5):
        for log in (False, True):
            for pk, xk, ak in (('tuple', 'tuple', 'tuple'), ('array', 'array', 'array'), ('npint', 'list', 'list'), ('array', 'list', 'tuple')):
                for kwd in (False, True):
                    out.append(fixed(k, log, 'array' if pk == 'array' else 'spectrum', ladder(k, log, k - 1), 'containers', pts_kind=pk, x_kind=xk,
                                     params_kind=ak, xsrc=('explicit' if xk != 'list' else 'attr'), kw=kwd, use_logfunc=log and not kwd))
    out.append(fixed(1, False, 'spectrum', ladder(1, False, 0), 'containers', pts_kind='npint', scalar=True))
    out.append(fixed(1, True, 'array', ladder(1, True, 0), 'containers', pts_kind='npint', scalar=True, kw=True, use_logfunc=True))
    # repeated calls of ONE wrapped function (an optimiser calls it thousands of times): call number 1, 2, 3 with the same
    # arguments, each producing entries far below / far above / near the finest-grid value; every call is judged on its own
    rng2 = random.Random(ctx.seed + 707)            # own generator: the draws of the blocks above / below are unchanged
    for k in range(2, 7):
        for log in (False, True):
            fm = [10, 2, 3, 10, 1][k - 2] if not log else [10, 10, 2, 3, 10][k - 2]
            for call_no in (1, 2, 3):
                c = fixed(k, log, 'spectrum' if (k + log) % 2 else 'array', [['1']] * 4, 'fallback-repeat', fm=fm, style='inv', fm_default=(fm == 10 and k % 2 == 0),
                          use_logfunc=(log and fm == 10 and k != 2), xsrc=('explicit' if k % 3 == 0 else 'attr'), call_no=call_no)
                xmin = min(float(Fraction(v)) for v in c['xs'])
                c['coef'] = _fallback_coefs(rng2, 4, k, log, xmin, fm, kinds=['far_low', 'far_high', 'near', 'near_far'])
                out.append(c)
    # the documented type of the explicit x list is list[int]: integer x values of magnitude 1e3 .. 1e6 as Python ints (and, where
    # no product of k - 1 of them reaches 2**63, as a numpy int64 array); the model is a polynomial in x / X with O(1) coefficients
    int_sets = [('pyint', 10 ** 6, lambda k: [int(round(1000.0 * 1000.0 ** (j / max(1, k - 1)))) + j for j in range(k)]),
                ('pyint', 10 ** 6, lambda k: [100003, 130001, 170011, 220007, 290003, 370001][:k]),
                ('pyint', 10 ** 6, lambda k: [400009, 520001, 640007, 760003, 880001, 1000003][:k]),
                ('pyint', 10 ** 4, lambda k: [1009, 1511, 2003, 2503, 3001, 3499][:k]),
                ('int64', 10 ** 4, lambda k: [1009, 1511, 2003, 2503, 3001, 3499][:k])]
    for k in range(2, 7):
        for sno, (xk, X, mk) in enumerate(int_sets):
            for log in (False, True):
                xi = sorted(mk(k), reverse=True)                      # more grid points = smaller x
                coef = []
                for e in range(k + 1):                                # entry e has exact degree e (degree k: Formula only)
                    a = [Fraction(e - 2, 2) if log else Fraction(6 + e)] + [Fraction((-1) ** (j + e) * (j + 2), 4 * (j + 1)) for j in range(1, e + 1)]
                    coef.append([rat(v / Fraction(X) ** j) for j, v in enumerate(a)])
                order = None if (k + sno) % 2 else rng2.sample(range(k), k)
                c = fixed(k, log, 'array' if (k + sno + log) % 2 else 'spectrum', coef, 'integer-x', xsrc='explicit', x_kind=xk,
                          use_logfunc=log and sno % 2 == 0, kw=(sno == 1))
                c['xs'] = rats([float(v) for v in xi])
                out.append(reorder(c, order) if order is not None else c)
    # signs: a model that is negative everywhere (ratio to the finest grid positive), value exactly 0 at x = 0, mixed signs
    for k in range(2, 7):
        neg = [[rat(-Fraction(5 + e, 2))] + [rat(Fraction((-1) ** j, 4 * (j + 1))) for j in range(1, min(e, k - 1) + 1)] for e in range(3)]
        out.append(fixed(k, False, 'array' if k % 2 else 'spectrum', neg, 'negative-values', style='dyadic'))
        zero = [['0', '1', '-1/2'][:max(2, min(3, k))], ['0', '-2'], ['4', '-1']]
        out.append(fixed(k, False, 'spectrum' if k % 2 else 'array', zero, 'zero-at-origin', style='dyadic', fm=[1, 10][k % 2]))
    # memory layout of the model's results (Fortran order, transposed view, strided slice)
    for lay in ('fortran', 'transpose', 'slice'):
        for k in (2, 3, 6):
            for log in (False, True):
                for kind in ('array', 'spectrum'):
                    out.append(fixed(k, log, kind, ladder(5, log, 5), 'result-layout', sh=[2, 3], res_layout=lay, use_logfunc=log and k == 3))
    # 4. real dadi models (phi_1D -> Spectrum.from_phi): x comes from the results' extrap_x = grid[1]
    for t in range(8 if ctx.quick else 40):
        k = 1 + t % 6
        two = t % 4 == 3
        sh = [5, 4] if two else [rng.randint(4, 9)]
        pts_l = rng.sample(range(12, 40) if two else range(20, 90), k)
        n = int(np.prod(sh))
        c = {'log': t % 2 == 0, 'kw': t % 3 == 0, 'scalar': False, 'noex': False, 'xsrc': 'attr', 'fm': 10, 'pts': pts_l, 'xs': [],
             'kind': 'phi', 'sh': sh, 'mask': [j in (0, n - 1) for j in range(n)], 'ids': (['A', 'B b'][:len(sh)] if t % 2 else []),
             'coef': [], 'perm': [j + 1 for j in rng.sample(range(k), k)], 'params': rats([rng.uniform(0.5, 2.0)]), 'ns': [v - 1 for v in sh],
             'extra': [], 'tag': 'from_phi', 'use_logfunc': t % 2 == 0}
        out.append(c)
    return out


def records(ctx):
    import logging
    logging.disable(logging.WARNING)
    try:
        return [execute(c, 'extrap-%d' % n) for n, c in enumerate(cases(ctx))]
    finally:
        logging.disable(logging.NOTSET)


def nontrivial(r):
    i = r['in']
    k = len(i['pts'])
    if 'v' not in r['out'] or k < 2:
        return None
    order = 'inc' if i['pts'] == sorted(i['pts']) else 'dec' if i['pts'] == sorted(i['pts'], reverse=True) else 'mixed'
    return (i['log'], k, i['kind'], i['xsrc'], i['kw'], order, i['tag'], i['fm'], tuple(i['sh']), i.get('pts_kind'), i.get('x_kind'), i.get('res_layout'),
            i.get('use_logfunc'), i.get('call_no'))


def mutate(rec):
    """Corrupt one observed field so that a sound trace spec must reject the record."""
    out = rec['out']
    i = rec['in']
    if 'raised' in out:
        return None
    if 'list' in out:
        if not out['list'] or not out['list'][0]:
            return None
        out['list'][0][0] = rat(Fraction(out['list'][0][0]) + 1)
        return rec
    for e, (s, m) in enumerate(zip(out['v'], out['m'])):
        if m or i['mask'][e] or s in ('nan', 'inf', '-inf'):
            continue
        v = Fraction(s)
        if i['log']:
            if v <= 0:
                continue
            nv = float(v) * math.e                      # ln moves by 1
            out['v'][e] = rat(nv)
            rec['tab']['lnv'][e] = [rat(nv), rat(math.log(nv))]
        else:
            big = max([abs(Fraction(row[e])) for row in i['ys']] + [abs(v)])
            out['v'][e] = rat(v + big + Fraction(1, 1000))
        return rec
    out['ids'] = out['ids'] + ['extra']
    return rec


def run(ctx):
    if ctx.replay:
        import logging
        logging.disable(logging.WARNING)
        old = ctx.replay_payload['payload']['record']
        case = dict(old['in'])
        recs = [execute(case, old['id'])]          # re-executed on the current tree from the recorded inputs
        ctx.no_mc = True
    else:
        recs = records(ctx)
    return common.pipeline(
        ctx, [('ExtrapMC', 'ExtrapMC_%s.cfg' % ctx.tier)], 'Trace_Extrap', recs,
        nontrivial_of=nontrivial, mutator=mutate,
        rule='every path of the dispatch graph (linear/log x positional/keyword x scalar, 0..7 grids x no_extrap x x-source x array/Spectrum); '
             'all k! orderings of the grid list for k <= 4 (quick) / k <= 6 (thorough) plus sampled ones, each repeated under a second permutation; '
             'random polynomial models (degree < k, = k, mixed, fallback entries with fail_mag 1,2,3,10); real phi_1D/from_phi models (x = extrap_x = grid[1]). Non-trivial = k >= 2 and a value returned; '
             'distinct by (mode, k, result type, x source, keyword, ordering class, model class, fail_mag, shape)',
        assumptions=['BigInteger rational arithmetic of the Rat override (self-tested against the TLA+ definitions)',
                     'model values are the correctly rounded floats of an exact rational polynomial; the float result is accepted within '
                     'Tau=1e-10 times sum_j |w_j||y_j| (backward-error scale of the Lagrange sum)',
                     'log mode: logarithms come from a table computed with math.log at the observed floats; comparison in the log domain within '
                     'Tau*(1+sum_j |w_j||ln y_j|)',
                     'where the extrapolated/best ratio is within that tolerance of the fail_mag threshold, or not positive, either branch is accepted',
                     'scalar-valued (non-array) models are outside the stated quantifier and not exercised'])
