--------------------------- MODULE Trace_Optimizer ---------------------------
(***************************************************************************)
(* Trace validation for module Optimizer (C12).                            *)
(*                                                                         *)
(* A record with op = "run" is ONE call of a real dadi optimiser: r.in is  *)
(* the call (the Start event), r.out.events the events observed at the     *)
(* user's model function and at the return of the call, in order           *)
(*    {ev:"Eval", p, ll}*  {ev:"Return", x, f, scale}  {ev:"Probe", x, ll} *)
(* or ... {ev:"Raised", type} when the call ended with an exception.       *)
(* The trace spec keeps the variables of module Optimizer and replays the  *)
(* events through the module's actions, one event per step.  An event for  *)
(* which no action of the module is enabled is consumed by a catch-all     *)
(* that records the clause NoEnabledAction (Raised for an exception).      *)
(* After the last event the requirements of the module are evaluated in    *)
(* the state reached (they are stable, see Optimizer.tla) and the verdict  *)
(* for the record is printed.                                              *)
(*                                                                         *)
(* A run record of a session (several calls in one process) also carries   *)
(* r.out.kept: the parameter vectors returned by the earlier calls of the  *)
(* session as the caller finds them after this call (clauses               *)
(* EarlierResultKeptByLaterCalls, ResultsShareNoMemory, reported for the   *)
(* call after which an earlier result had changed).                        *)
(*                                                                         *)
(* Records with op in {up, down, up_down, down_up, perturb} are single     *)
(* calls of _project_params_up/_project_params_down/perturb_params judged  *)
(* against the module's operators.                                         *)
(***************************************************************************)
EXTENDS Optimizer, TLC, Json, IOUtils

Trace == JsonDeserialize(IOEnv.TRACE_FILE)
VARIABLES i,      \* records consumed
          j,      \* within a run record: 0 = not started, k = events consumed + 1
          bad     \* clauses recorded by the catch-all for the current record
vars == <<i, j, bad, ovars>>
F(name, ok) == IF ok THEN {} ELSE {name}
Raised(r) == "raised" \in DOMAIN r.out

\* ---- results kept by the caller ----
\* single calls: r.out.<key>_end = the returned object read again after ALL later calls of the driver,
\* r.out.shares_earlier = it overlaps an earlier kept result in memory
FKeptStatic(r, key) ==
    (IF (key \o "_end") \in DOMAIN r.out THEN F("EarlierResultKeptByLaterCalls", r.out[key \o "_end"] = r.out[key]) ELSE {}) \cup
    (IF "shares_earlier" \in DOMAIN r.out THEN F("ResultsShareNoMemory", r.out.shares_earlier = FALSE) ELSE {})
\* sessions: r.out.kept = the results of the earlier calls of the session, read again after this call
FKeptRun(r) ==
    IF "kept" \in DOMAIN r.out
    THEN F("EarlierResultKeptByLaterCalls", EarlierResultsKept(r.out.kept.at_return, r.out.kept.now)) \cup
         F("ResultsShareNoMemory", NoSharedMemory(r.out.kept.shares))
    ELSE {}

\* ---- single-call records ----
FailedStaticCall(r) ==
    CASE r.op = "up"      -> IF Raised(r) THEN {"ProjectUpRaised"}
                             ELSE F("ProjectUp", r.out.y = Up(r.in.x, r.in.fixed))
      [] r.op = "down"    -> IF Raised(r) THEN {"ProjectDownRaised"}
                             ELSE F("ProjectDown", r.out.x = Down(r.in.y, r.in.fixed))
      \* observed down(up(x)) on the implementation
      [] r.op = "up_down" -> IF Raised(r) THEN {"UpDownRaised"} ELSE F("UpDownInverse", r.out.x = r.in.x)
      \* observed up(down(y)) for a y that agrees with the mask
      [] r.op = "down_up" -> IF Raised(r) THEN {"DownUpRaised"}
                             ELSE F("DownUpInverse", Agrees(r.in.y, r.in.fixed) => r.out.y = r.in.y)
      [] r.op = "perturb" -> IF Raised(r) THEN {"PerturbRaised"}
                             ELSE F("PerturbInBounds", PerturbInBounds(r.out.p, r.in.lb, r.in.ub))
      [] OTHER            -> {"UnknownOp"}
FailedStatic(r) ==
    FailedStaticCall(r) \cup
    (IF Raised(r) THEN {} ELSE IF r.op \in {"up", "down_up"} THEN FKeptStatic(r, "y") ELSE IF r.op \in {"down", "up_down"} THEN FKeptStatic(r, "x") ELSE {})

\* ---- run records ----
Events(r) == r.out.events
DoEvent(e) ==
    CASE e.ev = "Eval"   -> Eval(e.p, e.ll)
      [] e.ev = "Return" -> Return(e.x, ReportedLL(kind, e.f, e.scale))
      [] e.ev = "Probe"  -> Probe(e.x, e.ll)
      [] OTHER           -> FALSE
Reset == /\ phase' = "idle" /\ kind' = None /\ p0' = <<>> /\ lb' = <<>> /\ ub' = <<>> /\ fixed' = <<>>
         /\ log' = FALSE /\ f0' = None /\ evals' = <<>> /\ ret' = NoPoint /\ probe' = NoPoint

Init == i = 0 /\ j = 0 /\ bad = {} /\ OInit

StaticStep(r) == /\ j = 0
                 /\ LET f == FailedStatic(r) IN IF f = {} THEN TRUE ELSE PrintT(<<"BAD", r.id, f>>)
                 /\ i' = i + 1 /\ UNCHANGED <<j, bad, ovars>>
StartStep(r) ==
    /\ j = 0 /\ j' = 1 /\ i' = i
    /\ LET c == r.in
           S == Start(c.kind, c.p0, c.lb, c.ub, c.fixed, c.log, c.f0)
       IN  \/ S /\ bad' = bad
           \/ ~ENABLED S /\ bad' = bad \cup {"NoEnabledAction"} /\ UNCHANGED ovars
EventStep(r) ==
    /\ j >= 1 /\ j <= Len(Events(r)) /\ j' = j + 1 /\ i' = i
    /\ LET e == Events(r)[j]
       IN  \/ DoEvent(e) /\ bad' = bad
           \/ /\ ~ENABLED DoEvent(e)
              /\ bad' = bad \cup {IF e.ev = "Raised" THEN "Raised" ELSE "NoEnabledAction"}
              /\ UNCHANGED ovars
EndStep(r) ==
    /\ j = Len(Events(r)) + 1
    /\ LET f == bad \cup Violated \cup FKeptRun(r) IN IF f = {} THEN TRUE ELSE PrintT(<<"BAD", r.id, f>>)
    /\ i' = i + 1 /\ j' = 0 /\ bad' = {} /\ Reset

Next == /\ i < Len(Trace)
        /\ LET r == Trace[i + 1]
           IN  IF r.op = "run" THEN StartStep(r) \/ EventStep(r) \/ EndStep(r) ELSE StaticStep(r)
Spec == Init /\ [][Next]_vars

Done == (i = Len(Trace)) => PrintT(<<"DONE", i>>)
\* every line consumed: the behaviour is one chain with one step per event (+2 per run) or per record
Steps(r) == IF r.op = "run" THEN Len(Events(r)) + 2 ELSE 1
RECURSIVE TotalSteps(_)
TotalSteps(k) == IF k = 0 THEN 0 ELSE TotalSteps(k - 1) + Steps(Trace[k])
AllConsumed == TLCGet("stats").diameter - 1 = TotalSteps(Len(Trace))
=============================================================================
