\* DEFECTIVE design (must be refuted): _dbeta_cache key with the grid length instead of the grid
CONSTANTS
  MaxDepth = 2
  BaseSel = "memo"
  LaySel = "C"
  ProjKeyMode = "full"
  DbetaKeyMode = "len_only"
  PartKeyMode = "full"
  EntryMode = "copy_all"
  XXMode = "contig"
  GodMode = "object"
  DemesMode = "pure"
  PerturbMode = "pure"
  HashMode = "ordered"
  SFSMode = "copies"
  VectorMode = "copies"
  KernelMode = "stateless"
  MaxTable = 60
SPECIFICATION Spec
CHECK_DEADLOCK FALSE
CONSTRAINT TableBound
VIEW MCView
INVARIANT TypeOK
INVARIANT AlphabetOK
INVARIANT TablesSound
INVARIANT ResultIndependentOfHistory
INVARIANT ResultIndependentOfHashSeed
INVARIANT LayoutIndependent
INVARIANT ArgumentsUnchanged
INVARIANT ResultIsFresh
