------------------------------- MODULE Scheme -------------------------------
(***************************************************************************)
(* The documented conservative, fully implicit finite-difference scheme of *)
(* dadi for one time step along one population axis, in 1..5 populations   *)
(* (properties C02, C03, C04), over exact rationals.                       *)
(*                                                                         *)
(* A density is [sh |-> shape, d |-> flat C-order sequence of rationals].  *)
(* grids[k] is the (strictly increasing) grid of axis k.  The parameters   *)
(* of a sweep along axis k are                                             *)
(*   p = [nu, gamma, h, beta, mig]   (mig[j] = rate INTO k FROM axis j,    *)
(*                                    mig[k] ignored; beta only in 1-D)    *)
(* All grid / flat-array helpers come from SpectrumOps.                    *)
(***************************************************************************)
EXTENDS SpectrumOps, TLC

BetaFac(beta) == RDiv(RSq(RAdd(beta, "1")), RMul("4", beta))
Vf(x, p)      == RMul(RDiv(RMul(x, RSub("1", x)), p.nu), BetaFac(p.beta))
Sel(x, p)     == RMul(RMul(RMul(p.gamma, "2"), RAdd(p.h, RMul(RSub("1", RMul("2", p.h)), x))), RMul(x, RSub("1", x)))
\* others[j] = frequency of population j on this line (others[k] ignored)
Mf(x, k, others, p) ==
    RAdd(RSum([j \in DOMAIN others |-> IF j = k THEN "0" ELSE RMul(p.mig[j], RSub(others[j], x))]), Sel(x, p))

Dx(g)      == [i \in 1..(Len(g) - 1) |-> RSub(g[i + 1], g[i])]
DFactor(g) == LET dx == Dx(g) N == Len(g) IN
              [i \in 1..N |-> IF i = 1 THEN RDiv("2", dx[1]) ELSE IF i = N THEN RDiv("2", dx[N - 1])
                                ELSE RDiv("2", RAdd(dx[i], dx[i - 1]))]
XInt(g)    == [i \in 1..(Len(g) - 1) |-> RHalf(RAdd(g[i], g[i + 1]))]
\* trapezoid weights of a grid
TrapW(g)   == LET dx == Dx(g) N == Len(g) IN
              [i \in 1..N |-> IF i = 1 THEN RHalf(dx[1]) ELSE IF i = N THEN RHalf(dx[N - 1]) ELSE RHalf(RAdd(dx[i], dx[i - 1]))]

(***************************************************************************)
(* The tridiagonal system of one grid line, WITHOUT the 1/dt on the        *)
(* diagonal: the step solves (A + I/dt) y = phi/dt.  delj[i] is the        *)
(* Chang-Cooper weight of interval i (1/2 when the switch is off).         *)
(* corner0 / corner1: every other population is at frequency 0 / at 1.     *)
(***************************************************************************)
LineABC(g, k, others, p, delj, corner0, corner1) ==
    LET N    == Len(g)
        dx   == Dx(g)
        df   == DFactor(g)
        xI   == XInt(g)
        MI   == [i \in 1..(N - 1) |-> Mf(xI[i], k, others, p)]
        V    == [i \in 1..N |-> Vf(g[i], p)]
        at(i) == RAdd(RMul(MI[i], delj[i]), RDiv(V[i], RMul("2", dx[i])))
        ct(i) == RAdd(RNeg(RMul(MI[i], RSub("1", delj[i]))), RDiv(V[i + 1], RMul("2", dx[i])))
        M1   == Mf(g[1], k, others, p)
        MN   == Mf(g[N], k, others, p)
        half == RDiv("1", RMul("2", p.nu))
        bc0  == IF corner0 /\ RLeq(M1, "0") THEN RMul(RSub(half, M1), RDiv("2", dx[1])) ELSE "0"
        bc1  == IF corner1 /\ RLeq("0", MN) THEN RMul(RAdd(half, MN), RDiv("2", dx[N - 1])) ELSE "0"
    IN  [a |-> [i \in 1..N |-> IF i = 1 THEN "0" ELSE RNeg(RMul(df[i], at(i - 1)))],
         c |-> [i \in 1..N |-> IF i = N THEN "0" ELSE RNeg(RMul(df[i], ct(i)))],
         b |-> [i \in 1..N |-> RAdd(RAdd(IF i < N THEN RMul(df[i], at(i)) ELSE "0",
                                         IF i > 1 THEN RMul(df[i], ct(i - 1)) ELSE "0"),
                                    RAdd(IF i = 1 THEN bc0 ELSE "0", IF i = N THEN bc1 ELSE "0"))],
         out0 |-> bc0, out1 |-> bc1]

\* a second, independent transcription in the form of the constant-parameter
\* Python drivers (array formulas of _one/_two/_three_pops_const_params)
LineABCPy(g, k, others, p, delj, corner0, corner1) ==
    LET N    == Len(g)
        dx   == Dx(g)
        df   == DFactor(g)
        xI   == XInt(g)
        MI   == [i \in 1..(N - 1) |-> Mf(xI[i], k, others, p)]
        V    == [i \in 1..N |-> Vf(g[i], p)]
        lo(i) == RSub(RNeg(RMul(MI[i], delj[i])), RDiv(V[i], RMul("2", dx[i])))          \* -MInt*delj - V[:-1]/(2dx)
        hi(i) == RSub(RMul(MI[i], RSub("1", delj[i])), RDiv(V[i + 1], RMul("2", dx[i])))  \*  MInt*(1-delj) - V[1:]/(2dx)
        M1   == Mf(g[1], k, others, p)
        MN   == Mf(g[N], k, others, p)
        half == RDiv("1", RMul("2", p.nu))
    IN  [a |-> [i \in 1..N |-> IF i = 1 THEN "0" ELSE RMul(df[i], lo(i - 1))],
         c |-> [i \in 1..N |-> IF i = N THEN "0" ELSE RMul(df[i], hi(i))],
         b |-> [i \in 1..N |->
                  RAdd(RAdd(IF i < N THEN RNeg(RMul(df[i], lo(i))) ELSE "0", IF i > 1 THEN RNeg(RMul(df[i], hi(i - 1))) ELSE "0"),
                       RAdd(IF i = 1 /\ corner0 /\ RLeq(M1, "0") THEN RMul(RSub(half, M1), RDiv("2", dx[1])) ELSE "0",
                            IF i = N /\ corner1 /\ RLeq("0", MN) THEN RNeg(RMul(RSub(RNeg(half), MN), RDiv("2", dx[N - 1]))) ELSE "0"))]]

HalfDelj(g) == [i \in 1..(Len(g) - 1) |-> "1/2"]

\* residual of row i of (A + I/dt) y = r
RowApply(sys, invdt, y, i) ==
    LET N == Len(y) IN
    RAdd(RAdd(IF i > 1 THEN RMul(sys.a[i], y[i - 1]) ELSE "0", RMul(RAdd(sys.b[i], invdt), y[i])),
         IF i < N THEN RMul(sys.c[i], y[i + 1]) ELSE "0")
RowScale(sys, invdt, y, r, i) ==
    LET N == Len(y) IN
    RAdd(RAdd(RAdd(IF i > 1 THEN RAbs(RMul(sys.a[i], y[i - 1])) ELSE "0", RAbs(RMul(RAdd(sys.b[i], invdt), y[i]))),
              IF i < N THEN RAbs(RMul(sys.c[i], y[i + 1])) ELSE "0"), RAbs(r[i]))
\* y solves the system up to a backward error tau (tau = 0: exactly)
IsSolution(sys, invdt, y, r, tau) ==
    \A i \in 1..Len(y) : RLeq(RAbs(RSub(r[i], RowApply(sys, invdt, y, i))), RMul(tau, RowScale(sys, invdt, y, r, i)))
\* largest backward error of a row, as a rational (for reporting)

\* the documented Thomas recurrence, exactly
Thomas(sys, invdt, r) ==
    LET N == Len(r)
        bb(i) == RAdd(sys.b[i], invdt)
        RECURSIVE fw(_, _, _, _)
        \* forward sweep: returns <<gam, u>> as functions built up to N
        fw(j, bet, gam, u) ==
            IF j > N THEN <<gam, u>>
            ELSE LET g == RDiv(sys.c[j - 1], bet)
                     b2 == RSub(bb(j), RMul(sys.a[j], g))
                 IN fw(j + 1, b2, [gam EXCEPT ![j] = g], [u EXCEPT ![j] = RDiv(RSub(r[j], RMul(sys.a[j], u[j - 1])), b2)])
        z == [i \in 1..N |-> "0"]
        f == fw(2, bb(1), z, [z EXCEPT ![1] = RDiv(r[1], bb(1))])
        RECURSIVE bw(_, _)
        bw(j, u) == IF j < 1 THEN u ELSE bw(j - 1, [u EXCEPT ![j] = RSub(u[j], RMul(f[1][j + 1], u[j + 1]))])
    IN  bw(N - 1, f[2])

(***************************************************************************)
(* A sweep of a whole density along axis k.                                *)
(***************************************************************************)
Line(ph, k, ix)      == [v \in 1..ph.sh[k] |-> ph.d[Flat(ph.sh, WithAxis(ix, k, v - 1))]]
\* the lines of a sweep along k: index tuples with ix[k] = 0
LineIxs(sh, k)       == {ix \in Indices(sh) : ix[k] = 0}
Others(grids, ix)    == [j \in 1..Len(ix) |-> grids[j][ix[j] + 1]]
AllOthers(grids, k, ix, v) == \A j \in 1..Len(ix) : j = k \/ grids[j][ix[j] + 1] = v
SysOf(grids, k, ix, p) ==
    LineABC(grids[k], k, Others(grids, ix), p, HalfDelj(grids[k]), AllOthers(grids, k, ix, "0"), AllOthers(grids, k, ix, "1"))
\* the same with Chang-Cooper weights delj (a sequence over the intervals of the line)
SysOfD(grids, k, ix, p, delj) ==
    LineABC(grids[k], k, Others(grids, ix), p, delj, AllOthers(grids, k, ix, "0"), AllOthers(grids, k, ix, "1"))
\* Conditioning allowance of the documented double-precision Chang-Cooper formula
\*   delj = (-e w + e V - V)/(w - e w),  e = exp(w/V):
\* it subtracts nearly equal numbers for small z = w/V, relative error about 8u/z^2 (u = 2^-53).
\* DeljCoefSlack(v) bounds the induced error of the coefficients of row v; multiplied by the
\* neighbouring |y| it bounds the induced residual.
UDouble == RDiv("1", RPow("2", 53))
DeljErr(z) == IF RIsZero(z) THEN "0" ELSE RMin("1", RDiv(RMul("16", UDouble), RSq(z)))
\* In addition the midpoint x_I = (x_j + x_j+1)/2 is rounded to a double, so 1 - x_I (or x_I) and with it V(x_I) and
\* z carry a relative error of about 4u / min(x_I, 1 - x_I) on grids that crowd the boundary; the weight responds
\* with |z * d(delj)/dz| <= min(|z|/12, 1/|z|).
DeljMidErr(z, xm) == IF RIsZero(z) THEN "0"
                     ELSE RMul(RMin(RDiv(RAbs(z), "12"), RDiv("1", RAbs(z))), RDiv(RMul("4", UDouble), RMin(xm, RSub("1", xm))))
DeljIntervalErr(grids, k, ix, p, j) ==
    LET g == grids[k] xI == XInt(g) dx == Dx(g)
        m == Mf(xI[j], k, Others(grids, ix), p)
        z == RDiv(RMul(RMul("2", m), dx[j]), Vf(xI[j], p))
    IN  RMul(RAbs(m), RAdd(DeljErr(z), DeljMidErr(z, xI[j])))
DeljCoefSlack(grids, k, ix, p, v) ==
    LET g == grids[k] N == Len(g) df == DFactor(g) IN
    RMul(df[v], RAdd(IF v > 1 THEN DeljIntervalErr(grids, k, ix, p, v - 1) ELSE "0",
                     IF v < N THEN DeljIntervalErr(grids, k, ix, p, v) ELSE "0"))
DeljResidualSlack(grids, k, ix, p, y, v) ==
    LET g == grids[k] N == Len(g) df == DFactor(g) IN
    RMul(df[v], RAdd(IF v > 1 THEN RMul(DeljIntervalErr(grids, k, ix, p, v - 1), RAdd(RAbs(y[v - 1]), RAbs(y[v]))) ELSE "0",
                     IF v < N THEN RMul(DeljIntervalErr(grids, k, ix, p, v), RAdd(RAbs(y[v]), RAbs(y[v + 1]))) ELSE "0"))
\* Conditioning allowance of the advection term (both settings of the switch).  The code evaluates M at the midpoint
\* x_I = (x_j + x_j+1)/2 ROUNDED to a double (absolute error <= u = 2^-53, the specification uses the exact midpoint) and
\* forms M = SUM m_j (o_j - x_I) + Sel(x_I) in double precision.  With |dSel/dx| <= (5/2)|gamma| on [0,1] for h in [0,1]:
\*   |delta M| <= 2u (SUM |m_j| + (5/2)|gamma|)  +  8u (SUM |m_j (o_j - x_I)| + |Sel(x_I)|).
\* On grids that crowd the boundary the factor 2/(dx_v-1 + dx_v) turns this into a residual far above tau times the row
\* scale (observed 3.4e-11 with dx = 1.6e-6 next to dx = 1.3e-3); the allowance is 13 orders of magnitude below M itself.
AdvIntervalErr(grids, k, ix, p, j) ==
    LET xI == XInt(grids[k])[j]
        oth == Others(grids, ix)
        msum  == RSum([q \in DOMAIN oth |-> IF q = k THEN "0" ELSE RAbs(p.mig[q])])
        mterm == RSum([q \in DOMAIN oth |-> IF q = k THEN "0" ELSE RAbs(RMul(p.mig[q], RSub(oth[q], xI)))])
    IN  RAdd(RMul(RMul("2", UDouble), RAdd(msum, RMul("5/2", RAbs(p.gamma)))),
             RMul(RMul("8", UDouble), RAdd(mterm, RAbs(Sel(xI, p)))))
AdvResidualSlack(grids, k, ix, p, y, v) ==
    LET g == grids[k] N == Len(g) df == DFactor(g) IN
    RMul(df[v], RAdd(IF v > 1 THEN RMul(AdvIntervalErr(grids, k, ix, p, v - 1), RAdd(RAbs(y[v - 1]), RAbs(y[v]))) ELSE "0",
                     IF v < N THEN RMul(AdvIntervalErr(grids, k, ix, p, v), RAdd(RAbs(y[v]), RAbs(y[v + 1]))) ELSE "0"))
\* out is the result of one implicit step of ph along axis k with time step dt; deljtab = <<>> when the
\* Chang-Cooper switch is off, otherwise a record: flat index (as a string) of the line's first point -> weights
IsStepD(ph, out, grids, k, p, dt, tau, deljtab) ==
    /\ out.sh = ph.sh
    /\ \A ix \in LineIxs(ph.sh, k) :
          LET on  == deljtab # <<>>
              dj  == IF on THEN deljtab[ToString(Flat(ph.sh, ix) - 1)] ELSE HalfDelj(grids[k])
              sys == SysOfD(grids, k, ix, p, dj)
              y == Line(out, k, ix)
              r == [v \in 1..ph.sh[k] |-> RDiv(Line(ph, k, ix)[v], dt)]
              invdt == RDiv("1", dt)
          IN  /\ \A v \in 1..Len(y) : IsNum(y[v])
              /\ \A v \in 1..Len(y) :
                    RLeq(RAbs(RSub(r[v], RowApply(sys, invdt, y, v))),
                         RAdd(RAdd(RMul(tau, RowScale(sys, invdt, y, r, v)), AdvResidualSlack(grids, k, ix, p, y, v)),
                              IF on THEN DeljResidualSlack(grids, k, ix, p, y, v) ELSE "0"))
\* out is the result of one implicit step of ph along axis k with time step dt
IsStep(ph, out, grids, k, p, dt, tau) ==
    /\ out.sh = ph.sh
    /\ \A ix \in LineIxs(ph.sh, k) :
          LET y == Line(out, k, ix)
              r == [v \in 1..ph.sh[k] |-> RDiv(Line(ph, k, ix)[v], dt)]
          IN  (\A v \in 1..Len(y) : IsNum(y[v])) /\ IsSolution(SysOf(grids, k, ix, p), RDiv("1", dt), y, r, tau)
ExactStep(ph, grids, k, p, dt) ==
    LET sol(ix) == Thomas(SysOf(grids, k, ix, p), RDiv("1", dt), [v \in 1..ph.sh[k] |-> RDiv(Line(ph, k, ix)[v], dt)])
    IN  [sh |-> ph.sh, d |-> [q \in 1..Size(ph.sh) |-> LET ix == Unflat(ph.sh, q) IN sol(WithAxis(ix, k, 0))[ix[k] + 1]]]

(***************************************************************************)
(* Mass, marginals, injection (C04)                                        *)
(***************************************************************************)
\* trapezoid weight of a grid point of the P-dimensional grid
PointW(grids, ix) == LET RECURSIVE go(_, _)
                         go(j, acc) == IF j > Len(ix) THEN acc ELSE go(j + 1, RMul(acc, TrapW(grids[j])[ix[j] + 1]))
                     IN go(1, "1")
Mass(ph, grids) == RSum([q \in 1..Size(ph.sh) |-> RMul(ph.d[q], PointW(grids, Unflat(ph.sh, q)))])
\* marginal density over the axes in keep (a set), trapezoid-integrating the others out:
\* value at the partial index jx (a function on keep)
MarginalAt(ph, grids, keep, jx) ==
    RSum([q \in 1..Size(ph.sh) |->
            LET ix == Unflat(ph.sh, q) IN
            IF \A j \in keep : ix[j] = jx[j]
            THEN RMul(ph.d[q], LET RECURSIVE go(_, _)
                                   go(j, acc) == IF j > Len(ix) THEN acc
                                                 ELSE go(j + 1, IF j \in keep THEN acc ELSE RMul(acc, TrapW(grids[j])[ix[j] + 1]))
                               IN go(1, "1"))
            ELSE "0"])
\* the documented injection for population k: dt * theta0 / 2 of probability enters at frequency
\* x_k[1] (first interior point), all other populations at frequency 0; deposited value is
\* dt/x1 * theta0/2 / (trapezoid weight of that grid point)
InjectIx(P, k)  == [j \in 1..P |-> IF j = k THEN 1 ELSE 0]
InjectAmount(grids, k, dt, theta0) ==
    RDiv(RMul(RDiv(dt, grids[k][2]), RHalf(theta0)), PointW(grids, InjectIx(Len(grids), k)))
\* mass added by one injection into population k
InjectMass(grids, k, dt, theta0) == RMul(RDiv(dt, grids[k][2]), RHalf(theta0))

(***************************************************************************)
(* Reference-size rescaling (C03)                                          *)
(***************************************************************************)
RescaleP(cc, p) == [p EXCEPT !.nu = RMul(cc, p.nu), !.gamma = RDiv(p.gamma, cc),
                             !.mig = [j \in DOMAIN p.mig |-> RDiv(p.mig[j], cc)]]
ScaleSys(f, sys) == [a |-> [i \in DOMAIN sys.a |-> RMul(f, sys.a[i])], b |-> [i \in DOMAIN sys.b |-> RMul(f, sys.b[i])],
                     c |-> [i \in DOMAIN sys.c |-> RMul(f, sys.c[i])]]
\* the time-step rule: timescale_factor / max(1/(4 nu), sum of migration rates, |gamma| bound)
HBound(h) == RMul("2", RMax(RMul(RAbs(RAdd(h, RMul(RSub("1", RMul("2", h)), "1/2"))), "1/4"),
                            RMul(RAbs(RAdd(h, RMul(RSub("1", RMul("2", h)), "1/4"))), "3/16")))
MaxVM(k, p) == RMax(RMax(RDiv("1/4", p.nu), RSum([j \in DOMAIN p.mig |-> IF j = k THEN "0" ELSE p.mig[j]])),
                    RMul(RAbs(p.gamma), HBound(p.h)))
=============================================================================
