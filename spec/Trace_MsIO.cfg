CONSTANTS
  Tau = "1/4000000000000000"
  TauF = "1/2000000"
  TauE = "1/1000000000000"
SPECIFICATION Spec
CHECK_DEADLOCK FALSE
INVARIANT Done
POSTCONDITION AllConsumed
