\* DEFECTIVE design (must be refuted): Spectrum.S restores the saved mask by rebinding _mask: a view is detached, its owner keeps the masked corners
CONSTANTS
  MaxDepth = 1
  BaseSel = "all"
  LaySel = "all"
  ProjKeyMode = "full"
  DbetaKeyMode = "full"
  PartKeyMode = "full"
  EntryMode = "copy_all"
  XXMode = "contig"
  GodMode = "object"
  DemesMode = "pure"
  PerturbMode = "pure"
  HashMode = "ordered"
  SFSMode = "copies"
  VectorMode = "copies"
  MaskMode = "rebind"
  KernelMode = "stateless"
  MaxTable = 60
SPECIFICATION Spec
CHECK_DEADLOCK FALSE
CONSTRAINT TableBound
VIEW MCView
INVARIANT TypeOK
INVARIANT AlphabetOK
INVARIANT TablesSound
INVARIANT ResultIndependentOfHistory
INVARIANT ResultIndependentOfHashSeed
INVARIANT LayoutIndependent
INVARIANT ArgumentsUnchanged
INVARIANT ResultIsFresh
