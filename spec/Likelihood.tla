----------------------------- MODULE Likelihood -----------------------------
(***************************************************************************)
(* Property C11: the likelihood layer of dadi (Inference.ll, ll_per_bin,   *)
(* ll_multinom, optimal_sfs_scaling, optimally_scaled_sfs and the two      *)
(* residual functions) over the abstract spectra of module SpectrumOps.    *)
(*                                                                         *)
(* Numbers are exact rationals.  The transcendental functions ln and       *)
(* lnGamma never are evaluated here: every operator that needs them takes  *)
(* tables  Ln, LnG : flat index -> rational  (Ln[k] stands for             *)
(* ln(model[k]), LnG[k] for lnGamma(data[k] + 1)) and a scalar lnth that   *)
(* stands for ln(theta).  The laws below hold for EVERY such table, i.e.   *)
(* they are identities of the rational skeleton of the likelihood.         *)
(***************************************************************************)
EXTENDS SpectrumOps

\* History independence.  Every function of the likelihood layer (ll, ll_per_bin, ll_multinom, optimal_sfs_scaling,
\* optimally_scaled_sfs, the two residuals) is a function of the abstract value of its two operands - all operators
\* below are - and is an observer: after the call both operands hold the value they held before it (entries, mask,
\* folded flag, labels).  Hence any later call on the same two objects sees the same operands, whatever was called before.
OperandsUnchanged(mo, da, moAfter, daAfter) == moAfter = mo /\ daAfter = da

\* A model is folded automatically against folded data.
EffModel(mo, da) == IF da.f /\ ~mo.f THEN Fold(mo) ELSE mo

\* em = effective model.  Entries masked in neither ...
JointMask(em, da) == {k \in 1..Size(da.sh) : ~em.m[k] /\ ~da.m[k]}
\* ... and, for the log-probability, where the model is a positive finite number
\* (a Poisson mean of 0 against a datum of 0 has log-probability 0 = no contribution;
\* dadi drops non-positive model entries through numpy.ma.log and warns).
PosAt(em, k)      == IsNum(em.d[k]) /\ RPos(em.d[k])
Joint(em, da)     == {k \in JointMask(em, da) : PosAt(em, k)}

SumOver(S, q)     == RSum([k \in S |-> q[k]])

\* Poisson log-probability of d given mean m:  -m + d ln m - lnGamma(d+1)
Term(m, d, lnm, lgd)      == RSub(RAdd(RNeg(m), RMul(d, lnm)), lgd)
\* magnitude of its three parts (the scale of the float evaluation's error)
TermScale(m, d, lnm, lgd) == RAdd(RAdd(RAbs(m), RAbs(RMul(d, lnm))), RAbs(lgd))

PerBin(em, da, Ln, LnG, k) == Term(em.d[k], da.d[k], Ln[k], LnG[k])
LL(em, da, Ln, LnG)        == RSum([k \in Joint(em, da) |-> PerBin(em, da, Ln, LnG, k)])
LLScale(em, da, Ln, LnG)   == RSum([k \in Joint(em, da) |-> TermScale(em.d[k], da.d[k], Ln[k], LnG[k])])

\* optimal multiplicative scaling: over the entries masked in neither
DataSum(em, da)   == SumOver(JointMask(em, da), da.d)
ModelSum(em, da)  == SumOver(JointMask(em, da), em.d)
HasTheta(em, da)  == ~RIsZero(ModelSum(em, da))
ThetaOpt(em, da)  == RDiv(DataSum(em, da), ModelSum(em, da))
ScaleBy(s, c)     == [s EXCEPT !.d = [k \in DOMAIN s.d |-> RMul(c, s.d[k])]]

\* multinomial log-likelihood = Poisson log-likelihood of the optimally scaled model;
\* ln(theta m) = ln theta + ln m
TermM(th, m, d, lnth, lnm, lgd) == Term(RMul(th, m), d, RAdd(lnth, lnm), lgd)
LLmultinom(em, da, Ln, LnG, lnth) ==
    LET th == ThetaOpt(em, da) IN
    RSum([k \in Joint(em, da) |-> TermM(th, em.d[k], da.d[k], lnth, Ln[k], LnG[k])])
LLmultinomScale(em, da, Ln, LnG, lnth) ==
    LET th == ThetaOpt(em, da) IN
    RSum([k \in Joint(em, da) |-> TermScale(RMul(th, em.d[k]), da.d[k], RAdd(lnth, Ln[k]), LnG[k])])

\* derivative of theta |-> LL(theta m, d) (rational: sum d / theta - sum m over Joint)
Score(em, da, th) == RSub(RDiv(SumOver(Joint(em, da), da.d), th), SumOver(Joint(em, da), em.d))

(***************************************************************************)
(* model = c * data maximises the multinomial likelihood.  With            *)
(* mu = ThetaOpt * m  (so that sum mu = sum d over the joint entries)      *)
(*   LLm(c d) - LLm(m) = sum_{d>0} d ln(d/mu)  >=  sum_{d>0} (d - mu)      *)
(* by ln x >= 1 - 1/x; the right-hand side is rational and is >= 0         *)
(* exactly because the optimal scaling matches the totals.                 *)
(***************************************************************************)
GapLowerBound(em, da) ==
    LET th == ThetaOpt(em, da) IN
    RSum([k \in {j \in Joint(em, da) : RPos(da.d[j])} |-> RSub(da.d[k], RMul(th, em.d[k]))])
\* the only property of a ln table used above (and checked on every supplied table)
LnSane(x, lnx) == RLeq(RSub("1", RDiv("1", x)), lnx) /\ RLeq(lnx, RSub(x, "1"))

(***************************************************************************)
(* Residuals.  lvl = "none" or a rational masking level.                   *)
(*   linear    (model - data) / sqrt(model)                                *)
(*   Anscombe  3/2 [ (m^(2/3) - m^(-1/3)/9) - (d^(2/3) - d^(-1/3)/9) ] / m^(1/6) *)
(* both positive when the model is above the data; masked where model or   *)
(* data are masked and where model <= lvl and data <= lvl (Anscombe: also  *)
(* where data = 0 when a level is given).  Roots are supplied by the       *)
(* recorder and verified here by exact powering (RootOK).                  *)
(***************************************************************************)
BelowLevel(em, da, lvl, k) == lvl # "none" /\ RLeq(em.d[k], lvl) /\ RLeq(da.d[k], lvl)
MustMaskLin(em, da, lvl, k) == em.m[k] \/ da.m[k] \/ BelowLevel(em, da, lvl, k)
MustMaskAns(em, da, lvl, k) == MustMaskLin(em, da, lvl, k) \/ (lvl # "none" /\ ~em.m[k] /\ ~da.m[k] /\ RIsZero(da.d[k]))
DefinedLin(em, da, lvl, k)  == ~MustMaskLin(em, da, lvl, k) /\ PosAt(em, k)
DefinedAns(em, da, lvl, k)  == ~MustMaskAns(em, da, lvl, k) /\ PosAt(em, k) /\ RPos(da.d[k])
RootOK(root, power, x)      == RPos(root) /\ RCloseRel(RPow(root, power), x, "1/100000000000000", "0")
\* s = sqrt(m)
LinResid(m, d, s)           == RDiv(RSub(m, d), s)
LinResidScale(m, d, s)      == RDiv(RAdd(RAbs(m), RAbs(d)), s)
\* t = m^(1/6), c = d^(1/3)
AnsTrans2(t)                == RSub(RPow(t, 4), RDiv("1", RMul("9", RPow(t, 2))))     \* from a sixth root
AnsTrans3(c)                == RSub(RPow(c, 2), RDiv("1", RMul("9", c)))               \* from a cube root
AnsResid(t, c)              == RDiv(RMul("3/2", RSub(AnsTrans2(t), AnsTrans3(c))), t)
AnsResidScale(t, c)         == RDiv(RMul("3/2", RAdd(RAdd(RPow(t, 4), RDiv("1", RMul("9", RPow(t, 2)))),
                                                      RAdd(RPow(c, 2), RDiv("1", RMul("9", c))))), t)
=============================================================================
