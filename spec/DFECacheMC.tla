----------------------------- MODULE DFECacheMC -----------------------------
(***************************************************************************)
(* Exhaustive model of DFECache: every configuration with                  *)
(* nw <= MaxW workers, nj <= MaxJ jobs, split_jobs <= MaxSplit, every      *)
(* this_job_id, every set of failing jobs; every interleaving of the       *)
(* parent and the workers.  Safety laws as invariants, termination as a    *)
(* liveness property under weak fairness of each process (no state         *)
(* constraint).  A second family of initial states enumerates merge cases  *)
(* (every sequence of <= MaxPieces pieces drawn from the correct and the   *)
(* altered pieces of every split).                                         *)
(*                                                                         *)
(* SpecPaths is the same transition relation with the schedule recorded in *)
(* the state: its terminal states are exactly the complete schedules of    *)
(* the configurations in PathConfigs; they are printed and replayed on     *)
(* the real code by harness/c17.py (behaviour replay, spec -> code).       *)
(***************************************************************************)
EXTENDS DFECache, TLC

CONSTANTS MaxW, MaxJ, MaxSplit, MaxPieces, AllowDie, PathSet

VARIABLES st,      \* the protocol state (DFECache!InitState ...)
          path,    \* SpecPaths only: the actors that moved, as a string of digits (<<>> in Spec)
          mg       \* merge case: <<nj, split, sequence of <<id, altered>> >>, or <<>> in protocol states
vars == <<st, path, mg>>

Configs == {[nw |-> nw, nj |-> nj, cap |-> nw, split |-> sp, this |-> th, fail |-> fl, die |-> AllowDie] :
              nw \in 1..MaxW, nj \in 1..MaxJ, sp \in 1..MaxSplit, th \in 0..(MaxSplit - 1), fl \in SUBSET (0..(MaxJ - 1))}
GoodConfigs == {c \in Configs : c.this < c.split /\ c.fail \subseteq JobsOf(c)}

\* ---- merge cases ----
Val(j)     == 100 + j
Altered    == 999
PieceOf(nj, sp, id, alt) ==
   LET own == {j \in 0..(nj - 1) : j % sp = id}
       first == IF own = {} THEN -5 ELSE CHOOSE j \in own : \A i \in own : j <= i
   IN  [j \in 0..(nj - 1) |-> IF j \notin own THEN Empty ELSE IF alt = 1 /\ j = first THEN Altered ELSE Val(j)]
Kinds(sp)  == (0..(sp - 1)) \X {0, 1}
SeqsUpTo(S, n) == UNION {[1..k -> S] : k \in 1..n}
MergeCases == UNION {{<<nj, sp, q>> : q \in SeqsUpTo(Kinds(sp), MaxPieces)} : nj \in 1..MaxJ, sp \in 1..MaxSplit}
Pieces(m)  == [k \in DOMAIN m[3] |-> PieceOf(m[1], m[2], m[3][k][1], m[3][k][2])]
Dom(m)     == 0..(m[1] - 1)

TrivialC == [nw |-> 1, nj |-> 1, cap |-> 1, split |-> 1, this |-> 0, fail |-> {}, die |-> FALSE]

Init == \/ st \in {InitState(c) : c \in GoodConfigs} /\ path = <<>> /\ mg = <<>>
        \/ st = InitState(TrivialC) /\ path = <<>> /\ mg \in MergeCases

Step(a) == mg = <<>> /\ En(st, a) /\ st' = Apply(st, a) /\ UNCHANGED <<path, mg>>
Die(w)  == mg = <<>> /\ EnDie(st, w) /\ st' = ApplyDie(st, w) /\ UNCHANGED <<path, mg>>
Main      == Step(0)
Worker(w) == Step(w)
Next == Main \/ \E w \in 1..MaxW : Worker(w) \/ Die(w)
Spec == Init /\ [][Next]_vars /\ WF_vars(Main) /\ \A w \in 1..MaxW : WF_vars(Worker(w))

\* ---- invariants ----
TypeOK ==
  /\ st.c \in GoodConfigs \cup {TrivialC}
  /\ \A k \in DOMAIN st.queue : st.queue[k] \in JobsOf(st.c) \cup {Stop}
  /\ \A k \in DOMAIN st.results : st.results[k][1] \in JobsOf(st.c) /\ st.results[k][2] \in {"ok", "err"}
  /\ st.nstart \in 0..st.c.nw /\ st.sent \in 0..st.c.nw /\ st.njoin \in 0..st.c.nw
  /\ \A w \in WorkersOf(st.c) : st.wpc[w] \in {"unstarted", "get", "append", "exited", "dead"}
  /\ st.outcome \in {"running", "ok", "error"}
Protocol == mg = <<>>
L_QueueBounded      == Protocol => QueueBounded(st)
L_AtMostOnce        == Protocol => AtMostOnce(st) /\ OnlyMyJobs(st)
L_SentinelAtMostOne == Protocol => SentinelAtMostOne(st)
L_ExactlyOnce       == Protocol => ExactlyOnce(st)
L_Outcome           == Protocol => OutcomeLaw(st)
L_NoSilentHole      == Protocol => NoSilentHole(st)
\* a worker is only ever joined after it exited, the parent collects only after all joins
L_JoinAfterExit     == Protocol => \A w \in WorkersOf(st.c) : w <= st.njoin => st.wpc[w] \in {"exited", "dead"}
\* the observable projection determines the parent's counters (so replay compares enough)
L_ResultsAreTaken   == Protocol => \A k \in DOMAIN st.results : st.ncomp[st.results[k][1]] = 1

\* merge laws
L_MergeAgree    == mg # <<>> => MergeOp(Pieces(mg), Dom(mg), Empty) = Merge(Pieces(mg), Dom(mg), Empty)
L_MergeComplete == mg # <<>> => LET r == MergeOp(Pieces(mg), Dom(mg), Empty) IN
                                 ~r.err => \A j \in Dom(mg) : r.table[j] # Empty
L_MergeExact    == mg # <<>> => LET r == MergeOp(Pieces(mg), Dom(mg), Empty)
                                     ids == {mg[3][k][1] : k \in DOMAIN mg[3]}
                                     clean == \A k \in DOMAIN mg[3] : mg[3][k][2] = 0
                                     needed == {j % mg[2] : j \in Dom(mg)}
                                 IN  clean => /\ r.err <=> ~(needed \subseteq ids)
                                              /\ ~r.err => \A j \in Dom(mg) : r.table[j] = Val(j)
L_MergeConflict == mg # <<>> => LET r == MergeOp(Pieces(mg), Dom(mg), Empty) IN
                                 (\E k, l \in DOMAIN mg[3] : mg[3][k][1] = mg[3][l][1] /\ mg[3][k][2] # mg[3][l][2]
                                                              /\ \E j \in Dom(mg) : j % mg[2] = mg[3][k][1])
                                    => r.err

\* ---- liveness: every run of the protocol ends (ok or error); no deadlock, no livelock ----
Termination == <>(mg # <<>> \/ Terminated(st))

\* ---- schedules for behaviour replay ----
\* PathSet selects the configurations: 1 -> 2 workers x 3 jobs, every fail set (1-D cache);
\*                                     2 -> 2 workers, 9 jobs in 3 split pieces of 3 (2-D cache), chosen fail sets
\*                                     3 -> 3 workers x 4 jobs (simulation only)
\*                                     4 -> 1-2 workers x 2 jobs, every fail set;  5 -> as 1 with three fail sets
\*                                     6 -> 2 and 3 together (simulation);  7 -> 5 and 4 together (quick tier: one TLC run each)
PC(nw, nj, sp, th, fl) == [nw |-> nw, nj |-> nj, cap |-> nw, split |-> sp, this |-> th, fail |-> fl, die |-> FALSE]
PathConfigs ==
   CASE PathSet = 1 -> {PC(2, 3, 1, 0, fl) : fl \in SUBSET (0..2)}
     [] PathSet = 2 -> {PC(2, 9, 3, th, fl) : th \in 0..2, fl \in {{}, {4}, {0, 8}}}
     [] PathSet = 3 -> {PC(3, 4, 1, 0, fl) : fl \in SUBSET (0..3)} \cup {PC(3, 9, 3, th, fl) : th \in 0..2, fl \in {{}, {3}, {2, 7}}}
     [] PathSet = 6 -> {PC(2, 9, 3, th, fl) : th \in 0..2, fl \in {{}, {4}, {0, 8}}}
                       \cup {PC(3, 4, 1, 0, fl) : fl \in SUBSET (0..3)} \cup {PC(3, 9, 3, th, fl) : th \in 0..2, fl \in {{}, {3}, {2, 7}}}
     [] PathSet = 7 -> {PC(2, 3, 1, 0, fl) : fl \in {{}, {1}, {0, 2}}}
                       \cup {PC(1, 2, 1, 0, fl) : fl \in SUBSET (0..1)} \cup {PC(2, 2, 1, 0, fl) : fl \in SUBSET (0..1)}
     [] PathSet = 5 -> {PC(2, 3, 1, 0, fl) : fl \in {{}, {1}, {0, 2}}}
     [] PathSet = 4 -> {PC(1, 2, 1, 0, fl) : fl \in SUBSET (0..1)} \cup {PC(2, 2, 1, 0, fl) : fl \in SUBSET (0..1)}
     [] OTHER -> {}
InitPaths == st \in {InitState(c) : c \in PathConfigs} /\ path = "" /\ mg = <<>>
NextPaths == \E a \in 0..3 : En(st, a) /\ st' = Apply(st, a) /\ path' = path \o ToString(a) /\ UNCHANGED mg
SpecPaths == InitPaths /\ [][NextPaths]_vars
\* the schedule is kept as a string of actor digits, the fail set as a string of job digits (compact output)
RECURSIVE DigitsOf(_)
DigitsOf(S) == IF S = {} THEN "" ELSE LET m == CHOOSE x \in S : \A y \in S : x <= y IN ToString(m) \o DigitsOf(S \ {m})
FailStr(c) == "f" \o DigitsOf(c.fail)
EmitPath  == Terminated(st) =>
                PrintT(<<"PATH", st.c.nw, st.c.nj, st.c.split, st.c.this, FailStr(st.c), path>>)
\* every path ends terminated: a maximal path that is not terminated would be a deadlock
PathsEnd  == (\A a \in 0..3 : ~En(st, a)) => Terminated(st)
=============================================================================
