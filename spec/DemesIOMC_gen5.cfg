CONSTANTS
  MaxBlocks = 6
  MaxPops = 5
  Rich = TRUE
  Gen = TRUE
  Grow = TRUE
SPECIFICATION Spec
CHECK_DEADLOCK FALSE
