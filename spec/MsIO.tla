-------------------------------- MODULE MsIO --------------------------------
(***************************************************************************)
(* Extension module X01: the simulator side of dadi.Spectrum.              *)
(*   - the output format of Hudson's ms as a stream of text lines, the     *)
(*     line-stream machine that recovers its content, and the spectrum     *)
(*     Spectrum.from_ms_file makes of it (SpectrumOfMs);                   *)
(*   - the same for the output of sfs_code as far as                       *)
(*     Spectrum.from_sfscode_file defines it (SpectrumOfSfs);              *)
(*   - the command line Misc.ms_command builds and the ms "core" strings   *)
(*     of Demographics2D.*_mscore as token sequences.                      *)
(*                                                                         *)
(* A text line is a sequence of characters (one-character strings) without *)
(* its newline; a file is a sequence of lines.  Numbers are exact          *)
(* rationals (module Rat).                                                 *)
(*                                                                         *)
(* ms output (ms.c prints exactly this):                                   *)
(*   ms NSAM NREPS options.. [-I NPOP n1 .. nNPOP [4Nm]] options..         *)
(*   s1 s2 s3                                   the seeds                  *)
(*   then for every replicate                                              *)
(*     <empty line>                                                        *)
(*     //[<tab>tbs arguments]                                              *)
(*     segsites: S                                                         *)
(*     positions: p1 p2 .. pS                   (S > 0; sorted, in [0,1])  *)
(*     NSAM lines of S characters 0/1           (S > 0) one per chromosome *)
(*     <empty line>                             (S = 0 only)               *)
(* Abstract content of an ms output:                                       *)
(*   [nsam, pops (<<>> = no -I), reps]; a replicate is a sequence of       *)
(*   sites, a site is [pos |-> rational, al |-> <<a_1..a_nsam>>], a_c = 1  *)
(*   iff chromosome c carries the derived allele.                          *)
(*                                                                         *)
(* A spectrum is [sh, d, m, f, ids] as in SpectrumIO: shape, flat C-order  *)
(* values, flat mask, folded flag, labels as character sequences.          *)
(***************************************************************************)
EXTENDS Rat, Integers, Sequences, FiniteSets, TLC
\* (TLCEval only forces TLC to build a function once instead of re-evaluating its body at every application)

\* ---------------- characters and tokens ----------------
IsBlank(c) == c \in {" ", "\t"}
DigitSeq == <<"0", "1", "2", "3", "4", "5", "6", "7", "8", "9">>
IsDig(c) == \E d \in 1..10 : DigitSeq[d] = c
DigVal(c) == (CHOOSE d \in 1..10 : DigitSeq[d] = c) - 1
RECURSIVE IntText(_)
IntText(n) == IF n < 10 THEN <<DigitSeq[n + 1]>> ELSE IntText(n \div 10) \o <<DigitSeq[(n % 10) + 1]>>
IsNatText(cs) == cs # <<>> /\ \A j \in 1..Len(cs) : IsDig(cs[j])
NatOf(cs) == LET RECURSIVE go(_, _)
                 go(j, acc) == IF j > Len(cs) THEN acc ELSE go(j + 1, 10 * acc + DigVal(cs[j]))
             IN go(1, 0)
RECURSIVE Cat(_)
Cat(q) == IF q = <<>> THEN <<>> ELSE Head(q) \o Cat(Tail(q))
RECURSIVE ISumSeq(_)
ISumSeq(q) == IF q = <<>> THEN 0 ELSE Head(q) + ISumSeq(Tail(q))
RECURSIVE IProdSeq(_)
IProdSeq(q) == IF q = <<>> THEN 1 ELSE Head(q) * IProdSeq(Tail(q))
IMin(S) == CHOOSE a \in S : \A b \in S : a <= b
IMax(S) == CHOOSE a \in S : \A b \in S : b <= a
\* maximal runs of non-blank characters
Words(cs) == LET RECURSIVE scan(_, _, _)
                 scan(j, cur, acc) ==
                     IF j > Len(cs) THEN (IF cur = <<>> THEN acc ELSE Append(acc, cur))
                     ELSE IF IsBlank(cs[j]) THEN scan(j + 1, <<>>, IF cur = <<>> THEN acc ELSE Append(acc, cur))
                     ELSE scan(j + 1, Append(cur, cs[j]), acc)
             IN scan(1, <<>>, <<>>)
\* the pieces between occurrences of ch (empty pieces kept)
Pieces(cs, ch) == LET RECURSIVE scan(_, _, _)
                      scan(j, cur, acc) ==
                          IF j > Len(cs) THEN Append(acc, cur)
                          ELSE IF cs[j] = ch THEN scan(j + 1, <<>>, Append(acc, cur))
                          ELSE scan(j + 1, Append(cur, cs[j]), acc)
                  IN scan(1, <<>>, <<>>)
JoinWith(toks, sep) == Cat(TLCEval([j \in 1..Len(toks) |-> IF j = 1 THEN toks[j] ELSE sep \o toks[j]]))
StartsWith(cs, w) == Len(cs) >= Len(w) /\ SubSeq(cs, 1, Len(w)) = w
HasWord(cs, w) == \E j \in 1..(Len(cs) - Len(w) + 1) : SubSeq(cs, j, j + Len(w) - 1) = w

\* decimal text  [-]digits[.digits]  and its exact value
DecBody(cs) == IF cs # <<>> /\ cs[1] = "-" THEN Tail(cs) ELSE cs
IsDecText(cs) == LET ps == Pieces(DecBody(cs), ".") IN
                 /\ Len(ps) \in {1, 2}
                 /\ \A j \in 1..Len(ps) : \A k \in 1..Len(ps[j]) : IsDig(ps[j][k])
                 /\ Len(Cat(ps)) >= 1
DecValue(cs) == LET ps == Pieces(DecBody(cs), ".")
                    ds == Cat(ps)
                    nf == IF Len(ps) = 2 THEN Len(ps[2]) ELSE 0
                    RECURSIVE go(_, _)
                    go(j, acc) == IF j > Len(ds) THEN acc ELSE go(j + 1, RAdd(RMul(acc, "10"), RInt(DigVal(ds[j]))))
                    v == RDiv(go(1, "0"), RPow("10", nf))
                IN IF cs[1] = "-" THEN RNeg(v) ELSE v
\* v >= 0 written with nd decimals ("%.<nd>f", ties up); values below 2^31 / 10^nd only (model checking, positions)
RECURSIVE IPow10(_)
IPow10(k) == IF k = 0 THEN 1 ELSE 10 * IPow10(k - 1)
FixedText(v, nd) == LET n  == RFloor(RAdd(RMul(v, RInt(IPow10(nd))), "1/2"))
                        ip == n \div IPow10(nd)
                        fp == n % IPow10(nd)
                    IN IntText(ip) \o <<".">> \o [j \in 1..nd |-> DigitSeq[((fp \div IPow10(nd - j)) % 10) + 1]]

\* ---------------- words of the formats ----------------
W_ms        == <<"m", "s">>
W_slashes   == <<"/", "/">>
W_segsites  == <<"s", "e", "g", "s", "i", "t", "e", "s", ":">>
W_positions == <<"p", "o", "s", "i", "t", "i", "o", "n", "s">>
W_dashI     == <<"-", "I">>
W_pop       == <<"p", "o", "p">>
W_sampSize  == <<"-", "-", "s", "a", "m", "p", "S", "i", "z", "e">>
W_dashn     == <<"-", "n">>
W_minus1    == <<"-", "1">>
NL == "\n"

(***************************************************************************)
(* ms: writer (what ms prints for a content) and the line-stream reader    *)
(***************************************************************************)
\* out.cmd = [prog, pre, mig, post : token sequences; seeds : line; tbs : text after "//"]
MsCmdLine(out) ==
    JoinWith(<<out.cmd.prog, IntText(out.nsam), IntText(Len(out.reps))>> \o out.cmd.pre \o
             (IF out.pops = <<>> THEN <<>>
              ELSE <<W_dashI, IntText(Len(out.pops))>> \o [k \in 1..Len(out.pops) |-> IntText(out.pops[k])] \o out.cmd.mig) \o
             out.cmd.post, <<" ">>)
MsRepLines(out, rep) ==
    <<<<>>, W_slashes \o out.cmd.tbs, W_segsites \o <<" ">> \o IntText(Len(rep))>> \o
    (IF rep = <<>> THEN <<<<>>>>
     ELSE <<W_positions \o <<":", " ">> \o Cat([j \in 1..Len(rep) |-> FixedText(rep[j].pos, 4) \o <<" ">>])>> \o
          [c \in 1..out.nsam |-> [j \in 1..Len(rep) |-> IF rep[j].al[c] = 1 THEN "1" ELSE "0"]])
MsWrite(out) == <<MsCmdLine(out), out.cmd.seeds>> \o Cat([r \in 1..Len(out.reps) |-> MsRepLines(out, out.reps[r])])

\* the command line: program name containing "ms", NSAM, NREPS, and the sample configuration after -I
MsParseCmd(line) ==
    LET t    == Words(line)
        iPos == {j \in 1..Len(t) : t[j] = W_dashI}
        jI   == IMin(iPos)
        np   == NatOf(t[jI + 1])
    IN  IF Len(t) < 3 \/ ~HasWord(t[1], W_ms) \/ ~IsNatText(t[2]) \/ ~IsNatText(t[3]) THEN [ok |-> FALSE]
        ELSE IF iPos = {} THEN [ok |-> TRUE, nsam |-> NatOf(t[2]), nreps |-> NatOf(t[3]), pops |-> <<>>]
        ELSE IF Len(t) < jI + 1 \/ ~IsNatText(t[jI + 1]) THEN [ok |-> FALSE]
        ELSE IF Len(t) < jI + 1 + np \/ (\E k \in 1..np : ~IsNatText(t[jI + 1 + k])) THEN [ok |-> FALSE]
        ELSE LET pops == [k \in 1..np |-> NatOf(t[jI + 1 + k])] IN
             [ok |-> ISumSeq(pops) = NatOf(t[2]), nsam |-> NatOf(t[2]), nreps |-> NatOf(t[3]), pops |-> pops]

\* The reader as a machine over the lines after the seeds line.  Modes:
\*   seek       looking for the first "//" line
\*   segsites   the next line is "segsites: S"
\*   positions  looking for the "positions:" line of a replicate with S > 0
\*   haps       k more chromosome lines to come
\*   skip       k separator lines to pass over (2 after the chromosomes, 3 after "segsites: 0"; at end of file they may be missing)
\*   done       NREPS replicates read (the rest of the file is ignored);  bad  the stream is not ms output
MsInit == [mode |-> "seek", k |-> 0, S |-> 0, pos |-> <<>>, rows |-> <<>>, reps |-> <<>>]
MsAfterRep(st, reps, nreps, gap) ==
    IF Len(reps) = nreps THEN [st EXCEPT !.mode = "done", !.reps = reps]
    ELSE [st EXCEPT !.mode = "skip", !.k = gap, !.reps = reps]
MsStep(st, line, nsam, nreps) ==
    CASE st.mode = "seek" -> IF StartsWith(line, W_slashes) THEN [st EXCEPT !.mode = "segsites"] ELSE st
      [] st.mode = "segsites" ->
            LET t == Words(line) IN
            IF Len(t) < 2 \/ t[1] # W_segsites \/ ~IsNatText(t[Len(t)]) THEN [st EXCEPT !.mode = "bad"]
            ELSE LET S == NatOf(t[Len(t)]) IN
                 IF S = 0 THEN MsAfterRep(st, Append(st.reps, <<>>), nreps, 3)
                 ELSE [st EXCEPT !.mode = "positions", !.S = S]
      [] st.mode = "positions" ->
            IF ~StartsWith(line, W_positions) THEN st
            ELSE LET t == Tail(Words(line)) IN
                 IF Len(t) # st.S \/ (\E j \in 1..Len(t) : ~IsDecText(t[j])) THEN [st EXCEPT !.mode = "bad"]
                 ELSE [st EXCEPT !.mode = "haps", !.k = nsam, !.rows = <<>>, !.pos = TLCEval([j \in 1..Len(t) |-> DecValue(t[j])])]
      [] st.mode = "haps" ->
            IF Len(line) # st.S \/ (\E j \in 1..Len(line) : line[j] \notin {"0", "1"}) THEN [st EXCEPT !.mode = "bad"]
            ELSE LET rows == Append(st.rows, line) IN
                 IF st.k > 1 THEN [st EXCEPT !.k = st.k - 1, !.rows = rows]
                 ELSE MsAfterRep(st, Append(st.reps, TLCEval([j \in 1..st.S |-> [pos |-> st.pos[j],
                                                                          al  |-> [c \in 1..nsam |-> IF rows[c][j] = "1" THEN 1 ELSE 0]]])),
                                 nreps, 2)
      [] st.mode = "skip" -> IF st.k > 1 THEN [st EXCEPT !.k = st.k - 1] ELSE [st EXCEPT !.mode = "segsites"]
      [] OTHER -> st
MsParse(lines) ==
    LET c == IF Len(lines) < 2 THEN [ok |-> FALSE] ELSE MsParseCmd(lines[1]) IN
    IF ~c.ok \/ c.nsam < 1 \/ c.nreps < 1 THEN [ok |-> FALSE]
    ELSE LET RECURSIVE run(_, _)
             run(j, st) == IF j > Len(lines) \/ st.mode \in {"done", "bad"} THEN st ELSE run(j + 1, MsStep(st, lines[j], c.nsam, c.nreps))
             fin == run(3, MsInit)
         IN  IF fin.mode # "done" THEN [ok |-> FALSE]
             ELSE [ok |-> TRUE, out |-> [nsam |-> c.nsam, pops |-> c.pops, reps |-> fin.reps], command |-> lines[1], seeds |-> lines[2]]

(***************************************************************************)
(* The spectrum of an ms output                                            *)
(* opt = [avg, mc : BOOLEAN; pa : pop_assignments (<<>> = None);           *)
(*        ids : pop_ids (<<>> = None); B : bootstrap_segments]             *)
(***************************************************************************)
\* sample groups: pop_assignments if given, else the -I configuration, else one population of NSAM
MsGroups(out, pa) == IF pa # <<>> THEN pa ELSE IF out.pops # <<>> THEN out.pops ELSE <<out.nsam>>
GroupLo(g, k) == ISumSeq(SubSeq(g, 1, k - 1)) + 1
GroupHi(g, k) == ISumSeq(SubSeq(g, 1, k))
\* "[6,8] places the first 6 samples into population 1, and the next 8 into population 2"
Derived(al, a, b) == Cardinality({c \in a..b : c <= Len(al) /\ al[c] = 1})
SiteIndex(g, al) == TLCEval([k \in 1..Len(g) |-> Derived(al, GroupLo(g, k), GroupHi(g, k))])
ShapeOf(g) == TLCEval([k \in 1..Len(g) |-> g[k] + 1])
SizeOf(sh) == IProdSeq(sh)
FlatIndex(sh, ix) == LET RECURSIVE h(_, _)
                         h(k, acc) == IF k > Len(sh) THEN acc ELSE h(k + 1, acc * sh[k] + ix[k])
                     IN 1 + h(1, 0)
IsCorner(sh, k) == k = 1 \/ k = SizeOf(sh)
\* add one count at the index of every selected site
CountSites(sh, g, sites, Sel(_)) ==
    LET RECURSIVE go(_, _)
        go(j, d) == IF j > Len(sites) THEN d
                    ELSE go(j + 1, IF Sel(sites[j]) THEN [d EXCEPT ![FlatIndex(sh, SiteIndex(g, sites[j].al))] = @ + 1] ELSE d)
    IN go(1, TLCEval([k \in 1..SizeOf(sh) |-> 0]))
\* segment b of B by position: [(b-1)/B, b/B), the last one closed (reference rule); a site exactly on an inner break
\* point is "surely" in no segment and "maybe" in both neighbours (the documentation does not say which)
Brk(b, B) == RDiv(RInt(b), RInt(B))
SegRef(p, B, b)   == (b = 1 \/ RLeq(Brk(b - 1, B), p)) /\ (b = B \/ RLt(p, Brk(b, B)))
SegSure(p, B, b)  == (b = 1 \/ RLt(Brk(b - 1, B), p))  /\ (b = B \/ RLt(p, Brk(b, B)))
SegMaybe(p, B, b) == (b = 1 \/ RLeq(Brk(b - 1, B), p)) /\ (b = B \/ RLeq(p, Brk(b, B)))
Scale(c, nreps, avg) == IF avg THEN RDiv(RInt(c), RInt(nreps)) ELSE RInt(c)
DefaultIds(n) == [k \in 1..n |-> W_pop \o IntText(k - 1)]
IdsOf(ids, n) == IF ids # <<>> THEN ids ELSE DefaultIds(n)
MkSpectrum(sh, counts, nreps, opt) ==
    TLCEval([sh |-> sh, d |-> [k \in 1..SizeOf(sh) |-> Scale(counts[k], nreps, opt.avg)],
             m |-> [k \in 1..SizeOf(sh) |-> opt.mc /\ IsCorner(sh, k)], f |-> FALSE, ids |-> IdsOf(opt.ids, Len(sh))])
\* counts of segment b under a membership rule
SegCounts(out, opt, b, In(_, _, _)) ==
    LET g == MsGroups(out, opt.pa) IN CountSites(ShapeOf(g), g, Cat(out.reps), LAMBDA s : In(s.pos, opt.B, b))
\* the list of opt.B spectra (a single one when B = 1)
SpectrumOfMs(out, opt) ==
    LET g == MsGroups(out, opt.pa) IN
    TLCEval([b \in 1..opt.B |-> MkSpectrum(ShapeOf(g), SegCounts(out, opt, b, SegRef), Len(out.reps), opt)])
MsReadParsed(p, opt) == IF ~p.ok THEN [ok |-> FALSE] ELSE [ok |-> TRUE, specs |-> SpectrumOfMs(p.out, opt), command |-> p.command, seeds |-> p.seeds]
MsRead(lines, opt) == MsReadParsed(MsParse(lines), opt)

(***************************************************************************)
(* sfs_code output as far as from_sfscode_file defines it                  *)
(*   sfs_code NPOP NITER options.. [--sampSize|-n s_1 .. s_NPOP] ..        *)
(*   seeds line ; one more line ; then for every iteration                 *)
(*     //iteration..  and four lines that are not looked at                *)
(*     lines of mutation listings, each listing terminated by ";"          *)
(*   listing: 12 comma-separated fields (8th: 0 synonymous, 1 not) and     *)
(*   then the carriers POP.CHROM, POP.-1 meaning "fixed in POP".           *)
(* Content: [npop, samp (individuals per population, <<>> = default 6),    *)
(*           its]; an iteration is a sequence of listings [f, car].        *)
(***************************************************************************)
SfsListingText(l) == JoinWith(l.f \o [j \in 1..Len(l.car) |-> IntText(l.car[j][1]) \o <<".">> \o
                                         (IF l.car[j][2] = -1 THEN W_minus1 ELSE IntText(l.car[j][2]))], <<",">>) \o <<";">>
\* c.cmd = [prog, flag (W_sampSize or W_dashn), pre, post, seeds, third, hdr (4 lines)], c.split = listings per line
SfsCmdLine(c) == JoinWith(<<c.cmd.prog, IntText(c.npop), IntText(Len(c.its))>> \o c.cmd.pre \o
                          (IF c.samp = <<>> THEN <<>> ELSE <<c.cmd.flag>> \o [k \in 1..Len(c.samp) |-> IntText(c.samp[k])]) \o c.cmd.post, <<" ">>)
SfsIterLines(c, it, r) ==
    LET n  == c.cmd.split
        nl == (Len(it) + n - 1) \div n
    IN  <<W_slashes \o <<"i", "t">> \o IntText(r)>> \o c.cmd.hdr \o
        [q \in 1..nl |-> Cat([j \in 1..((IF q * n < Len(it) THEN q * n ELSE Len(it)) - (q - 1) * n) |-> SfsListingText(it[(q - 1) * n + j])])]
SfsWrite(c) == <<SfsCmdLine(c), c.cmd.seeds, c.cmd.third>> \o Cat([r \in 1..Len(c.its) |-> SfsIterLines(c, c.its[r], r)])

SfsParseCmd(line) ==
    LET t  == Words(line)
        fl == {j \in 1..Len(t) : t[j] \in {W_sampSize, W_dashn}}
        jF == IMin(fl)
        np == NatOf(t[2])
    IN  IF Len(t) < 3 \/ ~IsNatText(t[2]) \/ ~IsNatText(t[3]) THEN [ok |-> FALSE]
        ELSE IF fl = {} THEN [ok |-> TRUE, npop |-> np, nreps |-> NatOf(t[3]), samp |-> <<>>]
        ELSE IF Cardinality(fl) > 1 \/ Len(t) < jF + np \/ (\E k \in 1..np : ~IsNatText(t[jF + k])) THEN [ok |-> FALSE]
        ELSE [ok |-> TRUE, npop |-> np, nreps |-> NatOf(t[3]), samp |-> [k \in 1..np |-> NatOf(t[jF + k])]]
SfsCarrier(cs) == LET ps == Pieces(cs, ".") IN
                  IF Len(ps) # 2 \/ ~IsNatText(ps[1]) \/ ~(IsNatText(ps[2]) \/ ps[2] = W_minus1) THEN <<-9, -9>>
                  ELSE <<NatOf(ps[1]), IF ps[2] = W_minus1 THEN -1 ELSE NatOf(ps[2])>>
SfsListing(cs) == LET fs == Pieces(cs, ",") IN
                  IF Len(fs) < 12 THEN [bad |-> TRUE]
                  ELSE TLCEval([f |-> SubSeq(fs, 1, 12), car |-> [j \in 1..(Len(fs) - 12) |-> SfsCarrier(fs[12 + j])]])
\* the listings of a line: the pieces before each ";"
SfsLine(cs) == LET ps == Pieces(cs, ";") IN TLCEval([j \in 1..(Len(ps) - 1) |-> SfsListing(ps[j])])
SfsInit == [mode |-> "head", k |-> 0, cur |-> <<>>, its |-> <<>>]
SfsClose(st, nreps) == LET its == Append(st.its, st.cur) IN
                       IF Len(its) = nreps THEN [st EXCEPT !.mode = "done", !.its = its]
                       ELSE [st EXCEPT !.mode = "skip", !.k = 4, !.its = its, !.cur = <<>>]
SfsStep(st, line, nreps) ==
    CASE st.mode = "head" -> IF StartsWith(line, W_slashes) THEN [st EXCEPT !.mode = "skip", !.k = 4] ELSE [st EXCEPT !.mode = "bad"]
      [] st.mode = "skip" -> IF st.k > 1 THEN [st EXCEPT !.k = st.k - 1] ELSE [st EXCEPT !.mode = "muts", !.cur = <<>>]
      [] st.mode = "muts" ->
            IF StartsWith(line, W_slashes) THEN SfsClose(st, nreps)
            ELSE LET ls == SfsLine(line) IN
                 IF line # <<>> /\ line[Len(line)] # ";" THEN [st EXCEPT !.mode = "bad"]
                 ELSE IF \E j \in 1..Len(ls) : "bad" \in DOMAIN ls[j] THEN [st EXCEPT !.mode = "bad"]
                 ELSE [st EXCEPT !.cur = st.cur \o ls]
      [] OTHER -> st
SfsParse(lines) ==
    LET c == IF Len(lines) < 4 THEN [ok |-> FALSE] ELSE SfsParseCmd(lines[1]) IN
    IF ~c.ok \/ c.npop < 1 \/ c.nreps < 1 THEN [ok |-> FALSE]
    ELSE LET RECURSIVE run(_, _)
             run(j, st) == IF j > Len(lines) \/ st.mode \in {"done", "bad"} THEN st ELSE run(j + 1, SfsStep(st, lines[j], c.nreps))
             last == run(4, SfsInit)
             fin  == IF last.mode = "muts" THEN SfsClose(last, c.nreps) ELSE last      \* end of file ends the last iteration
         IN  IF fin.mode # "done" THEN [ok |-> FALSE]
             ELSE [ok |-> TRUE, c |-> [npop |-> c.npop, samp |-> c.samp, its |-> fin.its], command |-> lines[1], seeds |-> lines[2]]

\* opt = [sites : "all" | "syn" | "nonsyn"; avg, mc : BOOLEAN; ids]
SfsSamples(c) == TLCEval(IF c.samp = <<>> THEN [k \in 1..c.npop |-> 12] ELSE [k \in 1..c.npop |-> 2 * c.samp[k]])     \* diploid individuals
SfsKeep(l, sites) == CASE sites = "syn" -> l.f[8] # <<"1">> [] sites = "nonsyn" -> l.f[8] # <<"0">> [] OTHER -> TRUE
\* a mutation may be listed several times: the listings with equal fields (all but the 5th and the 12th) are one mutation
SfsMutId(l) == SubSeq(l.f, 1, 4) \o SubSeq(l.f, 6, 11)
SfsPopCount(l, k, n) == IF \E j \in 1..Len(l.car) : l.car[j] = <<k - 1, -1>> THEN n[k]
                        ELSE Cardinality({j \in 1..Len(l.car) : l.car[j][1] = k - 1})
SfsMutIndex(ls, id, n) == TLCEval([k \in 1..Len(n) |-> LET m == IMax({SfsPopCount(ls[j], k, n) : j \in {j \in 1..Len(ls) : SfsMutId(ls[j]) = id}})
                                                        IN IF m > n[k] THEN n[k] ELSE m])
SfsCounts(c, sites) ==
    LET n  == SfsSamples(c)
        sh == ShapeOf(n)
        RECURSIVE addIds(_, _, _)
        addIds(ls, ids, d) == IF ids = {} THEN d
                              ELSE LET id == CHOOSE x \in ids : TRUE IN
                                   addIds(ls, ids \ {id}, [d EXCEPT ![FlatIndex(sh, SfsMutIndex(ls, id, n))] = @ + 1])
        RECURSIVE go(_, _)
        go(r, d) == IF r > Len(c.its) THEN d
                    ELSE LET ls == SelectSeq(c.its[r], LAMBDA l : SfsKeep(l, sites)) IN
                         go(r + 1, addIds(ls, {SfsMutId(ls[j]) : j \in 1..Len(ls)}, d))
    IN go(1, TLCEval([k \in 1..SizeOf(sh) |-> 0]))
SpectrumOfSfs(c, opt) == MkSpectrum(ShapeOf(SfsSamples(c)), SfsCounts(c, opt.sites), Len(c.its), opt)
SfsReadParsed(p, opt) == IF ~p.ok THEN [ok |-> FALSE] ELSE [ok |-> TRUE, spec |-> SpectrumOfSfs(p.c, opt), command |-> p.command, seeds |-> p.seeds]
SfsRead(lines, opt) == SfsReadParsed(SfsParse(lines), opt)

(***************************************************************************)
(* Command builders.  A template is a sequence of items                    *)
(*   [k |-> "lit", v |-> characters]      literal token                    *)
(*   [k |-> "int", v |-> Int]             "%i" of an integer               *)
(*   [k |-> "f",   v |-> rational]        "%f": decimal text of the value  *)
(*   [k |-> "i",   v |-> rational]        "%i" of a real: its integer part *)
(***************************************************************************)
Lit(cs) == [k |-> "lit", v |-> cs]
IntI(n) == [k |-> "int", v |-> n]
NumF(v) == [k |-> "f", v |-> v]
NumI(v) == [k |-> "i", v |-> v]
Lits(toks) == [j \in 1..Len(toks) |-> Lit(toks[j])]
\* Misc.ms_command(theta, ns, core, iter, recomb, rsites, seeds): recomb = "0" none; rsites = "none" -> 10 theta; seeds = <<>> none
MsCommand(theta, ns, core, iter, recomb, rsites, seeds) ==
    <<Lit(W_ms), IntI(ISumSeq(ns)), IntI(iter), Lit(<<"-", "t">>), NumF(theta)>> \o
    (IF Len(ns) > 1 THEN <<Lit(W_dashI), IntI(Len(ns))>> \o [k \in 1..Len(ns) |-> IntI(ns[k])] ELSE <<>>) \o
    Lits(core) \o
    (IF recomb # "0" THEN <<Lit(<<"-", "r">>), NumF(recomb), NumI(IF rsites = "none" THEN RMul("10", theta) ELSE rsites)>> ELSE <<>>) \o
    (IF seeds # <<>> THEN <<Lit(<<"-", "s", "e", "e", "d", "s">>), IntI(seeds[1]), IntI(seeds[2]), IntI(seeds[3])>> ELSE <<>>)
\* the ms core strings: dadi times are in 2N generations and ms times in 4N (T/2), dadi migration is 2Nm and ms 4Nm (2m),
\* growth rates likewise (2 alpha);  lnv.a1, lnv.a2 = ln(nu1/nu1_0), ln(nu2/nu2_0) come from the record's table
L1(c) == Lit(<<c>>)
L2(a, b) == Lit(<<a, b>>)
L3(a, b, c) == Lit(<<a, b, c>>)
SizesPart(p) == <<L2("-", "n"), L1("1"), NumF(p.nu1), L2("-", "n"), L1("2"), NumF(p.nu2)>>
GrowthPart(p, lnv) == <<L3("-", "e", "g"), L1("0"), L1("1"), NumF(RDiv(RMul("2", lnv.a1), p.T)),
                        L3("-", "e", "g"), L1("0"), L1("2"), NumF(RDiv(RMul("2", lnv.a2), p.T))>>
MigPart(m12, m21) == <<L3("-", "m", "a"), L1("x"), NumF(RMul("2", m12)), NumF(RMul("2", m21)), L1("x")>>
JoinPart(p, nuA) == <<L3("-", "e", "j"), NumF(RDiv(p.T, "2")), L1("2"), L1("1"), L3("-", "e", "n"), NumF(RDiv(p.T, "2")), L1("1"), nuA>>
MsCore(model, p, lnv) ==
    CASE model = "split_mig" -> SizesPart(p) \o MigPart(p.m, p.m) \o JoinPart(p, L1("1"))
      [] model = "IM"        -> SizesPart(p) \o GrowthPart(p, lnv) \o MigPart(p.m12, p.m21) \o JoinPart(p, L1("1"))
      [] model = "IM_pre"    -> SizesPart(p) \o GrowthPart(p, lnv) \o MigPart(p.m12, p.m21) \o JoinPart(p, NumF(p.nuPre)) \o
                                <<L3("-", "e", "n"), NumF(RDiv(RAdd(p.T, p.TPre), "2")), L1("1"), L1("1")>>
      [] OTHER -> <<>>
\* the arguments of ln a core needs: <<nu1/nu1_0, nu2/nu2_0>>
MsCoreLnArgs(model, p) ==
    CASE model = "IM"     -> <<RDiv(p.nu1, p.s), RDiv(p.nu2, RSub("1", p.s))>>
      [] model = "IM_pre" -> <<RDiv(p.nu1, RMul(p.nuPre, p.s)), RDiv(p.nu2, RMul(p.nuPre, RSub("1", p.s)))>>
      [] OTHER -> <<>>
\* a token renders an item: tauF = half a unit of the 6th decimal, tauE = relative slack for the float evaluation of the value
TokenOK(item, tok, tauF, tauE) ==
    CASE item.k = "lit" -> tok = item.v
      [] item.k = "int" -> tok = IntText(item.v)
      [] item.k = "f"   -> IsDecText(tok) /\ RLeq(RAbs(RSub(DecValue(tok), item.v)), RAdd(tauF, RMul(tauE, RAbs(item.v))))
      [] item.k = "i"   -> IsNatText(tok) /\ RLt(RAbs(RSub(DecValue(tok), item.v)), "1")
      [] OTHER -> FALSE
TokensOK(items, toks, tauF, tauE) == Len(items) = Len(toks) /\ \A j \in 1..Len(items) : TokenOK(items[j], toks[j], tauF, tauE)
\* canonical rendering (values small enough for FixedText)
Render(items) == JoinWith([j \in 1..Len(items) |->
                     CASE items[j].k = "lit" -> items[j].v
                       [] items[j].k = "int" -> IntText(items[j].v)
                       [] items[j].k = "f"   -> FixedText(items[j].v, 6)
                       [] OTHER              -> IntText(RFloor(items[j].v))], <<" ">>)
=============================================================================
