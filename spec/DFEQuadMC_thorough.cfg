CONSTANTS
  Level = 2
SPECIFICATION Spec
CHECK_DEADLOCK FALSE
INVARIANT TypeOK
INVARIANT L_Linear1D
INVARIANT L_Weights1D
INVARIANT L_ExactOnPL
INVARIANT L_UnitMass
INVARIANT L_PointPos1D
INVARIANT L_Linear2D
INVARIANT L_Weights2D
INVARIANT L_Product2D
INVARIANT L_Symmetric
INVARIANT L_Quadrants
INVARIANT L_PointPos2D
INVARIANT L_Mixture
INVARIANT L_Vourlaki
