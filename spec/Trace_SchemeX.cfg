CONSTANT TauSolve = "1/100000000000"
CONSTANT TauLin = "1/10000000000"
CONSTANT TauTime = "1/1000000000"
CONSTANT TauScale = "1/100000000"
CONSTANT TauEq = "1/1000000"
CONSTANT GridRatio = "1/2"
CONSTANT Floor = "1/2000"
SPECIFICATION Spec
CHECK_DEADLOCK FALSE
INVARIANT Done
POSTCONDITION AllConsumed
