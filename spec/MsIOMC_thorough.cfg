CONSTANTS
  Kinds = {"ms", "sfs", "cmd"}
  Full = TRUE
  MaxChrom = 3
  MaxSites = 3
  MaxTotal2 = 3
  SegChoices = {1, 3}
  SfsMaxList = 2
  SfsMaxTotal2 = 3
SPECIFICATION Spec
CHECK_DEADLOCK FALSE
INVARIANT TypeOK
INVARIANT L_MsRoundTrip
INVARIANT L_MsLines
INVARIANT L_MsShape
INVARIANT L_MsTotal
INVARIANT L_MsAverage
INVARIANT L_MsPermSites
INVARIANT L_MsPermReps
INVARIANT L_MsPermChroms
INVARIANT L_MsRegroup
INVARIANT L_MsCollapse
INVARIANT L_MsSegments
INVARIANT L_SfsRoundTrip
INVARIANT L_SfsShape
INVARIANT L_SfsTotal
INVARIANT L_SfsSplit
INVARIANT L_SfsPerm
INVARIANT L_SfsMerge
INVARIANT L_SfsFixed
INVARIANT L_Command
INVARIANT L_Core
