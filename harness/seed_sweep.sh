#!/bin/sh
# usage: seed_sweep.sh <out.log> <seeds...> -- <props...> : run quick checks under several VERIF_SEED values (flakiness hunt).
# Evidence files are restored afterwards by re-running the default seed where needed (the sweep uses a scratch evidence dir via VERIF_REPO trick: not needed; we just note results).
OUT="$1"; shift
SEEDS=""; while [ "$1" != "--" ]; do SEEDS="$SEEDS $1"; shift; done; shift
cd /verif
for p in "$@"; do for s in $SEEDS; do
  R=$(VERIF_SEED=$s ./check $p --tier quick 2>&1 | grep -E "^VIOLATION|  what|MACHINERY|quick:" | head -6 | tr '\n' '|')
  echo "$p seed=$s $R" >> "$OUT"
done; done
echo "DONE $*" >> "$OUT"
