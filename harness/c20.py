"""C20 - results independent of the call history, the hash seed and the memory layout of the arguments; inputs never
modified; integrators return fresh arrays.  (spec/Memo.tla, spec/Trace_Memo.tla, harness/c20_worker.py)

Behaviour replay, spec -> code:
  1. TLC model-checks Memo.tla (quick: every history of <= 3 calls over 21 core bases and of <= 2 calls over all
     memo-relevant bases; thorough: <= 3 calls over all memo-relevant bases, <= 4 calls over the core bases and every
     2-call history of the full alphabet - without the container variants - in every layout) and refutes the defective design variants
     (MemoMC_bug_*.cfg: eight in quick, all fourteen in thorough): the refinement Memo => MemoFree is not vacuous.
  2. Histories are taken from TLC:
       pair   - the state graph of all 2-call histories (-dump dot,actionlabels) gives the (writer, reader, table)
                triples of calls that share a memo table with overlapping keys (res.pairs of the second state);
                every such 2-call history is replayed (transition cover of the table interactions);
       god3   - all 3-call histories over the uncertainty calls (table keyed on object identity), from a second dump;
       cover  - every call of the alphabet (every base in every memory layout), from the graph of 1-call histories,
                chained into histories of 20 calls;
       sim-*  - `tlc -simulate` behaviours over the memo-relevant bases and over the full alphabet (2-40 calls).
  3. Every history is replayed in ONE process (harness/c20_worker.py) under PYTHONHASHSEED 0,1(,2); every distinct call
     is also evaluated alone in processes that did nothing else (hash seeds 11,13(,12)), and with contiguous arguments.
     The alphabet includes the paths that return without doing the work (zero-duration epochs of every integrator: T = 0 and
     T == initial_t > 0, constant / function-valued / frozen; all-frozen epochs; admixture proportions 0 / 1; projection to the same
     sizes; ...) and the container dimension of vector arguments (list / tuple / float64 array / integer array of the parameter
     vector, bounds, index lists, grid sizes) for the uncertainty entry points (both theta conventions, log / linear), the derivative
     helpers and the optimisers.  After an integrator call the evaluator rewrites the returned array in place and digests the
     arguments once more.
  4. The observations are judged by TLC with Trace_Memo.tla (clauses ResultIndependentOfHistory,
     ResultIndependentOfHashSeed, LayoutIndependent, ArgumentsUnchanged, ResultIsFresh, FootprintAsDeclared,
     CachedValuesImmutable, BookkeepingAsDeclared, CallCompletes).  No verdict is computed here.
"""
import os, re, json, random, shutil, subprocess, tempfile, time, copy
from concurrent.futures import ThreadPoolExecutor
from . import common

PROP = 'C20'
WORKER = os.path.join(os.path.dirname(os.path.abspath(__file__)), 'c20_worker.py')
BUG_CFGS = {'projkey': 'ResultIndependentOfHistory', 'dbetakey': 'ResultIndependentOfHistory', 'partkey': 'ResultIndependentOfHistory',
            'raw45': 'LayoutIndependent', 'rawxx': 'LayoutIndependent', 'godaddr': 'ResultIndependentOfHistory',
            'demes': 'ResultIndependentOfHistory', 'perturb': 'ArgumentsUnchanged',
            'hashorder': 'ResultIndependentOfHashSeed', 'sfslist': 'ArgumentsUnchanged',
            'kernelstate': 'ResultIndependentOfHistory', 'latecopy': 'ResultIsFresh', 'vector': 'ArgumentsUnchanged', 'maskrebind': 'ArgumentsUnchanged'}
TABLES = ['proj', 'dbeta', 'part', 'precalc', 'multinom', 'bb', 'godambe']


# ------------------------------------------------------------------------------------------------ TLC side
def _tlc_workers(ctx):
    return int(os.environ.get('VERIF_TLC_WORKERS', '16'))


def dump_graph(cfg, tmpd, workers=4):
    base = os.path.join(tmpd, cfg.replace('.cfg', ''))
    r = common.tlc('Memo', cfg, workers=workers, extra=('-dump', 'dot,actionlabels', base), heap='4g')
    if not r.ok:
        raise common.MachineryError('TLC failed on Memo with %s: %s\n%s' % (cfg, r.violation, r.out[-2000:]))
    return r, base + '.dot'


_EDGE = re.compile(r'^(-?\d+) -> (-?\d+) \[label="Call\(\[b \|-> \\"([^\\]+)\\", lay \|-> \\"(\w)\\", xl \|-> \\"(\w)\\"\]\)"')
_NODE = re.compile(r'^(-?\d+) \[label="(.*?)",(?:tooltip|style)')
_TRIPLE = re.compile(r'<<\\"([\w]+)\\", \\"([\w]+)\\", \\"(\w+)\\">>')


def parse_graph(dot):
    """State graph written by TLC: nodes carry the state (we read res.pairs), edges the call."""
    nodes, edges, init = {}, {}, None
    with open(dot) as f:
        for ln in f:
            m = _EDGE.match(ln)
            if m:
                edges.setdefault(m.group(1), []).append((m.group(2), '%s|%s|%s' % (m.group(3), m.group(4), m.group(5))))
                continue
            m = _NODE.match(ln)
            if m:
                lab = m.group(2)
                k = lab.find('pairs |->')
                seg = lab[k:lab.find(']', k)] if k >= 0 else ''
                nodes[m.group(1)] = set(_TRIPLE.findall(seg))
                if 'style = filled' in ln and init is None:
                    init = m.group(1)
    if init is None or not nodes:
        raise common.MachineryError('could not parse the TLC state graph %s' % dot)
    return nodes, edges, init


def paths(nodes, edges, init, depth):
    """All call sequences of exactly `depth` edges from the initial state, with the pairs label of the last state."""
    out = []

    def go(n, seq):
        if len(seq) == depth:
            out.append((list(seq), nodes.get(n, set())))
            return
        for (m, call) in edges.get(n, []):
            seq.append(call)
            go(m, seq)
            seq.pop()
    go(init, [])
    return out


def simulate(cfg, num, seed):
    r = common.tlc('Memo', cfg, workers=1, simulate='num=%d' % num, extra=('-depth', '45', '-seed', str(seed)), heap='2g')
    hs = [p[1] for p in r.prints if p and p[0] == 'HIST']
    if len(hs) < num:
        raise common.MachineryError('tlc -simulate with %s produced %d of %d histories\n%s' % (cfg, len(hs), num, r.out[-1500:]))
    return r, hs[:num]


QUICK_BUGS = ['dbetakey', 'godaddr', 'raw45', 'kernelstate', 'hashorder', 'latecopy', 'vector', 'maskrebind']     # quick: one per mechanism; thorough: all


def refute_bug_designs(workers=2, names=None):
    """Each defective design variant of Memo.tla must be refuted by TLC with the expected invariant."""
    def one(name):
        r = common.tlc('Memo', 'MemoMC_bug_%s.cfg' % name, workers=workers, heap='2g')
        return name, r
    info = []
    with ThreadPoolExecutor(max_workers=4) as ex:
        for name, r in ex.map(one, sorted(names or BUG_CFGS)):
            want = 'Invariant %s is violated' % BUG_CFGS[name]
            if r.ok or want not in (r.violation or ''):
                raise common.MachineryError('the defective design MemoMC_bug_%s.cfg was not refuted as expected (%s): the model is too weak' % (name, r.violation))
            info.append({'cfg': 'MemoMC_bug_%s.cfg' % name, 'refuted_by': BUG_CFGS[name], 'states': r.states})
    return info


# ------------------------------------------------------------------------------------------------ dadi side
def run_worker(ctx, mode, items, hashseed, tmpd, parallel):
    out = os.path.join(tmpd, '%s-s%d' % (mode, hashseed))
    job = os.path.join(tmpd, 'job-%s-s%d.json' % (mode, hashseed))
    with open(job, 'w') as f:
        json.dump({'mode': mode, 'items': items, 'out': out, 'parallel': parallel}, f)
    env = common.overlay_env(ctx.overlay, {'PYTHONHASHSEED': str(hashseed)})
    p = subprocess.run([common.PY, WORKER, job], env=env, stdout=subprocess.PIPE, stderr=subprocess.PIPE, timeout=3000)
    if p.returncode != 0:
        raise common.MachineryError('c20_worker failed (%s, seed %d): %s' % (mode, hashseed, p.stderr.decode(errors='replace')[-2000:]))
    res = []
    for k in range(len(items)):
        path = os.path.join(out, '%s-%d.json' % (mode, k))
        if not os.path.exists(path):
            raise common.MachineryError('c20_worker produced no result for item %d (%s)' % (k, mode))
        with open(path) as f:
            r = json.load(f)
        if 'error' in r:
            raise common.MachineryError('c20_worker: %s' % r['error'][-2000:])
        res.append(r)
    return res


def contig_of(call):
    return call.split('|')[0] + '|C|C'


def slim(o):
    return {'dig': o['dig'], 'vals': o['vals'], 'exc': o.get('exc', '')[:120]}


def build_records(hists, replays, fresh, fresh_seeds, hashseed):
    """One record per replayed call: the replay observation + the fresh observations of the same call."""
    groups = []
    for h, rp in zip(hists, replays):
        g = []
        for rec in rp['recs']:
            call = rec['call']
            r = dict(rec)
            r['id'] = '%s.s%d-%d' % (rec['hid'], hashseed, rec['k'])
            r['seed'] = hashseed
            full = r['out'].get('full')
            r['out'] = slim(rec['out'])
            r['fresh'] = [dict(slim(fresh[(call, s)]), seed=s) for s in fresh_seeds]
            ref = fresh[(contig_of(call), fresh_seeds[0])]
            r['contig'] = slim(ref)
            if (rec['lay'], rec['xl']) != ('C', 'C') and ref['dig'] != rec['out']['dig'] and full and ref.get('full'):
                r['outfull'] = full
                r['contigfull'] = ref['full']
            g.append(r)
        groups.append(g)
    return groups


def validate(groups, parallel=6):
    recs = [r for g in groups for r in g]
    return common.validate_trace('Trace_Memo', recs, parallel=parallel, groups=groups, heap='4g')


# ------------------------------------------------------------------------------------------------ binding demonstration
def _mutations(rec):
    """(expected clause, mutated record) for every field of the record the trace spec must be sensitive to."""
    out = []

    def mut(clause, f, tag=''):
        m = copy.deepcopy(rec)
        if f(m) is not False:
            out.append((clause, m, tag))
    mut('ResultIndependentOfHistory', lambda m: m['out'].__setitem__('dig', 'x' + m['out']['dig'][1:]))
    mut('ResultIndependentOfHistory', lambda m: m['out'].__setitem__('vals', m['out']['vals'][:-1] + ['12345/7']) if m['out']['vals'] else False)
    mut('ResultIndependentOfHashSeed', lambda m: m['fresh'][-1].__setitem__('dig', 'y' + m['fresh'][-1]['dig'][1:]) if len(m['fresh']) > 1 else False)
    mut('ArgumentsUnchanged', lambda m: m['args'][0].__setitem__('after', 'z' + m['args'][0]['after'][1:]) if m['args'] else False)
    mut('ArgumentsUnchanged', lambda m: m['args'][0].__setitem__('oafter', 'u' + m['args'][0]['oafter'][1:]) if m['args'] else False, tag='owner')
    if rec['site'].startswith('Integration.'):
        mut('ResultIsFresh', lambda m: m['args'][0].__setitem__('shares', True))
        mut('ResultIsFresh', lambda m: m['args'][0].__setitem__('afterw', 'v' + m['args'][0]['afterw'][1:]), tag='follow-up')
    if (rec['lay'], rec['xl']) != ('C', 'C'):
        def lay(m):
            m['contig']['dig'] = 'w' + m['contig']['dig'][1:]
            m.pop('outfull', None)
        mut('LayoutIndependent', lay)
        if 'outfull' in rec and rec['outfull']:
            def lay2(m):
                from fractions import Fraction
                j = max(range(len(m['contigfull'])), key=lambda i: abs(Fraction(m['contigfull'][i])) if m['contigfull'][i] not in ('nan', 'inf', '-inf') else 0)
                m['outfull'][j] = common.rat(Fraction(m['contigfull'][j]) * (1 + Fraction(1, 10 ** 9)))
            mut('LayoutIndependent', lay2)
    for t in TABLES:
        if rec['tab'][t]['new']:
            def tb(m, t=t):
                k = m['tab'][t]['new'].pop()
                if t != 'godambe':      # (for Godambe.cache the key set is not declared exactly: only new = miss is demanded)
                    m['tab'][t]['miss'] = [x for x in m['tab'][t]['miss'] if x != k]
            mut('FootprintAsDeclared', tb)
            break
    mut('BookkeepingAsDeclared', lambda m: m.__setitem__('counter', m['counter'] + 1))
    mut('BookkeepingAsDeclared', lambda m: m.__setitem__('dlen', m['dlen'] + 1))
    mut('CachedValuesImmutable', lambda m: m.__setitem__('unstable', ['proj']))
    mut('UnknownCall', lambda m: m.__setitem__('site', 'Spectrum.nothing'))
    return out


def binding_demo(groups, verdicts, limit=120):
    """Corrupt one observed field in replayed histories; the trace spec must reject with the clause that owns the field."""
    muts, want = [], {}
    per = {}
    n = 0
    for g in groups:
        if len(g) > 8 or any(r['id'] in verdicts for r in g) or any(r.get('crashed') for r in g):
            continue
        for j, rec in enumerate(g):
            for clause, m, tag in _mutations(rec):
                key = (clause, rec['site'], tag)
                if per.get(key, 0) >= 1 or per.get(clause, 0) >= 14:
                    continue
                per[key] = per.get(key, 0) + 1
                per[clause] = per.get(clause, 0) + 1
                n += 1
                g2 = copy.deepcopy(g)
                g2[j] = m
                for r in g2:
                    r['id'] = 'MUT%d-%s' % (n, r['id'])
                    r['hid'] = 'MUT%d-%s' % (n, r['hid'])
                muts.append(g2)
                want[g2[j]['id']] = clause
        if n >= limit:
            break
    if not muts:
        return {'mutated_histories': 0}
    mv, _ = validate(muts, parallel=3)
    missed = [(rid, c) for rid, c in want.items() if c not in mv.get(rid, [])]
    if missed:
        raise common.MachineryError('binding demonstration failed: corrupted observations not rejected by Trace_Memo with the owning clause: %s' % missed[:5])
    byc = {}
    for c in want.values():
        byc[c] = byc.get(c, 0) + 1
    return {'mutated_histories': len(muts), 'rejected_with_owning_clause': len(muts), 'per_clause': byc}


# ------------------------------------------------------------------------------------------------ coverage measures
_KP = {'one_pop': (1, 10), 'two_pops': (2, 8), 'three_pops': (3, 6), 'four_pops': (4, 5), 'five_pops': (5, 4)}


def _kernel_grid(base):
    """(kernel family, grid size, grid kind) of a call that hands its grid to a compiled kernel (KernelGrid in Memo.tla)."""
    for f, (P, n) in _KP.items():
        if base.startswith(f + '_'):
            rest = base[len(f) + 1:]
            if rest in ('td', 'td_B') or (P >= 4 and rest == 'c'):
                return (P, n, 'B' if rest.endswith('_B') else 'A')
    return None


def observed_pairs(groups):
    """(writer base, reader base, table) triples actually exercised: a lookup that hit a key inserted by an earlier call."""
    pairs = set()
    for g in groups:
        owner = {}
        for r in g:
            for t in TABLES:
                for k in r['tab'][t]['hit']:
                    w = owner.get((t, json.dumps(k)))
                    if w:
                        pairs.add((w, r['base'], t))
            for t in TABLES:
                for k in r['tab'][t]['new']:
                    owner.setdefault((t, json.dumps(k)), r['base'])
            # compiled kernels: a kernel family handed a grid of the size, but not the spacings, of its previous call
            kg = _kernel_grid(r['base'])
            if kg:
                last = owner.get(('kernel', kg[0]))
                if last and last[1] == kg[1] and last[2] != kg[2]:
                    pairs.add((last[0], r['base'], 'kernel'))
                owner[('kernel', kg[0])] = (r['base'], kg[1], kg[2])
            # the demes event log: Demes.output re-reads the log a previous Demes.output call of the same model left
            if r['base'].startswith('demes_output_again') and owner.get('demeslog'):
                pairs.add((owner['demeslog'], r['base'], 'demeslog'))
            if r['base'].startswith('demes_output'):
                owner['demeslog'] = r['base']
            elif r['site'].startswith(('Integration.', 'PhiManip.', 'Godambe.', 'Inference._object_func', 'Inference.optimize', 'Inference.opt',
                                        'Numerics.make_extrap_func', 'LowPass.make_low_pass_func', 'Demes.SFS', 'Spectrum.from_demes')) \
                    and not (r['site'].startswith('Godambe.') and not r['tab']['godambe']['miss']):
                owner['demeslog'] = None
    return pairs


def what_of(rec, clause, hist):
    o = rec['out']
    extra = ''
    if clause in ('ArgumentsUnchanged',):
        extra = ' (modified: %s)' % ', '.join([a['name'] for a in rec['args'] if a['before'] != a['after']] +
                                              ['the array that OWNS the memory of the view ' + a['name'] + ' (data or mask)' for a in rec['args']
                                               if a['before'] == a['after'] and a.get('obefore') != a.get('oafter')])
    elif clause == 'ResultIsFresh':
        extra = ' (result shares memory with: %s; %s; rewritten by in-place work on the result: %s)' % (
            ', '.join(a['name'] for a in rec['args'] if a['shares']) or 'nothing',
            'the result IS the argument object ' + ', '.join(a['name'] for a in rec['args'] if a.get('same_object')) if any(a.get('same_object') for a in rec['args']) else 'a different object',
            ', '.join(a['name'] for a in rec['args'] if a.get('afterw') != a['after']) or 'nothing')
    elif clause == 'LayoutIndependent':
        extra = ' (density layout %s, grid layout %s: result %s vs contiguous %s%s)' % (rec['lay'], rec['xl'], o['dig'][:8], rec['contig']['dig'][:8],
                                                                                         '; ' + o['exc'] if o.get('exc') else '')
    elif clause.startswith('ResultIndependent'):
        extra = ' (after %s: %s, fresh interpreter: %s)' % (' ; '.join(hist[:rec['k'] - 1][-4:]) or 'nothing', o['dig'][:8], '/'.join(f['dig'][:8] for f in rec['fresh']))
    elif clause == 'CallCompletes':
        extra = ' (the interpreter died in this call)'
    return 'history %s call %d %s under PYTHONHASHSEED=%s: clause %s violated%s' % (rec['hid'], rec['k'], rec['call'], rec['seed'], clause, extra)


# ------------------------------------------------------------------------------------------------ main
def generate_histories(ctx, tmpd, mc_info, stats):
    rng = random.Random(ctx.seed)
    w = min(4, _tlc_workers(ctx))
    gcfg = 'MemoMC_god_%s.cfg' % ctx.tier
    nm, na = (14, 12) if ctx.quick else (60, 110)
    jobs = {'graph': lambda: dump_graph('MemoMC_graph.cfg', tmpd, workers=w),
            'alphabet': lambda: dump_graph('MemoMC_layout_quick.cfg', tmpd, workers=2),
            'god': lambda: dump_graph(gcfg, tmpd, workers=2),
            'sim-memo': lambda: simulate('MemoMC_sim_memo.cfg', nm, ctx.seed % 100000),
            'sim-all': lambda: simulate('MemoMC_sim_all.cfg', na, ctx.seed % 100000)}
    with ThreadPoolExecutor(max_workers=5) as ex:
        futs = {k: ex.submit(f) for k, f in jobs.items()}
        out = {k: f.result() for k, f in futs.items()}
    hists, goal = [], set()
    # (1) transition cover: every 2-call history whose second call reads a key the first call stored
    r, dot = out['graph']
    nodes, edges, init = parse_graph(dot)
    mc_info.append({'spec': 'Memo', 'cfg': 'MemoMC_graph.cfg', 'distinct_states': r.states, 'states_generated': r.transitions, 'wall_s': round(r.wall, 1), 'ok': True,
                    'dump': 'dot,actionlabels'})
    stats['states'] += r.states
    stats['transitions'] += r.transitions
    for seq, pr in paths(nodes, edges, init, 2):
        if pr:
            goal |= pr
            hists.append(('pair', seq))
    os.remove(dot)
    # (2) every 3-call history over the uncertainty calls (table keyed on object identity)
    r, dot = out['god']
    n3, e3, i3 = parse_graph(dot)
    mc_info.append({'spec': 'Memo', 'cfg': gcfg, 'distinct_states': r.states, 'states_generated': r.transitions, 'wall_s': round(r.wall, 1), 'ok': True,
                    'dump': 'dot,actionlabels'})
    stats['states'] += r.states
    stats['transitions'] += r.transitions
    for seq, pr in paths(n3, e3, i3, 3):
        hists.append(('god3', seq))
    os.remove(dot)
    # (3) alphabet cover: every call of the full alphabet (every base in every memory layout it is offered in), taken
    #     from the graph of all 1-call histories, chained in a seeded random order into histories of 20 calls
    r, dot = out['alphabet']
    n1, e1, i1 = parse_graph(dot)
    mc_info.append({'spec': 'Memo', 'cfg': 'MemoMC_layout_quick.cfg', 'distinct_states': r.states, 'states_generated': r.transitions, 'wall_s': round(r.wall, 1), 'ok': True,
                    'dump': 'dot,actionlabels'})
    stats['states'] += r.states
    stats['transitions'] += r.transitions
    alphabet = sorted(seq[0] for seq, _ in paths(n1, e1, i1, 1))
    os.remove(dot)
    order = list(alphabet)
    rng.shuffle(order)
    for j in range(0, len(order), 20):
        chunk = order[j:j + 20]
        if len(chunk) == 1:
            chunk = [order[0]] + chunk
        hists.append(('cover', chunk))
    stats['alphabet'] = len(alphabet)
    # (4) random behaviours (prefixes of 40-call behaviours; a prefix of a behaviour is a behaviour)
    for kind, cfg in (('sim-memo', 'MemoMC_sim_memo.cfg'), ('sim-all', 'MemoMC_sim_all.cfg')):
        r, hs = out[kind]
        stats['transitions'] += r.transitions
        mc_info.append({'spec': 'Memo', 'cfg': cfg, 'mode': 'simulate', 'histories': len(hs), 'states_generated': r.transitions, 'wall_s': round(r.wall, 1), 'ok': True})
        for h in hs:
            n = rng.choice([rng.randint(2, 12), rng.randint(8, 25), rng.randint(20, 40)])
            hists.append((kind, list(h)[:n]))
    return [{'hid': 'h%d' % k, 'kind': kind, 'calls': seq} for k, (kind, seq) in enumerate(hists)], goal


def run_histories(ctx, hists, replay_seeds, fresh_seeds, tmpd, par):
    calls = []
    seen = set()
    for h in hists:
        for c in h['calls']:
            for x in (c, contig_of(c)):
                if x not in seen:
                    seen.add(x)
                    calls.append(x)
    items = [{'hid': h['hid'], 'calls': h['calls']} for h in hists]
    jobs = [('fresh', s) for s in fresh_seeds] + [('replay', s) for s in replay_seeds]

    def one(j):
        mode, s = j
        return j, run_worker(ctx, mode, calls if mode == 'fresh' else items, s, tmpd, par)
    fresh, replays = {}, {}
    with ThreadPoolExecutor(max_workers=len(jobs)) as ex:
        for (mode, s), res in ex.map(one, jobs):
            if mode == 'fresh':
                for r in res:
                    fresh[(r['call'], s)] = r['obs']
            else:
                replays[s] = res
    groups = []
    for s in replay_seeds:
        groups += build_records(hists, replays[s], fresh, fresh_seeds, s)
    return groups, calls


def run(ctx):
    t0 = time.time()
    tmpd = tempfile.mkdtemp(prefix='c20-', dir=common.SCRATCH_ROOT)
    try:
        return _run(ctx, tmpd, t0)
    finally:
        shutil.rmtree(tmpd, ignore_errors=True)


def _run(ctx, tmpd, t0):
    quick = ctx.quick
    replay_seeds = [0, 1] if quick else [0, 1, 2]
    fresh_seeds = [11, 13] if quick else [11, 12, 13]     # (both string-hash order classes of the low-pass population labels, see c20_worker)
    par = 8
    stats = {'states': 0, 'transitions': 0}
    timing = {}
    mc_info, viol = [], []
    bug_info = []
    mc_thread = None
    mc_out = {}
    if ctx.replay:
        pay = ctx.replay_payload['payload']
        hists = [{'hid': pay['record']['hid'], 'kind': 'replay', 'calls': pay['history']}]
        replay_seeds = [pay['hashseed']]
        goal = set()
    else:
        if not getattr(ctx, 'no_mc', False):
            # the exhaustive runs do not depend on dadi: they run while the histories are generated and replayed
            def mc():
                try:
                    tm = time.time()
                    res = []
                    # quick: depth 3 over 21 core bases (depth 2 over ALL memo-relevant bases and the 1-call layout graph are run, and
                    # dumped, by the generator); thorough: depth 3 over all memo-relevant bases, depth 4 over the core bases and all
                    # 2-call histories of the full alphabet in all layouts
                    for cfg in (['MemoMC_quick.cfg'] if ctx.quick else ['MemoMC_memo3_thorough.cfg', 'MemoMC_thorough.cfg', 'MemoMC_layout_thorough.cfg']):
                        res.append((cfg,) + common.run_mc('Memo', cfg, workers=_tlc_workers(ctx), heap='8g'))
                    mc_out['runs'] = res
                    mc_out['bugs'] = refute_bug_designs(names=QUICK_BUGS if ctx.quick else None)
                    mc_out['wall'] = round(time.time() - tm, 1)
                except BaseException as ex:      # re-raised in the main thread
                    mc_out['error'] = ex
            import threading
            mc_thread = threading.Thread(target=mc)
            mc_thread.start()
        t1 = time.time()
        try:
            hists, goal = generate_histories(ctx, tmpd, mc_info, stats)
        except BaseException:
            if mc_thread:
                mc_thread.join()
            raise
        timing['history_generation'] = round(time.time() - t1, 1)
    t1 = time.time()
    groups, calls = run_histories(ctx, hists, replay_seeds, fresh_seeds, tmpd, par)
    timing['replay_and_fresh_evaluation'] = round(time.time() - t1, 1)
    t1 = time.time()
    verdicts, st = validate(groups)
    timing['trace_validation'] = round(time.time() - t1, 1)
    byid = {r['id']: r for g in groups for r in g}
    hist_of = {h['hid']: h['calls'] for h in hists}
    for rid, clauses in verdicts.items():
        rec = byid[rid]
        for c in clauses:
            viol.append({'key': '%s/%s' % (rec['site'], c), 'what': what_of(rec, c, hist_of[rec['hid']]),
                         'payload': {'record': rec, 'clause': c, 'history': hist_of[rec['hid']][:rec['k']], 'hashseed': rec['seed'], 'trace_spec': 'Trace_Memo'}})
    # order: the first violation of every history first (later ones may be consequences of e.g. a corrupted heap)
    viol.sort(key=lambda v: (v['payload']['record']['k'] if 'record' in v.get('payload', {}) else 0))
    t1 = time.time()
    binding = None if ctx.replay else binding_demo(groups, verdicts)
    timing['binding_demo'] = round(time.time() - t1, 1)
    if mc_thread:
        mc_thread.join()
        if 'error' in mc_out:
            raise mc_out['error']
        for cfg, r, v in mc_out['runs']:
            viol += v
            stats['states'] += r.states
            stats['transitions'] += r.transitions
            mc_info.insert(0, {'spec': 'Memo', 'cfg': cfg, 'distinct_states': r.states, 'states_generated': r.transitions, 'wall_s': round(r.wall, 1), 'ok': r.ok})
        bug_info = mc_out['bugs']
        timing['model_checking_in_background'] = mc_out['wall']
    recs = [r for g in groups for r in g]
    covered = observed_pairs(groups)
    goal_t = {tuple(x) for x in goal}
    ops = {}
    for r in recs:
        ops[r['site']] = ops.get(r['site'], 0) + 1
    kinds = {}
    for h in hists:
        kinds[h['kind']] = kinds.get(h['kind'], 0) + 1
    lays = sorted({(r['lay'], r['xl']) for r in recs})
    aliases = sorted({'%s -> %s' % (r['site'], r['alias']) for r in recs if r.get('alias')})
    # observations that are NOT judged (the statement demands a fresh result of the integrators only): other calls whose result
    # shares memory with an argument (documented in-place pulses, identity reorderings / keep-everything filters returning views)
    shared = sorted({'%s (%s)' % (r['site'], r['base']) for r in recs if not r['site'].startswith('Integration.') and any(a.get('shares') for a in r['args'])})

    def _container(v):
        return v.rsplit('_', 1)[-1] if v.rsplit('_', 1)[-1] in ('list', 'tuple', 'f64', 'i64') else None
    conts = {}
    for r in recs:
        c = _container(r['base'])
        if c and r['site'].startswith(('Godambe.', 'Inference.', 'Misc.perturb_params', 'Numerics.make_extrap_func')):
            conts.setdefault(r['site'], set()).add(c)
    zero = sorted({r['base'] for r in recs if r['site'].startswith('Integration.') and r['base'].rsplit('_', 2)[-2] in ('z0', 'zi')})
    cov = {
        'states': stats['states'] + st['states'], 'transitions': stats['transitions'] + st['transitions'],
        'traces_validated_against_impl': len(groups),
        'samples': [common._shorten({k: v for k, v in r.items() if k not in ('outfull', 'contigfull')}) for r in recs[:2]] or ['(no records)'],
        'evaluations': len(recs), 'distinct_nontrivial': len({(r['call'], tuple(hist_of[r['hid']][:r['k'] - 1][-2:])) for r in recs if r['k'] > 1}),
        'rule': 'one evaluation = one call of a replayed history; non-trivial = a call with at least one predecessor, distinct by (call, two preceding calls)',
        'model_checking_runs': mc_info, 'defective_designs_refuted': bug_info,
        'records_per_operation': ops,
        'trace_validation': {'spec': 'Trace_Memo', 'records': len(recs), 'tlc_states': st['states'], 'wall_s': round(st['wall'], 1), 'records_rejected': len(verdicts)},
        'histories': {'distinct': len(hists), 'by_origin': kinds, 'replayed_under_hashseeds': replay_seeds, 'fresh_interpreter_hashseeds': fresh_seeds,
                      'lengths': [min(len(h['calls']) for h in hists), max(len(h['calls']) for h in hists)], 'distinct_calls_evaluated_fresh': len(calls),
                      'alphabet_size': stats.get('alphabet'), 'alphabet_calls_replayed': len({r['call'] for r in recs})},
        'writer_reader_pairs': {'goal_from_state_graph': len(goal_t), 'covered_in_replay': len(goal_t & covered), 'other_pairs_observed': len(covered - goal_t),
                                'uncovered': sorted(goal_t - covered)[:10]},
        'layouts_replayed': ['%s/%s' % l for l in lays],
        'cached_objects_handed_out': aliases,
        'non_integrator_results_sharing_memory_with_an_argument_observed_not_judged': shared,
        'zero_duration_integrator_calls_replayed': zero,
        'integrator_results_rewritten_in_place_then_arguments_re_digested': sum(1 for r in recs if any(a.get('wrote') for a in r['args'])),
        'arguments_that_are_views_of_an_owner_owner_digested_before_and_after': sum(1 for r in recs for a in r['args'] if a.get('is_view')),
        'vector_argument_containers_replayed': {k: sorted(v) for k, v in sorted(conts.items())},
        'exhaustive': False, 'timing_s': timing,
    }
    if binding:
        cov['binding_demo'] = binding
    if os.environ.get('C20_DEBUG'):
        with open(os.environ['C20_DEBUG'], 'w') as f:
            json.dump({'groups': groups, 'verdicts': verdicts, 'hists': hists, 'goal': sorted(goal), 'coverage': cov}, f, default=str)
    return {'coverage': cov, 'violations': viol, 'assumptions': [
        'a "fresh interpreter" is a process forked from a parent that has only imported dadi (no dadi function was called in it); one such process per distinct call and hash seed',
        'results are compared by SHA-256 of a canonical byte encoding (dtype, shape, C-order bytes; masked entries zeroed; spectra with mask, folding flag, labels) plus up to six exact values',
        'the container dimension (list / tuple / float64 array / integer array of a parameter vector, bounds, index list, grid-size list) is judged for ArgumentsUnchanged and history / hash-seed independence of each variant; equality of the results ACROSS containers is not demanded (an integer array is another point of the parameter space)',
        'ResultIsFresh (integrators): no memory shared with any argument, and after the caller rewrites every entry of the returned array in place the digest of every argument is still the one taken when the call returned',
        'layout independence is bit-for-bit except for calls whose code reduces over the argument (numpy sum/dot/trapz): 1e-13 relative to the largest entry (LayoutExact in Memo.tla)',
        'the memo tables are observed through a dict subclass installed in place of the module-level dictionaries (replay processes only)',
        'Misc.perturb_params is random by contract: the call is (numpy.random.seed(k); perturb_params(...))',
        'Demes.output takes the event log as implicit argument: the call (model m, mapping) rebuilds the log by running m unless the log is m\'s already']}
