"""C10 - population bookkeeping on spectra (spec/SpectrumOps.tla)."""
import random, itertools
import numpy as np
from . import common
from .spectrum_common import enc, observe, rand_spectrum, rand_shape, rand_labels, mutate, relayout

PROP = 'C10'


def records(ctx):
    import dadi
    from dadi import Misc
    rng = random.Random(ctx.seed + 10)
    recs = []
    nid = itertools.count()

    def add(op, inp, out, site):
        recs.append({'id': '%s-%d' % (op, next(nid)), 'op': op, 'in': inp, 'out': out, 'site': site})
    n = 56 if ctx.quick else 420
    dims = {2: 6, 3: 4, 4: 3, 5: 2, 6: 2}
    for k in range(n):
        # every dimension count, with and without labels, folded and unfolded: cycled deterministically
        ndim = [2, 3, 4, 5, 6, 2, 3][k % 7]
        sh = rand_shape(rng, ndim, 1, dims[ndim])
        folded = (k // 7) % 3 == 1
        labels = rng.sample(['YRI', 'CEU', 'CHB', 'pop4', 'p5', 'six'], ndim) if k % 2 == 0 else None
        # bookkeeping on spectra without internal masks (the statement's "unmasked data"); corners masked or not
        fs = rand_spectrum(rng, sh, folded=folded, labels=labels, mask_mode=['none', 'corners'][(k // 2) % 2])
        if k % 3 == 2:      # the same abstract spectrum in a non-contiguous memory layout (what reorder_pops / transposes return)
            fs = relayout(fs, rot=(k // 3) % 3)
        P = ndim
        over = sorted(rng.sample(range(P), rng.randint(1, P - 1)))
        over_arg = list(over)
        rng.shuffle(over_arg)            # the axes may be given in any order
        add('marginalize', {'s': enc(fs), 'over': [a + 1 for a in over_arg]}, observe(lambda: fs.marginalize(tuple(over_arg))), 'Spectrum.marginalize')
        keep = sorted(rng.sample(range(1, P + 1), rng.randint(1, P - 1)))
        rng.shuffle(keep)
        add('filter', {'s': enc(fs), 'keep': keep}, observe(lambda: fs.filter_pops(list(keep))), 'Spectrum.filter_pops')
        if k % 4 == 1:      # the mask_corners=False option on fully unmasked input: the corners of the result are exactly those of the re-indexing
            add('marginalize', {'s': enc(fs), 'over': [a + 1 for a in over_arg], 'mc': False},
                observe(lambda: fs.marginalize(tuple(over_arg), mask_corners=False)), 'Spectrum.marginalize[mask_corners=False]')
            add('filter', {'s': enc(fs), 'keep': keep, 'mc': False},
                observe(lambda: fs.filter_pops(list(keep), mask_corners=False)), 'Spectrum.filter_pops[mask_corners=False]')
        perm = list(range(1, P + 1))
        rng.shuffle(perm)
        add('reorder', {'s': enc(fs), 'perm': perm}, observe(lambda: fs.reorder_pops(list(perm))), 'Spectrum.reorder_pops')
        a, b = sorted(rng.sample(range(1, P + 1), 2))
        pair = [a, b] if rng.random() < 0.5 else [b, a]
        add('combine_two', {'s': enc(fs), 'a': a, 'b': b}, observe(lambda: fs.combine_two_pops(list(pair))), 'Spectrum.combine_two_pops')
        if P >= 3:
            pops = rng.sample(range(1, P + 1), rng.randint(2, P))
            add('combine', {'s': enc(fs), 'pops': sorted(pops)}, observe(lambda: fs.combine_pops(list(pops))), 'Spectrum.combine_pops')
        if P in (2, 3) and not folded:
            idx = sorted(rng.sample(range(P), 2))
            add('misc_combine', {'s': enc(fs), 'a': idx[0] + 1, 'b': idx[1] + 1}, observe(lambda: Misc.combine_pops(fs, idx=list(idx))), 'Misc.combine_pops')
        if P <= 4:
            add('scramble', {'s': enc(fs)}, observe(lambda: fs.scramble_pop_ids(mask_corners=(rng.random() < 0.5 or bool(np.ma.getmaskarray(fs).any())))), 'Spectrum.scramble_pop_ids')
        # commutation with projection and folding, observed on the implementation
        ns = [rng.randint(1, s - 1) for s in sh]

        def pair_obs(f, g):
            try:
                x, y = f(), g()
            except Exception as e:
                return {'raised': type(e).__name__}
            return {'s': enc(x), 't': enc(y)}
        if not folded:
            ns_m = [n_ for j, n_ in enumerate(ns) if j not in over]
            add('same_as', {'law': 'MargCommutesProject', 's': enc(fs), 'ns': ns, 'over': over},
                pair_obs(lambda: fs.project(ns).marginalize(over), lambda: fs.marginalize(over).project(ns_m)), 'Spectrum.marginalize')
            add('same_as', {'law': 'ReorderCommutesProject', 's': enc(fs), 'ns': ns, 'perm': perm},
                pair_obs(lambda: fs.project(ns).reorder_pops(perm), lambda: fs.reorder_pops(perm).project([ns[p - 1] for p in perm])), 'Spectrum.reorder_pops')
            add('same_as', {'law': 'ReorderCommutesFold', 's': enc(fs), 'perm': perm},
                pair_obs(lambda: fs.fold().reorder_pops(perm), lambda: fs.reorder_pops(perm).fold()), 'Spectrum.reorder_pops')
            add('same_as', {'law': 'MargCommutesFold', 's': enc(fs), 'over': over},
                pair_obs(lambda: fs.fold().marginalize(over), lambda: fs.marginalize(over).fold()), 'Spectrum.marginalize')
            add('same_as', {'law': 'CombineCommutesFold', 's': enc(fs), 'a': a, 'b': b},
                pair_obs(lambda: fs.fold().combine_two_pops([a, b]), lambda: fs.combine_two_pops([a, b]).fold()), 'Spectrum.combine_two_pops')
    # object re-use: every operation called twice on the same object gives the same answer (judged against the object as it was)
    # and leaves the object - values, mask, folding, labels - as it was (own RNG)
    r5 = random.Random(ctx.seed + 1010)
    for k in range(6 if ctx.quick else 36):
        ndim = [2, 3, 4][k % 3]
        sh = rand_shape(r5, ndim, 1, dims[ndim])
        labels = r5.sample(['YRI', 'CEU', 'CHB', 'pop4', 'p5', 'six'], ndim) if k % 2 == 0 else None
        fs = rand_spectrum(r5, sh, folded=(k % 3 == 1), labels=labels, mask_mode=['none', 'corners'][k % 2])
        P = ndim
        over = sorted(r5.sample(range(P), r5.randint(1, P - 1)))
        keep = sorted(r5.sample(range(1, P + 1), r5.randint(1, P - 1)))
        perm = list(range(1, P + 1))
        r5.shuffle(perm)
        a, b = sorted(r5.sample(range(1, P + 1), 2))
        for op, inp, call, site in (
                ('marginalize', {'over': [x + 1 for x in over]}, lambda: fs.marginalize(tuple(over)), 'Spectrum.marginalize'),
                ('filter', {'keep': keep}, lambda: fs.filter_pops(list(keep)), 'Spectrum.filter_pops'),
                ('reorder', {'perm': perm}, lambda: fs.reorder_pops(list(perm)), 'Spectrum.reorder_pops'),
                ('combine_two', {'a': a, 'b': b}, lambda: fs.combine_two_pops([a, b]), 'Spectrum.combine_two_pops'),
                ('scramble', {}, lambda: fs.scramble_pop_ids(mask_corners=bool(np.ma.getmaskarray(fs).any())), 'Spectrum.scramble_pop_ids')):
            if op == 'scramble' and P > 3:
                continue
            before = enc(fs)
            o1, o2 = observe(call), observe(call)
            after = enc(fs)
            add(op, dict(inp, s=before), o1, site)
            add(op, dict(inp, s=before), o2, site + '[second call on the same object]')
            add('unchanged', {'law': 'ObjectUnchangedBy:' + op}, {'s': before, 't': after}, site)
        # the population lists handed over as numpy integer arrays (and tuples), the SAME argument object used for two calls:
        # both calls judged against the values the caller wrote, and the caller's array left as it was
        a_over, a_keep, a_perm, a_pair = np.array(over), np.array(keep), np.array(perm), np.array([a, b])
        for op, inp, arr, call, site in (
                ('marginalize', {'over': [x + 1 for x in over]}, a_over, lambda: fs.marginalize(a_over), 'Spectrum.marginalize'),
                ('filter', {'keep': keep}, a_keep, lambda: fs.filter_pops(a_keep), 'Spectrum.filter_pops'),
                ('reorder', {'perm': perm}, a_perm, lambda: fs.reorder_pops(a_perm), 'Spectrum.reorder_pops'),
                ('combine_two', {'a': a, 'b': b}, a_pair, lambda: fs.combine_two_pops(a_pair), 'Spectrum.combine_two_pops')):
            before = enc(fs)
            arr0 = arr.copy()
            o1, o2 = observe(call), observe(call)
            add(op, dict(inp, s=before), o1, site + '[ndarray argument]')
            add(op, dict(inp, s=before), o2, site + '[ndarray argument, second call with the same array]')
            add('argkept', {'law': 'ArgumentUnchangedBy:' + op, 'arg': [int(x) for x in arr0]}, {'arg': [int(x) for x in arr]}, site + '[ndarray argument]')
        if P >= 4:      # merge sets of four and more populations, every position of the set
            pops = sorted(r5.sample(range(1, P + 1), r5.randint(4, P)))
            add('combine', {'s': enc(fs), 'pops': pops}, observe(lambda: fs.combine_pops(list(pops))), 'Spectrum.combine_pops')
    # pooled sample sizes beyond 1030 chromosomes (binomial coefficients beyond the range of a double)
    for sh in ([5, 1061],) if ctx.quick else ([5, 1061], [3, 1201], [4, 3, 1100]):
        fs = rand_spectrum(rng, sh, folded=False, labels=rand_labels(rng, len(sh)), mask_mode='none', integer=True)
        add('scramble', {'s': enc(fs)}, observe(lambda: fs.scramble_pop_ids(mask_corners=False)), 'Spectrum.scramble_pop_ids')
    return recs


def nontrivial(r):
    i = r['in']
    if r['op'] == 'unchanged':
        return ('unchanged', i['law'], tuple(r['out'].get('s', {}).get('sh', [])))
    if r['op'] == 'argkept':
        return ('argkept', i['law'], len(i['arg']))
    s = i['s']
    return (r['op'], i.get('law'), tuple(s['sh']), s['f'], bool(s['ids']), tuple(i.get('over', ())), tuple(i.get('perm', ())),
            tuple(i.get('keep', ())), i.get('a'), i.get('b'), tuple(i.get('pops', ())))


def run(ctx):
    if ctx.replay:
        recs = [ctx.replay_payload['payload']['record']]
        ctx.no_mc = True
    else:
        recs = records(ctx)
    return common.pipeline(
        ctx, ([('SpectrumOpsMC', 'SpectrumOpsMC_C10_quick.cfg')] if ctx.quick else [('SpectrumOpsMC', 'SpectrumOpsMC_C10_thoroughA.cfg'), ('SpectrumOpsMC', 'SpectrumOpsMC_C10_thoroughB.cfg')]), 'Trace_SpectrumOps', recs,
        nontrivial_of=nontrivial, mutator=mutate,
        rule='random 2-6-D spectra with unequal sample sizes, with/without labels, folded or not, no interior masks; every operation with random '
             'subsets / permutations / merge sets; commutation laws observed as pairs; distinct by (operation, law, shape, folded, labelled, arguments)',
        assumptions=['BigInteger rational arithmetic of the Rat override',
                     'the two corner entries are excluded from entry-wise comparison where dadi masks them by default (mask_corners=True) and leaves them at 0',
                     'relative tolerance 1e-10 per entry'])
