\* C20 exhaustive model: every history of up to 4 calls over the core bases (one representative of every kind of table interaction; contiguous arguments)
CONSTANTS
  MaxDepth = 4
  BaseSel = "core"
  LaySel = "C"
  ProjKeyMode = "full"
  DbetaKeyMode = "full"
  PartKeyMode = "full"
  EntryMode = "copy_all"
  XXMode = "contig"
  GodMode = "object"
  DemesMode = "pure"
  PerturbMode = "pure"
  HashMode = "ordered"
  SFSMode = "copies"
  VectorMode = "copies"
  MaskMode = "setter"
  KernelMode = "stateless"
  MaxTable = 60
SPECIFICATION Spec
CHECK_DEADLOCK FALSE
CONSTRAINT TableBound
VIEW MCView
INVARIANT TypeOK
INVARIANT AlphabetOK
INVARIANT TablesSound
INVARIANT ResultIndependentOfHistory
INVARIANT ResultIndependentOfHashSeed
INVARIANT LayoutIndependent
INVARIANT ArgumentsUnchanged
INVARIANT ResultIsFresh
