----------------------------- MODULE Equilibrium -----------------------------
(***************************************************************************)
(* Independent theory for property C01, part 2: the drift-selection        *)
(* equilibrium density of one population and the spectrum sampled from it. *)
(*                                                                         *)
(* For relative size nu, scaled selection gamma (2*Nref*s), dominance h    *)
(* and breeding ratio beta, with B = 4*beta/(beta+1)^2 and g = gamma*nu*B, *)
(*    phi(x) = theta0 * nu * B * D(x) / (x (1-x)),                         *)
(*    D(x)   = e^{Q(x)} INT_x^1 e^{-Q} / INT_0^1 e^{-Q},                   *)
(*    Q(x)   = 4 g h x + 2 g (1-2h) x^2,                                   *)
(* and the expected count of sites with i of n derived copies is           *)
(*    INT_0^1 C(n,i) x^i (1-x)^(n-i) phi(x) dx.                            *)
(* D involves exp / erf and is supplied as a table at quadrature nodes     *)
(* (evaluated by the recorder independently of dadi); the polynomial part  *)
(* and the quadrature sum are computed here exactly.                       *)
(* The numerical regimes of dadi's phi_1D are a case table over (g, h):    *)
(***************************************************************************)
EXTENDS Rat, Integers, Sequences

BFac(beta) == RDiv(RMul("4", beta), RSq(RAdd(beta, "1")))
GEff(gamma, nu, beta) == RMul(RMul(gamma, nu), BFac(beta))
\* which numerical branch phi_1D takes (documented in its code): total and disjoint
Regime(gamma, nu, h, beta) ==
    LET g == GEff(gamma, nu, beta) IN
    IF h = "1/2" THEN (IF RIsZero(gamma) THEN "snm" ELSE IF RLeq(g, "-300") THEN "genic_bigneg" ELSE IF RLeq("300", g) THEN "genic_bigpos" ELSE "genic")
    ELSE (IF RLt(g, "-354") THEN "general_Qadjust" ELSE IF RSign(g) < 0 THEN "general_neg" ELSE "general_nonneg")
Regimes == {"snm", "genic_bigneg", "genic_bigpos", "genic", "general_Qadjust", "general_neg", "general_nonneg"}

\* quadrature of the sampling integral: nodes x[q], weights w[q], table D[q]
EquilSFS(n, x, w, Dtab, scale) ==
    [i \in 1..(n - 1) |->
        RMul(RMul(scale, RBinom(n, i)),
             RSum([q \in 1..Len(x) |-> RMul(RMul(w[q], Dtab[q]), RMul(RPow(x[q], i - 1), RPow(RSub("1", x[q]), n - i - 1)))]))]

F_(name, ok) == IF ok THEN {} ELSE {name}
AllNum_(q) == \A j \in 1..Len(q) : IsNum(q[j])
RMaxSeq_(q) == LET RECURSIVE go(_, _)
                   go(j, m) == IF j > Len(q) THEN m ELSE go(j + 1, RMax(m, q[j]))
               IN go(1, "0")
RelErr_(sfs, exact, n) == RMaxSeq_([b \in 1..(n - 1) |-> RDiv(RAbs(RSub(sfs[b + 1], exact[b])), RAbs(exact[b]))])

\* record "equil_sfs": spectra of the equilibrium model on successively finer grid lists
\* (the exact spectrum and the error per run are bound once: UNION {G(x) : x \in {e}} evaluates e once, a LET would be
\* re-evaluated by TLC at every reference)
FEquilJudge(r, runs, errs, bound, floor, gridratio) ==
    (IF r.in.strict THEN F_("EquilibriumWithinOnePointFivePercent", RLeq(errs[Len(runs)], bound)) ELSE {}) \cup
    F_("EquilibriumErrorVanishesUnderRefinement",
         \A q \in 1..(Len(runs) - 1) : RLeq(errs[q + 1], RAdd(RMul(gridratio, errs[q]), floor)))
FEquilSFS(r, bound, floor, gridratio) ==
    LET n == r.in.n
        scale == RMul(RMul(r.in.theta0, r.in.nu), BFac(r.in.beta))
        runs == r.out.runs
        allok == \A q \in 1..Len(runs) : Len(runs[q].sfs) = n + 1 /\ AllNum_(runs[q].sfs)
    IN  F_("SpectrumWellFormed", allok) \cup
        (IF allok
         THEN UNION { UNION { FEquilJudge(r, runs, errs, bound, floor, gridratio)
                              : errs \in {RForce([q \in 1..Len(runs) |-> RelErr_(runs[q].sfs, exact, n)])} }
                      : exact \in {RForce(EquilSFS(n, r.in.x, r.in.w, r.in.D, scale))} }
         ELSE {})

\* record "phi_regime": densities on one grid for parameter values on both sides of a regime switch
\* (and the switch value itself): finite, non-negative, and continuous across the switch
FPhiRegime(r, taucont) ==
    LET vals == r.out.phis          \* sequence of flat densities, one per parameter value listed in r.in.points
        fin == \A q \in 1..Len(vals) : AllNum_(vals[q])
        sc == IF fin THEN RMaxSeq_([q \in 1..Len(vals) |-> RSeqMaxAbs(vals[q])]) ELSE "1"
    IN  F_("EquilibriumDensityFinite", fin) \cup
        (IF fin
         THEN F_("EquilibriumDensityNonNegative", \A q \in 1..Len(vals) : \A j \in 1..Len(vals[q]) : RNonNeg(vals[q][j])) \cup
              F_("ContinuousAcrossRegimeSwitch:" \o r.in.switch,
                   \A q \in 1..(Len(vals) - 1) : \A j \in 1..Len(vals[q]) :
                       RLeq(RAbs(RSub(vals[q][j], vals[q + 1][j])), RMul(taucont, RMax(RAbs(vals[q][j]), RMul("1/1000000", sc)))))
         ELSE {})

\* record "stationary": distance between the spectrum of the equilibrium density and of the same density integrated
\* further under the same size and selection, on successively doubled grids: a grid error that vanishes under refinement
FStationary(r, gridratio, floor) ==
    LET runs == r.out.runs          \* each: [pts, before (spectrum data), after]
        n == r.in.n
        ok(q) == Len(runs[q].before) = n + 1 /\ Len(runs[q].after) = n + 1 /\ AllNum_(runs[q].before) /\ AllNum_(runs[q].after)
        dist(q) == RMaxSeq_([b \in 1..(n - 1) |-> RDiv(RAbs(RSub(runs[q].after[b + 1], runs[q].before[b + 1])), RAbs(runs[q].before[b + 1]))])
    IN  F_("SpectrumWellFormed", \A q \in 1..Len(runs) : ok(q)) \cup
        (IF \A q \in 1..Len(runs) : ok(q)
         THEN F_("EquilibriumIsStationaryUpToVanishingGridError",
                   \A q \in 1..(Len(runs) - 1) : RLeq(dist(q + 1), RAdd(RMul(gridratio, dist(q)), floor)))
         ELSE {})
=============================================================================
