#!/venv/bin/python
"""usage: reseed_all.py <out.log> <stream> <nstreams>  - run every stored seeded change (seeded/*/patch.diff) against the check named in
its meta.json (detected_by.check) on a scratch copy of /repo; one line per seed: <id> <check> caught|MISSED|error."""
import glob, json, os, re, subprocess, sys
out, k, n = sys.argv[1], int(sys.argv[2]), int(sys.argv[3])
dirs = sorted(d for d in glob.glob('/verif/seeded/*') if os.path.isdir(d) and re.search(os.environ.get('RESEED_FILTER', '.'), os.path.basename(d)))
for i, d in enumerate(dirs):
    if i % n != k:
        continue
    m = json.load(open(d + '/meta.json'))
    if m.get('obsolete'):
        with open(out, 'a') as f:
            f.write('%s - obsolete (%s)\n' % (os.path.basename(d), m['obsolete'][:60]))
        continue
    chk = re.search(r'[CX]\d\d', m.get('detected_by', {}).get('check', '') or '')
    chk = chk.group(0) if chk else m['property']
    patch = d + '/patch_rebased.diff' if os.path.exists(d + '/patch_rebased.diff') else d + '/patch.diff'
    r = subprocess.run(['/verif/harness/try_seed.sh', patch, chk], capture_output=True, text=True)
    txt = r.stdout + r.stderr
    if r.returncode == 1 and 'VIOLATION' in txt:
        res = 'caught'
    elif r.returncode == 0:
        res = 'MISSED'
    else:
        res = 'error rc=%d %s' % (r.returncode, txt.strip().split('\n')[-1][:120])
    with open(out, 'a') as f:
        f.write('%s %s %s\n' % (os.path.basename(d), chk, res))
