---------------------------- MODULE Trace_DFEQuad ----------------------------
(***************************************************************************)
(* Trace validation for module DFEQuad (C17 part B).  One record = one     *)
(* call of the real dadi.DFE integrate* / mixture* / Vourlaki_mixture on a *)
(* tiny cache, with the exact cached spectra, the grid, the density        *)
(* (either a family whose node values and tail masses the specification    *)
(* computes itself, or tables recorded from an independent evaluation) and *)
(* the raw result.  Also: compiled bivariate densities against reference   *)
(* values, and pairs of calls differing only in theta.                     *)
(*                                                                         *)
(* Tolerances (constants of the cfg):                                      *)
(*   Tau    relative, floating-point evaluation of the quadrature sums     *)
(*   EpsQ   abs = rel accuracy allowed to scipy.integrate.quad with its    *)
(*          default tolerances (1-D tail masses)                           *)
(*   EpsA, EpsR  the accuracy Cache2D.integrate itself requests from       *)
(*          quad/dblquad (epsabs, epsrel) for the 2-D edge/corner masses   *)
(*   TauPdf relative, compiled pdf against reference formula               *)
(***************************************************************************)
EXTENDS DFEQuad, TLC, Json, IOUtils
CONSTANTS Tau, EpsQ, EpsA, EpsR, TauPdf

Trace == JsonDeserialize(IOEnv.TRACE_FILE)
VARIABLE i
F(name, ok) == IF ok THEN {} ELSE {name}
Floor == "1/1000000000000000000000000000000"
VAbs(a) == [k \in DOMAIN a |-> RAbs(a[k])]

\* ---- densities: family (computed here) or table (independent evaluation recorded by the driver) ----
P1(pdf, xs) == IF pdf.kind = "fam" THEN Pdf1(pdf.comps, xs) ELSE [w |-> pdf.w, tneu |-> pdf.tneu, tdel |-> pdf.tdel]
P2(pdf, xs) == IF pdf.kind = "fam" THEN Pdf2(pdf.comps, xs)
               ELSE [W |-> pdf.W, e |-> [l1 |-> pdf.l1, h1 |-> pdf.h1, l2 |-> pdf.l2, h2 |-> pdf.h2],
                     cn |-> [NN |-> pdf.NN, LN |-> pdf.LN, NL |-> pdf.NL, LL |-> pdf.LL]]
\* diagnosis only: the same density with the both-lethal corner mass dropped (ll = FALSE); used to NAME a
\* rejected record whose value is exactly the quadrature without that corner term
P2x(pdf, xs, ll) == LET P == P2(pdf, xs) IN IF ll THEN P ELSE [P EXCEPT !.cn.LL = "0"]

\* ---- expected value E and quadrature allowance T (both for theta = 1) ----
E1(c, pdf, ext) == LET P == P1(pdf, c.xs) IN Integrate1D("1", c.xs, P.w, c.S, c.neu, P.tneu, P.tdel, ext, Len(c.neu))
QTol(w) == RAdd(EpsQ, RMul(EpsQ, RAbs(w)))
T1(c, pdf, ext) == LET P == P1(pdf, c.xs) m == Len(c.neu) IN
                   IF ext THEN Vec(m, LAMBDA k : RAdd(RMul(QTol(P.tneu), RAbs(c.neu[k])), RMul(QTol(P.tdel), RAbs(c.S[1][k]))))
                   ELSE VZero(m)
M2(c) == Len(c.S[1][1])
E2x(c, pdf, ext, ll) == LET P == P2x(pdf, c.xs, ll) IN Integrate2D("1", c.xs, P.W, c.S, P.e, P.cn, ext, M2(c))
E2(c, pdf, ext) == E2x(c, pdf, ext, TRUE)
ATol(w) == RAdd(EpsA, RMul(EpsR, RAbs(w)))
T2(c, pdf, ext) == LET P == P2(pdf, c.xs) n == Len(c.xs) IN
                   IF ~ext THEN VZero(M2(c))
                   ELSE Exterior2D(c.xs, [a \in 1..n |-> [b \in 1..n |-> VAbs(c.S[a][b])]],
                                   [l1 |-> [j \in 1..n |-> ATol(P.e.l1[j])], h1 |-> [j \in 1..n |-> ATol(P.e.h1[j])],
                                    l2 |-> [j \in 1..n |-> ATol(P.e.l2[j])], h2 |-> [j \in 1..n |-> ATol(P.e.h2[j])]],
                                   [NN |-> ATol(P.cn.NN), LN |-> ATol(P.cn.LN), NL |-> ATol(P.cn.NL), LL |-> ATol(P.cn.LL)],
                                   M2(c))

\* ---- comparison of an observed Spectrum (flat data d, flat mask m) with E, allowance T ----
Raised(r) == "raised" \in DOMAIN r.out
Cmp(d, mk, E, T, tag) ==
    IF Len(d) # Len(E) \/ Len(mk) # Len(E) THEN {tag \o "Shape"}
    ELSE F(tag \o "Quadrature", \A k \in 1..Len(E) : mk[k] \/
              (IsNum(d[k]) /\ RLeq(RAbs(RSub(d[k], E[k])), RAdd(RAdd(RMul(Tau, RAbs(E[k])), T[k]), Floor))))
         \cup F(tag \o "Mask", \A k \in 2..(Len(E) - 1) : ~mk[k])
Judge(r, E, T) == IF Raised(r) THEN {"Raised"} ELSE Cmp(r.out.d, r.out.m, E, T, "")
\* En = the expectation without the both-lethal corner term
Judge2(r, E, T, En) == LET f == Judge(r, E, T) IN
                       IF "Quadrature" \in f /\ Cmp(r.out.d, r.out.m, En, T, "") = {}
                       THEN (f \ {"Quadrature"}) \cup {"BothLethalCornerMissing"} ELSE f

\* ---- operations ----
FInt1(r) == Judge(r, VScale(r.in.theta, E1(r.in.c1, r.in.pdf1, r.in.ext)), VScale(RAbs(r.in.theta), T1(r.in.c1, r.in.pdf1, r.in.ext)))
PP1E(r) == PointPos1D(r.in.theta, E1(r.in.c1, r.in.pdf1, r.in.ext), r.in.pp, Len(r.in.c1.neu))
PP1T(r) == VScale(RMul(RAbs(r.in.theta), RAbs(RSub("1", SumP(r.in.pp)))), T1(r.in.c1, r.in.pdf1, r.in.ext))
FPP1(r) == Judge(r, PP1E(r), PP1T(r))
FInt2(r) == Judge2(r, VScale(r.in.theta, E2(r.in.c2, r.in.pdf2, r.in.ext)), VScale(RAbs(r.in.theta), T2(r.in.c2, r.in.pdf2, r.in.ext)),
                   VScale(r.in.theta, E2x(r.in.c2, r.in.pdf2, r.in.ext, FALSE)))
\* the square root is supplied by the recorder; it is checked here, not trusted
SqrtOK(r) == RNonNeg(r.in.sq) /\ RLeq(RAbs(RSub(RMul(r.in.sq, r.in.sq), RMul(r.in.p1, r.in.p2))),
                                      RMul("1/100000000000000", RAdd(RMul(r.in.p1, r.in.p2), Floor)))
QOf(r) == Quadrants(r.in.rho, r.in.p1, r.in.p2, r.in.sq)
PP2Ex(r, ll) == LET c == r.in.c2 P == P2(r.in.pdf2, c.xs) m == M2(c) IN
           PointPos2D(r.in.theta, QOf(r), r.in.pospos, PosNeg(c.xs, P.W, r.in.spn, m), NegPos(c.xs, P.W, r.in.snp, m),
                      E2x(c, r.in.pdf2, TRUE, ll), m)
PP2E(r) == PP2Ex(r, TRUE)
PP2T(r) == VScale(RMul(RAbs(r.in.theta), RAbs(QOf(r).nn)), T2(r.in.c2, r.in.pdf2, TRUE))
FPP2(r) == F("SqrtTable", SqrtOK(r)) \cup Judge2(r, PP2E(r), PP2T(r), PP2Ex(r, FALSE))
FMix(r) == Judge2(r, VScale(r.in.theta, Mixture(r.in.p2d, E1(r.in.c1, r.in.pdf1, r.in.ext), E2(r.in.c2, r.in.pdf2, r.in.ext))),
                  VScale(RAbs(r.in.theta), Mixture(RAbs(r.in.p2d), T1(r.in.c1, r.in.pdf1, r.in.ext), T2(r.in.c2, r.in.pdf2, r.in.ext))),
                  VScale(r.in.theta, Mixture(r.in.p2d, E1(r.in.c1, r.in.pdf1, r.in.ext), E2x(r.in.c2, r.in.pdf2, r.in.ext, FALSE))))
    \* (Mixture(|p2d|, ..) = (1-|p2d|) T1 + |p2d| T2: for 0 <= p2d <= 1 these are the absolute weights)
FMixPP(r) == F("SqrtTable", SqrtOK(r)) \cup
             Judge2(r, Mixture(r.in.p2d, PP1E(r), PP2E(r)), Mixture(RAbs(r.in.p2d), PP1T(r), PP2T(r)),
                    Mixture(r.in.p2d, PP1E(r), PP2Ex(r, FALSE)))
FVou(r) == LET c1 == r.in.c1 c2 == r.in.c2 m == M2(c2)
               P == P1(r.in.pdf1, c2.xs)
               v == VourlakiW(r.in.pw, r.in.pc, r.in.pcp)
               m4 == MargTails(c2.xs, P.w, r.in.spn, P.tneu, P.tdel, m)
               m7 == MargTails(c2.xs, P.w, r.in.snp, P.tneu, P.tdel, m)
               tm(row) == Vec(m, LAMBDA k : RAdd(RMul(QTol(P.tneu), RAbs(row[Len(row)][k])), RMul(QTol(P.tdel), RAbs(row[1][k]))))
               Ex(ll) == Vourlaki(r.in.theta, v, E1(c1, r.in.pdf1, TRUE), E2x(c2, r.in.pdf2, TRUE, ll), m7, r.in.pospos, m4)
               E == Ex(TRUE)
               T == VScale(RAbs(r.in.theta),
                           VAdd(VAdd(VScale(v.m5, T1(c1, r.in.pdf1, TRUE)), VScale(v.m6, T2(c2, r.in.pdf2, TRUE))),
                                VAdd(VScale(v.m7, tm(r.in.snp)), VScale(v.m4, tm(r.in.spn)))))
           IN  F("GridsDiffer", c1.xs = c2.xs) \cup Judge2(r, E, T, Ex(FALSE))

\* selection-blind cache and a density of total mass one whose quadrature is exact (piecewise linear):
\* the total quadrature weight is one and the result is theta * common spectrum
AllSame1(c, C) == c.neu = C /\ \A a \in DOMAIN c.S : c.S[a] = C
AllSame2(c, C) == \A a \in DOMAIN c.S : \A b \in DOMAIN c.S[a] : c.S[a][b] = C
UnitTol == "1/1000000000000"
FUnit1(r) == LET c == r.in.c1 P == P1(r.in.pdf1, c.xs) IN
             F("UnitInput", AllSame1(c, r.in.common) /\ RLeq(RAbs(RSub(TotalWeight1D(c.xs, P.w, P.tneu, P.tdel, TRUE), "1")), UnitTol))
             \cup (IF Raised(r) THEN {"Raised"}
                   ELSE Cmp(r.out.d, r.out.m, VScale(r.in.theta, r.in.common), VScale(RAbs(r.in.theta), T1(c, r.in.pdf1, TRUE)), "Unit"))
FUnit2(r) == LET c == r.in.c2 P == P2(r.in.pdf2, c.xs) IN
             F("UnitInput", AllSame2(c, r.in.common) /\ RLeq(RAbs(RSub(TotalWeight2D(c.xs, P.W, P.e, P.cn, TRUE), "1")), UnitTol))
             \cup (IF Raised(r) THEN {"Raised"}
                   ELSE LET T == VScale(RAbs(r.in.theta), T2(c, r.in.pdf2, TRUE))
                            f == Cmp(r.out.d, r.out.m, VScale(r.in.theta, r.in.common), T, "Unit")
                        IN  IF "UnitQuadrature" \in f /\ Cmp(r.out.d, r.out.m, VScale(RMul(r.in.theta, RSub("1", P.cn.LL)), r.in.common), T, "Unit") = {}
                            THEN (f \ {"UnitQuadrature"}) \cup {"BothLethalCornerMissing"} ELSE f)
\* one call of a session on a shared cache object: observed at a position of two differently ordered sessions
\* (out.a, out.b) and on a freshly built object (out.fresh); the objects' digests before / after the sessions
FHistory(r) == IF Raised(r) THEN {"Raised"}
               ELSE F("HistoryIndependent", HistoryIndependent(r.out.a, r.out.fresh) /\ HistoryIndependent(r.out.b, r.out.fresh))
FObject(r)  == F("ObjectUnchanged", \A k \in DOMAIN r.out.after : ObjectUnchanged(r.out.before, r.out.after[k]))
\* two calls that differ only in theta
FThetaPair(r) == IF "raised" \in DOMAIN r.out THEN {"Raised"}
                 ELSE F("LinearInTheta", Len(r.out.d1) = Len(r.out.d2) /\ \A k \in 1..Len(r.out.d1) :
                           (r.out.m1[k] /\ r.out.m2[k]) \/
                           (IsNum(r.out.d1[k]) /\ IsNum(r.out.d2[k]) /\
                            RLeq(RAbs(RSub(RMul(r.out.d2[k], r.in.theta1), RMul(r.out.d1[k], r.in.theta2))),
                                 RAdd(RMul(Tau, RAbs(RMul(r.out.d1[k], r.in.theta2))), Floor))))
\* compiled density (and the Python reference implementation) against reference values of the documented formula
FPdf2(r) == IF Raised(r) THEN {"Raised"}
            ELSE F("CompiledPdfShape", Len(r.out.c) = Len(r.in.ref))
                 \cup (IF Len(r.out.c) = Len(r.in.ref)
                       THEN F("CompiledPdf", \A k \in 1..Len(r.in.ref) : RCloseRel(r.out.c[k], r.in.ref[k], TauPdf, "1/1" \o "000000000000000000000000000000000000000000000000000000000000"))
                       ELSE {})
                 \cup F("PythonPdf", Len(r.out.py) = Len(r.in.ref) /\
                                     \A k \in 1..Len(r.in.ref) : RCloseRel(r.out.py[k], r.in.ref[k], TauPdf, "1/1" \o "000000000000000000000000000000000000000000000000000000000000"))

Failed(r) == CASE r.op = "integrate1d" -> FInt1(r)
               [] r.op = "pointpos1d"  -> FPP1(r)
               [] r.op = "integrate2d" -> FInt2(r)
               [] r.op = "pointpos2d"  -> FPP2(r)
               [] r.op = "mixture"     -> FMix(r)
               [] r.op = "mixture_pp"  -> FMixPP(r)
               [] r.op = "vourlaki"    -> FVou(r)
               [] r.op = "unit1d"      -> FUnit1(r)
               [] r.op = "unit2d"      -> FUnit2(r)
               [] r.op = "theta_pair"  -> FThetaPair(r)
               [] r.op = "history"     -> FHistory(r)
               [] r.op = "object"      -> FObject(r)
               [] r.op = "pdf2d"       -> FPdf2(r)
               [] OTHER -> {"UnknownOp"}

Init == i = 0
Next == i < Len(Trace) /\ i' = i + 1 /\ LET r == Trace[i + 1] f == Failed(r) IN IF f = {} THEN TRUE ELSE PrintT(<<"BAD", r.id, f>>)
Spec == Init /\ [][Next]_i
Done == (i = Len(Trace)) => PrintT(<<"DONE", i>>)
AllConsumed == TLCGet("stats").diameter - 1 = Len(Trace)
=============================================================================
