\* C20 exhaustive model (thorough): every history of up to 3 calls over all memo-relevant bases (contiguous arguments)
CONSTANTS
  MaxDepth = 3
  BaseSel = "memo"
  LaySel = "C"
  ProjKeyMode = "full"
  DbetaKeyMode = "full"
  PartKeyMode = "full"
  EntryMode = "copy_all"
  XXMode = "contig"
  GodMode = "object"
  DemesMode = "pure"
  PerturbMode = "pure"
  HashMode = "ordered"
  SFSMode = "copies"
  VectorMode = "copies"
  MaskMode = "setter"
  KernelMode = "stateless"
  MaxTable = 60
SPECIFICATION Spec
CHECK_DEADLOCK FALSE
CONSTRAINT TableBound
VIEW MCView
INVARIANT TypeOK
INVARIANT AlphabetOK
INVARIANT TablesSound
INVARIANT ResultIndependentOfHistory
INVARIANT ResultIndependentOfHashSeed
INVARIANT LayoutIndependent
INVARIANT ArgumentsUnchanged
INVARIANT ResultIsFresh
