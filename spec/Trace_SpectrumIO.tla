-------------------------- MODULE Trace_SpectrumIO --------------------------
(***************************************************************************)
(* Trace validation for module SpectrumIO (C14).  A record is one real     *)
(* call sequence on dadi:                                                  *)
(*  roundtrip       s.to_file(name, precision, comments, foldmaskinfo);    *)
(*                  the file's lines as found on disk; Spectrum.from_file  *)
(*  from_file       Spectrum.from_file on a given file (pre-1.3 files,     *)
(*                  files of the array writer, irregular blanks, gzip)     *)
(*  array_roundtrip Numerics.array_to_file, the lines, array_from_file     *)
(*  array_from_file Numerics.array_from_file on a given file               *)
(*  array_stream    several array_to_file calls on one open handle, the    *)
(*                  lines, successive array_from_file calls on one handle  *)
(*  pickle          pickle / copy of a Spectrum and its reduce tuple       *)
(* Files are recorded as [pre, body] (see SpectrumIO): text lines as       *)
(* characters, number lines as the exact rational values of their decimal  *)
(* tokens.  The lines are judged against Write, the object read back       *)
(* against Read of those lines and against the original (round trip).      *)
(* TauParse bounds the decimal -> double conversion of the reader.         *)
(***************************************************************************)
EXTENDS SpectrumIO, TLC, Json, IOUtils
CONSTANTS TauParse

Trace == JsonDeserialize(IOEnv.TRACE_FILE)
VARIABLE i
F(name, ok) == IF ok THEN {} ELSE {name}
Raised(o) == "raised" \in DOMAIN o

\* the double the reader makes of a decimal token
CloseParse(t, v) == IF IsNum(t) THEN IsNum(v) /\ RLeq(RAbs(RSub(v, t)), RMul(TauParse, RAbs(t))) ELSE v = t
ParsedValues(toks, d) == Len(toks) = Len(d) /\ \A k \in 1..Len(d) : CloseParse(toks[k], d[k])

\* the lines on disk are what Write specifies (blanks between header items are not significant)
WriteClauses(s, p, comments, fmi, file) ==
    LET np == Len(file.pre) IN
    IF np # Len(comments) + 1 \/ Len(file.body) # (IF fmi THEN 2 ELSE 1) THEN {"WriteLineCount"}
    ELSE F("WriteComments", \A j \in 1..Len(comments) : IsCommentLine(file.pre[j]) /\ Strip(Tail(file.pre[j])) = Strip(comments[j])) \cup
         F("WriteHeader", ~IsCommentLine(file.pre[np]) /\ ParseHeader(file.pre[np]) = ParseHeader(HeaderLine(s, fmi))) \cup
         F("WriteData", Len(file.body[1]) = Size(s.sh) /\ \A k \in 1..Size(s.sh) : WithinPrecision(s.d[k], file.body[1][k], p)) \cup
         (IF fmi THEN F("WriteMask", file.body[2] = MaskLine(s)) ELSE {})
\* the object returned by the reader is Read of those lines
ReadClauses(file, mc, back, tag) ==
    LET exp == Read(file, mc) IN
    IF ~exp.ok THEN {tag \o "FileMalformed"}
    ELSE F(tag \o "Shape", back.s.sh = exp.s.sh) \cup
         (IF back.s.sh = exp.s.sh THEN F(tag \o "Values", ParsedValues(exp.s.d, back.s.d)) \cup F(tag \o "Mask", back.s.m = exp.s.m) ELSE {}) \cup
         F(tag \o "Folded", back.s.f = exp.s.f) \cup F(tag \o "Labels", back.s.ids = exp.s.ids) \cup
         F(tag \o "Comments", back.comments = exp.comments)
\* statement of the property: original versus what came back
RoundTripClauses(s, p, comments, fmi, mc, back) ==
    F("RoundTripShape", back.s.sh = s.sh) \cup
    (IF back.s.sh = s.sh THEN F("RoundTripValues", SameValues(s.d, back.s.d, p, TauParse)) \cup
                              F("RoundTripMask", back.s.m = ExpectedMask(s, fmi, mc)) ELSE {}) \cup
    F("RoundTripFolded", back.s.f = (fmi /\ s.f)) \cup
    F("RoundTripLabels", back.s.ids = (IF fmi THEN s.ids ELSE <<>>)) \cup
    F("RoundTripComments", back.comments = [j \in 1..Len(comments) |-> Strip(comments[j])])

FRoundTrip(r) ==
    IF Raised(r.out) THEN {IF r.out.stage = "to_file" THEN "ToFileRaised" ELSE "FromFileRaised"}
    ELSE WriteClauses(r.in.s, r.in.p, r.in.comments, r.in.fmi, r.out.file) \cup
         ReadClauses(r.out.file, r.in.mc, r.out.back, "ReadBack") \cup
         RoundTripClauses(r.in.s, r.in.p, r.in.comments, r.in.fmi, r.in.mc, r.out.back)
FFromFile(r) == IF Raised(r.out) THEN {"FromFileRaised"} ELSE ReadClauses(r.in.file, r.in.mc, r.out, "Read")

\* ---- generic array writer / reader ----
AsSpec(a) == [sh |-> a.sh, d |-> [k \in 1..Size(a.sh) |-> IF a.m[k] THEN "nan" ELSE a.d[k]], m |-> a.m, f |-> FALSE, ids |-> <<>>]
ArrayReadClauses(file, out, tag) ==
    LET exp == ArrayRead(file) IN
    IF ~exp.ok THEN {tag \o "FileMalformed"}
    ELSE F(tag \o "Shape", out.a.sh = exp.a.sh) \cup
         (IF out.a.sh = exp.a.sh THEN F(tag \o "Values", ParsedValues(exp.a.d, out.a.d)) ELSE {}) \cup
         F(tag \o "Comments", out.comments = exp.comments)
FArrayRoundTrip(r) ==
    IF Raised(r.out) THEN {IF r.out.stage = "to_file" THEN "ArrayToFileRaised" ELSE "ArrayFromFileRaised"}
    ELSE LET a == r.in.a w == AsSpec(a) back == r.out.back IN
         WriteClauses(w, r.in.p, r.in.comments, FALSE, r.out.file) \cup
         ArrayReadClauses(r.out.file, back, "ArrayReadBack") \cup
         F("ArrayRoundTripShape", back.a.sh = a.sh) \cup
         (IF back.a.sh = a.sh THEN F("ArrayRoundTripValues", SameValues(w.d, back.a.d, r.in.p, TauParse)) ELSE {}) \cup
         F("ArrayRoundTripComments", back.comments = [j \in 1..Len(r.in.comments) |-> Strip(r.in.comments[j])])
FArrayFromFile(r) == IF Raised(r.out) THEN {"ArrayFromFileRaised"} ELSE ArrayReadClauses(r.in.file, r.out, "ArrayRead")

\* ---- several arrays written into one open handle and read back from one handle ----
\* in.items = the arrays with their precision and comments, in the order written; out.lines = the lines found on disk
\* (characters and tokens of each); out.reads = what in.nread successive array_from_file calls on ONE handle returned;
\* out.rest = the lines then still unread in that handle.
RECURSIVE StreamUsed(_, _)
StreamUsed(items, j) == IF j = 0 THEN 0 ELSE StreamUsed(items, j - 1) + LinesOf(items[j].comments)
\* the lines of the j-th array as written: its comment lines, the dimension line, the data line
Segment(lines, items, j) == LET st == StreamUsed(items, j - 1) nc == Len(items[j].comments) IN
                            [pre |-> [q \in 1..(nc + 1) |-> lines[st + q].c], body |-> <<lines[st + nc + 2].t>>]
\* the handle after j reads, according to HandleRead
RECURSIVE HandleAfter(_, _)
HandleAfter(lines, j) == IF j = 0 THEN [ok |-> TRUE, h |-> [lines |-> lines, pos |-> 0]]
                         ELSE LET prev == HandleAfter(lines, j - 1) IN IF ~prev.ok THEN prev ELSE HandleRead(prev.h)
FArrayStream(r) ==
    IF Raised(r.out) THEN {IF r.out.stage = "write" THEN "StreamWriteRaised" ELSE "StreamReadRaised"}
    ELSE LET items == r.in.items  n == Len(items)  k == r.in.nread  lines == r.out.lines  reads == r.out.reads  fin == HandleAfter(lines, k) IN
         IF Len(lines) # StreamUsed(items, n) THEN {"StreamLineCount"}
         ELSE IF Len(reads) # k THEN {"StreamReadCount"}
         ELSE UNION {WriteClauses(AsSpec(items[j].a), items[j].p, items[j].comments, FALSE, Segment(lines, items, j)) : j \in 1..n} \cup
              (IF ~fin.ok THEN {"StreamFileMalformed"}
               ELSE UNION {ArrayReadClauses(HandleFile(HandleAfter(lines, j - 1).h), reads[j], "StreamRead") : j \in 1..k} \cup
                    F("StreamPosition", fin.h.pos = StreamUsed(items, k)) \cup
                    F("StreamRest", r.out.rest = HandleRest(fin.h))) \cup
              UNION {LET a == items[j].a w == AsSpec(a) IN
                     F("StreamRoundTripShape", reads[j].a.sh = a.sh) \cup
                     (IF reads[j].a.sh = a.sh THEN F("StreamRoundTripValues", SameValues(w.d, reads[j].a.d, items[j].p, TauParse)) ELSE {}) \cup
                     F("StreamRoundTripComments", reads[j].comments = [q \in 1..Len(items[j].comments) |-> Strip(items[j].comments[q])])
                     : j \in 1..k}

\* ---- pickle ----
FPickle(r) ==
    IF Raised(r.out) THEN {"PickleRaised"}
    ELSE F("ReduceTuple", r.out.reduce = Pickle(r.in.s, r.in.x)) \cup
         F("PickleSame", r.out.s = r.in.s /\ r.out.x = r.in.x)

Failed(r) ==
    CASE r.op = "roundtrip"       -> FRoundTrip(r)
      [] r.op = "from_file"       -> FFromFile(r)
      [] r.op = "array_roundtrip" -> FArrayRoundTrip(r)
      [] r.op = "array_from_file" -> FArrayFromFile(r)
      [] r.op = "array_stream"    -> FArrayStream(r)
      [] r.op = "pickle"          -> FPickle(r)
      [] OTHER                    -> {"UnknownOp"}

Init == i = 0
Next == /\ i < Len(Trace)
        /\ i' = i + 1
        /\ LET r == Trace[i + 1] f == Failed(r) IN IF f = {} THEN TRUE ELSE PrintT(<<"BAD", r.id, f>>)
Spec == Init /\ [][Next]_i
Done == (i = Len(Trace)) => PrintT(<<"DONE", i>>)
AllConsumed == TLCGet("stats").diameter - 1 = Len(Trace)
=============================================================================
