CONSTANTS
  Kinds = {"obj", "num"}
  Ns = {3, 4, 5, 6}
  MaxDepth = 2
  UserMasks = TRUE
  NumPts = {2, 3, 4, 5}
  NumNs = {4, 5}
SPECIFICATION Spec
CHECK_DEADLOCK FALSE
INVARIANT TypeOK
INVARIANT L_Simplex
INVARIANT L_FoldMajorTotal
INVARIANT L_FoldMajorSym
INVARIANT L_FoldMajorRegion
INVARIANT L_FoldUnfoldFold
INVARIANT L_UnfoldTotal
INVARIANT L_FoldAncTotal
INVARIANT L_FoldAncAbsorbs
INVARIANT L_FoldAncPerm
INVARIANT L_FoldAncRegion
INVARIANT L_ProjCompose
INVARIANT L_ProjFoldCommute
INVARIANT L_ProjShape
INVARIANT L_Misid
INVARIANT L_Arith
INVARIANT L_File
INVARIANT L_Grid
INVARIANT L_Sample
INVARIANT L_Neutral
INVARIANT L_Trans1D
INVARIANT L_Trans2D
INVARIANT L_Move
INVARIANT L_Inject
