----------------------------- MODULE SpectrumIO -----------------------------
(***************************************************************************)
(* The on-disk format of dadi spectra and its two directions (property     *)
(* C14): Spectrum.to_file / from_file, the pre-1.3 format, the generic     *)
(* array writer / reader of Numerics, and pickling.                        *)
(*                                                                         *)
(* A spectrum is [sh, d, m, f, ids] as in module SpectrumOps, except that  *)
(* a label is a sequence of characters (one-character strings); ids = <<>> *)
(* means "no labels".  Values d[k] are exact rationals (module Rat) or one *)
(* of the tokens "nan", "inf", "-inf".                                     *)
(*                                                                         *)
(* A file is [pre, body]: pre = the text lines up to and including the     *)
(* header line, each a sequence of characters (the header is parsed        *)
(* character by character: digits, blanks, quotes); body = the lines after *)
(* the header, each a sequence of whitespace-separated tokens (numbers as  *)
(* exact values of their decimal text).                                    *)
(*   # comment                          any number of comment lines        *)
(*   n1 n2 .. folded|unfolded "l1" ..   header (pre-1.3: only n1 n2 ..)    *)
(*   v v v ...                          data, C order                      *)
(*   0 1 0 ...                          mask, 1 = masked (pre-1.3: absent) *)
(* The generic array writer / reader also work on an open handle: several  *)
(* arrays written one after another into one file are read back one after  *)
(* another from one handle (HandleWrite / HandleRead below).               *)
(***************************************************************************)
EXTENDS Rat, Integers, Sequences, FiniteSets

RECURSIVE IProdI(_)
IProdI(q) == IF q = <<>> THEN 1 ELSE Head(q) * IProdI(Tail(q))
Size(sh) == IProdI(sh)
IsCornerK(sh, k) == k = 1 \/ k = Size(sh)

\* ---------------- characters ----------------
QUOTE == "\""
IsWS(c) == c \in {" ", "\t"}
DigitChars == <<"0", "1", "2", "3", "4", "5", "6", "7", "8", "9">>
IsDigit(c) == \E d \in 1..10 : DigitChars[d] = c
DigitVal(c) == (CHOOSE d \in 1..10 : DigitChars[d] = c) - 1
RECURSIVE Digits(_)
Digits(n) == IF n < 10 THEN <<DigitChars[n + 1]>> ELSE Digits(n \div 10) \o <<DigitChars[(n % 10) + 1]>>
IsIntText(cs) == cs # <<>> /\ \A j \in 1..Len(cs) : IsDigit(cs[j])
ParseInt(cs) == LET RECURSIVE go(_, _)
                    go(j, acc) == IF j > Len(cs) THEN acc ELSE go(j + 1, 10 * acc + DigitVal(cs[j]))
                IN go(1, 0)
FoldedW   == <<"f", "o", "l", "d", "e", "d">>
UnfoldedW == <<"u", "n">> \o FoldedW
RECURSIVE Concat(_)
Concat(q) == IF q = <<>> THEN <<>> ELSE Head(q) \o Concat(Tail(q))

\* remove leading and trailing blanks
Strip(cs) == LET nb == {j \in 1..Len(cs) : ~IsWS(cs[j])} IN
             IF nb = {} THEN <<>>
             ELSE SubSeq(cs, CHOOSE a \in nb : \A b \in nb : a <= b, CHOOSE a \in nb : \A b \in nb : b <= a)
\* maximal runs of non-blank characters (a scanner with the current run as state)
SplitWS(cs) == LET RECURSIVE scan(_, _, _)
                   scan(j, cur, acc) ==
                       IF j > Len(cs) THEN (IF cur = <<>> THEN acc ELSE Append(acc, cur))
                       ELSE IF IsWS(cs[j]) THEN scan(j + 1, <<>>, IF cur = <<>> THEN acc ELSE Append(acc, cur))
                       ELSE scan(j + 1, Append(cur, cs[j]), acc)
               IN scan(1, <<>>, <<>>)
\* the pieces between occurrences of ch (empty pieces kept)
SplitOn(cs, ch) == LET RECURSIVE scan(_, _, _)
                       scan(j, cur, acc) ==
                           IF j > Len(cs) THEN Append(acc, cur)
                           ELSE IF cs[j] = ch THEN scan(j + 1, <<>>, Append(acc, cur))
                           ELSE scan(j + 1, Append(cur, cs[j]), acc)
                   IN scan(1, <<>>, <<>>)
\* the pieces inside quotes: 2nd, 4th, ...
Quoted(cs) == LET ps == SplitOn(cs, QUOTE) IN [j \in 1..(Len(ps) \div 2) |-> ps[2 * j]]

\* ---------------- numbers as written ----------------
\* floor(log10 a) for a > 0
Exp10(a) == LET RECURSIVE up(_) RECURSIVE dn(_)
                up(e) == IF RLt(a, RPow("10", e + 1)) THEN e ELSE up(e + 1)
                dn(e) == IF RGeq(a, RPow("10", e)) THEN e ELSE dn(e - 1)
            IN IF RGeq(a, "1") THEN up(0) ELSE dn(-1)
\* v rounded to p significant decimal digits (what "%.<p>g" denotes; ties away from zero)
RoundSig(v, p) == IF RIsZero(v) THEN "0"
                  ELSE LET a  == RAbs(v)
                           sc == RPow("10", p - 1 - Exp10(a))
                           r  == RDiv(RInt(RFloor(RAdd(RMul(a, sc), "1/2"))), sc)
                       IN IF RSign(v) < 0 THEN RNeg(r) ELSE r
Fmt(v, p) == IF IsNum(v) THEN RoundSig(v, p) ELSE v
\* "the same value to the written precision": p significant digits
WithinPrecision(v, t, p) == IF IsNum(v) THEN IsNum(t) /\ RLeq(RAbs(RSub(t, v)), RMul(RMul("5", RPow("10", -p)), RAbs(v)))
                            ELSE t = v

\* ---------------- Write ----------------
CommentLine(c) == <<"#", " ">> \o Strip(c)
DimsText(sh)   == Concat([j \in 1..Len(sh) |-> Digits(sh[j]) \o <<" ">>])
LabelsText(ids) == Concat([j \in 1..Len(ids) |-> <<" ", QUOTE>> \o ids[j] \o <<QUOTE>>])
HeaderLine(s, fmi) == DimsText(s.sh) \o (IF fmi THEN (IF s.f THEN FoldedW ELSE UnfoldedW) \o LabelsText(s.ids) ELSE <<>>)
DataLine(s, p) == [k \in 1..Size(s.sh) |-> Fmt(s.d[k], p)]
MaskLine(s)    == [k \in 1..Size(s.sh) |-> IF s.m[k] THEN "1" ELSE "0"]
\* fmi = foldmaskinfo; FALSE gives the pre-1.3 format
Write(s, p, comments, fmi) ==
    [pre  |-> [j \in 1..Len(comments) |-> CommentLine(comments[j])] \o <<HeaderLine(s, fmi)>>,
     body |-> <<DataLine(s, p)>> \o (IF fmi THEN <<MaskLine(s)>> ELSE <<>>)]

\* ---------------- Read ----------------
IsCommentLine(cs) == cs # <<>> /\ cs[1] = "#"
ParseHeader(hdr) ==
    LET toks  == SplitWS(hdr)
        marks == {j \in 1..Len(toks) : toks[j] \in {FoldedW, UnfoldedW}}
        isNew == marks # {}
        fpos  == IF isNew THEN CHOOSE j \in marks : \A m \in marks : j <= m ELSE Len(toks) + 1
    IN  [ok     |-> fpos > 1 /\ \A j \in 1..(fpos - 1) : IsIntText(toks[j]),
         sh     |-> [j \in 1..(fpos - 1) |-> ParseInt(toks[j])],
         f      |-> isNew /\ toks[fpos] = FoldedW,
         ids    |-> IF isNew /\ Len(toks) > fpos THEN Quoted(hdr) ELSE <<>>]
\* mc = mask_corners option of the reader
Read(file, mc) ==
    LET np   == Len(file.pre)
        h    == IF np = 0 THEN [ok |-> FALSE] ELSE ParseHeader(file.pre[np])
        n    == Size(h.sh)
        hasM == Len(file.body) >= 2 /\ file.body[2] # <<>>
    IN  IF np = 0 \/ (\E j \in 1..(np - 1) : ~IsCommentLine(file.pre[j])) \/ IsCommentLine(file.pre[np]) \/ ~h.ok
           \/ Len(file.body) < 1 \/ Len(file.body[1]) < n \/ (hasM /\ Len(file.body[2]) < n)
        THEN [ok |-> FALSE]
        ELSE [ok |-> TRUE,
              s  |-> [sh |-> h.sh,
                      d  |-> [k \in 1..n |-> file.body[1][k]],
                      m  |-> [k \in 1..n |-> (hasM /\ file.body[2][k] # "0") \/ (mc /\ IsCornerK(h.sh, k))],
                      f  |-> h.f, ids |-> h.ids],
              comments |-> [j \in 1..(np - 1) |-> Strip(Tail(file.pre[j]))]]

\* ---------------- generic array writer / reader (Numerics) ----------------
\* masked entries are written as nan
ArrayWrite(a, p, comments) ==
    [pre  |-> [j \in 1..Len(comments) |-> CommentLine(comments[j])] \o <<DimsText(a.sh)>>,
     body |-> <<[k \in 1..Size(a.sh) |-> IF a.m[k] THEN "nan" ELSE Fmt(a.d[k], p)]>>]
ArrayRead(file) == LET r == Read(file, FALSE) IN
                   IF ~r.ok THEN r ELSE [ok |-> TRUE, a |-> [sh |-> r.s.sh, d |-> r.s.d], comments |-> r.comments]

\* ---------------- several arrays in one open handle ----------------
\* array_to_file / array_from_file accept an open file object instead of a name, so that several arrays can be
\* written one after another into one file and read back one after another from one handle.
\* A handle is [lines, pos]: the lines of the underlying file and the number of lines already consumed.
\* A line is [c |-> its characters, t |-> its whitespace-separated tokens]: comment and dimension lines are
\* looked at as characters, data lines as tokens (a writer fills in the view that is its to define).
TextLine(cs) == [c |-> cs, t |-> <<>>]
NumLine(ts)  == [c |-> <<>>, t |-> ts]
FileLines(file) == [j \in 1..Len(file.pre) |-> TextLine(file.pre[j])] \o [j \in 1..Len(file.body) |-> NumLine(file.body[j])]
EmptyHandle == [lines |-> <<>>, pos |-> 0]
\* the writer appends its lines to the handle
HandleWrite(h, a, p, comments) == [h EXCEPT !.lines = @ \o FileLines(ArrayWrite(a, p, comments))]
\* number of comment lines at the current position
CommentRun(h) == LET RECURSIVE run(_)
                     run(j) == IF h.pos + j + 1 <= Len(h.lines) /\ IsCommentLine(h.lines[h.pos + j + 1].c) THEN run(j + 1) ELSE j
                 IN run(0)
\* the file the reader sees at the current position: comment lines, the dimension line, ONE data line
HandleFile(h) == LET nc == CommentRun(h) IN
                 [pre  |-> [j \in 1..(nc + 1) |-> h.lines[h.pos + j].c], body |-> <<h.lines[h.pos + nc + 2].t>>]
\* the reader returns the array at the current position and leaves the handle positioned after its data line
HandleRead(h) == LET last == h.pos + CommentRun(h) + 2 IN
                 IF last > Len(h.lines) THEN [ok |-> FALSE]
                 ELSE LET r == ArrayRead(HandleFile(h)) IN
                      IF ~r.ok THEN [ok |-> FALSE]
                      ELSE [ok |-> TRUE, a |-> r.a, comments |-> r.comments, h |-> [h EXCEPT !.pos = last]]
\* what is left in the handle
HandleRest(h) == SubSeq(h.lines, h.pos + 1, Len(h.lines))
\* number of lines one written array occupies
LinesOf(comments) == Len(comments) + 2

\* ---------------- pickling: the reduce tuple and its inverse ----------------
Pickle(s, x)  == [data |-> [sh |-> s.sh, d |-> s.d], mask |-> [sh |-> s.sh, m |-> s.m], folded |-> s.f, pop_ids |-> s.ids, extrap_x |-> x]
Unpickle(t)   == [s |-> [sh |-> t.data.sh, d |-> t.data.d, m |-> t.mask.m, f |-> t.folded, ids |-> t.pop_ids], x |-> t.extrap_x]

\* ---------------- the round-trip relation of the statement ----------------
\* back = what a reader returned for a file written from s with precision p
SameValues(d, d2, p, slack) ==
    Len(d) = Len(d2) /\ \A k \in 1..Len(d) :
        IF IsNum(d[k]) THEN IsNum(d2[k]) /\ RLeq(RAbs(RSub(d2[k], d[k])), RMul(RAdd(RMul("5", RPow("10", -p)), slack), RAbs(d[k])))
        ELSE d2[k] = d[k]
ExpectedMask(s, fmi, mc) == [k \in 1..Size(s.sh) |-> (fmi /\ s.m[k]) \/ (mc /\ IsCornerK(s.sh, k))]
RoundTripOK(s, p, comments, fmi, mc, back, slack) ==
    /\ back.ok
    /\ back.s.sh = s.sh
    /\ SameValues(s.d, back.s.d, p, slack)
    /\ back.s.m = ExpectedMask(s, fmi, mc)
    /\ back.s.f = (fmi /\ s.f)
    /\ back.s.ids = (IF fmi THEN s.ids ELSE <<>>)
    /\ back.comments = [j \in 1..Len(comments) |-> Strip(comments[j])]
\* back = what the reader returned for an array a written with precision p and these comments
ArrayRoundTripOK(a, p, comments, back, slack) ==
    /\ back.ok
    /\ back.a.sh = a.sh
    /\ SameValues([k \in 1..Size(a.sh) |-> IF a.m[k] THEN "nan" ELSE a.d[k]], back.a.d, p, slack)
    /\ back.comments = [j \in 1..Len(comments) |-> Strip(comments[j])]
=============================================================================
