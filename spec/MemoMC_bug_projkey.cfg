\* DEFECTIVE design (must be refuted): _projection_cache key without proj_from
CONSTANTS
  MaxDepth = 2
  BaseSel = "memo"
  LaySel = "C"
  ProjKeyMode = "no_from"
  DbetaKeyMode = "full"
  PartKeyMode = "full"
  EntryMode = "copy_all"
  XXMode = "contig"
  GodMode = "object"
  DemesMode = "pure"
  PerturbMode = "pure"
  HashMode = "ordered"
  SFSMode = "copies"
  VectorMode = "copies"
  MaskMode = "setter"
  KernelMode = "stateless"
  MaxTable = 60
SPECIFICATION Spec
CHECK_DEADLOCK FALSE
CONSTRAINT TableBound
VIEW MCView
INVARIANT TypeOK
INVARIANT AlphabetOK
INVARIANT TablesSound
INVARIANT ResultIndependentOfHistory
INVARIANT ResultIndependentOfHashSeed
INVARIANT LayoutIndependent
INVARIANT ArgumentsUnchanged
INVARIANT ResultIsFresh
