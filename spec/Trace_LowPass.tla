--------------------------- MODULE Trace_LowPass ---------------------------
(***************************************************************************)
(* Trace validation for module LowPass (property C18).  Each record is one *)
(* call of a function of dadi.LowPass.LowPass with its exact inputs and    *)
(* the raw observed result; it is judged against the module's operator for *)
(* that call and against the closure clauses of the property.  The verdict *)
(* for a record is the set of violated clause names.                       *)
(***************************************************************************)
EXTENDS LowPass, TLC, Json, IOUtils
CONSTANTS Tau,       \* relative tolerance, float-evaluated rational formulas          "1/10000000000"
          TauLog,    \* relative tolerance where dadi goes through lgamma / exp        "1/1000000000"
          DeepDepth, \* "deep coverage": every individual has at least this many reads  50
          KSigma     \* simulated regime at deep coverage: allowed deviation in standard errors  8

Trace == JsonDeserialize(IOEnv.TRACE_FILE)
VARIABLE i
F(name, ok) == IF ok THEN {} ELSE {name}
Raised(r) == "raised" \in DOMAIN r.out
OnePlus(t) == RAdd("1", t)
Tiny == "1/1000000000000000000000000000000000000000000000000000000000000"

IsNumSeq(v) == \A j \in 1..Len(v) : IsNum(v[j])
IsNumMat(M) == \A x \in 1..Len(M) : IsNumSeq(M[x])
\* closure clauses on observed (float) objects
NonNegSeq(v)  == \A j \in 1..Len(v) : RNonNeg(v[j])
SumsToOne(v)  == RLeq(RAbs(RSub(RSum(v), "1")), Tau)
DistObs(v)    == IsNumSeq(v) /\ NonNegSeq(v) /\ SumsToOne(v)
In01(a)       == IsNum(a) /\ RNonNeg(a) /\ RLeq(a, OnePlus(Tau))
TolFor(Fv)    == IF Fv = "0" THEN Tau ELSE TauLog
TolForAll(Fs) == IF \A p \in 1..Len(Fs) : Fs[p] = "0" THEN Tau ELSE TauLog
CloseSeq(got, exact, tol) == Len(got) = Len(exact) /\ \A j \in 1..Len(exact) : RCloseRel(got[j], exact[j], tol, Tiny)
CloseMat(got, exact, tol) == Len(got) = Len(exact) /\ \A x \in 1..Len(exact) : CloseSeq(got[x], exact[x], tol)
ShapeMat(M, rows, cols) == Len(M) = rows /\ \A x \in 1..Len(M) : Len(M[x]) = cols

\* ---- partitions and their probabilities ----
PartOK(part, x, n) == Len(part) = n /\ (\A j \in 1..n : part[j] \in 0..2) /\ AltCount(CountsOf(part)) = x
\* the observed list enumerates all and only the configurations of allele count x, each once
PartsAllAndOnly(parts, x, n) ==
    /\ \A j \in 1..Len(parts) : PartOK(parts[j], x, n)
    /\ {CountsOf(parts[j]) : j \in 1..Len(parts)} = Configs(x, n)
    /\ Len(parts) = Cardinality(Configs(x, n))
FPartsOne(parts, probs, x, n, Fv, tag) ==
    F(tag \o "AllAndOnly", PartsAllAndOnly(parts, x, n)) \cup
    F(tag \o "ProbLen", Len(probs) = Len(parts)) \cup
    (IF PartsAllAndOnly(parts, x, n) /\ Len(probs) = Len(parts)
     THEN LET pp == PartProbs(x, n, Fv) IN
          F(tag \o "ProbValue", \A j \in 1..Len(parts) : RCloseRel(probs[j], pp[CountsOf(parts[j])], TolFor(Fv), Tiny)) \cup
          F(tag \o "ProbSumOne", DistObs(probs))
     ELSE {})
FPartsAF(r) == IF Raised(r) THEN {"PartsRaised"}
               ELSE FPartsOne(r.out.parts, r.out.probs, r.in.x, r.in.nseq \div 2, RNorm(r.in.F), "Parts")
FPartsGT(r) == IF Raised(r) THEN {"PartsRaised"}
               ELSE F("PartsPerAlleleCount", Len(r.out.parts) = r.in.nseq + 1 /\ Len(r.out.probs) = r.in.nseq + 1) \cup
                    (IF Len(r.out.parts) = r.in.nseq + 1 /\ Len(r.out.probs) = r.in.nseq + 1
                     THEN UNION {FPartsOne(r.out.parts[x + 1], r.out.probs[x + 1], x, r.in.nseq \div 2, RNorm(r.in.F), "Parts") : x \in 0..r.in.nseq}
                     ELSE {})
FPartInb(r) == IF Raised(r) THEN {"PartInbRaised"}
               ELSE LET cs == [j \in 1..Len(r.in.parts) |-> CountsOf(r.in.parts[j])] IN
                    F("PartInbValue", CloseSeq(r.out.probs, PartInbList(cs, RNorm(r.in.F)), TauLog)) \cup
                    F("PartInbSumOne", DistObs(r.out.probs))

\* ---- subsampling ----
FProjInb(r) == IF Raised(r) THEN {"ProjInbRaised"}
               ELSE F("ProjInbValue", CloseSeq(r.out.v, ProjInb(CountsOf(r.in.part), r.in.k), Tau)) \cup
                    F("ProjInbDist", DistObs(r.out.v))
RowStochObs(M) == IsNumMat(M) /\ \A x \in 1..Len(M) : DistObs(M[x])
FProjMat(r) == IF Raised(r) THEN {"ProjMatRaised"}
               ELSE LET Fv == RNorm(r.in.F) IN
                    F("ProjMatShape", ShapeMat(r.out.M, r.in.nseq + 1, r.in.nsub + 1)) \cup
                    F("ProjMatValue", CloseMat(r.out.M, ProjectionMatrix(r.in.nseq, r.in.nsub, Fv), TolFor(Fv))) \cup
                    F("ProjMatRowStochastic", RowStochObs(r.out.M))

\* ---- calling ----
FCem(r) == IF Raised(r) THEN {"CallErrRaised"}
           ELSE LET Fv == RNorm(r.in.F) IN
                F("CallErrShape", ShapeMat(r.out.M, r.in.nsub + 1, r.in.nsub + 1)) \cup
                F("CallErrValue", CloseMat(r.out.M, CallingErrorMatrix(r.in.cov, r.in.nsub, Fv), TauLog)) \cup
                F("CallErrRowStochastic", RowStochObs(r.out.M))
FNoCall(r) == IF Raised(r) THEN {"NoCallRaised"}
              ELSE LET Fv == RNorm(r.in.F) IN
                   F("NoCallValue", CloseSeq(r.out.v, NoCall(r.in.cov, r.in.nseq, Fv), TolFor(Fv))) \cup
                   F("NoCallIn01", \A j \in 1..Len(r.out.v) : In01(r.out.v[j]))
FEnough(r) == IF Raised(r) THEN {"EnoughRaised"}
              ELSE F("EnoughValue", RCloseRel(r.out.v, EnoughCovered(r.in.cov, r.in.nseq, r.in.nsub), Tau, Tiny)) \cup
                   F("EnoughIn01", In01(r.out.v))

\* ---- precomputed components for P populations ----
SimKeysOK(sims, usesim, sh) ==
    /\ {sims[j].af : j \in 1..Len(sims)} = {Unflat(sh, k) : k \in {kk \in 1..Size(sh) : usesim[kk]}}
    /\ Len(sims) = Cardinality({k \in 1..Size(sh) : usesim[k]})
SimClosure(sims, shsub) == \A j \in 1..Len(sims) : Len(sims[j].d) = Size(shsub) /\ DistObs(sims[j].d)
SubStochObs(M) == IsNumMat(M) /\ \A x \in 1..Len(M) : NonNegSeq(M[x]) /\ RLeq(RSum(M[x]), OnePlus(Tau))
FPrecalc(r) ==
    IF Raised(r) THEN {"PrecalcRaised"}
    ELSE LET P == Len(r.in.nseq)
             Fs == [p \in 1..P |-> RNorm(r.in.F[p])]
             sh == ShapeOf(r.in.nseq)
             o == r.out
         IN  F("NoCallNDValue", CloseSeq(o.nocall, NoCallND(r.in.covs, r.in.nseq, Fs), TolForAll(Fs))) \cup
             F("NoCallNDIn01", \A k \in 1..Len(o.nocall) : In01(o.nocall[k])) \cup
             F("RegimeSwitch", Len(o.usesim) = Size(sh) /\ Len(o.nocall) = Size(sh) /\ IsNumSeq(o.nocall) /\
                               \A k \in 1..Size(sh) : o.usesim[k] = RLt(RNorm(r.in.thr), o.nocall[k])) \cup
             \* each subsampling matrix is the projection matrix times a survival factor lam[p] = its first entry
             F("SubsampleMatValue", \A p \in 1..P : ShapeMat(o.proj[p], r.in.nseq[p] + 1, r.in.nsub[p] + 1) /\ IsNum(o.proj[p][1][1]) /\
                                       CloseMat(o.proj[p], ScaleMat(o.proj[p][1][1], ProjectionMatrix(r.in.nseq[p], r.in.nsub[p], Fs[p])), TolFor(Fs[p]))) \cup
             \* the factor is dadi's (enough individuals covered in all populations) or the population's own probability;
             \* C18 does not say how the factor is spread over the populations, only that it is a probability
             F("SurvivalFactor", \A p \in 1..P : Len(o.proj[p]) >= 1 /\ Len(o.proj[p][1]) >= 1 /\ In01(o.proj[p][1][1]) /\
                                    (\/ RCloseRel(o.proj[p][1][1], SurvivalAll(r.in.covs, r.in.nseq, r.in.nsub), Tau, Tiny)
                                     \/ RCloseRel(o.proj[p][1][1], EnoughCovered(r.in.covs[p], r.in.nseq[p], r.in.nsub[p]), Tau, Tiny))) \cup
             F("SubsampleMatSubStochastic", \A p \in 1..P : SubStochObs(o.proj[p])) \cup
             F("CallErrValue", \A p \in 1..P : CloseMat(o.heterr[p], CallingErrorMatrix(r.in.covs[p], r.in.nsub[p], Fs[p]), TauLog)) \cup
             F("CallErrRowStochastic", \A p \in 1..P : RowStochObs(o.heterr[p])) \cup
             F("SimulatedEntries", Len(o.usesim) = Size(sh) /\ SimKeysOK(o.sims, o.usesim, sh)) \cup
             F("SimulatedClosure", SimClosure(o.sims, ShapeOf(r.in.nsub)))

\* ---- the corrected model: composition of the observed components ----
TotalNotIncreased(out, s) == RLeq(RSum(out.d), RMul(OnePlus(Tau), RSum(s.d)))
CompsFinite(c) == /\ IsNumSeq(c.nocall)
                  /\ \A p \in 1..Len(c.proj) : IsNumMat(c.proj[p]) /\ IsNumMat(c.heterr[p])
                  /\ \A j \in 1..Len(c.sims) : IsNumSeq(c.sims[j].d)
FApply(r) ==
    IF Raised(r) THEN {"ApplyRaised"}
    ELSE IF ~CompsFinite(r.in.pre) \/ ~IsNumSeq(r.in.s.d) THEN {"ApplyComponentsNotFinite"}
    ELSE LET s == r.in.s
             c == r.in.pre
             exp == Compose(s.sh, Zeroed(s), c.nocall, c.usesim, c.proj, c.heterr, c.sims)
             o == r.out.s
             floor == RMul("1/1000000000000000000000000000000", RSeqMaxAbs(exp.d))
         IN  F("ApplyShape", o.sh = ShapeOf(r.in.nsub) /\ Len(o.d) = Size(o.sh)) \cup
             (IF o.sh = exp.sh /\ Len(o.d) = Size(o.sh)
              THEN F("ApplyComposition", \A k \in 1..Size(exp.sh) : RCloseRel(o.d[k], exp.d[k], Tau, floor)) ELSE {}) \cup
             F("ApplyNonNegative", IsNumSeq(o.d) /\ NonNegSeq(o.d)) \cup
             F("ApplyTotalNotIncreased", IsNumSeq(o.d) /\ TotalNotIncreased(o, s))

\* ---- deep coverage in every individual ----
IsDeep(cov) == \A d \in 1..Len(cov) : RPos(cov[d]) => d - 1 >= DeepDepth
FDeep(r) ==
    IF Raised(r) THEN {"DeepRaised"}
    ELSE LET s == r.in.s
             P == Len(r.in.nseq)
             Fs == [p \in 1..P |-> RNorm(r.in.F[p])]
             o == r.out.s
             lim == DeepLimit(s, r.in.nseq, r.in.nsub, Fs)
             \* at depth >= DeepDepth = 50 the miscall and no-call terms are below n (1 + d) 2^-d < 1e-12
             floor == RMul("1/1000000000000", RSeqMaxAbs(lim.d))
             plain == \A p \in 1..P : Fs[p] = "0"
             pr == Project([s EXCEPT !.f = FALSE], r.in.nsub)
         IN  F("DeepInput", \A p \in 1..P : IsDeep(r.in.covs[p])) \cup
             F("DeepShape", o.sh = lim.sh /\ Len(o.d) = Size(o.sh)) \cup
             (IF o.sh = lim.sh /\ Len(o.d) = Size(o.sh)
              \* cell 1 = "alternative allele absent from the subsample" is not compared: a monomorphic site is never called
              \* variant, whatever the coverage (NoCall[0] = 1), and that cell is a corner the plain projection leaves undefined
              THEN F("DeepEqualsSubsampling", \A k \in 2..Size(lim.sh) : RCloseRel(o.d[k], lim.d[k], TolForAll(Fs), floor)) \cup
                   (IF plain THEN F("DeepEqualsProjection", \A k \in 2..Size(pr.sh) : (~pr.m[k] /\ ~o.m[k]) => RCloseRel(o.d[k], pr.d[k], Tau, floor))
                    ELSE {})
              ELSE {}) \cup
             F("DeepTotalNotIncreased", IsNumSeq(o.d) /\ TotalNotIncreased(o, s))

\* ---- deep coverage, simulated regime: the corrected model is within the sampling error of the subsampled model ----
\* Model entry j (allele counts jx) is replaced by M[j] * D_j, D_j = histogram of N_j simulated loci, stratified over the
\* genotype configurations: stratum s gets int(nsim p_s) loci, so N_j >= nlow_j = nsim - (number of configurations of j).
\* At deep coverage every locus is called correctly, hence E D_j[k] = q_j[k] (row of the subsampling matrices) up to the
\* stratum-weight truncation |w_s - p_s| summing to at most 2 nparts_j / nlow_j, and Var D_j[k] <= q(1-q)/nlow_j.
\* Accepted iff for every cell k
\*    |out[k] - lim[k]| <= bias + KSigma * sqrt(V[k]),
\*    bias = sum_j M[j] 2 nparts_j / nlow_j + 1e-12 max|lim|,   V[k] = sum_j M[j]^2 (q_j[k](1-q_j[k]) + 1/nlow_j) / nlow_j
\* (the 1/nlow_j term keeps the bound above a few loci for rare cells); evaluated without square roots.
FDeepSim(r) ==
    IF Raised(r) THEN {"DeepSimRaised"}
    ELSE LET s == r.in.s
             P == Len(r.in.nseq)
             Fs == [p \in 1..P |-> RNorm(r.in.F[p])]
             o == r.out.s
             sh == s.sh
             sh2 == ShapeOf(r.in.nsub)
             d0 == Zeroed(s)
             pj == Tab([p \in 1..P |-> ProjectionMatrix(r.in.nseq[p], r.in.nsub[p], Fs[p])])
             lim == ContractAll(sh, d0, Tab([p \in 1..P |-> <<pj[p]>>]), 1)
             nparts == Tab([j \in 1..Size(sh) |-> LET jx == Unflat(sh, j) IN
                              IProd(Tab([p \in 1..P |-> Cardinality(Configs(jx[p], r.in.nseq[p] \div 2))]))])
             enough == \A j \in 1..Size(sh) : r.in.nsim - nparts[j] >= 1
             nlow == Tab([j \in 1..Size(sh) |-> RInt(r.in.nsim - nparts[j])])
             bias == RAdd(RSum([j \in 1..Size(sh) |-> RDiv(RMul(d0[j], RInt(2 * nparts[j])), nlow[j])]),
                          RMul("1/1000000000000", RSeqMaxAbs(lim.d)))
             q(j, k) == LET jx == Unflat(sh, j) kx == Unflat(sh2, k) IN IProdR([p \in 1..P |-> pj[p][jx[p] + 1][kx[p] + 1]])
             var(k) == RSum([j \in 1..Size(sh) |-> IF d0[j] = "0" THEN "0" ELSE
                              LET qq == q(j, k) IN RDiv(RMul(RSq(d0[j]), RAdd(RMul(qq, RSub("1", qq)), RDiv("1", nlow[j]))), nlow[j])])
             within(k) == LET ex == RSub(RAbs(RSub(o.d[k], lim.d[k])), bias) IN
                          IsNum(o.d[k]) /\ (RSign(ex) <= 0 \/ RLeq(RSq(ex), RMul(RInt(KSigma * KSigma), var(k))))
         IN  F("DeepInput", \A p \in 1..P : IsDeep(r.in.covs[p])) \cup
             F("DeepSimEnoughSimulations", enough) \cup
             F("DeepSimShape", o.sh = sh2 /\ Len(o.d) = Size(sh2)) \cup
             (IF enough /\ o.sh = sh2 /\ Len(o.d) = Size(sh2) /\ IsNumSeq(o.d)
              THEN F("DeepSimWithinSamplingError", \A k \in 2..Size(sh2) : within(k)) ELSE {}) \cup
             F("DeepSimNonNegative", IsNumSeq(o.d) /\ NonNegSeq(o.d)) \cup
             F("DeepTotalNotIncreased", IsNumSeq(o.d) /\ TotalNotIncreased(o, s))

\* ---- simulated regime: closure only (the path is random) ----
FSimCalling(r) ==
    IF Raised(r) THEN {"SimRaised"}
    ELSE F("SimShape", r.out.sh = ShapeOf(r.in.nsub) /\ Len(r.out.d) = Size(r.out.sh)) \cup
         F("SimDistribution", DistObs(r.out.d))
\* reads of simulated individuals: a homozygote never shows the other allele, depths come from the support of cov
FSimReads(r) ==
    IF Raised(r) THEN {"SimReadsRaised"}
    ELSE LET g == r.in.partition
             nind == Len(g)
             cov == r.in.cov
         IN  F("SimReadsShape", Len(r.out.ref) = r.in.nsim /\ Len(r.out.alt) = r.in.nsim /\
                                \A t \in 1..r.in.nsim : Len(r.out.ref[t]) = nind /\ Len(r.out.alt[t]) = nind) \cup
             (IF Len(r.out.ref) = r.in.nsim /\ Len(r.out.alt) = r.in.nsim /\ \A t \in 1..r.in.nsim : Len(r.out.ref[t]) = nind /\ Len(r.out.alt[t]) = nind
              THEN F("SimReadsGenotype", \A t \in 1..r.in.nsim : \A j \in 1..nind :
                        LET a == r.out.alt[t][j] b == r.out.ref[t][j] IN
                        /\ a >= 0 /\ b >= 0
                        /\ (g[j] = 0 => a = 0) /\ (g[j] = 2 => b = 0)
                        /\ a + b <= Len(cov) - 1 /\ RPos(cov[a + b + 1]))
              ELSE {})
\* subsampling called genotypes: rows with fewer than nsub/2 calls are dropped, the others are grouped by
\* their number of calls (ascending, order kept) and reduced to nsub/2 of their called genotypes
FSubsample(r) ==
    IF Raised(r) THEN {"SubsampleRaised"}
    ELSE LET calls == r.in.calls
             h == r.in.nsub \div 2
             ncalled(t) == Cardinality({j \in 1..Len(calls[t]) : calls[t][j] # 99})
             keep == {t \in 1..Len(calls) : ncalled(t) >= h}
             cnt(row, g) == Cardinality({j \in 1..Len(row) : row[j] = g})
             rows == r.out.rows
         IN  F("SubsampleRowCount", Len(rows) = Cardinality(keep)) \cup
             F("SubsampleRowLength", \A t \in 1..Len(rows) : Len(rows[t]) = h) \cup
             F("SubsampleFromCalled", \A t \in 1..Len(rows) : \E u \in keep : \A g \in 0..2 : cnt(rows[t], g) <= cnt(calls[u], g)) \cup
             F("SubsampleOnlyCalled", \A t \in 1..Len(rows) : \A j \in 1..Len(rows[t]) : rows[t][j] \in 0..2)

Failed(r) ==
    CASE r.op = "parts_af"    -> FPartsAF(r)
      [] r.op = "parts_gt"    -> FPartsGT(r)
      [] r.op = "part_inb"    -> FPartInb(r)
      [] r.op = "proj_inb"    -> FProjInb(r)
      [] r.op = "proj_mat"    -> FProjMat(r)
      [] r.op = "cem"         -> FCem(r)
      [] r.op = "nocall"      -> FNoCall(r)
      [] r.op = "enough"      -> FEnough(r)
      [] r.op = "precalc"     -> FPrecalc(r)
      [] r.op = "apply"       -> FApply(r)
      [] r.op = "deep"        -> FDeep(r)
      [] r.op = "deep_sim"    -> FDeepSim(r)
      [] r.op = "sim_calling" -> FSimCalling(r)
      [] r.op = "sim_reads"   -> FSimReads(r)
      [] r.op = "subsample"   -> FSubsample(r)
      [] OTHER                -> {"UnknownOp"}

Init == i = 0
Next == /\ i < Len(Trace)
        /\ i' = i + 1
        /\ LET r == Trace[i + 1] f == Failed(r) IN IF f = {} THEN TRUE ELSE PrintT(<<"BAD", r.id, f>>)
Spec == Init /\ [][Next]_i
Done == (i = Len(Trace)) => PrintT(<<"DONE", i>>)
AllConsumed == TLCGet("stats").diameter - 1 = Len(Trace)
=============================================================================
