CONSTANTS
  TolLayout = "1/10000000000000"
  MaxDepth = 40
  BaseSel = "all"
  LaySel = "all"
  ProjKeyMode = "full"
  DbetaKeyMode = "full"
  PartKeyMode = "full"
  EntryMode = "copy_all"
  XXMode = "contig"
  GodMode = "object"
  DemesMode = "pure"
  PerturbMode = "pure"
  HashMode = "ordered"
  SFSMode = "copies"
  VectorMode = "copies"
  MaskMode = "setter"
  KernelMode = "stateless"
  MaxTable = 100000
SPECIFICATION TSpec
CHECK_DEADLOCK FALSE
INVARIANT Done
POSTCONDITION AllConsumed
