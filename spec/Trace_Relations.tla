--------------------------- MODULE Trace_Relations ---------------------------
(***************************************************************************)
(* Relational records: several runs of the real code whose results must    *)
(* stand in a stated relation (linearity, equality under re-expression,    *)
(* marginal of a run = run of the marginal, refinement ratios).  The       *)
(* relation itself is decided here, on the exact values recorded.          *)
(***************************************************************************)
EXTENDS Scheme, TLC, Json, IOUtils
CONSTANTS TauLin

Trace == JsonDeserialize(IOEnv.TRACE_FILE)
VARIABLE i
F(name, ok) == IF ok THEN {} ELSE {name}
AllNum(q) == \A j \in 1..Len(q) : IsNum(q[j])
\* |x - y| <= tau * max|y|, entry-wise over two flat arrays
SameArr(x, y, tau) == /\ Len(x) = Len(y) /\ AllNum(x) /\ AllNum(y)
                      /\ LET sc == RSeqMaxAbs(y) IN \A q \in 1..Len(y) : RLeq(RAbs(RSub(x[q], y[q])), RMul(tau, sc))

\* out3 = a*out1 + b*out2
FLinear(r) == IF "raised" \in DOMAIN r.out THEN {"Raised"} ELSE
    LET comb == [q \in 1..Len(r.out.o1) |-> RAdd(RMul(r.in.a, r.out.o1[q]), RMul(r.in.b, r.out.o2[q]))]
    IN  F("LinearInDensityAndTheta", AllNum(r.out.o1) /\ AllNum(r.out.o2) /\ Len(r.out.o2) = Len(r.out.o1) /\ SameArr(r.out.o3, comb, TauLin))
\* the same model expressed in two ways gives the same result; r.in.law names the relation
FSame(r) == IF "raised" \in DOMAIN r.out THEN {r.in.law \o "/Raised"} ELSE F(r.in.law, SameArr(r.out.x, r.out.y, TauLin))
\* marginal over the complement of keep of the full run = the run of the marginal alone (interior indices of the kept axes)
FSubset(r) == IF "raised" \in DOMAIN r.out THEN {"Raised"} ELSE
    LET full == [sh |-> r.in.sh, d |-> r.out.full]
        keep == {r.in.keep[j] : j \in 1..Len(r.in.keep)}
        shk == [j \in 1..Len(r.in.keep) |-> r.in.sh[r.in.keep[j]]]
        interior(jx) == \A j \in 1..Len(jx) : jx[j] >= 1 /\ jx[j] <= shk[j] - 2
        val(jx) == MarginalAt(full, r.in.grids, keep, [a \in keep |-> jx[CHOOSE j \in 1..Len(r.in.keep) : r.in.keep[j] = a]])
        sc == RSeqMaxAbs(r.out.alone)
    IN  F("IsolatedSubsetMarginal", AllNum(r.out.full) /\ AllNum(r.out.alone) /\ Len(r.out.alone) = Size(shk) /\
            \A q \in 1..Size(shk) : LET jx == Unflat(shk, q) IN
                interior(jx) => RLeq(RAbs(RSub(val(jx), r.out.alone[q])), RMul(TauLin, sc)))
\* refinement: err2 <= ratio * err1 + floor (both errors are recorded distances, the relation is decided here)
FRefine(r) == F(r.in.law, IsNum(r.out.e1) /\ IsNum(r.out.e2) /\ RLeq(r.out.e2, RAdd(RMul(r.in.ratio, r.out.e1), r.in.floor)))

Failed(r) ==
    CASE r.op = "linear" -> FLinear(r)
      [] r.op = "same"   -> FSame(r)
      [] r.op = "subset" -> FSubset(r)
      [] r.op = "refine" -> FRefine(r)
      [] OTHER           -> {"UnknownOp"}

Init == i = 0
Next == /\ i < Len(Trace)
        /\ i' = i + 1
        /\ LET r == Trace[i + 1] f == Failed(r) IN IF f = {} THEN TRUE ELSE PrintT(<<"BAD", r.id, f>>)
Spec == Init /\ [][Next]_i
Done == (i = Len(Trace)) => PrintT(<<"DONE", i>>)
AllConsumed == TLCGet("stats").diameter - 1 = Len(Trace)
=============================================================================
