CONSTANTS
  N = 6
  MaxEpochs = 3
SPECIFICATION Spec
CHECK_DEADLOCK FALSE
INVARIANT RefinementInvariant
INVARIANT ConstantIsNeutral
INVARIANT Positive
