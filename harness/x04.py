"""X04 (extension module) - dadi.Triallele: the triallelic frequency spectrum object and the discrete
parts of the triallelic numerics (spec/TriSpectrum.tla, spec/TriSpectrumMC.tla, spec/Trace_TriSpectrum.tla).

The driver builds seeded random triallelic spectra / densities / grids, calls the real
dadi.Triallele (TriSpectrum methods, numerics.*, integration.*, demographics.*) and records the exact
inputs and the raw results (exact rationals).  TLC (Trace_TriSpectrum) decides every record: masks of
the simplex, both foldings, arithmetic, file / pickle round trips, hypergeometric projection,
misidentification, trapezoid weights on the triangle, trinomial sampling of a density, the exact
neutral density, mutation injection, the one-dimensional transition matrices (entries and mass
conservation), moving density to the diagonal, the implicit steps (judged by the residual of the
system they solve) and the well-formedness of what the library models return.
"""
import contextlib, importlib, importlib.util, io, os, pickle, random, shutil, sys, tempfile
from fractions import Fraction
import numpy as np
from . import common
from .common import rat, rats

PROP = 'X04'
MODULES = ['dadi.Triallele']


# --------------------------------------------------------------------------
# loading the code under test
# --------------------------------------------------------------------------
class Lib:
    pass


def load():
    """import dadi.Triallele; if the package cannot be imported, still load the TriSpectrum class from its file so that
    the object part is checked.  Returns (lib, import records)."""
    lib = Lib()
    lib.TS = lib.num = lib.integ = lib.demo = None
    recs = []
    with contextlib.redirect_stdout(io.StringIO()):
        try:
            pkg = importlib.import_module('dadi.Triallele')
            lib.TS, lib.num, lib.integ, lib.demo = pkg.TriSpectrum, pkg.numerics, pkg.integration, pkg.demographics
            recs.append({'id': 'import-0', 'op': 'import', 'site': 'dadi.Triallele', 'in': {'module': 'dadi.Triallele'}, 'out': {'ok': True}})
        except Exception as e:
            recs.append({'id': 'import-0', 'op': 'import', 'site': 'dadi.Triallele', 'in': {'module': 'dadi.Triallele'},
                         'out': {'ok': False, 'raised': type(e).__name__, 'msg': str(e)[:200]}})
            for k in [k for k in sys.modules if k.startswith('dadi.Triallele')]:
                del sys.modules[k]
            try:
                import dadi
                path = os.path.join(os.path.dirname(dadi.__file__), 'Triallele', 'TriSpectrum_mod.py')
                spec = importlib.util.spec_from_file_location('x04_TriSpectrum_mod', path)
                mod = importlib.util.module_from_spec(spec)
                sys.modules['x04_TriSpectrum_mod'] = mod          # (pickle looks the class up by module name)
                spec.loader.exec_module(mod)
                lib.TS = mod.TriSpectrum
            except Exception:
                lib.TS = None
    return lib, recs


# --------------------------------------------------------------------------
# encoding
# --------------------------------------------------------------------------
def opt_rat(v):
    return 'None' if v is None else rat(float(v))


def enc(fs):
    """TriSpectrum -> abstract spectrum [n, d, m, fm, fa, ex, et] (+ flags_ok: both folding attributes are booleans)"""
    fm, fa = getattr(fs, 'folded_major', None), getattr(fs, 'folded_ancestral', None)
    ok = isinstance(fm, (bool, np.bool_)) and isinstance(fa, (bool, np.bool_))
    return {'n': int(fs.shape[0]) - 1,
            'd': rats(np.asarray(fs.data, dtype=float).ravel()),
            'm': [bool(v) for v in np.ma.getmaskarray(fs).ravel()],
            'fm': bool(fm is True or fm == 1) if ok else False, 'fa': bool(fa is True or fa == 1) if ok else False, 'flags_ok': bool(ok),
            'ex': opt_rat(getattr(fs, 'extrap_x', None)), 'et': opt_rat(getattr(fs, 'extrap_t', None))}


def observe(fn):
    try:
        with contextlib.redirect_stdout(io.StringIO()):
            res = fn()
    except Exception as e:
        return {'raised': type(e).__name__, 'msg': str(e)[:160]}
    if not hasattr(res, 'shape') or len(res.shape) != 2 or res.shape[0] != res.shape[1]:
        return {'raised': 'NotASpectrum', 'msg': repr(type(res))}
    return {'s': enc(res)}


def observe_value(fn, key='v'):
    try:
        with contextlib.redirect_stdout(io.StringIO()):
            res = fn()
        return {key: rats(np.asarray(res, dtype=float).ravel()) if hasattr(res, 'shape') and np.ndim(res) else rat(float(res))}
    except Exception as e:
        return {'raised': type(e).__name__, 'msg': str(e)[:160]}


def feasible(n):
    return [(i, j) for i in range(1, n) for j in range(1, n) if i + j <= n - 1]


def rand_data(rng, n, kind=None):
    kind = kind or rng.choice(['int', 'int', 'float', 'wide', 'dyadic'])
    size = (n + 1) * (n + 1)
    if kind == 'int':
        v = [float(rng.randrange(1, 40)) for _ in range(size)]
    elif kind == 'float':
        v = [rng.uniform(0.01, 5) for _ in range(size)]
    elif kind == 'dyadic':
        v = [rng.randrange(1, 64) / 8.0 for _ in range(size)]
    else:
        v = [10 ** rng.uniform(-6, 6) for _ in range(size)]
    return np.array(v).reshape(n + 1, n + 1)


def rand_spec(lib, rng, n, state=None, user_mask=None, extrap=None):
    """a TriSpectrum in one of the states the library itself produces: unfolded / folded_major / folded_ancestral,
    optionally with entries masked by the user before folding"""
    state = state or rng.choice(['u', 'u', 'u', 'fm', 'fm', 'fa'])
    user_mask = rng.random() < 0.25 if user_mask is None else user_mask
    mask = np.zeros((n + 1, n + 1), dtype=bool)
    fe = feasible(n)
    if user_mask and fe:
        for (a, b) in rng.sample(fe, rng.randint(1, max(1, len(fe) // 4))):
            mask[a, b] = True
    extrap = rng.random() < 0.6 if extrap is None else extrap
    ex = rng.choice([0.1, 0.05, 0.0625, 1.0 / 3]) if extrap else None
    et = rng.choice([0.005, 0.01, 0.001]) if extrap and rng.random() < 0.7 else None
    fs = lib.TS(rand_data(rng, n), mask=mask, extrap_x=ex, extrap_t=et)
    if state == 'fm':
        fs = fs.fold_major()
    elif state == 'fa':
        fs = fs.fold_ancestral()
    return fs


def rand_n(rng, ctx, lo=3):
    return rng.choice([lo, lo + 1, 5, 6, 7, 8, rng.randint(lo, 12 if ctx.quick else 20)])


# --------------------------------------------------------------------------
# part 1: the object
# --------------------------------------------------------------------------
def object_records(ctx, lib, rng):
    TS = lib.TS
    out = []

    def add(op, site, inp, res):
        out.append({'id': '%s-%d' % (op, len(out)), 'op': op, 'site': site, 'in': inp, 'out': res})
    q = ctx.quick
    # construction
    for t in range(40 if q else 300):
        n = rng.choice([0, 1, 2, 3, 4, 5, 6, rng.randint(3, 10)]) if t >= 8 else t
        data = rand_data(rng, n)
        with_mask = rng.random() < 0.5
        mask = np.array([[rng.random() < 0.2 for _ in range(n + 1)] for _ in range(n + 1)], dtype=bool) if with_mask else None
        mi = rng.random() < 0.7
        fm = rng.choice([None, None, True, False])
        fa = rng.choice([None, None, True, False]) if fm is not False else rng.choice([None, False])
        ex, et = rng.choice([None, 0.1, 0.025]), rng.choice([None, 0.005])
        how = rng.choice(['array', 'list', 'int array']) if not with_mask else 'array'
        arg = data if how == 'array' else data.tolist() if how == 'list' else np.floor(data).astype(int)
        if how == 'int array':
            data = np.floor(data)
        kw = {}
        if with_mask:
            kw['mask'] = mask
        if fm is not None:
            kw['data_folded_major'] = fm
        if fa is not None:
            kw['data_folded_ancestral'] = fa
        if ex is not None:
            kw['extrap_x'] = ex
        if et is not None:
            kw['extrap_t'] = et
        if not mi or rng.random() < 0.3:
            kw['mask_infeasible'] = mi
        add('new', 'TriSpectrum.__new__', {'n': n, 'd': rats(data.ravel()), 'm': [bool(v) for v in mask.ravel()] if with_mask else [],
                                           'mi': mi, 'fm': str(fm), 'fa': str(fa), 'ex': opt_rat(ex), 'et': opt_rat(et), 'how': how},
            observe(lambda: TS(arg, **kw)))
    # folding
    for t in range(45 if q else 300):
        fs = rand_spec(lib, rng, rand_n(rng, ctx), state=rng.choice(['u', 'u', 'u', 'fa', 'fm']))
        add('fold_major', 'TriSpectrum.fold_major', {'s': enc(fs)}, observe(fs.fold_major))
    for t in range(45 if q else 300):
        fs = rand_spec(lib, rng, rand_n(rng, ctx), state=rng.choice(['u', 'u', 'fm', 'fm', 'fa']))
        add('fold_ancestral', 'TriSpectrum.fold_ancestral', {'s': enc(fs)}, observe(fs.fold_ancestral))
    for t in range(20 if q else 100):
        fs = rand_spec(lib, rng, rand_n(rng, ctx), state=rng.choice(['u', 'fm', 'fm', 'fa']))
        add('unfold', 'TriSpectrum.unfold', {'s': enc(fs)}, observe(fs.unfold))
    # arithmetic
    import operator
    OPS = {'add': operator.add, 'sub': operator.sub, 'mul': operator.mul, 'div': operator.truediv}
    IOPS = {'add': operator.iadd, 'sub': operator.isub, 'mul': operator.imul, 'div': operator.itruediv}
    for t in range(70 if q else 400):
        n = rand_n(rng, ctx)
        op = rng.choice(list(OPS))
        state = rng.choice(['u', 'u', 'fm', 'fa'])
        a = rand_spec(lib, rng, n, state=state)
        inplace = rng.random() < 0.25
        if rng.random() < 0.6:
            bstate = state if rng.random() < 0.85 else rng.choice([x for x in ['u', 'fm', 'fa'] if x != state])
            b = rand_spec(lib, rng, n, state=bstate)
            refl = False
            inp = {'a': enc(a), 'b': enc(b), 'op': op, 'refl': refl, 'inplace': inplace}
            if inplace:
                add('arith', 'TriSpectrum.arithmetic', inp, observe(lambda: IOPS[op](a.copy(), b)))
            else:
                add('arith', 'TriSpectrum.arithmetic', inp, observe(lambda: OPS[op](a, b)))
        else:
            c = rng.choice([2.0, 0.5, 3.0, rng.uniform(0.1, 9), float(rng.randint(1, 9))])
            refl = (not inplace) and rng.random() < 0.5
            ctype = rng.choice(['float', 'int', 'np']) if c == int(c) else rng.choice(['float', 'np'])
            cv = int(c) if ctype == 'int' else np.float64(c) if ctype == 'np' else c
            inp = {'a': enc(a), 'c': rat(c), 'op': op, 'refl': refl, 'inplace': inplace, 'ctype': ctype}
            if inplace:
                add('arith', 'TriSpectrum.arithmetic', inp, observe(lambda: IOPS[op](a.copy(), cv)))
            elif refl:
                add('arith', 'TriSpectrum.arithmetic', inp, observe(lambda: OPS[op](cv, a)))
            else:
                add('arith', 'TriSpectrum.arithmetic', inp, observe(lambda: OPS[op](a, cv)))
    # attributes travel through copies, views and ufuncs
    HOWS = {'copy': lambda f: f.copy(), 'transpose': lambda f: f.T, 'np.transpose': lambda f: np.transpose(f), 'neg': lambda f: -f,
            'sqrt': lambda f: np.sqrt(f), 'sqrt of view': lambda f: np.sqrt(f.T), 'slice': lambda f: f[1:3], 'log': lambda f: f.log(),
            'exp': lambda f: np.exp(f * 1e-3), 'abs': lambda f: abs(f), 'deepcopy': lambda f: __import__('copy').deepcopy(f),
            'view of copy': lambda f: f.copy().T, 'filled-view': lambda f: f[:, 1:], 'ma.log': lambda f: np.ma.log(f).T.T}
    for t, how in enumerate(sorted(HOWS) * (2 if q else 6)):
        fs = rand_spec(lib, rng, rand_n(rng, ctx), extrap=True)

        def run(fs=fs, how=how):
            try:
                with contextlib.redirect_stdout(io.StringIO()):
                    res = HOWS[how](fs)
                return {'fm': str(getattr(res, 'folded_major', '<missing>')), 'fa': str(getattr(res, 'folded_ancestral', '<missing>')),
                        'ex': opt_rat(getattr(res, 'extrap_x', float('nan'))), 'et': opt_rat(getattr(res, 'extrap_t', float('nan')))}
            except Exception as e:
                return {'raised': type(e).__name__, 'msg': str(e)[:160]}
        s = enc(fs)
        add('keep', 'TriSpectrum.attributes', {'s': {'fm': s['fm'], 'fa': s['fa'], 'ex': s['ex'], 'et': s['et']}, 'how': how}, run())
    for t in range(20 if q else 100):
        fs = rand_spec(lib, rng, rand_n(rng, ctx))
        add('S', 'TriSpectrum.S', {'s': enc(fs)}, observe_value(fs.S))
    for t in range(15 if q else 60):
        fs = rand_spec(lib, rng, rand_n(rng, ctx))
        add('pickle', 'TriSpectrum.pickle', {'s': enc(fs), 'protocol': t % 6}, observe(lambda: pickle.loads(pickle.dumps(fs, protocol=t % 6))))
    out += file_records(ctx, lib, rng)
    return out


COMMENTS = ['triallelic data', 'chr 22', 'x', 'ns = 20, folded', 'a  b']


def parse_file(text):
    """what is on disk: comment lines, header tokens, data tokens (exact decimals), mask tokens"""
    lines = text.split('\n')
    comments = []
    k = 0
    while k < len(lines) and lines[k].startswith('#'):
        comments.append(lines[k][1:].strip())
        k += 1
    hdr = lines[k].split()
    data = [rat(Fraction(tok)) if tok.lower() not in ('nan', 'inf', '-inf') else tok.lower() for tok in lines[k + 1].split()]
    mask = [int(tok) for tok in lines[k + 2].split()] if k + 2 < len(lines) else []

    def ext(tok):
        return 'None' if tok == 'None' else rat(float(tok))
    if len(hdr) == 5:
        h = {'n': int(hdr[0]), 'fm': hdr[1], 'fa': hdr[2], 'ex': ext(hdr[3]), 'et': ext(hdr[4])}
    else:
        h = {'n': int(hdr[0]) if hdr and hdr[0].isdigit() else -1, 'fm': '?', 'fa': '?', 'ex': '?', 'et': '?', 'tokens': hdr}
    return {'hdr': h, 'data': data, 'mask': mask, 'comments': comments}


def file_records(ctx, lib, rng):
    TS = lib.TS
    out = []
    tmpd = tempfile.mkdtemp(prefix='x04-', dir=common.SCRATCH_ROOT)
    try:
        for t in range(40 if ctx.quick else 200):
            fs = rand_spec(lib, rng, rand_n(rng, ctx), extrap=rng.random() < 0.7)
            if t % 9 == 8:
                fs.extrap_x = 0.0                         # a zero extrapolation value is written as None
            precision = rng.choice([16, 16, 17, 17, 8, 5, 12])
            comments = rng.sample(COMMENTS, rng.randint(1, 3)) if rng.random() < 0.4 else []
            mi = rng.random() < 0.7
            rc = rng.random() < 0.4
            how = rng.choice(['path', 'path', 'fileobj'])
            defaults = rng.random() < 0.2
            if defaults:
                precision, comments, mi, rc = 16, [], True, False
            # the two switches of to_file that leave parts of the header / the mask line out (last records of the family)
            fmi = not (t >= (36 if ctx.quick else 188) and t % 2 == 0)
            exi = not (t >= (36 if ctx.quick else 188) and t % 2 == 1)
            if not (fmi and exi):
                defaults = False
            path = os.path.join(tmpd, 'f%d.fs' % t)

            def run():
                try:
                    kw = {} if defaults else {'precision': precision, 'comment_lines': comments}
                    if not fmi:
                        kw['foldmaskinfo'] = False
                    if not exi:
                        kw['extrapinfo'] = False
                    if how == 'fileobj':
                        with open(path, 'w') as fid:
                            fs.to_file(fid, **kw)
                    else:
                        fs.to_file(path, **kw)
                    with open(path) as f:
                        text = f.read()
                    disk = parse_file(text)
                    if how == 'fileobj':
                        with open(path) as fid:
                            res = TS.from_file(fid) if defaults else TS.from_file(fid, mask_infeasible=mi, return_comments=rc)
                    else:
                        res = TS.from_file(path) if defaults else TS.from_file(path, mask_infeasible=mi, return_comments=rc)
                    o = {'file': disk}
                    if rc:
                        res, got = res
                        o['comments'] = list(got)
                    o['r'] = enc(res)
                    return o
                except Exception as e:
                    return {'raised': type(e).__name__, 'msg': str(e)[:160]}
                finally:
                    if os.path.exists(path):
                        os.unlink(path)
            site = 'TriSpectrum.to_file/from_file' + ('' if fmi and exi else '[foldmaskinfo=False]' if not fmi else '[extrapinfo=False]')
            out.append({'id': 'file-%d' % t, 'op': 'file', 'site': site,
                        'in': {'s': enc(fs), 'precision': precision, 'comments': comments, 'mi': mi, 'rc': rc, 'how': how, 'defaults': defaults,
                               'fmi': fmi, 'exi': exi},
                        'out': run()})
    finally:
        shutil.rmtree(tmpd, ignore_errors=True)
    return out


# --------------------------------------------------------------------------
# part 1b: spectrum helpers of numerics
# --------------------------------------------------------------------------
def helper_records(ctx, lib, rng):
    num = lib.num
    out = []

    def add(op, site, inp, res):
        out.append({'id': '%s-%d' % (op, len(out)), 'op': op, 'site': site, 'in': inp, 'out': res})
    q = ctx.quick
    for t in range(45 if q else 300):
        N = rng.choice([4, 5, 6, 7, 8, 9, 10, rng.randint(4, 12 if q else 20)])
        fs = rand_spec(lib, rng, N, state=rng.choice(['u', 'u', 'fm']))
        u = rng.random()
        n = N if u < 0.08 else N + rng.randint(1, 3) if u < 0.14 else rng.randint(3, N - 1)
        site = 'numerics.project' + ('[same size]' if n == N else '[larger size]' if n > N else '')
        add('project', site, {'s': enc(fs), 'n': n}, observe(lambda: num.project(fs, n)))
    for t in range(20 if q else 100):
        N = rng.randint(6, 12 if q else 18)
        fs = rand_spec(lib, rng, N, state=rng.choice(['u', 'u', 'fm']), user_mask=rng.random() < 0.15)
        n1 = rng.randint(4, N - 1)
        n2 = rng.randint(3, n1 - 1)
        add('project2', 'numerics.project', {'s': enc(fs), 'n1': n1, 'n2': n2}, observe(lambda: num.project(num.project(fs, n1), n2)))
    for t in range(30 if q else 150):
        fs = rand_spec(lib, rng, rand_n(rng, ctx), state='fm' if rng.random() < 0.8 else 'u')
        p = rng.choice([0.0, 0.1, 0.02, 0.5, 1.0, rng.uniform(0, 1), 0.25])
        site = 'numerics.misidentification' + ('' if fs.folded_major else '[unfolded input]')
        add('misid', site, {'s': enc(fs), 'p': rat(p)}, observe(lambda: num.misidentification(fs, p)))
    for t in range(15 if q else 60):
        fs = rand_spec(lib, rng, rand_n(rng, ctx), state='u')
        add('fn_fold', 'numerics.fold', {'s': enc(fs)}, observe(lambda: num.fold(fs)))
    for t in range(15 if q else 60):
        fs = rand_spec(lib, rng, rand_n(rng, ctx), state=rng.choice(['u', 'u', 'fm']), user_mask=False)
        add('fn_fold_ancestral', 'numerics.fold_ancestral', {'s': enc(fs)}, observe(lambda: num.fold_ancestral(fs)))
    for t in range(15 if q else 60):
        n = rand_n(rng, ctx)
        state = rng.choice(['u', 'fm'])
        model = rand_spec(lib, rng, n, state=state, user_mask=False)
        data = rand_spec(lib, rng, n, state=state, user_mask=rng.random() < 0.5)
        add('scaling', 'numerics.optimal_sfs_scaling', {'model': enc(model), 'data': enc(data)},
            observe_value(lambda: num.optimal_sfs_scaling(model, data)))
    return out


# --------------------------------------------------------------------------
# part 2: numerics on the triangle
# --------------------------------------------------------------------------
def rand_phi(rng, x, kind=None):
    """a density on the grid, zero outside the triangle"""
    L = len(x)
    kind = kind or rng.choice(['random', 'random', 'neutral', 'point', 'diagonal', 'interior', 'zero'])
    phi = np.zeros((L, L))
    inside = [(a, b) for a in range(L) for b in range(L) if a + b <= L - 1]
    if kind == 'random':
        for (a, b) in inside:
            phi[a, b] = rng.choice([0.0, rng.uniform(0, 10), 10 ** rng.uniform(-3, 3)])
    elif kind == 'neutral':
        for (a, b) in inside:
            if a >= 1 and b >= 1 and a + b <= L - 2:
                phi[a, b] = 1.0 / (x[a] * x[b])
    elif kind == 'point':
        for (a, b) in rng.sample(inside, rng.randint(1, 3)):
            phi[a, b] = rng.uniform(0.5, 100)
    elif kind == 'diagonal':
        for a in range(L):
            phi[a, L - 1 - a] = rng.uniform(0, 50)
    elif kind == 'interior':
        for (a, b) in inside:
            if a >= 1 and b >= 1 and a + b <= L - 2:
                phi[a, b] = rng.uniform(0, 10)
    return phi, kind


def numerics_records(ctx, lib, rng):
    num, integ = lib.num, lib.integ
    out = []

    def add(op, site, inp, res):
        out.append({'id': '%s-%d' % (op, len(out)), 'op': op, 'site': site, 'in': inp, 'out': res})
    q = ctx.quick
    PTS = [2, 3, 4, 5, 7, 8, 10, 12, 16] + ([20, 24, 32] if not q else [])

    def grid(pts):
        return np.linspace(0, 1, pts + 1)
    # grid helpers
    for t in range(16 if q else 60):
        if t % 2 == 0:
            x = grid(rng.choice(PTS + [40, 60]))
            kind = 'uniform'
        else:
            L = rng.randint(2, 20)
            x = np.array(sorted([0.0, 1.0] + [rng.random() for _ in range(L - 2)]))
            kind = 'arbitrary'
        add('grid_dx', 'numerics.grid_dx', {'x': rats(x), 'kind': kind}, observe_value(lambda: num.grid_dx(x), 'dx'))
    for t in range(10 if q else 40):
        x = grid(rng.choice(PTS))
        dx = num.grid_dx(x)
        add('grid_dx_2d', 'numerics.grid_dx_2d', {'x': rats(x), 'dx': rats(dx)}, observe_value(lambda: num.grid_dx_2d(x, dx), 'dxx'))
    for t, pts in enumerate(PTS + [6, 9, 11, 13, 14, 15, 17, 19] + ([21, 23, 25, 27, 29, 30, 31, 33, 35, 37, 40] if not q else [])):
        x = grid(pts)
        add('domain', 'numerics.domain', {'x': rats(x)}, observe_value(lambda: num.domain(x), 'u'))
    for t in range(8 if q else 30):
        x = grid(rng.choice(PTS))
        dxx = num.grid_dx_2d(x, num.grid_dx(x))
        phi, kind = rand_phi(rng, x)
        add('int2', 'numerics.int2', {'dxx': rats(dxx.ravel()), 'u': rats(phi.ravel())}, observe_value(lambda: num.int2(dxx, phi)))
    for t in range(30 if q else 200):
        n = rng.choice([3, 4, 5, 10, 20, rng.randint(3, 40), rng.randint(3, 100 if q else 170)])
        a = rng.randint(0, n)
        b = rng.randint(0, n - a)
        add('trinomial', 'numerics.trinomial', {'n': n, 'a': a, 'b': b}, observe_value(lambda: num.trinomial(n, a, b)))
    # sampling a density
    for t in range(32 if q else 150):
        pts = rng.choice([4, 5, 8, 8, 10, 12, 16] + ([20, 24] if not q else []))
        x = grid(pts)
        ns = rng.choice([3, 4, 5, 6, 8, rng.randint(3, 10 if q else 16)])
        phi, kind = rand_phi(rng, x)
        nstype = rng.choice(['int', 'list', 'tuple', 'np'])
        nsarg = {'int': ns, 'list': [ns], 'tuple': (ns,), 'np': np.array([ns])}[nstype]
        add('sample', 'numerics.sample', {'phi': rats(phi.ravel()), 'ns': ns, 'x': rats(x), 'kind': kind, 'nstype': nstype},
            observe(lambda: num.sample(phi, nsarg, x)))
    for t in range(10 if q else 40):
        pts = rng.choice([8, 10, 16])
        x = grid(pts)
        N = rng.randint(5, 10 if q else 14)
        n = rng.randint(3, N - 1)
        phi, kind = rand_phi(rng, x, rng.choice(['random', 'neutral', 'interior']))

        def run():
            try:
                with contextlib.redirect_stdout(io.StringIO()):
                    a = num.project(num.sample(phi, N, x), n)
                    b = num.sample(phi, n, x).fold_major()
                return {'s': enc(a), 't': enc(b)}
            except Exception as e:
                return {'raised': type(e).__name__, 'msg': str(e)[:160]}
        add('same_as', 'numerics.sample+project', {'law': 'SampleThenProject', 'N': N, 'n': n, 'pts': pts, 'kind': kind}, run())
    for t, pts in enumerate([2, 3, 4, 7, 8, 10, 16, 20] + ([32, 40] if not q else [])):
        x = grid(pts)
        add('equil_exact', 'integration.equilibrium_neutral_exact', {'x': rats(x)}, observe_value(lambda: integ.equilibrium_neutral_exact(x), 'phi'))
    for t in range(15 if q else 60):
        pts = rng.choice([3, 4, 6, 8, 10, 12])
        x = grid(pts)
        dx = num.grid_dx(x)
        phi, kind = rand_phi(rng, x)
        y = np.array([rng.uniform(0, 20) for _ in x])
        dt = rng.choice([0.001, 0.005, 0.01, rng.uniform(1e-4, 0.1)])
        theta = rng.choice([1.0, 0.5, 2.0, rng.uniform(0, 5)])
        which = ['1', '2', 'both'][t % 3]
        inp = {'which': which, 'phi': rats(phi.ravel()), 'dt': rat(dt), 'x': rats(x), 'dx': rats(dx), 'y': rats(y), 'theta': rat(theta)}
        if which == '1':
            add('inject', 'integration.inject_mutations_1', inp, observe_value(lambda: integ.inject_mutations_1(phi.copy(), dt, x, dx, y, theta), 'phi'))
        elif which == '2':
            add('inject', 'integration.inject_mutations_2', inp, observe_value(lambda: integ.inject_mutations_2(phi.copy(), dt, x, dx, y, theta), 'phi'))
        else:
            add('inject', 'integration.inject_simultaneous_muts', inp, observe_value(lambda: integ.inject_simultaneous_muts(phi.copy(), dt, x, dx, theta), 'phi'))
    for t, ns in enumerate([3, 4, 5, 6, 8, 10, 13, 20] + ([30, 40] if not q else [])):
        def run(ns=ns):
            try:
                fs = integ.alt_mut_mech_sample_spectrum(ns)
                return {'s': {'n': int(fs.shape[0]) - 1, 'd': rats(np.asarray(fs.data, dtype=float).ravel()),
                              'm': [bool(v) for v in np.ma.getmaskarray(fs).ravel()]}}
            except Exception as e:
                return {'raised': type(e).__name__, 'msg': str(e)[:160]}
        add('jenkins', 'integration.alt_mut_mech_sample_spectrum', {'ns': ns}, run())
    # one-dimensional transition matrices
    for t in range(16 if q else 60):
        pts = rng.choice([2, 3, 4, 5, 8, 10, 12, 16])
        x = grid(pts)
        dx = num.grid_dx(x)
        sig = 0.0 if t % 4 == 0 else rng.choice([1.0, -1.0, 2.5, -7.0, rng.uniform(-20, 20)])
        site = 'numerics.transition1D' + ('' if sig != 0 else '[neutral]')

        def run():
            try:
                with contextlib.redirect_stdout(io.StringIO()):
                    V, M = num.transition1D(x, dx, sig)
                return {'V': rats(np.asarray(V, dtype=float).ravel()), 'M': rats(np.asarray(M, dtype=float).ravel())}
            except Exception as e:
                return {'raised': type(e).__name__, 'msg': str(e)[:160]}
        add('trans1d', site, {'x': rats(x), 'dx': rats(dx), 'sig': rat(sig)}, run())
    # two-dimensional transition matrices
    for t in range(14 if q else 50):
        pts = rng.choice([2, 3, 4, 5, 6, 8, 10] + ([12, 16] if not q else []))
        x = grid(pts)
        dx = num.grid_dx(x)
        U01 = num.domain(x)
        s1, s2 = (0.0, 0.0) if t % 5 == 0 else (rng.choice([1.0, -1.0, 2.5, rng.uniform(-10, 10)]), rng.choice([0.0, 1.0, -3.0, rng.uniform(-10, 10)]))
        which = '1' if t % 2 == 0 else '2'
        fn = num.transition1 if which == '1' else num.transition2

        def run():
            try:
                with contextlib.redirect_stdout(io.StringIO()):
                    V, M = fn(x, dx, U01, s1, s2)
                return {'V': rats(np.asarray(V, dtype=float)), 'M': rats(np.asarray(M, dtype=float))}
            except Exception as e:
                return {'raised': type(e).__name__, 'msg': str(e)[:160]}
        add('trans2d', 'numerics.transition' + which, {'x': rats(x), 'dx': rats(dx), 'U01': [int(v) for v in U01.ravel()], 's1': rat(s1), 's2': rat(s2),
                                                      'which': which}, run())
    for t, pts in enumerate([2, 3, 4, 5, 6] + ([7, 8] if not q else [])):
        x = grid(pts)
        dx = num.grid_dx(x)
        U01 = num.domain(x)

        def run():
            try:
                with contextlib.redirect_stdout(io.StringIO()):
                    C = fn12(x, dx, U01)
                return {'C': rats(np.asarray(C.toarray(), dtype=float).ravel())}
            except Exception as e:
                return {'raised': type(e).__name__, 'msg': str(e)[:160]}
        fn12 = num.transition12
        add('trans12', 'numerics.transition12', {'x': rats(x), 'dx': rats(dx), 'U01': [int(v) for v in U01.ravel()]}, run())
    # moving density to the diagonal boundary
    for t in range(15 if q else 60):
        pts = rng.choice([4, 5, 6, 8, 9, 10, 12])
        L = pts + 1
        x = grid(pts)
        phi, kind = rand_phi(rng, x, rng.choice(['random', 'neutral', 'interior']))
        P = np.zeros((L, L))
        for a in range(1, L - 1):
            for b in range(1, L - 1):
                if a + b < L - 1 and (a + b >= L - 1 - 3 or rng.random() < 0.15) and rng.random() < 0.8:
                    P[a, b] = rng.choice([rng.uniform(0, 0.3), 0.5, 1.0, rng.uniform(0, 1)])
        add('move', 'numerics.move_density_to_bdry', {'L': L, 'phi': rats(phi.ravel()), 'P': rats(P.ravel()), 'kind': kind},
            observe_value(lambda: num.move_density_to_bdry(x, phi.copy(), P), 'phi'))
    # implicit steps
    for t in range(12 if q else 50):
        pts = rng.choice([3, 4, 6, 8, 10])
        L = pts + 1
        x = grid(pts)
        dx = num.grid_dx(x)
        sig = rng.choice([0.0, 1.0, -2.0])
        with contextlib.redirect_stdout(io.StringIO()):
            V, M = num.transition1D(x, dx, sig)
        dt = rng.choice([0.01, 0.005, 0.05])
        nu = rng.choice([1.0, 2.0, 0.5])
        P = np.eye(L) + dt * (V / nu + M)
        if t % 3 == 0:
            u = np.array([rng.uniform(0, 10) for _ in range(L)])
            utype = rng.choice(['fresh', 'view'])
            uarg = u.copy() if utype == 'fresh' else np.array([u, u]).T[:, 0]
            add('advance1d', 'numerics.advance1D', {'P': rats(P.ravel()), 'u': rats(u), 'utype': utype},
                observe_value(lambda: num.advance1D(uarg, P), 'u'))
        elif t % 3 == 1:
            phi, kind = rand_phi(rng, x, rng.choice(['random', 'diagonal']))
            add('advance_line', 'numerics.advance_line', {'L': L, 'P': rats(P.ravel()), 'phi': rats(phi.ravel())},
                observe_value(lambda: num.advance_line(x, phi.copy(), P), 'phi'))
        else:
            U01 = num.domain(x)
            s1, s2 = rng.choice([(0.0, 0.0), (1.0, -0.5), (2.0, 2.0)])
            with contextlib.redirect_stdout(io.StringIO()):
                V1, M1 = num.transition1(x, dx, U01, s1, s2)
                V2, M2 = num.transition2(x, dx, U01, s1, s2)
            I3 = np.outer(np.array([0, 1, 0]), np.ones(L))
            P1 = I3 + dt * (V1 / nu + M1)
            P2 = I3 + dt * (V2 / nu + M2)
            phi, kind = rand_phi(rng, x, rng.choice(['random', 'interior', 'neutral']))
            step = rng.randint(0, 5)
            add('advance_adi', 'numerics.advance_adi',
                {'L': L, 'U': rats(phi.ravel()), 'U01': [int(v) for v in U01.ravel()], 'P1': rats(P1), 'P2': rats(P2), 'step': step},
                observe_value(lambda: num.advance_adi(phi.copy(), U01, P1, P2, x, step), 'U'))
    return out


# --------------------------------------------------------------------------
# part 3: the library models
# --------------------------------------------------------------------------
def model_records(ctx, lib, rng):
    demo = lib.demo
    out = []
    q = ctx.quick
    cases = []
    for pts, ns, folded, dt in [(8, 4, False, 0.005), (10, 5, True, 0.005), (16, 8, False, 0.01), (12, 6, True, 0.02), (10, 3, False, 0.005)]:
        cases.append(('equilibrium', [], ns, pts, {'folded': folded, 'dt': dt}, True))
    cases.append(('equilibrium', [], [5], 10, {}, True))                                  # sample size as a list, default arguments
    cases.append(('equilibrium', [], 5, 10, {'sig1': 1.0, 'dt': 0.05}, False))
    cases.append(('equilibrium', [], 5, 10, {'sig1': -2.0, 'sig2': 1.5, 'dt': 0.05, 'folded': True}, False))
    cases.append(('equilibrium', [], 6, 12, {'theta1': 2.0, 'theta2': 0.5, 'dt': 0.05}, False))
    cases.append(('two_epoch', [2.0, 0.03], 5, 10, {'dt': 0.01}, False))
    cases.append(('two_epoch', [0.5, 0.025], 6, 12, {'dt': 0.01, 'folded': True}, False))
    cases.append(('two_epoch', [3.0, 0.1], 5, 10, {'sig1': -1.0, 'sig2': 0.5, 'dt': 0.05}, False))
    cases.append(('three_epoch', [2.0, 0.5, 0.03, 0.02], 5, 10, {'dt': 0.01}, False))
    cases.append(('three_epoch', [0.2, 4.0, 0.05, 0.01], 4, 8, {'dt': 0.01, 'folded': True}, False))
    cases.append(('bottlegrowth', [2.0, 2.0, 0.03], 5, 10, {'dt': 0.01}, False))
    cases.append(('bottlegrowth', [0.5, 3.0, 0.03], 5, 10, {'dt': 0.01}, False))
    cases.append(('bottlegrowth', [2.0, 0.7, 0.045], 6, 12, {'dt': 0.01, 'folded': True, 'sig1': 0.5}, False))
    cases.append(('equilibrium', [], 6, 10, {'misid': 0.1, 'folded': True}, False))
    cases.append(('two_epoch', [2.0, 0.03], 5, 10, {'dt': 0.01, 'misid': 0.05, 'folded': True}, False))
    if not q:
        for t in range(25):
            name = rng.choice(['two_epoch', 'three_epoch', 'bottlegrowth', 'equilibrium'])
            params = {'two_epoch': [rng.uniform(0.2, 5), rng.uniform(0.01, 0.1)],
                      'three_epoch': [rng.uniform(0.2, 5), rng.uniform(0.2, 5), rng.uniform(0.01, 0.05), rng.uniform(0.01, 0.05)],
                      'bottlegrowth': [rng.uniform(0.2, 5), rng.uniform(0.2, 5), rng.uniform(0.01, 0.1)], 'equilibrium': []}[name]
            kw = {'dt': rng.choice([0.01, 0.02, 0.05]), 'folded': rng.random() < 0.5}
            if rng.random() < 0.5:
                kw['sig1'], kw['sig2'] = rng.uniform(-3, 3), rng.uniform(-3, 3)
            cases.append((name, params, rng.randint(3, 10), rng.choice([8, 10, 12, 16, 20]), kw, False))
    for t, (name, params, ns, pts, kw, exact) in enumerate(cases):
        x = np.linspace(0, 1, pts + 1)
        nsv = ns[0] if isinstance(ns, list) else ns
        misid = kw.get('misid', 0.0)
        inp = {'model': name, 'params': rats(params), 'ns': nsv, 'pts': pts, 'x': rats(x), 'dt': rat(kw.get('dt', 0.005)),
               'folded': bool(kw.get('folded', False)) or misid > 0, 'exact': bool(exact), 'kw': {k: (rat(v) if not isinstance(v, bool) else v) for k, v in kw.items()}}
        out.append({'id': 'model-%d' % t, 'op': 'model', 'site': 'demographics.' + name, 'in': inp,
                    'out': observe(lambda: getattr(demo, name)(list(params), ns, pts, **kw))})
    # ancestral misidentification must not depend on whether the spectrum was folded before or after
    for t, (name, params, ns, pts, kw) in enumerate([('equilibrium', [], 6, 10, {'misid': 0.1}), ('two_epoch', [2.0, 0.03], 5, 10, {'dt': 0.01, 'misid': 0.2})]):
        def run():
            try:
                with contextlib.redirect_stdout(io.StringIO()):
                    a = getattr(demo, name)(list(params), ns, pts, folded=False, **kw)
                    b = getattr(demo, name)(list(params), ns, pts, folded=True, **kw)
                return {'s': enc(a), 't': enc(b)}
            except Exception as e:
                return {'raised': type(e).__name__, 'msg': str(e)[:160]}
        out.append({'id': 'model-misid-%d' % t, 'op': 'same_as', 'site': 'demographics.%s[misid, unfolded]' % name,
                    'in': {'law': 'MisidFoldedOrNot', 'model': name, 'ns': ns, 'pts': pts}, 'out': run()})
    return out


def records(ctx):
    lib, recs = load()
    rng = random.Random(ctx.seed + 404)
    if lib.TS is not None:
        recs += object_records(ctx, lib, rng)
    if lib.num is not None:
        recs += helper_records(ctx, lib, random.Random(ctx.seed + 405))
        recs += numerics_records(ctx, lib, random.Random(ctx.seed + 406))
        recs += model_records(ctx, lib, random.Random(ctx.seed + 407))
    return recs


# --------------------------------------------------------------------------
def nontrivial(r):
    i = r['in']
    op = r['op']
    if op == 'import':
        return ('import', i['module'])
    if op == 'new':
        return ('new', i['n'], i['mi'], i['fm'], i['fa'], bool(i['m']), i['ex'], i['et']) if i['n'] >= 3 else None
    if op in ('fold_major', 'fold_ancestral', 'unfold', 'S', 'pickle', 'fn_fold', 'fn_fold_ancestral'):
        s = i['s']
        return (op, s['n'], s['fm'], s['fa'], common.digest(s['m']), common.digest(s['d']))
    if op == 'arith':
        a = i['a']
        return (op, i['op'], i['refl'], i['inplace'], a['n'], a['fm'], a['fa'], 'b' in i, common.digest(a['d']))
    if op == 'keep':
        return (op, i['how'], i['s']['fm'], i['s']['fa'])
    if op == 'file':
        return (op, i['s']['n'], i['precision'], len(i['comments']), i['mi'], i['rc'], i['how'], common.digest(i['s']['d']))
    if op in ('project', 'project2', 'misid'):
        s = i['s']
        return (op, s['n'], s['fm'], i.get('n'), i.get('n1'), i.get('n2'), i.get('p'), common.digest(s['d']))
    if op == 'scaling':
        return (op, i['model']['n'], i['model']['fm'], common.digest(i['data']['d']))
    if op == 'sample':
        return None if i['kind'] == 'zero' else (op, i['ns'], len(i['x']), i['kind'], common.digest(i['phi']))
    return (op, common.digest(i))


def mutate(rec):
    """Corrupt one observed field so that a sound trace spec must reject the record."""
    out = rec['out']
    op = rec['op']
    if 'raised' in out or op == 'import':
        return None

    def bump(seq, rel=Fraction(1, 1000), pick=None):
        nums = [(abs(Fraction(v)), k) for k, v in enumerate(seq) if v not in ('nan', 'inf', '-inf') and (pick is None or pick(k))]
        if not nums:
            return False
        big, k = max(nums)
        seq[k] = rat(Fraction(seq[k]) * (1 + rel) if big != 0 else Fraction(1, 7))
        return True
    if op in ('new', 'fold_major', 'fold_ancestral', 'unfold', 'arith', 'pickle', 'project', 'project2', 'misid', 'fn_fold',
              'fn_fold_ancestral', 'sample', 'model', 'jenkins'):
        s = out['s']
        if op == 'project' and rec['in']['n'] > rec['in']['s']['n']:
            return None
        unm = [k for k, v in enumerate(s['m']) if not v]
        noise = op == 'sample' and rec['in']['kind'] in ('diagonal', 'zero')      # the sample is zero up to rounding: corrupt the mask
        if rec['id'].endswith(('3', '7')) or not unm or noise:
            k = (len(s['m']) // 2) if not unm else unm[0]
            if op == 'model' and not unm:
                return None
            s['m'][k] = not s['m'][k]
            return rec
        if op == 'model' and not rec['in']['exact']:
            s['et'] = rat(Fraction(s['et']) * 2) if s['et'] != 'None' else '1/2'
            return rec
        return rec if bump(s['d'], pick=lambda k: not s['m'][k]) else None
    if op == 'keep':
        out['ex'] = '1/2' if out['ex'] != '1/2' else '1/4'
        return rec
    if op == 'file':
        if rec['id'].endswith(('1', '5')):
            out['file']['mask'][len(out['file']['mask']) // 2] ^= 1
            return rec
        return rec if bump(out['r']['d'], rel=Fraction(1, 100)) else None
    if op == 'same_as':
        s = out['s']
        return rec if bump(s['d'], pick=lambda k: not s['m'][k]) else None
    if op == 'domain':
        u = out['u']
        u[len(u) // 2] = '0' if u[len(u) // 2] == '1' else '1'
        return rec
    if op == 'trans1d':
        return rec if bump(out['V'] if rec['id'].endswith(('0', '2', '4', '6', '8')) else out['M']) or bump(out['V']) else None
    if op == 'trans2d':
        A = out['V']
        b = len(A) // 2
        return rec if bump(A[b][1]) or bump(A[0][1]) else None
    if op == 'trans12':
        return rec if bump(out['C']) else None
    for key in ('v', 'dx', 'dxx', 'phi', 'u', 'U'):
        if key in out:
            if isinstance(out[key], list):
                return rec if bump(out[key]) else None
            if out[key] in ('nan', 'inf', '-inf'):
                return None
            out[key] = rat(Fraction(out[key]) * Fraction(1001, 1000) if Fraction(out[key]) != 0 else Fraction(1, 7))
            return rec
    return None


def run(ctx):
    if ctx.replay:
        old = ctx.replay_payload['payload']['record']
        # re-executed on the current tree: the record set is deterministic in (seed, tier), so the record is found again by its id
        ctx.seed = int(ctx.replay_payload.get('seed', ctx.seed))
        ctx.tier = ctx.replay_payload.get('tier', ctx.tier)
        ctx.quick = ctx.tier == 'quick'
        fresh = [r for r in records(ctx) if r['id'] == old['id'] and r['op'] == old['op']]
        recs = fresh or [old]
        ctx.no_mc = True
    else:
        recs = records(ctx)
    return common.pipeline(
        ctx, [('TriSpectrumMC', 'TriSpectrumMC_%s.cfg' % ctx.tier)], 'Trace_TriSpectrum', recs,
        nontrivial_of=nontrivial, mutator=mutate,
        rule='TriSpectrum objects of sample size 0-12 (thorough 20) in the states the library produces (unfolded, folded_major, folded_ancestral; '
             'optionally user-masked entries, extrapolation attributes): construction under every option, both foldings incl. refusals, unfold, '
             'arithmetic (spectrum / scalar, reflected, in place, mixed folding), attribute propagation through 14 kinds of views / copies / ufuncs, '
             'S, pickle, to_file / from_file (precision, comments, mask_infeasible, path / file object); numerics.project (smaller / same / larger '
             'size, two-stage), misidentification, the module-level fold helpers, optimal_sfs_scaling; grid_dx / grid_dx_2d / domain / int2 / trinomial, '
             'sample on uniform grids of 4-16 (24) intervals for random / neutral / point / diagonal densities, equilibrium_neutral_exact, the three '
             'injection functions, alt_mut_mech_sample_spectrum, transition1D, move_density_to_bdry, advance1D / advance_line / advance_adi, and the '
             'four library models. Distinct by sizes, states, options and data digest; sampling a zero density and spectra below 3 chromosomes are trivial',
        assumptions=['BigInteger rational arithmetic of the Rat override (self-tested against the TLA+ definitions)',
                     'Tau = 1e-12 relative for entrywise float arithmetic; TauS = 1e-10 for weights computed through exp(lgamma) and for long sums; '
                     'sample entries additionally get an absolute floor of 1e-14 x (largest trinomial weight) x (total |mass| of the density), which covers '
                     'the float rounding of 1 - x - y next to the diagonal',
                     'fold_ancestral skips masked entries (they count as zero) while fold_major masks a class with a masked member: the specification '
                     'follows the code in both, neither is documented',
                     'numerics.project is specified as hypergeometric subsampling followed by fold_major (what its last line evidently means); '
                     'misidentification as documented (probability p/2 for each derived allele to be the ancestral one), for folded input',
                     'implicit steps are judged by the residual of the system they solve (forward application of the recorded matrices), relative to '
                     'max|rhs| + max|solution|, not by an elimination order',
                     'the library models are judged for well-formedness only (shape, mask, flags, grid / time step attributes, finite entries); the neutral '
                     'equilibrium model must equal the sample of the exact neutral density. The accuracy of the PDE solution is not judged',
                     'file tokens are parsed by the recorder (decimal text -> exact rational); to_file precision p must give p significant digits'])
