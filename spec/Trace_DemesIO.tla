--------------------------- MODULE Trace_DemesIO ---------------------------
(***************************************************************************)
(* Judges records produced by the real dadi for property C16:              *)
(*   export  a native program was run, dadi.Demes.output was called; the   *)
(*           graph it built must be Export(program) (structure exact,      *)
(*           numbers to Tau); the laws of DemesIOMC are re-evaluated on    *)
(*           this concrete program (exact arithmetic)                      *)
(*   import  Spectrum.from_demes ran under proxies around every PhiManip / *)
(*           Integration call; the executed calls must be Import(graph)    *)
(*   same    two spectra that must be equal (optionally after permuting    *)
(*           the axes / multiplying by a factor); the relation is decided  *)
(*           here                                                          *)
(*   refine  two pairs of spectra at two time-step factors: the distance   *)
(*           must be small and shrink with the step                        *)
(***************************************************************************)
EXTENDS DemesIO, Json, IOUtils
CONSTANTS Tau, Floor

Trace == JsonDeserialize(IOEnv.TRACE_FILE)
VARIABLE i
F(name, ok) == IF ok THEN {} ELSE {name}
Close(got, exact) == IsNum(got) /\ RCloseRel(got, exact, Tau, Floor)
TClose(got, exact) == IF exact = Inf \/ got = Inf THEN got = exact ELSE Close(got, exact)
CloseSeq(got, exact) == Len(got) = Len(exact) /\ \A q \in 1..Len(exact) : Close(got[q], exact[q])
AllNum(q) == \A j \in 1..Len(q) : IsNum(q[j])

\* ---------------------------------------------------------------- export
Flat(ep) == ep.start_size = ep.end_size
EpochOK(got, want) == /\ TClose(got.end_time, want.end_time) /\ Close(got.start_size, want.start_size) /\ Close(got.end_size, want.end_size)
                      /\ (got.size_function = want.size_function \/ (Flat(want) /\ got.start_size = got.end_size))
DemeShapeOK(got, want) == /\ got.name = want.name /\ got.ancestors = want.ancestors
                          /\ Len(got.epochs) = Len(want.epochs) /\ Len(got.proportions) = Len(want.proportions)
DemeNumOK(got, want) == /\ TClose(got.start_time, want.start_time) /\ CloseSeq(got.proportions, want.proportions)
                        /\ \A j \in 1..Len(want.epochs) : EpochOK(got.epochs[j], want.epochs[j])
MigOK(got, want) == /\ got.source = want.source /\ got.dest = want.dest /\ Close(got.rate, want.rate)
                    /\ TClose(got.start_time, want.start_time) /\ TClose(got.end_time, want.end_time)
\* every wanted migration has its own partner among the exported ones (same multiset up to Tau)
MigsOK(got, want) == /\ Len(got) = Len(want)
                     /\ \A q \in 1..Len(want) : Cardinality({p \in 1..Len(got) : MigOK(got[p], want[q])})
                                                 = Cardinality({p \in 1..Len(want) : MigOK(want[p], want[q])})
PulseOK(got, want) == /\ got.sources = want.sources /\ got.dest = want.dest /\ TClose(got.time, want.time)
                      /\ CloseSeq(got.proportions, want.proportions)
LastIds(prog) == Names(prog)[Len(prog)]
FExport(r) ==
    LET p    == r.in.prog
        want == Export(p, r.in.Nref, r.in.gt)
        \* the laws of DemesIOMC on this very program, in exact arithmetic
        ids  == LastIds(p)
        back == Import(want, ids, <<>>, r.in.Nref, <<>>, <<>>, <<>>)
        laws == F("SpecRoundTrip", Norm(back) = Norm(p)) \cup
                F("SpecScaleInvariant", Import(ScaleGraph(want, "3"), ids, <<>>, RMul(r.in.Nref, "3"), <<>>, <<>>, <<>>) = back)
    IN  IF ~Exportable(p) THEN {"GeneratorMadeUnexportableProgram"}
        ELSE IF "raised" \in DOMAIN r.out THEN {"ExportRaised"} \cup laws
        ELSE LET got == r.out.graph IN
             laws \cup
             F("ExportTimeUnits", got.time_units = want.time_units /\ (want.time_units = "generations" \/ Close(got.generation_time, want.generation_time))) \cup
             (IF Len(got.demes) # Len(want.demes) \/ \E q \in 1..Len(want.demes) : ~DemeShapeOK(got.demes[q], want.demes[q])
              THEN {"ExportDemes"}
              ELSE F("ExportEpochs", \A q \in 1..Len(want.demes) : DemeNumOK(got.demes[q], want.demes[q]))) \cup
             F("ExportMigrations", MigsOK(got.migrations, want.migrations)) \cup
             F("ExportPulses", Len(got.pulses) = Len(want.pulses) /\ \A q \in 1..Len(want.pulses) : PulseOK(got.pulses[q], want.pulses[q]))

\* ---------------------------------------------------------------- import
\* a logged size argument: c = TRUE for a number; v = its value at t = 0, T/3, T/2, T
Cube(a) == RMul(a, RMul(a, a))
SizeArgOK(got, want) ==
    /\ Len(got.v) = 4 /\ AllNum(got.v) /\ Close(got.v[1], want.s0) /\ Close(got.v[4], want.s1)
    /\ CASE want.fn = "constant"    -> Close(got.v[2], want.s0) /\ Close(got.v[3], want.s0)
         [] want.fn = "linear"      -> /\ Close(got.v[3], RHalf(RAdd(want.s0, want.s1)))
                                       /\ Close(got.v[2], RAdd(want.s0, RDiv(RSub(want.s1, want.s0), "3")))
         [] want.fn = "exponential" -> /\ RCloseRel(RSq(got.v[3]), RMul(want.s0, want.s1), RMul("4", Tau), Floor)
                                       /\ RCloseRel(Cube(got.v[2]), RMul(RSq(want.s0), want.s1), RMul("6", Tau), Floor)
         [] OTHER -> FALSE
MatOK(got, want) == Len(got) = Len(want) /\ \A a \in 1..Len(want) : CloseSeq(got[a], want[a])
\* clauses violated by one executed call, compared with the call Import prescribes at the same position
EventDiff(got, want) ==
    IF got.k # want.k THEN {"Call/" \o want.k \o "-expected-" \o got.k \o "-executed"}
    ELSE CASE want.k = "init" -> F("Call/init.ids", got.ids = want.ids) \cup F("Call/init.nu", Close(got.nu, want.nu))
           [] want.k = "int" ->
                IF got.ids # want.ids THEN {"Call/int.ids"}
                ELSE F("Call/int.T", Close(got.T, want.T)) \cup
                     F("Call/int.frozen", got.frozen = want.frozen) \cup
                     F("Call/int.mig", MatOK(got.mig, want.mig)) \cup
                     F("Call/int.sizes", Len(got.sizes) = Len(want.sizes) /\ \A a \in 1..Len(want.sizes) : SizeArgOK(got.sizes[a], want.sizes[a]))
           [] want.k = "split" -> F("Call/split.ids", got.ids = want.ids) \cup F("Call/split.props", CloseSeq(got.props, want.props))
           [] want.k = "pulse" -> F("Call/pulse.dest", got.dest = want.dest) \cup F("Call/pulse.props", CloseSeq(got.props, want.props))
           [] want.k = "remove" -> F("Call/remove", got.i = want.i)
           [] want.k = "reorder" -> F("Call/reorder", got.perm = want.perm)
           [] OTHER -> {"Call/unknown-kind"}
\* the split children orders the demes library actually returned must list the children the specification derives
EvRecOK(g, rec) == \A r \in Range(rec) : \E s \in Range(DiscreteEvents(g).splits) : s.parent = r.parent /\ Range(s.children) = Range(r.children)
FImport(r) ==
    IF \E q \in 1..Len(r.in.sampled) : ~\E d \in 1..Len(r.in.graph.demes) : r.in.graph.demes[d].name = r.in.sampled[q]
    THEN {"SampledDemeNotInGraph"} ELSE
    LET want == Import(r.in.graph, r.in.sampled, r.in.stimes, r.in.Ne, r.in.fnames, r.in.ev, r.in.pow)
        got  == r.out.events
        n    == IF Len(got) < Len(want) THEN Len(got) ELSE Len(want)
        diffs == UNION {EventDiff(got[q], want[q]) : q \in 1..n}
        \* report the first disagreeing call only: later ones are consequences
        firstBad == IF \E q \in 1..n : EventDiff(got[q], want[q]) # {} THEN MinI({q \in 1..n : EventDiff(got[q], want[q]) # {}}) ELSE 0
    IN  (IF "raised" \in DOMAIN r.out THEN {"ImportRaised"} ELSE {}) \cup
        (IF firstBad > 0 THEN EventDiff(got[firstBad], want[firstBad])
         ELSE IF "raised" \in DOMAIN r.out THEN {}
         ELSE F("CallCount", Len(got) = Len(want)))

\* ---------------------------------------------------------------- spectra
RECURSIVE IProd(_)
IProd(s) == IF s = <<>> THEN 1 ELSE Head(s) * IProd(Tail(s))
Stride(sh, j) == IProd(SubSeq(sh, j + 1, Len(sh)))
Unflat(sh, k) == [j \in 1..Len(sh) |-> ((k - 1) \div Stride(sh, j)) % sh[j]]
RECURSIVE ISum(_)
ISum(s) == IF s = <<>> THEN 0 ELSE Head(s) + ISum(Tail(s))
FlatIx(sh, ix) == 1 + ISum([j \in 1..Len(sh) |-> ix[j] * Stride(sh, j)])
\* x has axes pi of y: x axis j = y axis pi[j]; XofY(q) = flat index in x of y's flat index q
XofY(sh, pi, q) == LET ix == Unflat(sh, q) shx == [j \in 1..Len(pi) |-> sh[pi[j]]] IN FlatIx(shx, [j \in 1..Len(pi) |-> ix[pi[j]]])
\* max |mul * x[pi(q)] - y[q]| / max |y|   as a rational ("inf" when not comparable)
Dist(x, y, sh, pi, mul) ==
    IF Len(x) # Len(y) \/ Len(y) # IProd(sh) \/ ~AllNum(x) \/ ~AllNum(y) \/ RIsZero(RSeqMaxAbs(y)) THEN "inf"
    ELSE RDiv(RSeqMaxAbs([q \in 1..Len(y) |-> RSub(RMul(mul, x[XofY(sh, pi, q)]), y[q])]), RSeqMaxAbs(y))
Ident(n) == [j \in 1..n |-> j]
PiOf(r)  == IF "pi" \in DOMAIN r.in THEN r.in.pi ELSE Ident(Len(r.in.sh))
MulOf(r) == IF "mul" \in DOMAIN r.in THEN r.in.mul ELSE "1"
FSame(r) == IF "raised" \in DOMAIN r.out THEN {r.in.law \o "/Raised"}
            ELSE LET d == Dist(r.out.x, r.out.y, r.in.sh, PiOf(r), MulOf(r)) IN F(r.in.law, d # "inf" /\ RLeq(d, Tau))
FRefine(r) == IF "raised" \in DOMAIN r.out THEN {r.in.law \o "/Raised"}
              ELSE LET d1 == Dist(r.out.x1, r.out.y1, r.in.sh, PiOf(r), "1")
                       d2 == Dist(r.out.x2, r.out.y2, r.in.sh, PiOf(r), "1")
                   IN  F(r.in.law, d1 # "inf" /\ d2 # "inf" /\ RLeq(d1, r.in.cap) /\ RLeq(d2, RAdd(RMul(r.in.ratio, d1), r.in.floor)))

Failed(r) ==
    CASE r.op = "export" -> FExport(r)
      [] r.op = "import" -> FImport(r)
      [] r.op = "same"   -> FSame(r)
      [] r.op = "refine" -> FRefine(r)
      [] OTHER           -> {"UnknownOp"}

Init == i = 0
Next == /\ i < Len(Trace)
        /\ i' = i + 1
        /\ LET r == Trace[i + 1] f == Failed(r) IN IF f = {} THEN TRUE ELSE PrintT(<<"BAD", r.id, f>>)
Spec == Init /\ [][Next]_i
Done == (i = Len(Trace)) => PrintT(<<"DONE", i>>)
AllConsumed == TLCGet("stats").diameter - 1 = Len(Trace)
=============================================================================
