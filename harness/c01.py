"""C01 - one-population SFS matches exact coalescent and selection-equilibrium theory
(spec/Coalescent.tla, spec/Equilibrium.tla, spec/Trace_Theory.tla)."""
import random, itertools, math
from decimal import Decimal, getcontext
from fractions import Fraction
import numpy as np
from . import common
from .common import rat, rats

PROP = 'C01'
getcontext().prec = 70


def exp_table(n, hist_back):
    """E[e][j] = exp(-C(j,2) T_e/nu_e), evaluated to 70 digits and rounded to a multiple of 1e-60 (at least 1e-60, so that
    the table stays positive), as exact rationals (index j-1 unused -> "1").  The common denominator keeps the exact
    arithmetic of the coalescent formula cheap; the absolute error 1e-60, amplified by the alternating coefficients of the
    lineage-count formula (< 1e17 for n <= 30), stays below 1e-42 of a spectrum entry."""
    Q = 10 ** 60
    tab = []
    for ep in hist_back:
        nu, T = Fraction(ep['nu']), Fraction(ep['T'])
        row = ['1']          # position j of the sequence holds the entry for j lineages (j = 1 unused)
        for j in range(2, n + 1):
            arg = Fraction(j * (j - 1), 2) * T / nu
            d = (Decimal(-arg.numerator) / Decimal(arg.denominator)).exp()
            f = Fraction(max(1, round(Fraction(d) * Q)), Q)
            row.append(rat(f))
        tab.append(row)
    return tab


def coal_records(ctx, rng, nid):
    import dadi
    from dadi import Numerics, PhiManip, Integration, Spectrum, Demographics1D
    recs = []
    tfs = [1e-3, 5e-4, 1e-4] if ctx.quick else [1e-3, 5e-4, 2.5e-4, 1e-4]
    ncase = 5 if ctx.quick else 60
    old_tf = Integration.timescale_factor
    try:
        for c in range(ncase):
            nep = rng.choice([1, 2, 2, 3, 4])
            budget = 3.0 if ctx.quick else 40.0        # bound on sum T/nu, i.e. on the number of time steps
            hist = []
            for e in range(nep):
                nu = math.exp(rng.uniform(math.log(0.05), math.log(20)))
                T = rng.uniform(0.005, 3.0)
                T = min(T, max(0.005, budget / nep * nu))
                hist.append({'nu': nu, 'T': T})
            n = rng.choice([2, 5, 8, 12, 20, 30]) if not ctx.quick else rng.choice([3, 8, 14, 20])
            ptsl = rng.choice([[100, 120, 140], [110, 130, 150]])
            log = rng.random() < 0.4
            asfunc = rng.random() < 0.4
            kind = 'chain'
            if nep == 1 and rng.random() < 0.6:
                kind = 'two_epoch'
            elif nep == 2 and rng.random() < 0.6:
                kind = 'three_epoch'

            # chains are written either with per-epoch durations or on a running clock (T = epoch end, initial_t = epoch start);
            # every fourth case is a running-clock chain by construction, alternately on the constant and the time-function path
            clock = (c % 2 == 1)
            if c % 4 == 1:
                kind = 'chain'
                asfunc = (c % 8 == 5)

            def model(params, ns, pts, hist=hist, asfunc=asfunc, clock=clock):
                xx = Numerics.default_grid(pts)
                phi = PhiManip.phi_1D(xx)
                now = 0.0
                for ep in hist:
                    nu = ep['nu']
                    if clock:
                        phi = Integration.one_pop(phi, xx, now + ep['T'], nu=(lambda t, nu=nu: nu) if asfunc else nu, initial_t=now)
                        now = now + ep['T']
                    else:
                        phi = Integration.one_pop(phi, xx, ep['T'], nu=(lambda t, nu=nu: nu) if asfunc else nu)
                return Spectrum.from_phi(phi, ns, (xx,))
            if kind == 'two_epoch':
                base, params, site = Demographics1D.two_epoch, (hist[0]['nu'], hist[0]['T']), 'Demographics1D.two_epoch'
            elif kind == 'three_epoch':
                base, params, site = Demographics1D.three_epoch, (hist[0]['nu'], hist[1]['nu'], hist[0]['T'], hist[1]['T']), 'Demographics1D.three_epoch'
            else:
                base, params, site = model, (), 'Integration.one_pop chain'
            f = (Numerics.make_extrap_log_func if log else Numerics.make_extrap_func)(base)
            if c % 3 != 0:      # the wrapper object is re-used: first a call with another (coarse) grid list of the same length
                try:
                    f(params, [n], [40, 50, 60])
                except Exception:
                    pass
            runs = []
            for tf in tfs:
                Integration.timescale_factor = tf
                try:
                    fs = f(params, [n], ptsl)
                    runs.append({'tf': rat(Fraction(tf).limit_denominator(10 ** 7)), 'sfs': rats(np.asarray(fs.data))})
                except Exception as ex:
                    runs.append({'tf': rat(Fraction(tf).limit_denominator(10 ** 7)), 'sfs': [], 'raised': type(ex).__name__})
            back = [{'nu': rat(e['nu']), 'T': rat(e['T'])} for e in reversed(hist)]
            recs.append({'id': 'coal-%d' % next(nid), 'op': 'coal', 'site': site,
                         'in': {'n': n, 'hist': back, 'nuanc': '1', 'theta': '1', 'E': exp_table(n, back), 'pts': ptsl, 'log': log,
                                'asfunc': asfunc, 'kind': kind + ('/clock' if (clock and kind == 'chain') else ''), 'reused_wrapper': c % 3 != 0}, 'out': {'runs': runs}})
    finally:
        Integration.timescale_factor = old_tf
    return recs


def _gl(nq):
    xs, ws = np.polynomial.legendre.leggauss(nq)
    return (xs + 1) / 2, ws / 2


def D_table(xs, g, h):
    """D(x) = e^{Q(x)} int_x^1 e^{-Q} / int_0^1 e^{-Q}, Q = 4 g h x + 2 g (1-2h) x^2, evaluated independently of dadi:
    closed form for h = 1/2, composite Gauss-Legendre (32 panels x 32 nodes, exponent shifted) otherwise."""
    if h == 0.5:
        if g == 0:
            return 1 - xs
        return np.expm1(-2 * g * (1 - xs)) / np.expm1(-2 * g)
    Q = lambda t: 4 * g * h * t + 2 * g * (1 - 2 * h) * t * t
    gx, gw = _gl(32)

    def integ(a, b, ref):
        """int_a^b exp(-(Q(t) - ref)) dt by composite Gauss-Legendre (32 panels x 32 nodes)"""
        edges = np.linspace(a, b, 33)
        tot = 0.0
        for lo, hi in zip(edges[:-1], edges[1:]):
            t = lo + (hi - lo) * gx
            tot += (hi - lo) * np.sum(gw * np.exp(-(Q(t) - ref)))
        return tot
    qmin = float(np.min(Q(np.linspace(0, 1, 4001))))
    den_s = integ(0.0, 1.0, qmin)            # = e^{qmin} * int_0^1 e^{-Q}
    out = []
    for x in xs:
        num_x = integ(float(x), 1.0, float(Q(x)))   # = e^{Q(x)} * int_x^1 e^{-Q}
        out.append(num_x / (den_s * math.exp(-qmin)))
    return np.array(out)


def equil_records(ctx, rng, nid):
    import dadi
    from dadi import Numerics, PhiManip, Spectrum
    from dadi.DFE import DemogSelModels
    recs = []
    ncase = 5 if ctx.quick else 40
    xs, ws = _gl(160)
    for c in range(ncase):
        strict = rng.random() < 0.6
        h = rng.choice([0.5, 0.5, rng.random(), 0.0, 1.0])
        gamma = rng.uniform(-10, 10) if strict else rng.choice([rng.uniform(-60, -10), rng.uniform(10, 40)])
        nu = rng.choice([1.0, math.exp(rng.uniform(math.log(0.1), math.log(10)))])
        if not strict:
            nu = 1.0
        theta0 = rng.uniform(0.2, 5)
        beta = 1.0
        n = rng.choice([4, 10, 20]) if strict else rng.choice([4, 8])
        g = gamma * nu
        use_lib = (h == 0.5 and nu == 1.0 and rng.random() < 0.7)

        def model(params, ns, pts):
            xx = Numerics.default_grid(pts)
            phi = PhiManip.phi_1D(xx, nu=nu, theta0=theta0, gamma=gamma, h=h)
            return Spectrum.from_phi(phi, ns, (xx,))
        if use_lib:
            f = Numerics.make_extrap_func(lambda params, ns, pts: theta0 * DemogSelModels.equil(params, ns, pts))
            site = 'DFE.DemogSelModels.equil'
        else:
            f = Numerics.make_extrap_func(model)
            site = 'PhiManip.phi_1D+from_phi'
        runs = []
        for ptsl in ([50, 60, 70], [100, 120, 140]) if ctx.quick else ([50, 60, 70], [100, 120, 140], [200, 240, 280]):
            try:
                fs = f([gamma], [n], ptsl)
                runs.append({'pts': ptsl, 'sfs': rats(np.asarray(fs.data))})
            except Exception as ex:
                runs.append({'pts': ptsl, 'sfs': [], 'raised': type(ex).__name__})
        Dv = D_table(xs, g, h)
        recs.append({'id': 'equil-%d' % next(nid), 'op': 'equil_sfs', 'site': site,
                     'in': {'n': n, 'gamma': rat(gamma), 'h': rat(h), 'nu': rat(nu), 'theta0': rat(theta0), 'beta': rat(beta), 'strict': strict,
                            'x': rats(xs), 'w': rats(ws), 'D': rats(Dv)}, 'out': {'runs': runs}})
    return recs


def regime_records(ctx, rng, nid):
    """phi_1D on both sides of each numerical regime switch, and at the extremes of the stated domain."""
    from dadi import Numerics, PhiManip
    recs = []
    xx = Numerics.default_grid(30 if ctx.quick else 60)
    eps = 1e-9
    switches = []
    for nu in ([1.0, 0.3] if ctx.quick else [1.0, 0.1, 0.3, 3.0, 10.0]):
        switches += [('gamma=0,h=1/2', [(-eps, 0.5, nu), (0.0, 0.5, nu), (eps, 0.5, nu)]),
                     ('gamma=0,h=0.3', [(-eps, 0.3, nu), (0.0, 0.3, nu), (eps, 0.3, nu)]),
                     ('genic g=-300', [((-300 - 1e-7) / nu, 0.5, nu), (-300 / nu, 0.5, nu), ((-300 + 1e-7) / nu, 0.5, nu)]),
                     ('genic g=+300', [((300 - 1e-7) / nu, 0.5, nu), (300 / nu, 0.5, nu), ((300 + 1e-7) / nu, 0.5, nu)]),
                     ('h->1/2 (gamma=-5)', [(-5.0, 0.5 - eps, nu), (-5.0, 0.5, nu), (-5.0, 0.5 + eps, nu)]),
                     ('h->1/2 (gamma=+4)', [(4.0, 0.5 - eps, nu), (4.0, 0.5, nu), (4.0, 0.5 + eps, nu)]),
                     ('overflow guard g=-350 (h=0.3)', [((-350 - 1e-7) / nu, 0.3, nu), (-350 / nu, 0.3, nu), ((-350 + 1e-7) / nu, 0.3, nu)]),
                     ('overflow guard g=-354.89 (h=0.8)', [((-354.891 - 1e-7) / nu, 0.8, nu), (-354.891 / nu, 0.8, nu), ((-354.891 + 1e-7) / nu, 0.8, nu)]),
                     ('near exp overflow g=-354.8 (h=0.3)', [((-354.8 - 1e-7) / nu, 0.3, nu), (-354.8 / nu, 0.3, nu), ((-354.8 + 1e-7) / nu, 0.3, nu)])]
    for name, pts in switches:
        phis = []
        for (gam, h, nu) in pts:
            try:
                phis.append(rats(PhiManip.phi_1D(xx, nu=nu, gamma=gam, h=h)))
            except Exception as ex:
                phis.append(['nan'])
        recs.append({'id': 'regime-%d' % next(nid), 'op': 'phi_regime', 'site': 'PhiManip.phi_1D',
                     'in': {'switch': name, 'points': [[rat(a), rat(b), rat(c)] for a, b, c in pts]}, 'out': {'phis': phis}})
    # sizes far from 1: the regime is decided by the effective selection gamma*nu, not by gamma
    for gam in (-250.0, -100.0, -40.0, 40.0, 100.0, 250.0):
        for nu in (0.1, 10.0):
            for h in (0.5, 0.3):
                try:
                    phi = rats(PhiManip.phi_1D(xx, nu=nu, gamma=gam, h=h))
                except Exception as ex:
                    phi = ['nan']
                recs.append({'id': 'regime-%d' % next(nid), 'op': 'phi_regime', 'site': 'PhiManip.phi_1D',
                             'in': {'switch': 'size far from 1', 'points': [[rat(gam), rat(h), rat(nu)]]}, 'out': {'phis': [phi]}})
    # extremes of the stated domain: finite and non-negative (no continuity claim between unrelated points)
    for r in range(8 if ctx.quick else 40):
        gam = rng.choice([-1e6, -1e5, -1e4, -3e3, -1e3, 1e3, 999.0, 500.0, rng.uniform(-1e6, 1e3)])
        h = rng.choice([0.0, 1.0, 0.5, rng.random()])
        nu = rng.choice([0.1, 1.0, 10.0])
        if r == 0:
            gam, h, nu = -1e6, 0.25, 10.0
        elif r == 1:
            gam, h, nu = -1e6, 0.75, 10.0
        try:
            phi = rats(PhiManip.phi_1D(xx, nu=nu, gamma=gam, h=h, theta0=rng.uniform(0.1, 3), beta=rng.choice([1.0, 0.3, 2.5])))
        except Exception as ex:
            phi = ['nan']
        # the general-h quadrature loses the boundary layer (int0 underflows to 0) once the effective selection
        # gamma*nu is below about -3e6 with h < 1/2: a distinct failure class with its own key (known finding)
        site = 'PhiManip.phi_1D[h<1/2, gamma*nu<-3e6]' if (h < 0.5 and gam * nu < -3e6) else 'PhiManip.phi_1D'
        recs.append({'id': 'regime-%d' % next(nid), 'op': 'phi_regime', 'site': site,
                     'in': {'switch': 'domain extreme', 'points': [[rat(gam), rat(h), rat(nu)]]}, 'out': {'phis': [phi]}})
    return recs


def stationary_records(ctx, rng, nid):
    from dadi import Numerics, PhiManip, Integration, Spectrum
    recs = []
    for c in range(4 if ctx.quick else 30):
        nu = rng.choice([1.0, math.exp(rng.uniform(math.log(0.1), math.log(10)))])
        gamma = rng.choice([0.0, rng.uniform(-8, 8) / nu])
        h = rng.choice([0.5, rng.random()]) if c % 4 != 1 else rng.choice([0.1, 0.9])
        if c % 4 == 1 and gamma == 0.0:
            gamma = rng.choice([-3.0, 2.0]) / nu
        theta0 = rng.uniform(0.5, 2)
        n = rng.choice([6, 12])
        T = rng.uniform(0.05, 0.3) * nu
        # beta (breeding sex ratio) of the quantifier: fixed schedule so that every run has beta != 1 on both parameter-passing paths
        beta = [1.0, 0.4, 2.5, 1.0, 3.0, 0.25, 1.0, 0.6][c % 8]
        runs = []
        for pts in ([30, 60, 120] if ctx.quick else [30, 60, 120, 240]):
            xx = Numerics.default_grid(pts)
            try:
                phi = PhiManip.phi_1D(xx, nu=nu, theta0=theta0, gamma=gamma, h=h, beta=beta)
                before = Spectrum.from_phi(phi, [n], (xx,))
                if c % 2:       # the same parameters passed as functions of time (on-the-fly kernel)
                    phi2 = Integration.one_pop(phi, xx, T, nu=lambda t: nu, gamma=lambda t: gamma, h=h, theta0=theta0, beta=beta)
                else:
                    phi2 = Integration.one_pop(phi, xx, T, nu=nu, gamma=gamma, h=h, theta0=theta0, beta=beta)
                after = Spectrum.from_phi(phi2, [n], (xx,))
                runs.append({'pts': pts, 'before': rats(np.asarray(before.data)), 'after': rats(np.asarray(after.data))})
            except Exception as ex:
                runs.append({'pts': pts, 'before': [], 'after': [], 'raised': type(ex).__name__})
        recs.append({'id': 'stat-%d' % next(nid), 'op': 'stationary', 'site': 'PhiManip.phi_1D+Integration.one_pop',
                     'in': {'n': n, 'nu': rat(nu), 'gamma': rat(gamma), 'h': rat(h), 'T': rat(T), 'beta': rat(beta), 'asfunc': bool(c % 2)}, 'out': {'runs': runs}})
    return recs


def mutate(rec):
    o = rec['out']
    if rec['op'] == 'coal' or rec['op'] == 'equil_sfs':
        run = o['runs'][-1]
        if len(run['sfs']) < 3:
            return None
        run['sfs'][1] = rat(Fraction(run['sfs'][1]) * Fraction(103, 100))     # 3 % off: beyond the 1.5 % bound
        if rec['op'] == 'equil_sfs':
            rec['in']['strict'] = True
        return rec
    if rec['op'] == 'phi_regime':
        v = o['phis'][0]
        if v == ['nan']:
            return None
        v[len(v) // 2] = rat(-abs(Fraction(v[len(v) // 2])) - 1)
        return rec
    if rec['op'] == 'stationary':
        run = o['runs'][-1]
        if len(run['after']) < 3:
            return None
        run['after'][1] = rat(Fraction(run['after'][1]) * 3)
        return rec
    return None


def run(ctx):
    rng = random.Random(ctx.seed + 1)
    nid = itertools.count()
    if ctx.replay:
        recs = [ctx.replay_payload['payload']['record']]
        ctx.no_mc = True
    else:
        recs = coal_records(ctx, rng, nid) + equil_records(ctx, rng, nid) + regime_records(ctx, rng, nid) + stationary_records(ctx, rng, nid)
    # the records are judged independently; deal them over the parallel TLC batches by estimated cost (the exact coalescent
    # expectation for n = 30 and four epochs is far heavier than a regime record) so that no batch collects all heavy ones
    npar = 8 if ctx.quick else 14

    def cost(r):
        if r['op'] == 'coal':
            return r['in']['n'] ** 2 * (1 + len(r['in']['hist'])) * len(r['out']['runs'])
        if r['op'] == 'equil_sfs':
            return 40 * r['in']['n'] * len(r['out']['runs'])
        return 1
    if not ctx.replay:
        order = sorted(recs, key=cost, reverse=True)
        recs = [r for j in range(npar) for r in order[j::npar]]       # round-robin by decreasing cost; batches are cut contiguously
    return common.pipeline(
        ctx, [('CoalescentMC', 'CoalescentMC_%s.cfg' % ctx.tier)], 'Trace_Theory', recs, mutator=mutate,
        nontrivial_of=lambda r: (r['op'], r['site'], r['in'].get('n'), r['in'].get('kind'), r['in'].get('log'), r['in'].get('asfunc'),
                                 r['in'].get('switch'), len(r['in'].get('hist', [])), r['in'].get('gamma'), r['in'].get('h')),
        rule='coalescent records: 1-4 epoch histories (nu in [0.05,20], T in [0.005,3], number of time steps bounded per tier), n in 2..30, grid lists '
             '[100,120,140] / [110,130,150], linear and log extrapolation, constant and time-function sizes, library models and one_pop chains, each at '
             'timescale factors 1e-3 ... 1e-4; equilibrium records: gamma in [-60,40], h in [0,1], nu in [0.1,10] on 2-3 grid lists; regime records at every '
             'numerical switch of phi_1D and at the extremes of the stated domain; stationarity records on doubled grids',
        assumptions=['exp(-C(j,2)T/nu) supplied with absolute accuracy 1e-60 by the stdlib decimal module (70-digit evaluation); the selection density D(x) supplied at 160 Gauss-Legendre nodes by '
                     'an independent evaluation (closed form / composite quadrature); TLC computes the coalescent expectation and the sampling quadrature exactly',
                     'the 1.5 % bound is applied with grid lists >= [100,120,140]; for equilibrium spectra only for |gamma| <= 10 (calibration in DESIGN C01), '
                     'elsewhere the error must shrink by >= 2x per grid doubling', 'convergence is sampled at 2-4 refinement levels, not proved'],
        parallel=npar)
