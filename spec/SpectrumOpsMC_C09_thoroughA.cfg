CONSTANTS
  MaxDepth = 2
  Shapes <- ShapesQuick
  FullMaskSize = 5
SPECIFICATION Spec
CHECK_DEADLOCK FALSE
INVARIANT TypeOK
INVARIANT L_FoldTotal
INVARIANT L_FoldMirror
INVARIANT L_FoldUnfoldFold
INVARIANT L_UnfoldTotal
INVARIANT L_MirrorInvol
INVARIANT L_Misid
INVARIANT L_FoldMaskUnion
