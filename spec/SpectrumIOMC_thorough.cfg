CONSTANTS
  Shapes <- ShapesThorough
  FullMaskSize = 4
  Precisions = {1, 3}
  LabelSets <- LabelsThorough
  StreamShapes <- StreamShapesThorough
  CommentSets <- CommentsThorough
SPECIFICATION Spec
CHECK_DEADLOCK FALSE
INVARIANT TypeOK
INVARIANT L_RoundTrip
INVARIANT L_FileShape
INVARIANT L_Header
INVARIANT L_Regenerate
INVARIANT L_Array
INVARIANT L_ArrayFileAsSpectrum
INVARIANT L_OldFileAsArray
INVARIANT L_Stream
INVARIANT L_StreamWritten
INVARIANT L_Pickle
