---------------------------- MODULE DemoMachineMC ----------------------------
(***************************************************************************)
(* Exhaustive exploration of the demographic machine: every program of at  *)
(* most MaxDepth actions after the equilibrium over a small alphabet of    *)
(* argument values (absent / 0 / 1 / 2 / 1/2, a time function, symmetric   *)
(* and matrix migration forms, single and per-population selection, frozen *)
(* flags, zero and non-zero durations).  In every reachable state the laws *)
(* of Norm are evaluated against a richer alphabet of next actions:        *)
(*   idempotence, congruence for every action, zero-duration integrations  *)
(*   stutter, m12 = m21 = m is the symmetric form, gamma = 0 / absent is   *)
(*   the neutral form, equal gammas are the single-gamma form, a new       *)
(*   population drawing all from one parent is a split; Norm never         *)
(*   identifies two different effective actions; per-population arguments  *)
(*   reach their population and m_ij its ordered pair; well-formedness is  *)
(*   preserved by every action and by Norm.                                *)
(***************************************************************************)
EXTENDS DemoMachine, TLC
CONSTANTS MaxDepth,     \* actions after the equilibrium
          MaxP          \* populations the explored programs may create (laws are still checked for actions up to 5)
VARIABLES s, depth
vars == <<s, depth>>

Rep(n, x) == [i \in 1..n |-> x]
Distinct(n, off) == [i \in 1..n |-> C(RInt(i + off))]
WithFn(n) == [i \in 1..n |-> IF i = 1 THEN Fn(<<"1", "3/2", "2">>) ELSE C("2")]
OffDiag(n, F(_, _)) == [i \in 1..n |-> [j \in 1..n |-> IF i = j THEN Dflt ELSE F(i, j)]]
ConstMat(n, x) == OffDiag(n, LAMBDA i, j : x)
AsymMat(n) == OffDiag(n, LAMBDA i, j : C(RInt(i + 2 * j)))
FirstFrozen(n) == [i \in 1..n |-> IF i = 1 THEN B(TRUE) ELSE Dflt]
NoMigFor1(n) == OffDiag(n, LAMBDA i, j : IF i = 1 \/ j = 1 THEN C("0") ELSE C("1"))

I(T, nus, gammas, ms, frozen) ==
    [op |-> "integrate", T |-> T, nus |-> nus, gammas |-> gammas, hs |-> All(Dflt), ms |-> ms, theta |-> Dflt,
     frozen |-> frozen, nomut |-> Rep(Len(nus), Dflt), beta |-> Dflt, t0 |-> Dflt]
Eq(via, nu, gamma) == [op |-> "equilibrium", via |-> via, par |-> <<nu, Dflt, gamma, Dflt, Dflt, Dflt>>]
EqActs == {Eq("phi_1D", Dflt, Dflt), Eq("phi_1D", C("2"), C("1")), Eq("phi_1D", Dflt, C("0")), Eq("phi_1D_snm", Dflt, Dflt)}

Unit(n, i) == [j \in 1..n |-> IF j = i THEN "1" ELSE "0"]
HalfHalf(n) == [j \in 1..n |-> IF j <= 2 THEN "1/2" ELSE "0"]
Quarter(n, d) == [j \in 1..n |-> IF j = d THEN "3/4" ELSE IF j = (d % n) + 1 THEN "1/4" ELSE "0"]
Perms(n) == {p \in [1..n -> 1..n] : \A i, j \in 1..n : i # j => p[i] # p[j]}
Rotate(n) == [j \in 1..n |-> (j % n) + 1]

\* the alphabet that generates the reachable states
StepActs(t) ==
    LET n == NP(t) IN
    IF t.pc = "start" THEN EqActs
    ELSE {I("0", Distinct(n, 1), All(C("1")), Sym(C("1")), Rep(n, Dflt)),
          I("1", Rep(n, Dflt), All(Dflt), Sym(Dflt), Rep(n, Dflt)),
          I("1", Distinct(n, 0), Each(Distinct(n, 0)), Mat(AsymMat(n)), Rep(n, Dflt)),
          I("1/2", WithFn(n), All(C("0")), Sym(C("1")), Rep(n, Dflt)),
          I("1", Rep(n, C("1")), All(Dflt), Mat(NoMigFor1(n)), FirstFrozen(n))}
         \cup (IF n < MaxP THEN {[op |-> "split", parent |-> 1], [op |-> "split", parent |-> n]} ELSE {})
         \cup (IF n < MaxP /\ n >= 2 THEN {[op |-> "admixnew", props |-> HalfHalf(n)], [op |-> "admixnew", props |-> Unit(n, n)]} ELSE {})
         \cup (IF n >= 2 THEN {[op |-> "pulse", dest |-> n, props |-> Quarter(n, n)], [op |-> "remove", i |-> n],
                               [op |-> "reorder", perm |-> Rotate(n)]} ELSE {})
         \cup {[op |-> "sample", ns |-> [i \in 1..n |-> i + 1], how |-> "from_phi"]}

\* the richer alphabet against which the laws are evaluated in every state
NuChoices(n)    == {Rep(n, Dflt), WithFn(n)}
GammaChoices(n) == {All(Dflt), All(C("0")), All(C("1")), Each(Distinct(n, 0))}
MigChoices(n)   == {Sym(Dflt), Sym(C("1")), Mat(ConstMat(n, C("0"))), Mat(AsymMat(n))}
\* one factor at a time around a base call, at zero and non-zero duration (the factors act on disjoint fields of the state)
IntegrateActs(n) == {I(T, nu, All(Dflt), Sym(Dflt), Rep(n, Dflt)) : T \in {"0", "1"}, nu \in NuChoices(n)}
                    \cup {I(T, Distinct(n, 0), g, Sym(C("1")), Rep(n, Dflt)) : T \in {"0", "1"}, g \in GammaChoices(n)}
                    \cup {I(T, Distinct(n, 0), All(C("1")), m, Rep(n, Dflt)) : T \in {"0", "1"}, m \in MigChoices(n)}
                    \cup {I(T, Rep(n, C("1")), All(Dflt), Mat(NoMigFor1(n)), FirstFrozen(n)) : T \in {"0", "1"}}
                    \cup {I("1", Rep(n, C("1")), All(Dflt), Sym(C("1")), FirstFrozen(n))}            \* refused when n >= 2
StructActs(n) ==
    {[op |-> "split", parent |-> i] : i \in 1..n}
    \cup {[op |-> "admixnew", props |-> q] : q \in {Unit(n, i) : i \in 1..n} \cup {HalfHalf(n)}}
    \cup {[op |-> "pulse", dest |-> d, props |-> Quarter(n, d)] : d \in 1..n}
    \cup {[op |-> "remove", i |-> i] : i \in 1..n}
    \cup {[op |-> "reorder", perm |-> p] : p \in (IF n <= 3 THEN Perms(n) ELSE {Rotate(n), [j \in 1..n |-> n + 1 - j]})}
    \cup {[op |-> "sample", ns |-> [i \in 1..n |-> i + 1], how |-> "from_phi"], [op |-> "sample", ns |-> Rep(n, 2), how |-> "from_phi_inbreeding"]}
LawActs(t) == IF t.pc = "start" THEN EqActs ELSE IntegrateActs(NP(t)) \cup StructActs(NP(t))
\* a smaller set for the pairwise law
PairActs(t) == IF t.pc = "start" THEN EqActs
               ELSE LET n == NP(t) IN
                    {I(T, nu, g, m, Rep(n, Dflt)) : T \in {"0", "1"}, nu \in {Rep(n, Dflt), Distinct(n, 0)}, g \in {All(Dflt), All(C("1")), Each(Distinct(n, 0))},
                                                    m \in {Sym(Dflt), Mat(AsymMat(n))}}
                    \cup StructActs(n)

Init == s = Empty /\ depth = -1
Next == /\ depth < MaxDepth
        /\ \E a \in StepActs(s) : Enabled(s, a) /\ s' = Do(s, a)
        /\ depth' = depth + 1
Spec == Init /\ [][Next]_vars

\* ---------------------------------------------------------------- the laws
L_WellFormed     == WF(s)
L_NormWellFormed == WF(Norm(s))
L_Preserved      == \A a \in LawActs(s) : Enabled(s, a) => WF(Do(s, a))
L_Idempotent     == Norm(Norm(s)) = Norm(s)
\* Norm is a congruence: an action is enabled on a history iff it is on its normal form, and acting on either
\* (with the arguments as given or in canonical form) leads to the same normal form
L_Congruence     == LET ns == Norm(s) n == NP(s) IN
                    \A a \in LawActs(s) :
                       LET ca == NormArgs(a, n) en == Enabled(s, a) IN
                       /\ en = Enabled(ns, a)
                       /\ en = Enabled(s, ca)
                       /\ en => LET r == Norm(Do(s, a)) IN r = Norm(Do(ns, a)) /\ r = Norm(Do(ns, ca))
L_ArgsIdempotent == \A a \in LawActs(s) : NormArgs(NormArgs(a, NP(s)), NP(s)) = NormArgs(a, NP(s))
\* zero-duration integrations are stuttering steps of the normal form; others are not
L_ZeroDurationStutters == s.pc = "running" => LET ns == Norm(s) IN
                             \A a \in IntegrateActs(NP(s)) : Enabled(s, a) => (RIsZero(a.T) <=> Norm(Do(s, a)) = ns)
\* m12 = m21 = m is the symmetric form
L_SymmetricMigration == s.pc = "running" => \A x \in {Dflt, C("0"), C("1"), C("2")} : \A T \in {"0", "1"} :
                           LET n == NP(s) IN
                           Norm(Do(s, I(T, Distinct(n, 0), All(Dflt), Sym(x), Rep(n, Dflt)))) = Norm(Do(s, I(T, Distinct(n, 0), All(Dflt), Mat(ConstMat(n, x)), Rep(n, Dflt))))
\* gamma = 0 (or absent) is the neutral form; equal gammas are the single-gamma form
L_NeutralSelection == s.pc = "running" =>
                           LET n == NP(s)
                               go(g) == Norm(Do(s, I("1", Distinct(n, 0), g, Sym(C("1")), Rep(n, Dflt))))
                           IN go(All(Dflt)) = go(All(C("0"))) /\ go(All(Dflt)) = go(Each(Rep(n, C("0")))) /\ go(All(Dflt)) = go(Each(Rep(n, Dflt)))
                              /\ go(All(Dflt)) # go(All(C("1")))
L_SingleGamma      == s.pc = "running" => \A x \in {C("1"), C("2"), Fn(<<"1", "2", "3">>)} :
                           LET n == NP(s)
                               go(g) == Norm(Do(s, I("1", Distinct(n, 0), g, Sym(C("1")), Rep(n, Dflt))))
                           IN go(All(x)) = go(Each(Rep(n, x)))
\* a new population that draws everything from one parent is a split from that parent
L_UnitAdmixtureIsSplit == (s.pc = "running" /\ NP(s) < MaxPops) => \A i \in 1..NP(s) :
                           Norm(Do(s, [op |-> "admixnew", props |-> Unit(NP(s), i)])) = Norm(Do(s, [op |-> "split", parent |-> i]))
\* Norm identifies nothing else: two enabled actions with different canonical arguments lead to different normal forms
\* unless both are zero-duration integrations
NoOp(a, n) == (a.op = "integrate" /\ RIsZero(a.T)) \/ (a.op = "reorder" /\ a.perm = [j \in 1..n |-> j])
SplitAsAdmix(a, b, n) == a.op = "split" /\ b.op = "admixnew" /\ b.props = Unit(n, a.parent)
\* the canonical name of what an action does to the normal form
Key(a, n) == IF NoOp(a, n) THEN [op |-> "noop"]
             ELSE IF a.op = "split" THEN [op |-> "admixnew", props |-> Unit(n, a.parent)]
             ELSE NormArgs(a, n)
L_Faithful == LET n == NP(s)
                  R == {<<Key(a, n), Norm(Do(s, a))>> : a \in {x \in PairActs(s) : Enabled(s, x)}}
              IN \A x, y \in R : (x[1] = y[1]) <=> (x[2] = y[2])
\* per-population arguments reach their population, pairwise rates their ordered pair (m_ij = rate INTO i FROM j)
L_Distribution == s.pc = "running" =>
                     LET n == NP(s)
                         a == I("1", Distinct(n, 0), Each(Distinct(n, 10)), Mat(AsymMat(n)), Rep(n, Dflt))
                         t == Do(s, a)
                         last(i) == LET h == t.lins[t.pops[i]].hist IN h[Len(h)]
                     IN /\ \A i \in 1..n : last(i).k = t.clock /\ last(i).par[1] = C(RInt(i)) /\ last(i).par[2] = C(RInt(i + 10))
                        /\ \A p \in Pairs(n) : [into |-> t.pops[p[1]], from |-> t.pops[p[2]], k |-> t.clock, T |-> "1", m |-> C(RInt(p[1] + 2 * p[2]))] \in t.migs
                        /\ Cardinality({r \in t.migs : r.k = t.clock}) = n * (n - 1)
\* reordering composes and is undone by the inverse permutation (bookkeeping only: leaves no trace in the normal form)
L_ReorderInverse == (s.pc = "running" /\ NP(s) \in 2..3) => \A p \in Perms(NP(s)) :
                       LET inv == [j \in 1..NP(s) |-> CHOOSE i \in 1..NP(s) : p[i] = j]
                       IN Norm(Do(Do(s, [op |-> "reorder", perm |-> p]), [op |-> "reorder", perm |-> inv])) = Norm(s)
\* non-vacuity: the exploration reaches sampled three-population programs with removed lineages etc. (checked by the driver via state counts)
=============================================================================
