\* DEFECTIVE design (must be refuted): _part_cache key without n
CONSTANTS
  MaxDepth = 2
  BaseSel = "memo"
  LaySel = "C"
  ProjKeyMode = "full"
  DbetaKeyMode = "full"
  PartKeyMode = "no_n"
  EntryMode = "copy_all"
  XXMode = "contig"
  GodMode = "object"
  DemesMode = "pure"
  PerturbMode = "pure"
  HashMode = "ordered"
  SFSMode = "copies"
  VectorMode = "copies"
  MaskMode = "setter"
  KernelMode = "stateless"
  MaxTable = 60
SPECIFICATION Spec
CHECK_DEADLOCK FALSE
CONSTRAINT TableBound
VIEW MCView
INVARIANT TypeOK
INVARIANT AlphabetOK
INVARIANT TablesSound
INVARIANT ResultIndependentOfHistory
INVARIANT ResultIndependentOfHashSeed
INVARIANT LayoutIndependent
INVARIANT ArgumentsUnchanged
INVARIANT ResultIsFresh
