CONSTANTS
  MaxDepth = 0
  Dims = {1}
  Addrs = {1, 2}
  KeyHoldsRef = TRUE
  FullBoots = TRUE
SPECIFICATION SpecStats
CHECK_DEADLOCK FALSE
INVARIANT L_InfoSym
INVARIANT L_ScoreInfo
INVARIANT L_ThetaScoreZero
INVARIANT L_FitScoreZero
INVARIANT L_PosParts
INVARIANT L_Inverse
INVARIANT L_Sandwich
INVARIANT L_PermInvariant
INVARIANT L_StatsOfHJ
INVARIANT L_Chi2
INVARIANT L_Fold
