"""Vacuity guard for the exhaustive TLC models.

    /venv/bin/python -m harness.vacuity [--tier quick|thorough|all] [--report] [--only SUBSTR] [--jobs N] [--workers W]

Re-runs every exhaustive model-checking configuration of the selected tier with
`-coverage 1` (same command line as harness.common.tlc) and reads TLC's coverage
statistics.  Exit 1 if

  * an action (a disjunct of Next / an Init predicate, as TLC splits them) was never
    taken (`0:0`) or never produced a state (`n:0`) or never found a NEW state (`0:m`),
  * a sub-expression of an action body was never evaluated (a disjunct / IF- or
    CASE-branch of a monolithic Next that is dead in this configuration),
  * a sub-expression of an INVARIANT was never evaluated (a law whose guard is never
    true: it holds vacuously in this configuration),
  * the model finishes with fewer than MIN_STATES distinct states,
  * a configuration that is expected to pass fails / one that is expected to be refuted passes,

unless the finding is on the allow-list harness/vacuity_allow.json (every entry carries a
reason).  Exit 0 otherwise, 2 on machinery failure.  No verdict about dadi is computed
here: this only guards the models against checking nothing.

Allow-list entry: {"cfg": fnmatch pattern, "kind": "action"|"branch"|"law"|"tiny",
"where": name of the action / invariant, "expr": prefix of the (whitespace-normalised)
source text of the dead expression ("" for kind action/tiny), "reason": "..."}.
"""
import argparse, fnmatch, json, os, re, shutil, signal, subprocess, sys, tempfile, time
from concurrent.futures import ThreadPoolExecutor

VERIF = os.path.dirname(os.path.dirname(os.path.abspath(__file__)))
SPEC = os.path.join(VERIF, 'spec')
CLASSES = os.path.join(VERIF, 'build', 'classes')
TLA_CP = '/opt/veriftools/tla/tla2tools.jar:/opt/veriftools/tla/CommunityModules-deps.jar'
ALLOW = os.path.join(VERIF, 'harness', 'vacuity_allow.json')
MIN_STATES = 20

# (module, cfg, tier, expect) -- expect: 'pass' (law configs and exhaustive generators) or 'fail' (refutation configs,
# only confirmed to fail; no coverage demanded).  Kept in step with the drivers: `python -m harness.vacuity --list-unknown`
# prints every spec/*MC*.cfg that is not in this table.
Q, T = 'quick', 'thorough'
CONFIGS = [
    ('CoalescentMC', 'CoalescentMC_quick.cfg', Q, 'pass'), ('CoalescentMC', 'CoalescentMC_thorough.cfg', T, 'pass'),
    ('SchemeMC', 'SchemeMC_C02_quick.cfg', Q, 'pass'), ('SchemeMC', 'SchemeMC_C02_thorough.cfg', T, 'pass'),
    ('SchemeMC', 'SchemeMC_C03_quick.cfg', Q, 'pass'), ('SchemeMC', 'SchemeMC_C03_thorough.cfg', T, 'pass'),
    ('SchemeMC', 'SchemeMC_C04_quick.cfg', Q, 'pass'), ('SchemeMC', 'SchemeMC_C04_thorough.cfg', T, 'pass'),
    ('IntegratorMC', 'IntegratorMC.cfg', Q, 'pass'),
    ('SamplingMC', 'SamplingMC_quick.cfg', Q, 'pass'), ('SamplingMC', 'SamplingMC_thorough.cfg', T, 'pass'),
    ('PhiOpsMC', 'PhiOpsMC_quick.cfg', Q, 'pass'), ('PhiOpsMC', 'PhiOpsMC_thorough.cfg', T, 'pass'),
    ('ExtrapMC', 'ExtrapMC_quick.cfg', Q, 'pass'), ('ExtrapMC', 'ExtrapMC_thorough.cfg', T, 'pass'),
    ('SpectrumOpsMC', 'SpectrumOpsMC_C08_quick.cfg', Q, 'pass'), ('SpectrumOpsMC', 'SpectrumOpsMC_C08_thoroughA.cfg', T, 'pass'),
    ('SpectrumOpsMC', 'SpectrumOpsMC_C08_thoroughB.cfg', T, 'pass'),
    ('SpectrumOpsMC', 'SpectrumOpsMC_C09_quick.cfg', Q, 'pass'), ('SpectrumOpsMC', 'SpectrumOpsMC_C09_thoroughA.cfg', T, 'pass'),
    ('SpectrumOpsMC', 'SpectrumOpsMC_C09_thoroughB.cfg', T, 'pass'),
    ('SpectrumOpsMC', 'SpectrumOpsMC_C10_quick.cfg', Q, 'pass'), ('SpectrumOpsMC', 'SpectrumOpsMC_C10_thoroughA.cfg', T, 'pass'),
    ('SpectrumOpsMC', 'SpectrumOpsMC_C10_thoroughB.cfg', T, 'pass'),
    ('LikelihoodMC', 'LikelihoodMC_quick.cfg', Q, 'pass'), ('LikelihoodMC', 'LikelihoodMC_thorough.cfg', T, 'pass'),
    ('OptimizerMC', 'OptimizerMC_quick.cfg', Q, 'pass'), ('OptimizerMC', 'OptimizerMC_thorough.cfg', T, 'pass'),
    ('OptimizerMC', 'OptimizerMC_thorough2.cfg', T, 'pass'),
    ('OptimizerMC', 'OptimizerMC_bug_eval_oob.cfg', Q, 'fail'), ('OptimizerMC', 'OptimizerMC_bug_fixed_lost.cfg', Q, 'fail'),
    ('OptimizerMC', 'OptimizerMC_bug_ret_oob.cfg', Q, 'fail'), ('OptimizerMC', 'OptimizerMC_bug_ret_start.cfg', Q, 'fail'),
    ('OptimizerMC', 'OptimizerMC_bug_ret_worst.cfg', Q, 'fail'), ('OptimizerMC', 'OptimizerMC_bug_wrong_start.cfg', Q, 'fail'),
    ('DataDictMC', 'DataDictMC_geno1_quick.cfg', Q, 'pass'), ('DataDictMC', 'DataDictMC_geno1_thorough.cfg', T, 'pass'),
    ('DataDictMC', 'DataDictMC_geno2_quick.cfg', Q, 'pass'), ('DataDictMC', 'DataDictMC_geno2_thorough.cfg', T, 'pass'),
    ('DataDictMC', 'DataDictMC_geno2b_thorough.cfg', T, 'pass'),
    ('DataDictMC', 'DataDictMC_flags_quick.cfg', Q, 'pass'), ('DataDictMC', 'DataDictMC_flags_thorough.cfg', T, 'pass'),
    ('SpectrumIOMC', 'SpectrumIOMC_quick.cfg', Q, 'pass'), ('SpectrumIOMC', 'SpectrumIOMC_thorough.cfg', T, 'pass'),
    ('DemoMachineMC', 'DemoMachineMC_quick.cfg', Q, 'pass'), ('DemoMachineMC', 'DemoMachineMC_thorough.cfg', T, 'pass'),
    ('DemesIOMC', 'DemesIOMC_quick.cfg', Q, 'pass'), ('DemesIOMC', 'DemesIOMC_thorough.cfg', T, 'pass'),
    ('DemesIOMC', 'DemesIOMC_rich_thorough.cfg', T, 'pass'),
    ('DFECacheMC', 'DFECacheMC_quick.cfg', Q, 'pass'), ('DFECacheMC', 'DFECacheMC_thorough.cfg', T, 'pass'),
    ('DFECacheMC', 'DFECacheMC_die.cfg', Q, 'fail'),
    ('DFECacheMC', 'DFECacheMC_paths.cfg', Q, 'pass'), ('DFECacheMC', 'DFECacheMC_paths4.cfg', Q, 'pass'),
    ('DFECacheMC', 'DFECacheMC_paths7.cfg', T, 'pass'),
    ('DFEQuadMC', 'DFEQuadMC_quick.cfg', Q, 'pass'), ('DFEQuadMC', 'DFEQuadMC_thorough.cfg', T, 'pass'),
    ('LowPassMC', 'LowPassMC_quick.cfg', Q, 'pass'), ('LowPassMC', 'LowPassMC_thorough.cfg', T, 'pass'),
    ('GodambeMC', 'GodambeMC_stencil_quick.cfg', Q, 'pass'), ('GodambeMC', 'GodambeMC_stencil_thorough.cfg', T, 'pass'),
    ('GodambeMC', 'GodambeMC_stats_quick.cfg', Q, 'pass'), ('GodambeMC', 'GodambeMC_stats_thorough.cfg', T, 'pass'),
    ('GodambeMC', 'GodambeMC_cache_quick.cfg', Q, 'pass'), ('GodambeMC', 'GodambeMC_cache_thorough.cfg', T, 'pass'),
    ('GodambeMC', 'GodambeMC_cache_hashkey.cfg', Q, 'fail'),
    ('Memo', 'MemoMC_quick.cfg', Q, 'pass'), ('Memo', 'MemoMC_graph.cfg', Q, 'pass'), ('Memo', 'MemoMC_layout_quick.cfg', Q, 'pass'),
    ('Memo', 'MemoMC_god_quick.cfg', Q, 'pass'), ('Memo', 'MemoMC_god_thorough.cfg', T, 'pass'),
    ('Memo', 'MemoMC_thorough.cfg', T, 'pass'), ('Memo', 'MemoMC_memo3_thorough.cfg', T, 'pass'),
    ('Memo', 'MemoMC_layout_thorough.cfg', T, 'pass'),
] + [('Memo', 'MemoMC_bug_%s.cfg' % b, Q if b in ('dbetakey', 'godaddr', 'raw45', 'kernelstate', 'hashorder') else T, 'fail')
     for b in ('dbetakey', 'demes', 'godaddr', 'hashorder', 'kernelstate', 'partkey', 'perturb', 'projkey', 'raw45', 'rawxx', 'sfslist')] + [
    ('MsIOMC', 'MsIOMC_quick.cfg', Q, 'pass'), ('MsIOMC', 'MsIOMC_thorough.cfg', T, 'pass'),
    ('SchemeXMC', 'SchemeXMC_quick.cfg', Q, 'pass'), ('SchemeXMC', 'SchemeXMC_thorough.cfg', T, 'pass'),
    ('TriSpectrumMC', 'TriSpectrumMC_quick.cfg', Q, 'pass'), ('TriSpectrumMC', 'TriSpectrumMC_thorough.cfg', T, 'pass'),
    ('TLSpectrumMC', 'TLSpectrumMC_quick.cfg', Q, 'pass'), ('TLSpectrumMC', 'TLSpectrumMC_thoroughA.cfg', T, 'pass'),
    ('TLSpectrumMC', 'TLSpectrumMC_thoroughB.cfg', T, 'pass'), ('TLSpectrumMC', 'TLSpectrumMC_thoroughC.cfg', T, 'pass'),
]
# simulation-only generators (state space not enumerable; no laws): never run here
NOT_EXHAUSTIVE = {'DemesIOMC_gen.cfg', 'DemesIOMC_gen5.cfg', 'MemoMC_sim_all.cfg', 'MemoMC_sim_memo.cfg',
                  'DFECacheMC_paths2.cfg', 'DFECacheMC_paths3.cfg', 'DFECacheMC_paths5.cfg', 'DFECacheMC_paths6.cfg', 'RatSelfTest.cfg'}

_LOC = r'line (\d+), col (\d+) to line (\d+), col (\d+) of module (\w+)'
_HEAD = re.compile(r'^<(\w+) ' + _LOC + r'>(?:: (\d+)(?::(\d+))?)?\s*$')
_SUB = re.compile(r'^  (\|*)' + _LOC + r': (\d+)(?::(\d+))?\s*$')
_STATES = re.compile(r'(\d+) states generated, (\d+) distinct states found, (\d+) states left on queue')


class Node:
    __slots__ = ('depth', 'loc', 'count', 'cost', 'children')

    def __init__(self, depth, loc, count, cost):
        self.depth, self.loc, self.count, self.cost, self.children = depth, loc, count, cost, []


class Head:
    def __init__(self, name, loc, a, b):
        self.name, self.loc, self.a, self.b, self.children = name, loc, a, b, []

    @property
    def kind(self):
        if self.a is None:
            return 'law'
        if self.b is None:
            return 'var'
        return 'action'


def parse_coverage(out):
    """Last complete coverage block of a TLC run -> list of Head."""
    k = out.rfind('The coverage statistics at')
    if k < 0:
        return None
    heads, stack = [], []
    for ln in out[k:].split('\n')[1:]:
        if ln.startswith('End of statistics'):
            break
        m = _HEAD.match(ln)
        if m:
            loc = (int(m.group(2)), int(m.group(3)), int(m.group(4)), int(m.group(5)), m.group(6))
            heads.append(Head(m.group(1), loc, None if m.group(7) is None else int(m.group(7)), None if m.group(8) is None else int(m.group(8))))
            stack = []
            continue
        m = _SUB.match(ln)
        if m and heads:
            d = len(m.group(1))
            loc = (int(m.group(2)), int(m.group(3)), int(m.group(4)), int(m.group(5)), m.group(6))
            n = Node(d, loc, int(m.group(7)), None if m.group(8) is None else int(m.group(8)))
            while stack and stack[-1].depth >= d:
                stack.pop()
            (stack[-1].children if stack else heads[-1].children).append(n)
            stack.append(n)
    return heads


_src_cache = {}


def source(loc, limit=110):
    l1, c1, l2, c2, mod = loc
    if mod not in _src_cache:
        p = os.path.join(SPEC, mod + '.tla')
        try:
            with open(p) as f:
                _src_cache[mod] = f.read().split('\n')
        except OSError:
            _src_cache[mod] = None
    lines = _src_cache[mod]
    if lines is None or l2 > len(lines):
        return '%s:%d:%d' % (mod, l1, c1)
    if l1 == l2:
        txt = lines[l1 - 1][c1 - 1:c2]
    else:
        txt = '\n'.join([lines[l1 - 1][c1 - 1:]] + lines[l1:l2 - 1] + [lines[l2 - 1][:c2]])
    txt = re.sub(r'\\\*[^\n]*', ' ', txt)
    txt = re.sub(r'\s+', ' ', txt).strip()
    return txt if len(txt) <= limit else txt[:limit - 3] + '...'


def dead_nodes(children):
    """Top-most never-evaluated sub-expressions."""
    res = []
    for n in children:
        if n.count == 0:
            res.append(n)
        else:
            res += dead_nodes(n.children)
    return res


def rare_nodes(children, parent, limit):
    """Sub-expressions evaluated at most `limit` times although their parent was evaluated more often (report only)."""
    res = []
    for n in children:
        if 0 < n.count <= limit and parent > 10 * n.count:
            res.append(n)
        else:
            res += rare_nodes(n.children, n.count, limit)
    return res


def findings_of(cfg, out, states, rare=0):
    """-> list of dict(cfg, kind, where, expr, detail)."""
    heads = parse_coverage(out)
    if heads is None:
        return None
    f = []
    for h in heads:
        if h.kind == 'action':
            if h.b == 0:
                f.append({'cfg': cfg, 'kind': 'action', 'where': h.name, 'expr': '', 'detail': 'never taken (%d:%d): %s' % (h.a, h.b, source(h.loc))})
                continue
            if h.a == 0:
                f.append({'cfg': cfg, 'kind': 'action', 'where': h.name, 'expr': '', 'detail': 'never finds a new state (%d:%d)' % (h.a, h.b)})
            for n in dead_nodes(h.children):
                f.append({'cfg': cfg, 'kind': 'branch', 'where': h.name, 'expr': source(n.loc), 'detail': '%s:%d:%d never evaluated' % (n.loc[4], n.loc[0], n.loc[1])})
        elif h.kind == 'law':
            if not h.children:
                continue
            for n in dead_nodes(h.children):
                f.append({'cfg': cfg, 'kind': 'law', 'where': h.name, 'expr': source(n.loc), 'detail': '%s:%d:%d never evaluated' % (n.loc[4], n.loc[0], n.loc[1])})
            if rare:
                for n in rare_nodes(h.children, max([c.count for c in h.children] + [0]), rare):
                    f.append({'cfg': cfg, 'kind': 'rare', 'where': h.name, 'expr': source(n.loc),
                              'detail': '%s:%d:%d evaluated only %d times' % (n.loc[4], n.loc[0], n.loc[1], n.count)})
    if states < MIN_STATES:
        f.append({'cfg': cfg, 'kind': 'tiny', 'where': '', 'expr': '', 'detail': 'only %d distinct states' % states})
    # one finding per (kind, where, expr): the same source expression may be reached on several paths
    seen, uniq = set(), []
    for x in f:
        k = (x['kind'], x['where'], x['expr'])
        if k not in seen:
            seen.add(k)
            uniq.append(x)
    return uniq


def load_allow():
    if not os.path.exists(ALLOW):
        return []
    with open(ALLOW) as f:
        ents = json.load(f)['entries']
    for e in ents:
        if not e.get('reason'):
            raise SystemExit('vacuity_allow.json: entry without a reason: %r' % (e,))
    return ents


def allowed(x, allow):
    for e in allow:
        if (fnmatch.fnmatch(x['cfg'], e['cfg']) and e['kind'] == x['kind'] and e.get('where', '') == x['where']
                and x['expr'].startswith(e.get('expr', ''))):
            e['_used'] = True
            return e
    return None


_OVERRIDE = re.compile(r'public static Value (\w+)\(')
_DEF = re.compile(r'^(\w+)\(([^)]*)\)\s*==')


def thin_rat(text, overridden):
    """Rat.tla with the TLA+ bodies of the Java-overridden operators replaced by a constant.

    TLC never evaluates those bodies (the class Rat on the classpath does), but its coverage cost model clones the
    body of an operator at every call site: with the real bodies (AddDef -> NormDef -> GCD ...) the cost model of a
    numeric spec has 10^7 nodes, needs > 8 GB and slows TLC down 10-50 fold.  Positions in all other modules are
    unchanged.  run_tlc() insists that TLC reports every one of these overrides as loaded."""
    out, skip = [], False
    for ln in text.split('\n'):
        m = _DEF.match(ln)
        if m:
            skip = m.group(1) in overridden
            if skip:
                out.append('%s(%s) == "0"' % (m.group(1), m.group(2)))
                continue
        elif ln[:1] not in (' ', '\t', ''):
            skip = False
            r = re.match(r'^RECURSIVE (\w+)\(', ln)
            if r and r.group(1) in overridden:
                continue
        if not skip:
            out.append(ln)
    return '\n'.join(out)


def prepare_spec_dir(root):
    """Copy of spec/ (modules and configurations) with the thin Rat.tla; returns (dir, names of the overridden operators)."""
    d = os.path.join(root, 'spec')
    os.makedirs(d, exist_ok=True)
    for f in os.listdir(SPEC):
        if f.endswith('.tla') or f.endswith('.cfg'):
            shutil.copy(os.path.join(SPEC, f), os.path.join(d, f))
    with open(os.path.join(SPEC, 'java', 'Rat.java')) as f:
        overridden = set(_OVERRIDE.findall(f.read()))
    with open(os.path.join(SPEC, 'Rat.tla')) as f:
        text = f.read()
    with open(os.path.join(d, 'Rat.tla'), 'w') as f:
        f.write(thin_rat(text, overridden))
    defined = {m.group(1) for m in (_DEF.match(ln) for ln in text.split('\n')) if m}
    return d, sorted(overridden & defined)


def run_tlc(module, cfg, workers, timeout, root, heap='8g', cwd=SPEC, must_load=()):
    """Same command line as harness.common.run_mc -> tlc (8g heap) plus -coverage 1; own process group so that a timeout kills the JVM."""
    metadir = tempfile.mkdtemp(prefix='meta-', dir=root)
    cmd = ['java', '-XX:+UseParallelGC', '-Xmx' + heap, '-Xss64m', '-cp', TLA_CP + ':' + CLASSES, 'tlc2.TLC', '-metadir', metadir,
           '-noGenerateSpecTE', '-workers', str(workers), '-coverage', '1', '-config', cfg, module + '.tla']
    t0 = time.time()
    p = subprocess.Popen(cmd, cwd=cwd, stdout=subprocess.PIPE, stderr=subprocess.STDOUT, start_new_session=True)
    try:
        out, _ = p.communicate(timeout=timeout)
        timed_out = False
    except subprocess.TimeoutExpired:
        os.killpg(p.pid, signal.SIGKILL)
        out, _ = p.communicate()
        timed_out = True
    shutil.rmtree(metadir, ignore_errors=True)
    out = out.decode(errors='replace')
    with open(os.path.join(root, cfg + '.out'), 'w') as f:
        f.write(out)
    ms = _STATES.findall(out)
    missing = [o for o in must_load if 'Loading %s operator override' % o not in out] if 'Starting...' in out else []
    if missing:
        out = 'Error: vacuity: the Java overrides %s were not loaded: the thin Rat.tla must not be used\n' % missing
        ms = []
    return {'module': module, 'cfg': cfg, 'out': out, 'wall': time.time() - t0, 'timed_out': timed_out, 'rc': p.returncode,
            'generated': int(ms[-1][0]) if ms else 0, 'states': int(ms[-1][1]) if ms else 0,
            'ok': 'Model checking completed. No error has been found.' in out,
            'violated': ('is violated' in out or 'Deadlock reached' in out or 'properties were violated' in out)}


def _reread(module, cfg, root):
    """--from DIR: judge the TLC outputs kept by an earlier run (development aid)."""
    with open(os.path.join(root, cfg + '.out')) as f:
        out = f.read()
    ms = _STATES.findall(out)
    return {'module': module, 'cfg': cfg, 'out': out, 'wall': 0.0, 'timed_out': False, 'rc': 0,
            'generated': int(ms[-1][0]) if ms else 0, 'states': int(ms[-1][1]) if ms else 0,
            'ok': 'Model checking completed. No error has been found.' in out,
            'violated': ('is violated' in out or 'Deadlock reached' in out or 'properties were violated' in out)}


def audit(tier='quick', only=None, jobs=4, workers=4, timeout=900, keep=None, report=False, out=sys.stdout, reread=None, real_rat=False):
    if not os.path.exists(os.path.join(CLASSES, 'Rat.class')):
        print('build/classes/Rat.class missing: run ./setup.sh', file=out)
        return 2
    sel = [c for c in CONFIGS if (tier == 'all' or c[2] == tier) and (not only or any(o in c[1] for o in only))]
    allow = load_allow()
    t0 = time.time()
    if reread:
        sel = [c for c in sel if os.path.exists(os.path.join(reread, c[1] + '.out'))]
        res = [(c, _reread(c[0], c[1], reread)) for c in sel]
    else:
        root = keep or tempfile.mkdtemp(prefix='vac-', dir='/var/tmp')
        os.makedirs(root, exist_ok=True)
        cwd, must = (SPEC, ()) if real_rat else prepare_spec_dir(root)
        try:
            with ThreadPoolExecutor(max_workers=jobs) as ex:
                futs = [(c, ex.submit(run_tlc, c[0], c[1], 2 if c[3] == 'fail' else workers, timeout, root, '8g', cwd, must)) for c in sel]
                res = [(c, f.result()) for c, f in futs]
        finally:
            if not keep:
                shutil.rmtree(root, ignore_errors=True)
    bad, machinery, rows = [], [], []
    for (module, cfg, _t, expect), r in res:
        if r['timed_out']:
            machinery.append('%s: timed out after %ds' % (cfg, timeout))
            continue
        if expect == 'fail':
            if r['ok'] or not r['violated']:
                bad.append({'cfg': cfg, 'kind': 'refutation', 'where': '', 'expr': '', 'detail': 'the defective design was NOT refuted'})
            rows.append((cfg, r['states'], r['wall'], 'refuted as expected' if r['violated'] and not r['ok'] else 'NOT REFUTED'))
            continue
        if not r['ok']:
            if r['violated']:
                m = re.search(r'Error: (.*(?:violated|reached).*)', r['out'])
                bad.append({'cfg': cfg, 'kind': 'violation', 'where': '', 'expr': '', 'detail': 'TLC: ' + (m.group(1) if m else 'violation')})
            else:
                machinery.append('%s: TLC failed (rc %s)\n%s' % (cfg, r['rc'], r['out'][-1500:]))
            continue
        fs = findings_of(cfg, r['out'], r['states'], rare=3 if report else 0)
        if fs is None:
            machinery.append('%s: no coverage statistics in the TLC output' % cfg)
            continue
        new = [x for x in fs if x['kind'] != 'rare' and not allowed(x, allow)]
        bad += new
        nd = len([x for x in fs if x['kind'] != 'rare'])
        rows.append((cfg, r['states'], r['wall'], '%d dead (%d allowed)' % (nd, nd - len(new))))
        if report:
            for x in fs:
                e = allowed(x, allow)
                print('  %-34s %-7s %-22s %s   [%s]%s' % (cfg, x['kind'], x['where'], x['expr'], x['detail'], '  ALLOWED: ' + e['reason'] if e else ''), file=out)
    print('%-36s %10s %7s  %s' % ('config', 'distinct', 'wall_s', 'coverage'), file=out)
    for cfg, st, w, note in rows:
        print('%-36s %10d %7.1f  %s' % (cfg, st, w, note), file=out)
    stale = [e for e in allow if not e.get('_used') and not only and tier in ('all',)]
    for e in stale:
        print('note: allow-list entry no longer needed: %s %s %s %r' % (e['cfg'], e['kind'], e.get('where', ''), e.get('expr', '')), file=out)
    print('vacuity: %d configs, %.0f s wall' % (len(sel), time.time() - t0), file=out)
    for m in machinery:
        print('MACHINERY ' + m, file=out)
    for x in bad:
        print('VACUOUS %s %s %s %r  -- %s' % (x['cfg'], x['kind'], x['where'], x['expr'], x['detail']), file=out)
    if machinery:
        return 2
    return 1 if bad else 0


def list_unknown():
    import glob
    known = {c[1] for c in CONFIGS} | NOT_EXHAUSTIVE
    un = sorted(os.path.basename(p) for p in glob.glob(os.path.join(SPEC, '*.cfg'))
                if os.path.basename(p) not in known and not os.path.basename(p).startswith('Trace_'))
    for u in un:
        print(u)
    return 1 if un else 0


def main(argv=None):
    ap = argparse.ArgumentParser(description=__doc__.split('\n')[0])
    ap.add_argument('--tier', default='quick', choices=['quick', 'thorough', 'all'])
    ap.add_argument('--only', action='append', help='substring of the cfg name (repeatable)')
    ap.add_argument('--jobs', type=int, default=4, help='TLC processes in parallel')
    ap.add_argument('--workers', type=int, default=4, help='TLC workers per process')
    ap.add_argument('--timeout', type=int, default=900)
    ap.add_argument('--keep', help='directory (under /var/tmp) to keep the raw TLC outputs in')
    ap.add_argument('--from', dest='reread', help='judge the outputs kept in this directory instead of running TLC')
    ap.add_argument('--real-rat', action='store_true', help='run in spec/ itself with the full Rat.tla (slow, memory hungry: see thin_rat)')
    ap.add_argument('--report', action='store_true', help='print every dead expression, allowed or not')
    ap.add_argument('--list-unknown', action='store_true', help='list spec/*.cfg files this table does not know')
    a = ap.parse_args(argv)
    if a.list_unknown:
        return list_unknown()
    return audit(a.tier, a.only, a.jobs, a.workers, a.timeout, a.keep, a.report, reread=a.reread, real_rat=a.real_rat)


if __name__ == '__main__':
    sys.exit(main())
