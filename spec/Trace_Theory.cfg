CONSTANT Bound = "3/200"
CONSTANT Slack = "3/20"
CONSTANT Floor = "1/2000"
CONSTANT TauCont = "1/100000"
CONSTANT GridRatio = "1/2"
SPECIFICATION Spec
CHECK_DEADLOCK FALSE
INVARIANT Done
POSTCONDITION AllConsumed
