CONSTANTS
  MaxDepth = 1
  Configs <- ConfigsQuick
  ExtraNew <- ExtraNewQuick
  UnitLimit = 30
SPECIFICATION Spec
CHECK_DEADLOCK FALSE
INVARIANT TypeOK
INVARIANT L_AdmixMarginal
INVARIANT L_AdmixMean
INVARIANT L_AdmixHat
INVARIANT L_AdmixRelabel
INVARIANT L_SplitCopy
INVARIANT L_Split1D
INVARIANT L_PulseZero
INVARIANT L_PulseOthers
INVARIANT L_PulseHat
INVARIANT L_PulseReplace
INVARIANT L_PulseRelabel
INVARIANT L_ReorderIsPermutation
INVARIANT L_ReorderCompose
INVARIANT L_RemoveReorder
INVARIANT L_RemoveFubini
INVARIANT L_Filter
INVARIANT L_Mass
